# C10 — ABI version tolerance: older and newer peers interoperate in both directions.
from . import common as C
from . import tygen as TG
from . import gencrate as GC
from . import datacases as D
from . import abichecks as A

THEOREMS = ["C10_negotiate", "C10_newer_sender", "C10_newer_receiver", "C10_missing_method"]


def run(chk, tier, seed):
    if THEOREMS:
        chk.obligations(THEOREMS, "C10")
    else:
        ok, out = C.coq_make()
        if not ok:
            chk.broken.append("coq build failed: " + out[-800:])
    U, binary = GC.ensure(seed, tier)
    if U is None:
        chk.broken.append("harness does not build against /repo: " + binary[-1500:])
        return
    fams = U["families"]
    defs = A.defs_for(binary, fams)
    known = {e["id"]: e for e in C.known_findings("C10")}
    lines, meta = [], {}
    n = 0

    def add(line, **m):
        nonlocal n
        n += 1
        cid = "c%d" % n
        lines.append("%s %s" % (cid, line))
        m["n"] = n
        meta[cid] = m

    for fam in fams:
        f = fam["id"]
        for i in range(fam["nver"]):
            nvals = len(U["roots"][fam["roots"][i]]["vals"])
            for j in range(fam["nver"]):
                for idx in range(min(nvals, 2 if tier == "quick" else 4)):
                    for meth in ("echo", "by_ref", "mixed", "cb", "mkcb", "wide"):
                        add("abi_call %d %d %d %s %d" % (f, i, j, meth, idx), f=f, i=i, j=j, meth=meth, idx=idx)
                add("abi_call %d %d %d passable 0" % (f, i, j), f=f, i=i, j=j, meth="passable", idx=0)
                add("abi_call %d %d %d added 0" % (f, i, j), f=f, i=i, j=j, meth="added", idx=0)
                add("abi_call %d %d %d gone 0" % (f, i, j), f=f, i=i, j=j, meth="gone", idx=0)
    pairs = [("v0", "v0"), ("v0", "v1a"), ("v1a", "v0"), ("v0", "v1b"), ("v1b", "v0"), ("v0", "v1c"), ("v1c", "v0"), ("v0", "v1d"), ("v1d", "v0")]
    for a, b in pairs:
        add("bad_connect %s %s" % (a, b), meth="bad", a=a, b=b)
    bd = C.run_harness(binary, ["bd_%s_%d bad_def %s %d" % (a, v, a, v) for a in ("v0", "v1a", "v1b", "v1c", "v1d") for v in (0, 1)])
    obs = C.run_harness(binary, lines, timeout=1200)
    terms, oterms = [], []
    f1_seen = 0
    for cid, m in meta.items():
        o = obs.get(cid, "MISSING")
        line = lines[m["n"] - 1]
        if m["meth"] == "bad":
            va, vb = {"v0": 0}.get(m["a"], 1), {"v0": 0}.get(m["b"], 1)
            e = min(va, vb)
            hx = [bd.get("bd_%s_%d" % (m["a"], e)), bd.get("bd_%s_%d" % (m["b"], e)), bd.get("bd_%s_%d" % (m["a"], va)), bd.get("bd_%s_%d" % (m["b"], vb))]
            terms.append((m["n"], "agree_connect %d %s %s %s %s %s []" % (e, D.hexlit(hx[0]), D.hexlit(hx[1]), D.hexlit(hx[2]), D.hexlit(hx[3]), "true" if o.startswith("OK") else "false")))
            must_err = m["a"] != m["b"]
            if must_err != o.startswith("CONNECT-ERR"):
                chk.violations.append(("an incompatible signature change between %s and %s is %s when the connection is created" % (m["a"], m["b"], "not rejected" if must_err else "rejected although the definitions are identical"),
                                       {"harness_line": line, "observed": o[:200]}))
            chk.distinct.add(("bad", m["a"], m["b"]))
            continue
        fam = [x for x in fams if x["id"] == m["f"]][0]
        i, j = m["i"], m["j"]
        e = min(i, j)
        ri, rj = U["roots"][fam["roots"][i]], U["roots"][fam["roots"][j]]
        kind, rest, lg = A.parse_call(o)
        base = {"family_history": fam["edits"], "caller_version": i, "implementation_version": j, "method": m["meth"], "harness_line": line, "observed": o[:400]}
        chk.distinct.add((m["f"], i, j, m["meth"]))
        if kind in ("connect-err", "MISSING", "ABORT", "TIMEOUT") or o.startswith("ABORT"):
            chk.violations.append(("caller v%d cannot connect to / call implementation v%d of an interface evolved by the documented rules: %s" % (i, j, o[:80]), base))
            continue
        if m["meth"] == "passable":
            bits = rest.split(" ")
            if len(bits) == 3:
                hx = [defs[(m["f"], i, e)], defs[(m["f"], j, e)], defs[(m["f"], i, i)], defs[(m["f"], j, j)]]
                bl = "[(%s, 0, %s); (%s, 1, %s); (%s, 0, %s)]" % (A.cb(b"by_ref"), "true" if bits[0] == "1" else "false", A.cb(b"mixed"), "true" if bits[1] == "1" else "false",
                                                                   A.cb(b"echo"), "true" if bits[2] == "1" else "false")
                terms.append((m["n"], "agree_connect %d %s %s %s %s true %s" % (e, D.hexlit(hx[0]), D.hexlit(hx[1]), D.hexlit(hx[2]), D.hexlit(hx[3]), bl)))
            continue
        if m["meth"] in ("added", "gone"):
            has_caller = (i >= 1) if m["meth"] == "added" else (i < fam["nver"] - 1 or fam["nver"] == 1)
            has_impl = (j >= 1) if m["meth"] == "added" else (j < fam["nver"] - 1 or fam["nver"] == 1)
            if not has_caller:
                continue
            if has_impl and kind != "OK":
                chk.violations.append(("a method present on both sides fails: " + o[:100], base))
            if not has_impl and not (kind == "PANIC" and "does_not_exist_in_implementation" in rest):
                chk.violations.append(("calling a method the implementation lacks does not fail with the documented panic: " + o[:100], base))
            continue
        x = ri["vals"][m["idx"]]
        tI, tJ, cx = TG.coq_ty(ri["ty"]), TG.coq_ty(rj["ty"]), TG.coq_val(x)
        lc = A.logged_canon(lg, m["meth"])
        lterm = "(Some %s)" % lc if lc else "None"
        if m["meth"] == "wide":
            # arguments 32 and 33 of a 34-argument method are references to the versioned type (mask bits beyond 31)
            w = [e_ for e_ in lg.split(" ;; ") if e_.startswith("wide ")]
            parts = w[0][5:].split(" ~~ ") if w else []
            for q_, pq in enumerate(parts[:2] if len(parts) == 2 else [None, None]):
                t_ = "agree_byref_seen %d %s %s %s %s" % (e, tI, tJ, cx, "(Some %s)" % pq if pq else "None")
                terms.append((m["n"] * 10 + 1 + q_ + 1000000, t_))
                oterms.append((m["n"] * 10 + 1 + q_ + 1000000, t_))
            if kind == "OK" and rest != "7038":
                chk.violations.append(("the 32 plain arguments of a 34-argument method arrive changed: " + rest[:60], base))
            continue
        if m["meth"] in ("cb", "mkcb"):
            import re as _re
            ents = [e_ for e_ in lg.split(" ;; ") if e_]

            def logged(prefix):
                for e_ in ents:
                    if e_.startswith(prefix + " "):
                        return "(Some %s)" % e_[len(prefix) + 1:]
                return "None"
            if m["meth"] == "cb":
                ret, _, seen = rest.partition(" seen=")
                sl = _re.findall(r'"([^"]*)"', seen)
                ot = "(OCallOk %s)" % ret if kind == "OK" else "OCallPanic"
                t_ = "agree_cb %d %s %s %s %s %s %s %s" % (e, tI, tJ, cx, logged("with_cb"), "(Some %s)" % sl[0] if sl else "None", logged("cb_ret"), ot)
            else:
                # the two calls return the same value: "<r> <r>"; take the first half
                half = rest[:len(rest) // 2].strip() if kind == "OK" and rest[:len(rest) // 2].strip() == rest[len(rest) // 2:].strip() else None
                ot = "(OCallOk %s)" % half if (kind == "OK" and half) else ("OCallPanic" if kind != "OK" else "(OCallOk VUnit)")
                t_ = "agree_mkcb %d %s %s %s %s %s" % (e, tI, tJ, cx, logged("made_cb_called 3"), ot)
            terms.append((m["n"], t_))
            oterms.append((m["n"], t_))       # the same predicate is the property: every hop travels in the effective version's format
            continue
        if m["meth"] == "echo":
            ot = "(OCallOk %s)" % rest if kind == "OK" else "OCallPanic"
            terms.append((m["n"], "agree_echo %d %d %s %s %s %s %s" % (e, j, tI, tJ, cx, lterm, ot)))
            oterms.append((m["n"], "echo_oracle %d %s %s %s %s" % (e, tI, tJ, cx, ot)))
        else:
            terms.append((m["n"], "agree_byref_seen %d %s %s %s %s" % (e, tI, tJ, cx, lterm)))
            # the same predicate is the property: the implementation sees the value as transmitted in the effective version's format
            oterms.append((m["n"], "agree_byref_seen %d %s %s %s %s" % (e, tI, tJ, cx, lterm)))
            if m["meth"] == "mixed" and kind == "OK" and rest != "7|héllo|[1, 2, 65535]":
                chk.violations.append(("&str / slice / u32 arguments or the String return value arrive changed: " + rest[:80], base))
    bad, errs = C.coq_eval_bad("C10", A.HEADER, terms, shard=100)
    obad, oerrs = C.coq_eval_bad("C10o", A.HEADER, oterms, shard=100)
    for ids, out in errs + oerrs:
        chk.broken.append("shard failed to evaluate (cases %s..): %s" % (ids[:3], out[-400:]))
    byn0 = {m["n"]: cid for cid, m in meta.items()}

    class _Byn(dict):
        def __missing__(self, i):          # ids of the two `wide` terms of case n are 1000000 + 10 n + {1, 2}
            return byn0[(i - 1000000) // 10]
    byn = _Byn(byn0)
    for i in bad[:12]:
        m = meta[byn[i]]
        chk.broken.append("correspondence C10 case %s (%s, caller v%s, impl v%s): model and implementation disagree; observed %s" % (
            byn[i], m["meth"], m.get("i"), m.get("j"), obs.get(byn[i], "")[:200]))
    for i in obad:
        m = meta[byn[i]]
        fam = [x for x in fams if x["id"] == m["f"]][0]
        if m["j"] > m["i"] and known.get("F1", {}).get("status") == "open":
            f1_seen += 1
            continue
        chk.violations.append((("a value returned across versions (caller v%d, implementation v%d) is not what transmission in the effective version's format gives" if m["meth"] == "echo" else
                                "the argument the implementation observes (caller v%d, implementation v%d, passed by reference or serialized) is not the value transmitted in the effective version's format") % (m["i"], m["j"]),
                               {"family_history": fam["edits"], "harness_line": lines[m["n"] - 1], "observed": obs.get(byn[i], "")[:400]}))
    if f1_seen:
        chk.known_lines.append("F1: the implementation serialises return values at its own version but labels them with the negotiated one (%d failing newer-implementation echo calls)" % f1_seen)
    chk.cov["traces_validated_against_impl"] += len(terms)
    chk.add_eval(len(meta))
    chk.cov["families"] = len(fams)
    chk.cov["rule"] = ("interface families evolved by the documented rules (one history of field additions / removals per family, methods added and removed): for EVERY ordered pair "
                       "(caller version i, implementation version j) every method is called through AbiConnection with generated values; the argument the implementation logged and the value "
                       "the caller got back are compared with enc/dec at min(i,j) in Coq; connection analysis (masks, missing methods, rejected signature changes) against Abi.analyze")
    for cid in list(meta)[:4]:
        chk.sample({"case": cid, "line": lines[meta[cid]["n"] - 1], "observed": obs.get(cid, "")[:160]})
