# Shared machinery for the ./check driver: building the Coq development and the Rust
# harness against /repo's current tree, running cases, evaluating the model inside Coq,
# evidence and verdict handling.
import os, sys, json, subprocess, time, fcntl, re, random, hashlib, shutil
from concurrent.futures import ThreadPoolExecutor

ROOT = os.path.dirname(os.path.dirname(os.path.abspath(__file__)))
COQ = os.path.join(ROOT, "coq")
HARNESS = os.path.join(ROOT, "harness")
RUN = os.path.join(COQ, "run")
REPO = os.environ.get("SF_REPO", "/repo")     # overridden only by background snapshot runs (vp run --with-repo)
HOOK_CFG = "avl_savefile_verif"

ENV = dict(os.environ)
ENV.update({"CARGO_NET_OFFLINE": "true", "CARGO_TERM_COLOR": "never"})


def log(*a):
    print(*a, file=sys.stderr, flush=True)


def sh(cmd, cwd=None, timeout=1800, env=None, inp=None):
    p = subprocess.run(cmd, cwd=cwd, env=env or ENV, input=inp, stdout=subprocess.PIPE,
                       stderr=subprocess.STDOUT, timeout=timeout, shell=isinstance(cmd, str), text=True)
    out = "\n".join(l for l in p.stdout.splitlines() if "conda" not in l)
    return p.returncode, out


class Lock:
    def __init__(self, name="build"):
        self.path = os.path.join(ROOT, ".lock_" + name)

    def __enter__(self):
        self.f = open(self.path, "w")
        fcntl.flock(self.f, fcntl.LOCK_EX)
        return self

    def __exit__(self, *a):
        fcntl.flock(self.f, fcntl.LOCK_UN)
        self.f.close()


# ---------------------------------------------------------------- Coq

def coq_make(timeout=3000):
    """Full .vo build of the development (coq_makefile; never -vos). Returns (ok, log)."""
    with Lock("coq"):
        os.makedirs(os.path.join(COQ, "extracted"), exist_ok=True)
        rc, out = sh("coq_makefile -f _CoqProject -o Makefile 2>&1", cwd=COQ, timeout=120)
        rc, out = sh("timeout %d make -j16 2>&1" % timeout, cwd=COQ, timeout=timeout + 60)
        return rc == 0, out


FORBIDDEN = re.compile(r"\b(Admitted|admit|Axiom|Parameter|Conjecture|Unset Guard|bypass_check|type-in-type|Admit Obligations)\b")


def coq_forbidden_scan():
    """grep the development for anything that would declare an axiom or disable a check."""
    hits = []
    for d in ("theories", "Properties", "extracted"):
        dd = os.path.join(COQ, d)
        if not os.path.isdir(dd):
            continue
        for f in sorted(os.listdir(dd)):
            if not f.endswith(".v"):
                continue
            src = open(os.path.join(dd, f)).read()
            src_nc = strip_coq_comments(src)
            for m in FORBIDDEN.finditer(src_nc):
                hits.append("%s/%s: %s" % (d, f, m.group(0)))
    return hits


def strip_coq_comments(s):
    out = []
    depth = 0
    i = 0
    while i < len(s):
        if s.startswith("(*", i):
            depth += 1
            i += 2
        elif s.startswith("*)", i) and depth > 0:
            depth -= 1
            i += 2
        else:
            if depth == 0:
                out.append(s[i])
            i += 1
    return "".join(out)


AXIOM_ALLOW = {
    "FunctionalExtensionality.functional_extensionality_dep",
    "functional_extensionality_dep",
    "ProofIrrelevance.proof_irrelevance", "proof_irrelevance",
    "Eqdep.Eq_rect_eq.eq_rect_eq", "eq_rect_eq",
    "JMeq.JMeq_eq", "JMeq_eq",
    "Classical_Prop.classic", "classic",
}


def coqc_file(path, timeout=600):
    rc, out = sh("timeout %d coqc -noglob -Q theories SF -Q Properties SFP -Q extracted SFX %s 2>&1" % (timeout, path),
                 cwd=COQ, timeout=timeout + 30)
    return rc, out


def print_assumptions(prop, theorems, module=None):
    """Compile a tiny file that imports the property file and prints the assumptions of every
    pinned theorem. Returns dict name -> ('closed'|'axioms'|'missing', [axioms])."""
    os.makedirs(RUN, exist_ok=True)
    module = module or prop
    path = os.path.join(RUN, "pa_%s.v" % prop)
    with open(path, "w") as f:
        f.write("From SFP Require Import %s.\n" % module)
        for t in theorems:
            f.write('Goal True. idtac "BEGIN-PA %s". Abort.\nPrint Assumptions %s.\n' % (t, t))
        f.write('Goal True. idtac "END-PA". Abort.\n')
    rc, out = coqc_file(path)
    res = {}
    blocks = re.split(r"BEGIN-PA (\S+)", out)
    # blocks: [pre, name1, body1, name2, body2...]
    for i in range(1, len(blocks) - 1, 2):
        name, body = blocks[i], blocks[i + 1]
        body = body.split("END-PA")[0]
        if "Closed under the global context" in body:
            res[name] = ("closed", [])
        elif "Axioms:" in body:
            axs = re.findall(r"^(\S+)\s*:", body.split("Axioms:")[1], flags=re.M)
            res[name] = ("axioms", axs)
        else:
            res[name] = ("missing", [body.strip()[:300]])
    for t in theorems:
        if t not in res:
            res[t] = ("missing", [out[-400:]])
    return res


def obligations_status(prop, theorems, module=None):
    """Returns (n_obligations, n_discharged, broken_list, axioms_seen, log)."""
    ok, out = coq_make()
    broken = []
    axioms = set()
    hits = coq_forbidden_scan()
    if hits:
        broken.append("forbidden constructs in development: " + "; ".join(hits[:5]))
    if not ok:
        m = re.findall(r'File "([^"]+)", line (\d+)', out)
        where = ", ".join("%s:%s" % x for x in m[:3])
        broken.append("coq build failed at " + (where or "?") + ": " + out[-600:].replace("\n", " | "))
        return len(theorems), 0, broken, [], out
    pa = print_assumptions(prop, theorems, module)
    discharged = 0
    for t in theorems:
        st, ax = pa[t]
        if st == "closed":
            discharged += 1
        elif st == "axioms" and all(a in AXIOM_ALLOW for a in ax):
            discharged += 1
            axioms.update(ax)
        else:
            broken.append("theorem %s: %s %s" % (t, st, ax))
    return len(theorems), discharged, broken, sorted(axioms), out


def coq_eval_bad(name, header, case_terms, shard=150, timeout=900):
    """case_terms: list of (id:int, coq_bool_term:str). Evaluates each inside Coq with vm_compute
    and returns the ids whose term is not true, plus ids of shards that failed to compile."""
    os.makedirs(RUN, exist_ok=True)
    shards = [case_terms[i:i + shard] for i in range(0, len(case_terms), shard)]
    paths = []
    for k, sh_cases in enumerate(shards):
        path = os.path.join(RUN, "cases_%s_%d.v" % (name, k))
        with open(path, "w") as f:
            f.write(header + "\n")
            for i, t in sh_cases:
                f.write("Definition c%d : bool := %s.\n" % (i, t))
            f.write("Definition cases : list (N * bool) := [" + ";".join("(%d%%N, c%d)" % (i, i) for i, _ in sh_cases) + "].\n")
            f.write("Definition bad := map fst (filter (fun c => negb (snd c)) cases).\n")
            f.write('Goal True. idtac "BEGIN-BAD". Abort.\nEval vm_compute in bad.\n')
        paths.append((path, sh_cases))

    def run(p):
        path, sh_cases = p
        rc, out = coqc_file(path, timeout)
        if rc != 0 or "BEGIN-BAD" not in out:
            return ("error", [i for i, _ in sh_cases], out[-800:])
        body = out.split("BEGIN-BAD")[1]
        body = body.split(": list N")[0]
        ids = [int(x) for x in re.findall(r"(\d+)%N|(?<![\w.])(\d+)(?![\w.%])", body) for x in x if x]
        return ("ok", ids, "")

    bad, errs = [], []
    with ThreadPoolExecutor(max_workers=16) as ex:
        for st, ids, out in ex.map(run, paths):
            if st == "ok":
                bad.extend(ids)
            else:
                errs.append((ids, out))
    return sorted(set(bad)), errs


def coq_eval_values(name, header, terms, timeout=600):
    """Evaluate arbitrary terms; returns list of output strings (one per term)."""
    os.makedirs(RUN, exist_ok=True)
    path = os.path.join(RUN, "vals_%s.v" % name)
    with open(path, "w") as f:
        f.write(header + "\n")
        for i, t in enumerate(terms):
            f.write('Goal True. idtac "BEGIN-VAL %d". Abort.\nEval vm_compute in (%s).\n' % (i, t))
        f.write('Goal True. idtac "END-VAL". Abort.\n')
    rc, out = coqc_file(path, timeout)
    res = {}
    blocks = re.split(r"BEGIN-VAL (\d+)", out)
    for i in range(1, len(blocks) - 1, 2):
        res[int(blocks[i])] = " ".join(blocks[i + 1].split("END-VAL")[0].split())
    return [res.get(i) for i in range(len(terms))], out


# ---------------------------------------------------------------- harness

def repo_fingerprint():
    rc, out = sh("git -C %s rev-parse HEAD; git -C %s diff HEAD --stat | tail -1; git -C %s diff HEAD | sha1sum" % (REPO, REPO, REPO), timeout=60)
    return out.replace("\n", " ")


def build_harness(release=False, hook=False, features=None, timeout=1500):
    """cargo build --offline against /repo's working tree. Returns (binary_path|None, log)."""
    # the generated sources (harness/src/gen, src/gen_abi) are not committed: on a fresh checkout write the default
    # universe (seed 1, quick) before the first build
    if not (os.path.exists(os.path.join(HARNESS, "src", "gen", "mod.rs")) and os.path.exists(os.path.join(HARNESS, "src", "gen_abi", "mod.rs"))):
        from . import gencrate
        gencrate.write_sources(1, "quick")
    with Lock("cargo"):
        lock = os.path.join(HARNESS, "Cargo.lock")
        if not os.path.exists(lock):
            shutil.copy(os.path.join(REPO, "Cargo.lock"), lock)
        env = dict(ENV)
        tdir = "target"
        if hook:
            env["RUSTFLAGS"] = "--cfg " + HOOK_CFG
            tdir = "target_hook"
        env["CARGO_TARGET_DIR"] = os.path.join(HARNESS, tdir)
        cmd = "cargo build --offline" + (" --release" if release else "")
        if features:
            cmd += " --features " + features
        rc, out = sh(cmd + " 2>&1", cwd=HARNESS, timeout=timeout, env=env)
        if rc != 0:
            return None, out
        return os.path.join(HARNESS, tdir, "release" if release else "debug", "sfharness"), out


def run_harness(binary, lines, timeout=600, mem_gb=4, env_extra=None):
    """lines: list of 'id op args'. Runs the binary in child processes; a crash of the child is
    reported as observation 'ABORT' for the case at which it died and the rest is re-run.
    Returns dict id -> observation string."""
    obs = {}
    pending = list(lines)
    env = dict(ENV)
    if env_extra:
        env.update(env_extra)
    while pending:
        inp = "\n".join(pending) + "\n"
        try:
            p = subprocess.run("ulimit -v %d; exec %s" % (mem_gb * 1024 * 1024, binary), shell=True, input=inp,
                               stdout=subprocess.PIPE, stderr=subprocess.PIPE, timeout=timeout, text=True, env=env, errors="replace")
            outl = p.stdout.splitlines()
        except subprocess.TimeoutExpired as e:
            outl = (e.stdout or b"").decode(errors="replace").splitlines() if isinstance(e.stdout, bytes) else (e.stdout or "").splitlines()
            p = None
        got = 0
        for l in outl:
            if " " in l:
                i, o = l.split(" ", 1)
            else:
                i, o = l, ""
            if got < len(pending) and pending[got].split(" ", 1)[0] == i:
                obs[i] = o
                got += 1
        if got >= len(pending):
            break
        dead = pending[got].split(" ", 1)[0]
        if p is None:
            obs[dead] = "TIMEOUT"
        else:
            tail = (p.stderr or "")[-4000:]
            # an allocation failure aborts the process (handle_alloc_error); anything else is a crash
            obs[dead] = "ABORT oom" if "memory allocation of" in tail else "ABORT rc=%s %s" % (p.returncode, tail.strip().splitlines()[-1][:80].replace(" ", "_") if tail.strip() else "")
        pending = pending[got + 1:]
    return obs


# ---------------------------------------------------------------- findings / evidence / verdict

def known_findings(prop):
    path = os.path.join(ROOT, "known_findings.json")
    if not os.path.exists(path):
        return []
    return [e for e in json.load(open(path)) if e.get("property") == prop]


TRUSTED_BASE = [
    "Coq 8.16.1 kernel (coqc full .vo builds via coq_makefile; vm_compute used for case evaluation and finite sweeps; native_compute not used)",
    "no axioms declared; Print Assumptions of every pinned theorem must be 'Closed under the global context' (allow-list: functional_extensionality_dep, proof_irrelevance, eq_rect_eq, JMeq_eq, classic)",
    "vp/extract.py (regex translator of constant tables from /repo sources into coq/extracted/Extracted.v)",
    "correspondence harness: /verif/harness (Rust, runs real savefile) + vp/*.py renderers (one description rendered to Rust input and to Coq terms) + Bytes.unhex",
    "no extraction to OCaml is used (no Extract directives)",
]


class Check:
    """Collects everything a run did and produces evidence + verdict."""

    def __init__(self, prop, tier, seed):
        self.prop, self.tier, self.seed = prop, tier, seed
        self.t0 = time.time()
        self.broken = []          # broken obligations / correspondence shards (strings)
        self.violations = []      # (description, replay dict) concrete failing inputs not in known findings
        self.known_lines = []     # KNOWN-FINDING lines
        self.info = []
        self.cov = {"obligations": 0, "discharged": 0, "evaluations": 0, "distinct_nontrivial": 0,
                    "traces_validated_against_impl": 0, "samples": [], "trusted_base": list(TRUSTED_BASE),
                    "checker_cmd": "cd /verif/coq && coq_makefile -f _CoqProject -o Makefile && make -j16 (then coqc run/pa_%s.v for Print Assumptions)" % prop}
        self.assumptions = []
        self.distinct = set()

    def obligations(self, theorems, module=None):
        n, d, broken, axioms, out = obligations_status(self.prop, theorems, module)
        if self.tier == "thorough" and not broken:
            # independent re-check of the compiled property module and everything it depends on
            rc, cout = sh("timeout 1500 coqchk -o -silent -Q theories SF -Q Properties SFP -Q extracted SFX SFP.%s 2>&1" % (module or self.prop), cwd=COQ, timeout=1600)
            summ = cout[cout.find("CONTEXT SUMMARY"):] if "CONTEXT SUMMARY" in cout else cout[-600:]
            self.cov["coqchk"] = " ".join(summ.split())[:600]
            if rc != 0 or "Axioms: <none>" not in " ".join(summ.split()):
                broken.append("coqchk does not accept %s with no axioms: %s" % (module or self.prop, " ".join(summ.split())[:300]))
        self.cov["obligations"] += n
        self.cov["discharged"] += d
        self.cov["theorems"] = self.cov.get("theorems", []) + list(theorems)
        if axioms:
            self.cov["axioms_used"] = axioms
        for b in broken:
            self.broken.append("proof obligation: " + b)
        return not broken

    def add_eval(self, n, distinct_keys=()):
        self.cov["evaluations"] += n
        for k in distinct_keys:
            self.distinct.add(k)

    def sample(self, s):
        if len(self.cov["samples"]) < 8:
            self.cov["samples"].append(s)

    def finish(self, extra=None):
        self.cov["distinct_nontrivial"] = len(self.distinct)
        if extra:
            self.cov.update(extra)
        nviol = len(self.violations) + (1 if (self.broken and not self.violations) else 0)
        os.makedirs(os.path.join(ROOT, "evidence"), exist_ok=True)
        os.makedirs(os.path.join(ROOT, "replays"), exist_ok=True)
        lines = []
        for kl in self.known_lines:
            lines.append("KNOWN-FINDING: property=%s %s" % (self.prop, kl))
        rc = 0
        if self.violations:
            for n, (desc, replay) in enumerate(self.violations[:5]):
                path = os.path.join(ROOT, "replays", "%s-%d-%d.json" % (self.prop, self.seed, n))
                json.dump({"property": self.prop, "seed": self.seed, "tier": self.tier, "what": desc,
                           "replay": replay, "broken": self.broken}, open(path, "w"), indent=1)
                lines.append("VIOLATION property=%s replay=%s" % (self.prop, path))
            rc = 1
        elif self.broken:
            path = os.path.join(ROOT, "replays", "%s-%d-unchecked.json" % (self.prop, self.seed))
            json.dump({"property": self.prop, "seed": self.seed, "tier": self.tier,
                       "what": "obligations or correspondence no longer check; the search over the implementation found no failing input",
                       "no_longer_checks": self.broken}, open(path, "w"), indent=1)
            lines.append("VIOLATION property=%s replay=%s no-failing-input-found" % (self.prop, path))
            rc = 1
        ev = {"property_id": self.prop, "tier": self.tier, "seed": self.seed, "level": "proof",
              "coverage": self.cov, "assumptions": self.assumptions, "wall_s": round(time.time() - self.t0, 2),
              "violations": nviol, "known_findings_reproduced": self.known_lines, "notes": self.info,
              "repo": repo_fingerprint()}
        json.dump(ev, open(os.path.join(ROOT, "evidence", "%s.json" % self.prop), "w"), indent=1)
        for b in self.broken:
            log("BROKEN:", b[:1500])
        for l in lines:
            print(l)
        print("%s %s tier=%s seed=%d obligations=%d/%d evaluations=%d distinct=%d wall=%.1fs" % (
            self.prop, "FAIL" if rc else "ok", self.tier, self.seed, self.cov["discharged"], self.cov["obligations"],
            self.cov["evaluations"], len(self.distinct), time.time() - self.t0))
        return rc


def generic_replay(path):
    """Re-run the recorded harness line(s) against the current tree and print the observation."""
    r = json.load(open(path))
    rep = r.get("replay", {})
    print("property:", r.get("property"), "| what:", r.get("what"))
    line = rep.get("harness_line")
    if not line:
        print(json.dumps(r, indent=1)[:4000])
        return 0
    binary, out = build_harness()
    if not binary:
        print("harness does not build:", out[-1000:])
        return 1
    obs = run_harness(binary, [line])
    print("input   :", line[:2000])
    print("recorded:", rep.get("observed"))
    print("now     :", obs.get(line.split()[0]))
    return 0
