# C01 — round-trip fidelity: load(save(x)) == x for every supported value, four containers.
from . import common as C
from . import tygen as TG
from . import gencrate as GC
from . import datacases as D

THEOREMS = ["C01_enc_total", "C01_roundtrip", "C01_injective", "C01_unwritable_panics", "C01_hypotheses_satisfiable", "C01_identity", "C01_container_noschema", "C01_container_plain", "C01_container_bzip2"]


def run(chk, tier, seed):
    if THEOREMS:
        chk.obligations(THEOREMS, "C01")
    else:
        ok, out = C.coq_make()
        if not ok:
            chk.broken.append("coq build failed: " + out[-800:])
    U, binary = GC.ensure(seed, tier)
    if U is None:
        chk.broken.append("harness does not build against /repo: " + binary[-1500:])
        return
    meta, obs, bad, lines = D.run_roundtrips(chk, U, binary, versions=(0,) if tier == "quick" else (0, 3))
    chk.cov["traces_validated_against_impl"] += len(meta)
    for cid in bad[:20]:
        m = meta[cid]
        chk.broken.append("correspondence C01 case %s: model and implementation disagree on %s; observed %s" % (
            cid, D.describe(U, m), obs.get(cid, "")[:300]))
    # direct oracle: the implementation's own round trip
    for cid, m in meta.items():
        o = obs.get(cid, "MISSING")
        r = U["roots"][m["root"]]
        t, x = r["ty"], r["vals"][m["val"]]
        fail = None
        if not o.startswith("OK "):
            fail = "save/load does not succeed: " + o[:200]
        else:
            p = o.split(" ", 3)
            expect = TG.coq_val(TG.loaded_expectation(t, x))
            if p[3] != expect and not ignorable(t):
                fail = "loaded value differs from the saved one: loaded %s expected %s" % (p[3][:300], expect[:300])
            if m["container"] in ("bare", "plain", "noschema") and int(p[2]) * 2 != len(p[1].replace("-", "")):
                fail = "loading consumed %s bytes but saving produced %d" % (p[2], len(p[1].replace("-", "")) // 2)
        if fail:
            line = [l for l in lines if l.startswith(cid + " ")][0]
            chk.violations.append((fail, {"input": D.describe(U, m), "harness_line": line, "observed": o[:600], "seed": seed, "tier": tier}))
        chk.distinct.add((D.shape_key(t), m["container"]))
    chk.add_eval(len(meta))
    # library types outside the universe: round trips in every container, bytes against Ty.enc of the equivalent term
    from . import libcases
    libcases.run_rt(chk, binary)
    chk.cov["rule"] = ("every (root type, value, container, version) of the generated universe (fixed boundary corpus + seeded random "
                       "definitions) is saved and loaded by the real code; bytes, consumed count and loaded value are compared with enc/dec/norm "
                       "evaluated in Coq; distinct = (structural type key, container). Plus a fixed corpus of ~70 library-type values outside the universe "
                       "(maps, sets, heaps, deques, index maps, small/array vectors, net/time types, smart pointers, cells, locks, atomics, tuples, nested): saved and loaded in all five "
                       "containers, compared with the Rust-side equality (hash containers as sets, floats by bits), and their bytes with Ty.enc/dec of the equivalent model term")
    for cid in list(meta)[:4]:
        chk.sample({"case": cid, "input": D.describe(U, meta[cid]), "observed": obs.get(cid, "")[:160]})


def ignorable(t):
    return False
