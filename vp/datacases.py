# Shared runner for the data-side round-trip cases (C01, C02, C04, C12 ride on it).
import re
from . import common as C
from . import tygen as TG
from . import gencrate as GC

HEADER = ("From Coq Require Import String.\nFrom SF Require Import Bytes Schema Ty HarnessTy.\nImport ListNotations.\n"
          "Open Scope string_scope.\nOpen Scope N_scope.\n")

ERRS = {"EEof", "EGeneral", "EUtf8", "EWrongVersion", "EInvalidChar", "ESchema", "ELayout", "EOther"}


def hexlit(h):
    return '(unhex "%s")' % ("" if h == "-" else h)


def roots_for(U, want=None, exclude=("k13bulk", "arrayvec")):
    out = []
    for i, r in enumerate(U["roots"]):
        if any(t in r["tags"] for t in exclude):
            continue
        if want and not (set(want) & r["tags"]):
            continue
        out.append((i, r))
    return out


def shape_key(t):
    """coarse structural key of a type, for counting distinct cases"""
    k = t["k"]
    if k == "int":
        return t["ity"]
    if k in ("vec", "seq", "array", "option", "box", "cell", "arrayvec"):
        return (k, shape_key(t["t"]))
    if k == "result":
        return (k, shape_key(t["a"]), shape_key(t["b"]))
    if k == "tuple":
        return (k,) + tuple(shape_key(x) for x in t["ts"])
    if k == "struct":
        return (k, t["repr"]) + tuple((f["kind"], shape_key(f["ty"])) for f in t["fields"])
    if k == "enum":
        return (k, t["repr"]) + tuple(tuple(shape_key(f["ty"]) for f in v["fields"]) for v in t["variants"])
    return k


def run_roundtrips(chk, U, binary, containers=("bare", "plain", "noschema", "bzip2", "crypto"), versions=(0,), roots=None,
                   name="rt", max_vals=None):
    """Runs save+load of every (root, value, container, version) on the real code and checks the observation
    against the model inside Coq. Returns (meta, obs, bad_ids)."""
    roots = roots if roots is not None else roots_for(U)
    lines, meta = [], {}
    n = 0
    for (ri, r) in roots:
        vals = r["vals"] if max_vals is None else r["vals"][:max_vals]
        for vi, x in enumerate(vals):
            for c in containers:
                for v in ([r["curver"]] if r.get("curver") else versions):
                    n += 1
                    cid = "%s%d" % (name, n)
                    lines.append("%s ty_rt %d %s %d %d" % (cid, ri, c, v, vi))
                    meta[cid] = {"root": ri, "val": vi, "container": c, "version": v, "n": n}
    obs = C.run_harness(binary, lines, timeout=900)
    terms = []
    for cid, m in meta.items():
        o = obs.get(cid, "MISSING")
        r = U["roots"][m["root"]]
        t, x = r["ty"], r["vals"][m["val"]]
        p = o.split(" ", 3)
        if p[0] != "OK" or len(p) < 4:
            terms.append((m["n"], "false"))
            continue
        bytes_, used, canon = p[1], int(p[2]), p[3]
        ct, cx = TG.coq_ty(t), TG.coq_val(x)
        c, v = m["container"], m["version"]
        if c == "bare":
            term = "agree_bare %d %s %s %s %d %s" % (v, ct, cx, hexlit(bytes_), used, canon)
        elif c == "noschema":
            term = "agree_noschema %d %s %s %s %d %s" % (v, ct, cx, hexlit(bytes_), used, canon)
        elif c == "plain":
            term = "agree_plain false %d %s %s %s %s" % (v, ct, cx, hexlit(bytes_), canon)
        else:
            term = "agree_plain true %d %s %s %s %s" % (v, ct, cx, hexlit(bytes_), canon)
        terms.append((m["n"], term))
    bad, errs = C.coq_eval_bad(chk.prop + "_" + name, HEADER, terms, shard=120)
    for ids, out in errs:
        chk.broken.append("correspondence shard failed to evaluate (cases %s..): %s" % (ids[:3], out[-400:]))
    byn = {m["n"]: cid for cid, m in meta.items()}
    return meta, obs, [byn[i] for i in bad if i in byn], lines


def describe(U, m):
    r = U["roots"][m["root"]]
    return {"type": TG.rust_ty(r["ty"]), "value": TG.rust_val(r["ty"], r["vals"][m["val"]])[:400],
            "container": m.get("container"), "version": m.get("version"), "root_index": m["root"], "value_index": m["val"]}
