# Schema trees: one Python description, two renderings (harness tokens, Coq term),
# a seeded generator, an exhaustive small-tree enumerator and single-edit mutators.
import random

NAMES = [b"", b"a", b"b", b"x1", b"test", "é".encode(), "名前".encode(), b"Foo", b"Bar", b"longer_name_0123456789"]
TNAMES = [b"T", b"MyTrait", b"", "Tré".encode()]
U64MAX = 2 ** 64 - 1


def hexs(b):
    return b.hex() if b else "-"


def opt_tok(o):
    return "N" if o is None else str(o)


def b2i(b):
    return "1" if b else "0"


def td_tokens(td):
    name, methods, sync, send = td
    out = [hexs(name), str(len(methods))]
    for (mn, ret, recv, args, asy) in methods:
        out += [hexs(mn)] + tokens(ret) + [str(recv), str(len(args))]
        for a in args:
            out += tokens(a)
        out.append(b2i(asy))
    out += [b2i(sync), b2i(send)]
    return out


def field_tokens(f):
    n, s, o = f
    return [hexs(n)] + tokens(s) + [opt_tok(o)]


def tokens(s):
    k = s[0]
    if k == 'St':
        _, name, size, align, fields = s
        out = ['St', hexs(name), opt_tok(size), opt_tok(align), str(len(fields))]
        for f in fields:
            out += field_tokens(f)
        return out
    if k == 'En':
        _, name, variants, dsize, repr_, size, align = s
        out = ['En', hexs(name), str(len(variants))]
        for (vn, d, fs) in variants:
            out += [hexs(vn), str(d), str(len(fs))]
            for f in fs:
                out += field_tokens(f)
        out += [str(dsize), b2i(repr_), opt_tok(size), opt_tok(align)]
        return out
    if k == 'Pr':
        return ['Pr', str(s[1])] + ([str(s[2])] if s[1] == 9 else [])
    if k == 'Ve':
        return ['Ve'] + tokens(s[1]) + [str(s[2])]
    if k == 'Ar':
        return ['Ar'] + tokens(s[1]) + [str(s[2])]
    if k in ('Op', 'Bo', 'Sl', 'Re'):
        return [k] + tokens(s[1])
    if k in ('Un', 'Ze', 'Str', 'Io', 'Us', 'Ut'):
        return [k]
    if k == 'Cu':
        return ['Cu', hexs(s[1])]
    if k in ('Tr', 'Fn'):
        return [k, b2i(s[1])] + td_tokens(s[2])
    if k == 'Rc':
        return ['Rc', str(s[1])]
    if k == 'Fu':
        return ['Fu'] + td_tokens(s[1]) + [b2i(s[2]), b2i(s[3]), b2i(s[4])]
    raise ValueError(k)


def cbytes(b):
    return "[" + ";".join(str(x) for x in b) + "]"


def copt(o):
    return "None" if o is None else "(Some %d)" % o


def cbool(b):
    return "true" if b else "false"


VL = ["VLUnknown", "VL1", "VL2", "VL3", "VL4", "VL5", "VL6", "VL7", "VL8"]
PRIM = {1: "Pi8", 2: "Pu8", 3: "Pi16", 4: "Pu16", 5: "Pi32", 6: "Pu32", 7: "Pi64", 8: "Pu64", 10: "Pf32", 11: "Pf64",
        12: "Pbool", 13: "Pcanary1", 14: "Pi128", 15: "Pu128", 16: "Pchar"}
RECV = ["RShared", "RMut", "RPinMut"]


def cfield(f):
    n, s, o = f
    return "(Fld %s %s %s)" % (cbytes(n), coq(s), copt(o))


def clist(xs):
    return "[" + ";".join(xs) + "]"


def ctd(td):
    name, methods, sync, send = td
    ms = ["(Meth %s %s %s %s %s)" % (cbytes(mn), coq(ret), RECV[recv], clist([coq(a) for a in args]), cbool(asy))
          for (mn, ret, recv, args, asy) in methods]
    return "(TD %s %s %s %s)" % (cbytes(name), clist(ms), cbool(sync), cbool(send))


def coq(s):
    k = s[0]
    if k == 'St':
        _, name, size, align, fields = s
        return "(SStruct %s %s %s %s)" % (cbytes(name), copt(size), copt(align), clist([cfield(f) for f in fields]))
    if k == 'En':
        _, name, variants, dsize, repr_, size, align = s
        vs = ["(Var %s %d %s)" % (cbytes(vn), d, clist([cfield(f) for f in fs])) for (vn, d, fs) in variants]
        return "(SEnum %s %s %d %s %s %s)" % (cbytes(name), clist(vs), dsize, cbool(repr_), copt(size), copt(align))
    if k == 'Pr':
        if s[1] == 9:
            return "(SPrim (Pstring %s))" % VL[s[2]]
        return "(SPrim %s)" % PRIM[s[1]]
    if k == 'Ve':
        return "(SVector %s %s)" % (coq(s[1]), VL[s[2]])
    if k == 'Ar':
        return "(SArray %s %d)" % (coq(s[1]), s[2])
    if k == 'Op':
        return "(SOption %s)" % coq(s[1])
    if k == 'Bo':
        return "(SBoxed %s)" % coq(s[1])
    if k == 'Sl':
        return "(SSlice %s)" % coq(s[1])
    if k == 'Re':
        return "(SReference %s)" % coq(s[1])
    if k == 'Un':
        return "SUndefined"
    if k == 'Ze':
        return "SZeroSize"
    if k == 'Str':
        return "SStr"
    if k == 'Io':
        return "SStdIoError"
    if k == 'Us':
        return "SUninitSlice"
    if k == 'Ut':
        return "SUtcTimestamp"
    if k == 'Cu':
        return "(SCustom %s)" % cbytes(s[1])
    if k == 'Tr':
        return "(STrait %s %s)" % (cbool(s[1]), ctd(s[2]))
    if k == 'Fn':
        return "(SFnClosure %s %s)" % (cbool(s[1]), ctd(s[2]))
    if k == 'Rc':
        return "(SRecursion %d)" % s[1]
    if k == 'Fu':
        return "(SFuture %s %s %s %s)" % (ctd(s[1]), cbool(s[2]), cbool(s[3]), cbool(s[4]))
    raise ValueError(k)


# ------------------------------------------------------------ generation

def gen_opt(rng):
    r = rng.random()
    if r < 0.4:
        return None
    if r < 0.9:
        return rng.choice([0, 1, 2, 4, 8, 16, 24, 255, 256, 65535])
    return rng.choice([U64MAX, 2 ** 63, 2 ** 32])


def gen_field(rng, depth, opts):
    return (rng.choice(NAMES), gen_schema(rng, depth - 1, opts), gen_opt(rng))


def gen_td(rng, depth, opts):
    nm = rng.choice([0, 1, 1, 2, 3])
    methods = []
    used = set()
    for _ in range(nm):
        mn = rng.choice([b"f", b"g", b"call", b"m0", "mé".encode()])
        if mn in used and not opts.get("dup_methods"):
            continue
        used.add(mn)
        na = rng.choice([0, 1, 1, 2, 3])
        recv = rng.choice([0, 0, 1, 2]) if not opts.get("v1") else 0
        asy = (rng.random() < 0.25) if not opts.get("v1") else False
        methods.append((mn, gen_schema(rng, depth - 1, opts), recv, [gen_schema(rng, depth - 1, opts) for _ in range(na)], asy))
    return (rng.choice(TNAMES), methods, rng.random() < 0.4, rng.random() < 0.4)


def gen_schema(rng, depth, opts=None):
    """opts: data_only (no traits/undefined), v1 (format-1 expressible), no_undef, no_future"""
    opts = opts or {}
    leafs = ['Pr', 'Pr', 'Pr', 'Ze', 'Cu', 'Str', 'Io', 'Us', 'Ut', 'Rc']
    if not opts.get("data_only") and not opts.get("no_undef"):
        leafs.append('Un')
    inner = ['St', 'St', 'En', 'En', 'Ve', 'Ar', 'Op', 'Bo', 'Sl', 'Re']
    if not opts.get("data_only"):
        inner += ['Tr', 'Fn']
        if not opts.get("no_future"):
            inner.append('Fu')
    k = rng.choice(leafs if depth <= 0 else leafs + inner * 2)
    if k == 'Pr':
        tag = rng.randint(1, 16)
        return ('Pr', tag, rng.randint(0, 8)) if tag == 9 else ('Pr', tag, None)
    if k in ('Ze', 'Str', 'Io', 'Us', 'Ut', 'Un'):
        return (k,)
    if k == 'Cu':
        return ('Cu', rng.choice(NAMES))
    if k == 'Rc':
        return ('Rc', rng.choice([0, 1, 2, 7, 2 ** 40, U64MAX]))
    if k == 'St':
        n = rng.choice([0, 1, 2, 2, 3, 4])
        return ('St', rng.choice(NAMES), gen_opt(rng), gen_opt(rng), [gen_field(rng, depth, opts) for _ in range(n)])
    if k == 'En':
        n = rng.choice([0, 1, 2, 3])
        vs = []
        for i in range(n):
            nf = rng.choice([0, 0, 1, 2])
            vs.append((rng.choice(NAMES), rng.choice([i, i, 0, 1, 255, rng.randint(0, 255)]), [gen_field(rng, depth, opts) for _ in range(nf)]))
        return ('En', rng.choice(NAMES), vs, rng.choice([1, 1, 2, 4, 0, 255]), rng.random() < 0.5, gen_opt(rng), gen_opt(rng))
    if k == 'Ve':
        return ('Ve', gen_schema(rng, depth - 1, opts), rng.randint(0, 8))
    if k == 'Ar':
        return ('Ar', gen_schema(rng, depth - 1, opts), rng.choice([0, 1, 3, 16, 1000, U64MAX]))
    if k in ('Op', 'Bo', 'Sl', 'Re'):
        return (k, gen_schema(rng, depth - 1, opts))
    if k in ('Tr', 'Fn'):
        return (k, rng.random() < 0.5, gen_td(rng, depth, opts))
    if k == 'Fu':
        return ('Fu', gen_td(rng, depth, opts), rng.random() < 0.5, rng.random() < 0.5, rng.random() < 0.5)
    raise ValueError(k)


def size(s):
    k = s[0]
    if k == 'St':
        return 1 + sum(size(f[1]) for f in s[4])
    if k == 'En':
        return 1 + sum(1 + sum(size(f[1]) for f in v[2]) for v in s[2])
    if k in ('Ve', 'Ar', 'Op', 'Bo', 'Sl', 'Re'):
        return 1 + size(s[1])
    if k in ('Tr', 'Fn'):
        return 1 + sum(1 + size(m[1]) + sum(size(a) for a in m[3]) for m in s[2][1])
    if k == 'Fu':
        return 1 + sum(1 + size(m[1]) + sum(size(a) for a in m[3]) for m in s[1][1])
    return 1


def enumerate_small(maxsize):
    """All schema trees of the data fragment up to the given node count over a reduced alphabet."""
    leaves = [('Pr', 2, None), ('Pr', 6, None), ('Pr', 9, 1), ('Ze',), ('Cu', b"a"), ('Rc', 1), ('Ut',)]
    memo = {}

    def trees(n):
        if n in memo:
            return memo[n]
        out = []
        if n == 1:
            out = list(leaves) + [('St', b"s", None, Some8(), []), ('En', b"e", [], 1, False, None, None)]
        else:
            for t in trees(n - 1):
                out.append(('Ve', t, 1))
                out.append(('Op', t))
                out.append(('Ar', t, 3))
                out.append(('Bo', t))
                out.append(('St', b"s", 8, 4, [(b"a", t, 0)]))
                out.append(('En', b"e", [(b"V", 0, [(b"a", t, None)])], 1, True, 8, 4))
            # two-field structs / two-variant enums
            for a in range(1, n - 1):
                b = n - 1 - a
                if b < 1:
                    continue
                for ta in trees(a)[:12]:
                    for tb in trees(b)[:12]:
                        out.append(('St', b"s", None, None, [(b"a", ta, None), (b"b", tb, 4)]))
                        out.append(('En', b"e", [(b"A", 0, [(b"x", ta, None)]), (b"B", 1, [(b"y", tb, None)])], 1, False, None, None))
        memo[n] = out
        return out

    def Some8():
        return 8

    res = []
    for n in range(1, maxsize + 1):
        res += trees(n)
    return res


# ------------------------------------------------------------ single-edit mutants (wire-layout changing)

def positions(s, path=()):
    """yield (path, node) for every schema node of the data fragment"""
    yield path, s
    k = s[0]
    if k == 'St':
        for i, f in enumerate(s[4]):
            yield from positions(f[1], path + (('f', i),))
    elif k == 'En':
        for vi, v in enumerate(s[2]):
            for i, f in enumerate(v[2]):
                yield from positions(f[1], path + (('v', vi, i),))
    elif k in ('Ve', 'Ar', 'Op', 'Bo', 'Sl', 'Re'):
        yield from positions(s[1], path + (('c',),))


def replace_at(s, path, new):
    if not path:
        return new
    step, rest = path[0], path[1:]
    k = s[0]
    if step[0] == 'f':
        fields = list(s[4])
        n, v, o = fields[step[1]]
        fields[step[1]] = (n, replace_at(v, rest, new), o)
        return ('St', s[1], s[2], s[3], fields)
    if step[0] == 'v':
        vs = list(s[2])
        vn, d, fs = vs[step[1]]
        fs = list(fs)
        n, v, o = fs[step[2]]
        fs[step[2]] = (n, replace_at(v, rest, new), o)
        vs[step[1]] = (vn, d, fs)
        return ('En', s[1], vs, s[3], s[4], s[5], s[6])
    if step[0] == 'c':
        return (k, replace_at(s[1], rest, new)) + tuple(s[2:])
    raise ValueError(step)


def edits_of(node, rng):
    """wire-layout changing single edits of one node: list of (kind, new_node)"""
    out = []
    k = node[0]
    if k == 'Pr':
        t2 = rng.choice([t for t in range(1, 17) if t != node[1]])
        out.append(('prim_kind', ('Pr', t2, 0 if t2 == 9 else None)))
    if k == 'St':
        fs = node[4]
        out.append(('field_added', ('St', node[1], node[2], node[3], fs + [(b"new", ('Pr', 2, None), None)])))
        if fs:
            i = rng.randrange(len(fs))
            out.append(('field_removed', ('St', node[1], node[2], node[3], fs[:i] + fs[i + 1:])))
        if len(fs) >= 2:
            i = rng.randrange(len(fs) - 1)
            sw = fs[:i] + [fs[i + 1], fs[i]] + fs[i + 2:]
            out.append(('fields_swapped', ('St', node[1], node[2], node[3], sw)))
    if k == 'En':
        vs = node[2]
        out.append(('variant_added', ('En', node[1], vs + [(b"NewV", len(vs) % 256, [])], node[3], node[4], node[5], node[6])))
        if vs:
            i = rng.randrange(len(vs))
            out.append(('variant_removed', ('En', node[1], vs[:i] + vs[i + 1:], node[3], node[4], node[5], node[6])))
            vn, d, f = vs[i]
            out.append(('variant_renamed', ('En', node[1], vs[:i] + [(vn + b"_", d, f)] + vs[i + 1:], node[3], node[4], node[5], node[6])))
            out.append(('discriminant_changed', ('En', node[1], vs[:i] + [(vn, (d + 1) % 256, f)] + vs[i + 1:], node[3], node[4], node[5], node[6])))
            # the payload of one variant changes while its name and discriminant stay (unit <-> data-carrying included)
            out.append(('variant_field_added', ('En', node[1], vs[:i] + [(vn, d, f + [(b"extra", ('Pr', 8, None), None)])] + vs[i + 1:], node[3], node[4], node[5], node[6])))
            if f:
                out.append(('variant_fields_emptied', ('En', node[1], vs[:i] + [(vn, d, [])] + vs[i + 1:], node[3], node[4], node[5], node[6])))
                out.append(('variant_field_removed', ('En', node[1], vs[:i] + [(vn, d, f[:-1])] + vs[i + 1:], node[3], node[4], node[5], node[6])))
        if len(vs) >= 2:
            i = rng.randrange(len(vs) - 1)
            sw = vs[:i] + [vs[i + 1], vs[i]] + vs[i + 2:]
            out.append(('variants_swapped', ('En', node[1], sw, node[3], node[4], node[5], node[6])))
        out.append(('width_changed', ('En', node[1], vs, {1: 2, 2: 4, 4: 1}.get(node[3], 1), node[4], node[5], node[6])))
    if k == 'Ar':
        out.append(('array_len_changed', ('Ar', node[1], (node[2] + 1) % (2 ** 64))))
    out.append(('option_wrapped', ('Op', node)))
    out.append(('vector_wrapped', ('Ve', node, 0)))
    if k == 'Op':
        out.append(('option_unwrapped', node[1]))
    if k == 'Ve':
        out.append(('vector_unwrapped', node[1]))
    return out


def py_shape(s):
    k = s[0]
    if k == 'St':
        return ('St', tuple(py_shape(f[1]) for f in s[4]))
    if k == 'En':
        return ('En', s[3], tuple((v[0], v[1], tuple(py_shape(f[1]) for f in v[2])) for v in s[2]))
    if k == 'Pr':
        return ('Pr', s[1])
    if k == 'Ve':
        return ('Ve', py_shape(s[1]))
    if k == 'Ar':
        return ('Ar', s[2], py_shape(s[1]))
    if k in ('Op', 'Bo', 'Sl', 'Re'):
        return (k, py_shape(s[1]))
    if k in ('Cu', 'Rc'):
        return (k, s[1])
    return (k,)
