# C07 — truncated files are never accepted as different data.
from . import common as C
from . import tygen as TG
from . import gencrate as GC
from . import datacases as D

THEOREMS = ["C07_extend", "C07_payload_truncated", "C07_total", "C07_noschema", "C07_plain", "C07_bzip2"]
HEADER = D.HEADER.replace("HarnessTy.", "HarnessTy Container HarnessCt.")
CLS = {"EEof": "e", "EGeneral": "g", "EUtf8": "u", "EWrongVersion": "w", "EInvalidChar": "c", "ESchema": "s", "ELayout": "l", "EOther": "o"}


def run(chk, tier, seed):
    chk.obligations(THEOREMS, "C07")
    U, binary = GC.ensure(seed, tier)
    if U is None:
        chk.broken.append("harness does not build against /repo: " + binary[-1500:])
        return
    import random
    rng = random.Random(seed * 31 + 7)
    roots = D.roots_for(U, exclude=("k13bulk", "hist", "arrayvec", "ignored", "vervariant"))   # (ignored fields load as Default: the Rust-side "same value" comparison does not apply)
    nfiles = 30 if tier == "quick" else 200
    pick = rng.sample(roots, min(nfiles, len(roots)))
    # always include a few shapes with trailing strings / vectors / options (cuts inside the last field)
    extra = [(i, r) for i, r in roots if TG.rust_ty(r["ty"]) in ("String", "Vec<String>", "(String,u8,Vec<u8>,)", "Option<u64>", "Vec<u8>")]
    pick = extra + [p for p in pick if p not in extra]
    lines, meta = [], {}
    n = 0
    for ri, r in pick:
        for c in ("bare", "plain", "noschema", "bzip2", "crypto"):
            vi = rng.randrange(len(r["vals"]))
            n += 1
            lines.append("cut%d ty_cuts %d %s 0 %d" % (n, ri, c, vi))
            meta["cut%d" % n] = {"root": ri, "val": vi, "container": c, "version": 0, "n": n}
    obs = C.run_harness(binary, lines, timeout=1500)
    terms = []
    ncuts = 0
    for cid, m in meta.items():
        o = obs.get(cid, "MISSING")
        p = o.split(" ")
        r = U["roots"][m["root"]]
        t, x = r["ty"], r["vals"][m["val"]]
        if len(p) < 4 or not p[0].isdigit():
            chk.violations.append(("implementation aborted or failed to save: " + o[:200], {"input": D.describe(U, m), "harness_line": [l for l in lines if l.startswith(cid + " ")][0]}))
            continue
        flen, fhex, classes = int(p[0]), p[1], p[-1]
        ncuts += flen
        # oracle: the property itself
        bad = [(k, ch) for k, ch in enumerate(classes) if ch in ("D", "P")]
        if m["container"] == "crypto":
            listed = {e["id"]: e for e in C.known_findings("C07")}
            early = [k for k, ch in bad if ch == "P" and k < 12]
            if early and listed.get("F3", {}).get("status") == "open":
                if "F3" not in [l.split(":")[0] for l in chk.known_lines]:
                    chk.known_lines.append("F3: load_encrypted_file panics on files shorter than the 12-byte nonce (cuts %d..%d)" % (early[0], early[-1]))
                bad = [(k, ch) for k, ch in bad if not (ch == "P" and k < 12)]
        if m["container"] in ("bare", "plain", "noschema"):
            bad += [(k, ch) for k, ch in enumerate(classes) if ch == "S"]   # no trailing container bytes exist here
        if bad:
            k, ch = bad[0]
            what = {"D": "a strict prefix loads as a DIFFERENT value", "P": "loading a strict prefix panics", "S": "a strict prefix of an uncompressed file loads successfully"}[ch]
            chk.violations.append(("%s (cut at byte %d of %d, %s container)" % (what, k, flen, m["container"]),
                                   {"input": D.describe(U, m), "cut": k, "file_hex": fhex[:2000], "classes": classes, "harness_line": [l for l in lines if l.startswith(cid + " ")][0]}))
        chk.distinct.add((D.shape_key(t), m["container"]))
        # correspondence: per-cut outcome class of the model (uncompressed containers)
        if m["container"] in ("bare", "plain", "noschema"):
            terms.append((m["n"], 'agree_cuts %s %s %s "%s"' % ({"bare": "CBare", "plain": "CPlain", "noschema": "CNoschema"}[m["container"]],
                                                                TG.coq_ty(t), D.hexlit(fhex), classes)))
    bad, errs = C.coq_eval_bad("C07", HEADER, terms, shard=40)
    for ids, out in errs:
        chk.broken.append("correspondence shard failed to evaluate (cases %s..): %s" % (ids[:3], out[-400:]))
    byn = {m["n"]: cid for cid, m in meta.items()}
    for i in bad[:10]:
        cid = byn[i]
        chk.broken.append("correspondence C07 case %s: per-cut outcomes of model and implementation disagree on %s; observed %s" % (
            cid, D.describe(U, meta[cid]), obs.get(cid, "").split(" ")[-1][:300]))
    chk.cov["traces_validated_against_impl"] += len(terms)
    chk.add_eval(ncuts)
    chk.cov["files"] = len(meta)
    chk.cov["exhaustive"] = False
    # library types outside the universe (maps, sets, heaps, net/time types, ...): cuts of their files
    from . import libcases
    libcases.run_cuts(chk, binary, step=997 if tier == "quick" else 101)
    # the encryption layer used as a stream (CryptoWriter / CryptoReader around an UNCOMPRESSED save, so that no second
    # container shields it): multi-chunk payloads cut at every chunk boundary +-2 and at a stride
    sl = ["X%d crypto_stream_cuts %d %d %d" % (k, n_, seed + k, 4999 if tier == "quick" else 499) for k, n_ in enumerate((10, 100000, 150000, 250000))]
    sobs_ = C.run_harness(binary, sl, timeout=900)
    ncuts_ = 0
    for l in sl:
        o = sobs_.get(l.split(" ")[0], "MISSING")
        p_ = o.split(" ")
        if len(p_) != 3 or not p_[0].isdigit():
            chk.violations.append(("cutting an encrypted stream did not complete: " + o[:80], {"harness_line": l}))
            continue
        ncuts_ += len(p_[1])
        if p_[2] != "-":
            chk.violations.append(("a strict prefix of an encrypted stream (%s bytes, cut at a chunk boundary or elsewhere) %s: %s" % (p_[0], "loads to a DIFFERENT value" if "D" in p_[1] else "panics", p_[2]),
                                   {"harness_line": l, "classes": p_[1][:400]}))
    chk.add_eval(ncuts_)
    chk.cov["encrypted_stream_cuts"] = ncuts_
    chk.cov["rule"] = ("for sampled (type, value) and each of 5 containers: the saved file is cut at EVERY offset 0..len-1 and loaded by the real code; "
                       "outcome must be an error, or (compressed/encrypted only) the original value; per-cut error classes of the uncompressed "
                       "containers are compared with load_plain evaluated in Coq; distinct = (type key, container)")
    for cid in list(meta)[:4]:
        chk.sample({"case": cid, "input": D.describe(U, meta[cid]), "observed": obs.get(cid, "")[-120:]})
