# C09 — ABI calls are transparent: same effect as calling the implementation directly (partial).
import random
from . import common as C
from . import tygen as TG
from . import gencrate as GC
from . import datacases as D
from . import abichecks as A

THEOREMS = ["C09_flex", "C09_flex_spill", "C09_flex_inline_bound", "C09_transmit", "C09_any_number_of_methods"]
SCENARIOS = ["prims", "frame60", "frame61", "frame68", "nested_tuples", "tuple_array", "rec_by_val", "rec_by_ref", "pod_by_ref", "strs",
             "slices", "res", "opt", "call_fn", "call_fnmut", "take_boxed_fn", "take_boxed_trait", "make_counter", "make_closure", "mutate", "many_args"]


def run(chk, tier, seed):
    if THEOREMS:
        chk.obligations(THEOREMS, "C09")
    else:
        ok, out = C.coq_make()
        if not ok:
            chk.broken.append("coq build failed: " + out[-800:])
    U, binary = GC.ensure(seed, tier)
    if U is None:
        chk.broken.append("harness does not build against /repo: " + binary[-1500:])
        return
    rng = random.Random(seed * 977 + 9)
    known = {e["id"]: e for e in C.known_findings("C09")}
    scen = SCENARIOS + ["strlen%d" % n for n in ([0, 1, 43, 44, 45, 46, 51, 52, 53, 54, 59, 60, 61, 200] if tier == "quick" else list(range(0, 140)))]
    lines = ["s%d abi_fixed %s" % (i, s) for i, s in enumerate(scen)] + ["p1 abi_fixed panic_literal", "p2 abi_fixed panic_formatted"]
    # generated interfaces: same-version direct vs ABI calls for every family / version / method / value
    fams = U["families"]
    meta = {}
    n = 0
    for fam in fams:
        for j in range(fam["nver"]):
            nvals = len(U["roots"][fam["roots"][j]]["vals"])
            for idx in range(min(nvals, 2 if tier == "quick" else 5)):
                for meth in ("echo", "by_ref", "mixed", "cb", "mkcb", "wide"):
                    n += 1
                    lines.append("ga%d abi_call %d %d %d %s %d" % (n, fam["id"], j, j, meth, idx))
                    lines.append("gd%d abi_direct %d %d %s %d" % (n, fam["id"], j, meth, idx))
                    meta[n] = (fam["id"], j, meth, idx)
    obs = C.run_harness(binary, lines, timeout=900)
    for i, s in enumerate(scen):
        o = obs.get("s%d" % i, "MISSING")
        chk.distinct.add(("fixed", s))
        if " || " not in o:
            chk.violations.append(("scenario %s did not complete: %s" % (s, o[:100]), {"harness_line": lines[i]}))
            continue
        a, b = o.split(" || ")
        a, b = a.split("DIRECT ", 1)[1], b.split("ABI ", 1)[1]
        if a != b:
            chk.violations.append(("calling through the ABI connection is observably different from calling the implementation directly (scenario %s: arguments seen, return value, callback order or drop counts)" % s,
                                   {"harness_line": lines[i], "direct": a[:600], "abi": b[:600]}))
    # any number of methods: a 70-method interface, each witness in its own process (a panic during connection
    # creation poisons the process-wide template cache)
    for k in (0, 63, 64, 69):
        o = C.run_harness(binary, ["m abi_many %d" % k]).get("m", "MISSING")
        chk.distinct.add(("many", k))
        chk.add_eval(1)
        p = o.split(" || ")
        if len(p) != 3 or p[0].replace("DIRECT ", "") != p[1].replace("ABI ", "") or p[2] != "AFTER ok":
            chk.violations.append(("method m%d of an exported trait with 70 methods: calling through an ABI connection differs from the direct call, or later connections can no longer be created (%s)" % (k, o[:160]),
                                   {"harness_line": "m abi_many %d" % k, "observed": o[:300]}))
    for k, (f, j, meth, idx) in meta.items():
        a, d = obs.get("ga%d" % k, "MISSING"), obs.get("gd%d" % k, "MISSING")
        chk.distinct.add(("gen", f, j, meth))
        if a != d:
            # a Removed field makes by-value transmission impossible by design only when it is present at the version; at the current version it never is
            chk.violations.append(("generated interface family %d version %d method %s: ABI call differs from the direct call" % (f, j, meth),
                                   {"harness_line": "ga%d abi_call %d %d %d %s %d" % (k, f, j, j, meth, idx), "direct": d[:500], "abi": a[:500]}))
    # panics: the message must reach the caller, no unwinding across the boundary (caught as a panic on the caller side), still usable
    for pid, what in (("p1", "literal"), ("p2", "formatted")):
        o = obs.get(pid, "MISSING")
        if " || " not in o:
            chk.violations.append(("panic scenario did not complete (unwinding crossed the boundary?): " + o[:100], {"harness_line": [l for l in lines if l.startswith(pid + " ")][0]}))
            continue
        a, b = o.split(" || ")
        msg = "literal boom" if what == "literal" else "formatted boom 42"
        ok = msg in b and "usable_after=true" in b
        if not ok:
            if what == "formatted" and "usable_after=true" in b and known.get("F4", {}).get("status") == "open":
                chk.known_lines.append("F4: a panic with a formatted message (String payload) reaches the caller as 'Any { .. }' instead of its message")
            else:
                chk.violations.append(("a %s panic in the implementation does not reach the caller with its message, or the connection is unusable afterwards" % what,
                                       {"harness_line": [l for l in lines if l.startswith(pid + " ")][0], "observed": o[:400]}))
    # FlexBuffer against the model
    flex = []
    for _ in range(12 if tier == "quick" else 80):
        chunks = [bytes(rng.getrandbits(8) for _ in range(rng.choice([0, 1, 3, 8, 31, 32, 33, 63, 64, 65, 100]))) for _ in range(rng.randint(1, 5))]
        flex.append(chunks)
    flex += [[b"\x01" * 64], [b"\x01" * 65], [b"\x02" * 63, b"\x03"], [b"\x02" * 63, b"\x03\x04"], [b"", b"\x05" * 64, b""]]
    fl = ["f%d flex %s" % (i, ",".join(c.hex() or "-" for c in ch)) for i, ch in enumerate(flex)]
    fo = C.run_harness(binary, fl)
    terms = []
    for i, ch in enumerate(flex):
        o = fo.get("f%d" % i, "").split(" ")
        if len(o) != 2:
            chk.violations.append(("FlexBuffer op failed: " + " ".join(o)[:80], {"harness_line": fl[i]}))
            continue
        terms.append((i + 1, "agree_flex [%s] %s %s" % (";".join(A.cb(c) for c in ch), "true" if o[0] == "1" else "false", D.hexlit(o[1]))))
    bad, errs = C.coq_eval_bad("C09", A.HEADER, terms, shard=60)
    for ids, out in errs:
        chk.broken.append("shard failed to evaluate: " + out[-300:])
    for i in bad:
        chk.broken.append("correspondence C09: FlexBuffer contents / spill state for chunks %s differ from the model" % [c.hex() for c in flex[i - 1]])
    chk.cov["traces_validated_against_impl"] += len(terms)
    chk.add_eval(len(lines) + len(fl))
    chk.cov["runtime_behaviour_not_exhibited"] = "real executors for boxed futures, actual double frees and unwinding mechanics are runtime behaviour; drop counts and panic payloads are observed, not proved"
    chk.cov["rule"] = ("a hand-written interface with every argument kind (primitives, by-value and by-reference structs, &str, slices, Result, Option, &dyn Fn, &mut dyn FnMut, Box<dyn Fn>, "
                       "Box<dyn Trait> in both directions, &mut self, 18 arguments, fixed-size frames of 60/61/68 bytes, nested tuples) and string arguments of every length around the 64-byte "
                       "inline buffer; generated interfaces at every version: each scenario run directly and through AbiConnection and compared (arguments logged, return values, callback order, "
                       "drop counts); panics with literal and formatted payloads; FlexBuffer against the model in Coq")
    for i in (0, 4, 15):
        chk.sample({"scenario": scen[i], "observed": obs.get("s%d" % i, "")[:200]})
