# Type definitions and values: one Python description rendered three ways
#   (1) Rust items with #[derive(Savefile)] + Canon impls + probes  (harness/src/gen/mod.rs)
#   (2) Coq `ty` / `val` terms                                      (coq/run/cases_*.v)
#   (3) harness command lines
# plus the seeded generators.
import random

INTS = {"u8": (1, False), "i8": (1, True), "u16": (2, False), "i16": (2, True), "u32": (4, False), "i32": (4, True),
        "u64": (8, False), "i64": (8, True), "u128": (16, False), "i128": (16, True), "usize": (8, False), "isize": (8, True)}
ITY = {"u8": "U8", "i8": "I8", "u16": "U16", "i16": "I16", "u32": "U32", "i32": "I32", "u64": "U64", "i64": "I64",
       "u128": "U128", "i128": "I128", "usize": "Usize", "isize": "Isize"}


def T(k, **kw):
    d = {"k": k}
    d.update(kw)
    return d


# ------------------------------------------------------------------ Rust type expressions

BOXKINDS = ["Box", "Rc", "Arc", "RefCell", "Mutex"]
VECKINDS = ["Vec", "BoxSlice", "ArcSlice"]


def rust_ty(t):
    k = t["k"]
    if k == "int":
        return t["ity"]
    if k in ("bool", "char", "f32", "f64"):
        return k
    if k == "unit":
        return "()"
    if k == "string":
        return {"String": "String", "ArcStr": "std::sync::Arc<str>"}[t.get("kind", "String")]
    if k == "vec":
        inner = rust_ty(t["t"])
        return {"Vec": "Vec<%s>", "BoxSlice": "Box<[%s]>", "ArcSlice": "std::sync::Arc<[%s]>"}[t.get("kind", "Vec")] % inner
    if k == "seq":
        return "std::collections::VecDeque<%s>" % rust_ty(t["t"])
    if k == "array":
        return "[%s; %d]" % (rust_ty(t["t"]), t["n"])
    if k == "arrayvec":
        return "arrayvec::ArrayVec<%s, %d>" % (rust_ty(t["t"]), t["cap"])
    if k == "option":
        return "Option<%s>" % rust_ty(t["t"])
    if k == "result":
        return "Result<%s, %s>" % (rust_ty(t["a"]), rust_ty(t["b"]))
    if k == "box":
        kind = t.get("kind", "Box")
        p = {"Box": "Box", "Rc": "std::rc::Rc", "Arc": "std::sync::Arc", "RefCell": "std::cell::RefCell",
             "Mutex": "std::sync::Mutex", "RwLock": "std::sync::RwLock"}[kind]
        return "%s<%s>" % (p, rust_ty(t["t"]))
    if k == "cell":
        return "std::cell::Cell<%s>" % rust_ty(t["t"])
    if k == "tuple":
        return "(" + "".join(rust_ty(x) + "," for x in t["ts"]) + ")"
    if k in ("struct", "enum"):
        return t["name"]
    raise ValueError(k)


def rust_val(t, x):
    k = t["k"]
    if k == "int":
        z = x[1]
        return ("(%d%s)" % (z, t["ity"])) if z < 0 else "%d%s" % (z, t["ity"])
    if k == "bool":
        return "true" if x[1] else "false"
    if k == "char":
        return "char::from_u32(%d).unwrap()" % x[1]
    if k == "f32":
        return "f32::from_bits(%d)" % x[1]
    if k == "f64":
        return "f64::from_bits(%d)" % x[1]
    if k == "unit":
        return "()"
    if k == "string":
        s = "String::from_utf8(vec![%s]).unwrap()" % ",".join(str(b) for b in x[1])
        return s if t.get("kind", "String") == "String" else "std::sync::Arc::<str>::from(%s)" % s
    if k == "vec":
        v = "vec![%s]" % ",".join(rust_val(t["t"], y) for y in x[1])
        kind = t.get("kind", "Vec")
        if kind == "Vec":
            return "{let v: Vec<%s> = %s; v}" % (rust_ty(t["t"]), v)
        if kind == "BoxSlice":
            return "{let v: Vec<%s> = %s; v.into_boxed_slice()}" % (rust_ty(t["t"]), v)
        return "{let v: Vec<%s> = %s; let a: std::sync::Arc<[%s]> = v.into(); a}" % (rust_ty(t["t"]), v, rust_ty(t["t"]))
    if k == "seq":
        return "{let v: Vec<%s> = vec![%s]; std::collections::VecDeque::from(v)}" % (rust_ty(t["t"]), ",".join(rust_val(t["t"], y) for y in x[1]))
    if k == "array":
        return "[%s]" % ",".join(rust_val(t["t"], y) for y in x[1])
    if k == "arrayvec":
        return "{let mut a = arrayvec::ArrayVec::<%s, %d>::new(); %s a}" % (rust_ty(t["t"]), t["cap"], " ".join("a.push(%s);" % rust_val(t["t"], y) for y in x[1]))
    if k == "option":
        return "None" if x[0] == "none" else "Some(%s)" % rust_val(t["t"], x[1])
    if k == "result":
        return "Ok(%s)" % rust_val(t["a"], x[1]) if x[0] == "ok" else "Err(%s)" % rust_val(t["b"], x[1])
    if k == "box":
        kind = t.get("kind", "Box")
        p = {"Box": "Box", "Rc": "std::rc::Rc", "Arc": "std::sync::Arc", "RefCell": "std::cell::RefCell",
             "Mutex": "std::sync::Mutex", "RwLock": "std::sync::RwLock"}[kind]
        return "%s::new(%s)" % (p, rust_val(t["t"], x))
    if k == "cell":
        return "std::cell::Cell::new(%s)" % rust_val(t["t"], x)
    if k == "tuple":
        return "(" + "".join(rust_val(tt, y) + "," for tt, y in zip(t["ts"], x[1])) + ")"
    if k == "struct":
        return rust_fields_val(t["name"], t["fields"], x[1], t.get("tuple", False))
    if k == "enum":
        idx = x[1]
        v = t["variants"][idx]
        if not v["fields"]:
            return "%s::%s" % (t["name"], v["name"])
        return rust_fields_val("%s::%s" % (t["name"], v["name"]), v["fields"], x[2], not v.get("named", False))
    raise ValueError(k)


def rust_fields_val(path, fields, xs, is_tuple):
    parts = []
    for f, y in zip(fields, xs):
        if f["kind"] == "removed":
            e = "savefile::Removed::new()"
        elif f["kind"] == "abiremoved":
            e = "savefile::AbiRemoved::new()"
        else:
            e = rust_val(f["ty"], y)
        parts.append(e if is_tuple else "%s: %s" % (f["name"], e))
    if is_tuple:
        return "%s(%s)" % (path, ",".join(parts))
    return "%s{%s}" % (path, ",".join(parts))


# ------------------------------------------------------------------ Coq rendering

def cN(n):
    return str(n)


def coq_opt(o):
    return "None" if o is None else "(Some %d)" % o


def coq_lay(l, explicit=False, reprc=False):
    e = "true" if explicit else "false"
    c = "true" if reprc else "false"
    if l is None:
        return "(Lay' 0 0 [] %s %s)" % (e, c)
    return "(Lay' %d %d [%s] %s %s)" % (l["size"], l["align"], ";".join(str(o) for o in l["offs"]), e, c)


def coq_fdef(f):
    kind = {"normal": "FNormal", "removed": "FRemoved", "abiremoved": "FAbiRemoved", "ignored": "FIgnored"}[f["kind"]]
    dflt = coq_val(f["default"]) if f.get("default") is not None else "VUnit"
    return "(FD %s %d %s %s %s)" % (coq_ty(f["ty"]), f.get("from", 0), coq_opt(f.get("to")), kind, dflt)


def coq_ty(t):
    k = t["k"]
    if k == "int":
        return "(TInt %s)" % ITY[t["ity"]]
    if k in ("bool", "char", "f32", "f64", "unit", "string"):
        return {"bool": "TBool", "char": "TChar", "f32": "TF32", "f64": "TF64", "unit": "TUnit", "string": "TString"}[k]
    if k == "vec":
        return "(TVec %s)" % coq_ty(t["t"])
    if k == "seq":
        return "(TSeq %s)" % coq_ty(t["t"])
    if k == "array":
        return "(TArray %s %d)" % (coq_ty(t["t"]), t["n"])
    if k == "option":
        return "(TOption %s)" % coq_ty(t["t"])
    if k == "result":
        return "(TResult %s %s)" % (coq_ty(t["a"]), coq_ty(t["b"]))
    if k == "box":
        return "(TBox %s)" % coq_ty(t["t"])
    if k == "cell":
        return "(TCell %s)" % coq_ty(t["t"])
    if k == "tuple":
        return "(TTuple %s [%s])" % (coq_lay(t.get("lay")), ";".join(coq_ty(x) for x in t["ts"]))
    if k == "struct":
        return "(TStruct %s [%s])" % (coq_lay(t.get("lay")), ";".join(coq_fdef(f) for f in t["fields"]))
    if k == "enum":
        w = t.get("repr_bytes")
        voffs = t.get("voffs") or [[] for _ in t["variants"]]
        vs = ["(VD' [%s] %d %s [%s])" % (";".join(str(b) for b in v["name"].encode()), v.get("from", 0), coq_opt(v.get("to")), ";".join(coq_fdef(f) for f in v["fields"])) for v in t["variants"]]
        return "(TEnum %s %s [%s] [%s])" % (coq_opt(w), coq_lay(t.get("lay"), any(v.get("discr") is not None for v in t["variants"]), bool(t.get("reprc"))),
                                            ";".join("[" + ";".join(str(o) for o in vo) + "]" for vo in voffs), ";".join(vs))
    raise ValueError(k)


def coq_val(x):
    k = x[0]
    if k == "int":
        z = x[1]
        return "(VInt (%d))" % z if z < 0 else "(VInt %d)" % z
    if k == "str":
        return "(VStr [%s])" % ";".join(str(b) for b in x[1])
    if k == "seq":
        return "(VSeq [%s])" % ";".join(coq_val(y) for y in x[1])
    if k == "none":
        return "VNone"
    if k == "some":
        return "(VSome %s)" % coq_val(x[1])
    if k == "ok":
        return "(VOk %s)" % coq_val(x[1])
    if k == "err":
        return "(VErr %s)" % coq_val(x[1])
    if k == "rec":
        return "(VRec [%s])" % ";".join(coq_val(y) for y in x[1])
    if k == "var":
        return "(VVar %d [%s])" % (x[1], ";".join(coq_val(y) for y in x[2]))
    if k == "unit":
        return "VUnit"
    raise ValueError(k)


# ------------------------------------------------------------------ value generation

def default_val(t):
    """Default::default() of a Default-able type"""
    k = t["k"]
    if k in ("int", "bool", "f32", "f64"):
        return ("int", 0)
    if k == "char":
        return ("int", 0)
    if k == "string":
        return ("str", b"")
    if k in ("vec", "seq"):
        return ("seq", [])
    if k == "option":
        return ("none",)
    if k == "unit":
        return ("unit",)
    if k in ("box", "cell"):
        return default_val(t["t"])
    if k == "array":
        return ("seq", [default_val(t["t"]) for _ in range(t["n"])])
    if k == "tuple":
        return ("rec", [default_val(x) for x in t["ts"]])
    if k == "struct":
        return ("rec", [("unit",) if f["kind"] in ("removed", "abiremoved") else default_val(f["ty"]) for f in t["fields"]])
    raise ValueError("no Default for " + k)


def defaultable(t):
    k = t["k"]
    if k in ("int", "bool", "f32", "f64", "char", "string", "vec", "seq", "option", "unit"):
        return not (k == "vec" and t.get("kind", "Vec") == "ArcSlice" and False)
    if k in ("box", "cell"):
        return defaultable(t["t"]) and t.get("kind", "Box") in ("Box", "Rc", "Arc", "RefCell", "Mutex", "RwLock")
    if k == "array":
        return t["n"] <= 32 and defaultable(t["t"])
    if k == "tuple":
        return all(defaultable(x) for x in t["ts"])
    if k == "struct":
        return t.get("derive_default", False)
    return False


def gen_int(rng, ity):
    w, signed = INTS[ity]
    lo, hi = (-(1 << (8 * w - 1)), (1 << (8 * w - 1)) - 1) if signed else (0, (1 << (8 * w)) - 1)
    c = rng.random()
    if c < 0.35:
        return rng.choice([lo, hi, 0, 1, hi - 1, lo + 1 if signed else 2, 0x7f, 0x80, 0xff, 0x100]) if True else 0
    return rng.randint(lo, hi)


STRS = [b"", b"a", b"hello", "é".encode(), "日本語".encode(), b"x" * 63, b"y" * 64, b"z" * 65, "\U0001F600".encode(), b"\x00\x7f"]


def clampi(z, ity):
    w, signed = INTS[ity]
    lo, hi = (-(1 << (8 * w - 1)), (1 << (8 * w - 1)) - 1) if signed else (0, (1 << (8 * w)) - 1)
    return max(lo, min(hi, z))


def gen_val(rng, t, depth=0):
    k = t["k"]
    if k == "int":
        return ("int", clampi(gen_int(rng, t["ity"]), t["ity"]))
    if k == "bool":
        return ("int", rng.randint(0, 1))
    if k == "char":
        return ("int", rng.choice([0, 0x41, 0x7f, 0x80, 0x7ff, 0x800, 0xd7ff, 0xe000, 0xffff, 0x10000, 0x10ffff, rng.randint(0, 0xd7ff)]))
    if k == "f32":
        return ("int", rng.choice([0, 0x80000000, 0x3f800000, 0x7f800000, 0xff800000, 0x7fc00000, 0x7fc00001, 0xffc12345, 1, rng.getrandbits(32)]))
    if k == "f64":
        return ("int", rng.choice([0, 1 << 63, 0x3ff0000000000000, 0x7ff0000000000000, 0x7ff8000000000000, 0x7ff8000000000001, 0xfff8deadbeef0001, rng.getrandbits(64)]))
    if k == "unit":
        return ("unit",)
    if k == "string":
        return ("str", rng.choice(STRS))
    if k == "arrayvec":
        n = rng.randint(0, t["cap"])
        return ("seq", [gen_val(rng, t["t"], depth + 1) for _ in range(n)])
    if k in ("vec", "seq"):
        n = rng.choice([0, 0, 1, 2, 3, 5, 8] + ([63, 64, 65, 130] if depth == 0 and t["t"]["k"] in ("int", "bool", "char", "f32") else []))
        return ("seq", [gen_val(rng, t["t"], depth + 1) for _ in range(n)])
    if k == "array":
        return ("seq", [gen_val(rng, t["t"], depth + 1) for _ in range(t["n"])])
    if k == "option":
        return ("none",) if rng.random() < 0.3 else ("some", gen_val(rng, t["t"], depth + 1))
    if k == "result":
        return ("ok", gen_val(rng, t["a"], depth + 1)) if rng.random() < 0.5 else ("err", gen_val(rng, t["b"], depth + 1))
    if k in ("box", "cell"):
        return gen_val(rng, t["t"], depth + 1)
    if k == "tuple":
        return ("rec", [gen_val(rng, x, depth + 1) for x in t["ts"]])
    if k == "struct":
        return ("rec", gen_fields_val(rng, t["fields"], depth))
    if k == "enum":
        idx = rng.randrange(len(t["variants"]))
        return ("var", idx, gen_fields_val(rng, t["variants"][idx]["fields"], depth))
    raise ValueError(k)


def gen_fields_val(rng, fields, depth):
    out = []
    for f in fields:
        if f["kind"] in ("removed", "abiremoved"):
            out.append(("unit",))
        else:
            out.append(gen_val(rng, f["ty"], depth + 1))
    return out


def loaded_expectation(t, x):
    """the value a save + load of x returns: #[savefile_ignore]d fields are not stored and come back as Default"""
    k = t["k"]

    def fields(fs, xs):
        return [(f["default"] if f["kind"] == "ignored" else (y if f["kind"] in ("removed", "abiremoved") else loaded_expectation(f["ty"], y))) for f, y in zip(fs, xs)]
    if k in ("vec", "seq", "array", "arrayvec") and x[0] == "seq":
        return ("seq", [loaded_expectation(t["t"], y) for y in x[1]])
    if k == "option" and x[0] == "some":
        return ("some", loaded_expectation(t["t"], x[1]))
    if k == "result" and x[0] in ("ok", "err"):
        return (x[0], loaded_expectation(t["a"] if x[0] == "ok" else t["b"], x[1]))
    if k in ("box", "cell"):
        return loaded_expectation(t["t"], x)
    if k == "tuple" and x[0] == "rec":
        return ("rec", [loaded_expectation(u, y) for u, y in zip(t["ts"], x[1])])
    if k == "struct" and x[0] == "rec":
        return ("rec", fields(t["fields"], x[1]))
    if k == "enum" and x[0] == "var":
        return ("var", x[1], fields(t["variants"][x[1]]["fields"], x[2]))
    return x


def all_variants_vals(rng, t):
    """one value per variant for enums (so every variant is exercised)"""
    return [("var", i, gen_fields_val(rng, v["fields"], 1)) for i, v in enumerate(t["variants"])]


# ------------------------------------------------------------------ type generation

PRIMS_PACKED = ["u8", "i8", "u16", "i16", "u32", "i32", "u64", "i64", "u128", "i128"]


def gen_prim(rng, allow_usize=True):
    r = rng.random()
    if r < 0.62:
        return T("int", ity=rng.choice(PRIMS_PACKED + (["usize", "isize"] if allow_usize else [])))
    if r < 0.72:
        return T("bool")
    if r < 0.80:
        return T("char")
    if r < 0.90:
        return T("f32")
    return T("f64")


class Gen:
    def __init__(self, rng, prefix="G"):
        self.rng = rng
        self.items = []        # struct / enum definitions in dependency order
        self.prefix = prefix
        self.n = 0

    def fresh(self, kind):
        self.n += 1
        return "%s%s%d" % (self.prefix, kind, self.n)

    def gen_ty(self, depth, packed_bias=False, need_default=False, allow_cell=True):
        rng = self.rng
        if depth <= 0 or rng.random() < 0.3:
            if not packed_bias and rng.random() < 0.2:
                return T("string", kind=rng.choice(["String", "String", "ArcStr"]) if not need_default else "String")
            if rng.random() < 0.05 and not need_default:
                return T("unit")
            return gen_prim(rng)
        c = rng.random()
        if packed_bias:
            if c < 0.35:
                return gen_prim(rng, allow_usize=False)
            if c < 0.55:
                return T("array", t=self.gen_ty(depth - 1, True, need_default, allow_cell), n=rng.choice([0, 1, 2, 3, 4]))
            if c < 0.7:
                n = rng.choice([1, 2, 2, 3])
                same = gen_prim(rng, False)
                ts = [same if rng.random() < 0.7 else gen_prim(rng, False) for _ in range(n)]
                return T("tuple", ts=ts)
            if c < 0.78 and allow_cell and not need_default:
                return T("cell", t=gen_prim(rng, False))
            if c < 0.9:
                return self.gen_struct(depth - 1, packed_bias=True, need_default=need_default)
            return self.gen_enum(depth - 1, packed_bias=True) if not need_default else gen_prim(rng, False)
        if c < 0.16:
            return T("vec", t=self.gen_ty(depth - 1, rng.random() < 0.5), kind=rng.choice(["Vec", "Vec", "Vec", "BoxSlice", "ArcSlice"]) if not need_default else "Vec")
        if c < 0.21:
            return T("seq", t=self.gen_ty(depth - 1))
        if c < 0.30:
            return T("array", t=self.gen_ty(depth - 1, rng.random() < 0.5, need_default), n=rng.choice([0, 1, 2, 3, 5]))
        if c < 0.40:
            return T("option", t=self.gen_ty(depth - 1))
        if c < 0.45 and not need_default:
            return T("result", a=self.gen_ty(depth - 1), b=self.gen_ty(depth - 1))
        if c < 0.53:
            return T("box", t=self.gen_ty(depth - 1, False, need_default), kind=rng.choice(BOXKINDS))
        if c < 0.62:
            n = rng.choice([1, 2, 2, 3])
            return T("tuple", ts=[self.gen_ty(depth - 1, rng.random() < 0.4, need_default) for _ in range(n)])
        if c < 0.82:
            return self.gen_struct(depth - 1, packed_bias=rng.random() < 0.4, need_default=need_default)
        if need_default:
            return gen_prim(rng)
        return self.gen_enum(depth - 1, packed_bias=rng.random() < 0.5)

    def gen_struct(self, depth, packed_bias=False, need_default=False, nfields=None):
        rng = self.rng
        n = nfields if nfields is not None else rng.choice([0, 1, 2, 2, 3, 3, 4, 5])
        fields = []
        for i in range(n):
            fields.append({"name": "f%d" % i, "ty": self.gen_ty(depth, packed_bias, need_default), "from": 0, "to": None,
                           "kind": "normal", "default": None})
        repr_ = rng.choice(["C", "C", "Rust", "Rust"]) if packed_bias else rng.choice(["Rust", "Rust", "C"])
        t = T("struct", name=self.fresh("S"), repr=repr_, fields=fields, tuple=(rng.random() < 0.2 and n > 0),
              derive_default=need_default)
        for f in fields:
            f["default"] = default_val(f["ty"]) if defaultable(f["ty"]) else None
        self.items.append(t)
        return t

    def gen_enum(self, depth, packed_bias=False, nvariants=None):
        rng = self.rng
        nv = nvariants if nvariants is not None else rng.choice([1, 2, 3, 3, 4, 6])
        repr_ = rng.choice([None, None, "u8", "u8", "u16", "u32", "i8"]) if not packed_bias else rng.choice(["u8", "u8", "u16", "u32", "i16", None])
        reprc = repr_ is not None and rng.random() < 0.3
        variants = []
        # an enum with an explicit repr never mixes field-less and data-carrying variants in the random stream:
        # that class is known finding K13 (witness FixEMixed8 in the fixed corpus)
        allunit = repr_ is not None and rng.random() < 0.4
        if allunit:
            reprc = False        # rustc rejects #[repr(uN, C)] on a field-less enum (conflicting representation hints)
        for i in range(nv):
            if repr_ is not None:
                nf = 0 if allunit else rng.choice([1, 1, 2])
            else:
                nf = rng.choice([0, 0, 1, 2, 3]) if not packed_bias else rng.choice([0, 1, 1, 2])
            fields = []
            for j in range(nf):
                # no Cell in variant fields: the derive's Introspect for a variant with a #[savefile_introspect_ignore]d
                # field does not compile (pattern arity), and Cell has no Introspect impl
                ft = self.gen_ty(depth, packed_bias, allow_cell=False)
                fields.append({"name": "x%d" % j, "ty": ft, "from": 0, "to": None, "kind": "normal",
                               "default": default_val(ft) if defaultable(ft) else None})
            variants.append({"name": "V%d" % i, "from": 0, "to": None, "fields": fields, "named": rng.random() < 0.4 and nf > 0, "discr": None})
        t = T("enum", name=self.fresh("E"), repr=repr_, reprc=reprc, variants=variants,
              repr_bytes={None: None, "u8": 1, "i8": 1, "u16": 2, "i16": 2, "u32": 4, "i32": 4}[repr_])
        self.items.append(t)
        return t


# ------------------------------------------------------------------ Rust rendering of items

def attrs_for_field(f):
    a = []
    frm, to = f.get("from", 0), f.get("to")
    if f["kind"] == "ignored":
        a.append("#[savefile_ignore]")
    found = []
    walk_types(f["ty"], lambda x: found.append(1) if x["k"] == "cell" else None)
    if found:
        a.append("#[savefile_introspect_ignore]")     # Cell<T> has no Introspect impl
    if frm != 0 or to is not None:
        a.append('#[savefile_versions="%s..%s"]' % (frm if frm else "0", "" if to is None else to))
    mode = f.get("default_mode")
    if mode == "val":
        a.append('#[savefile_default_val="%s"]' % f["default_src"])
    elif mode == "fn":
        a.append('#[savefile_default_fn="%s"]' % f["default_src"])
    return " ".join(a)


def field_rust_ty(f):
    if f["kind"] == "removed":
        return "savefile::Removed<%s>" % rust_ty(f["ty"])
    if f["kind"] == "abiremoved":
        return "savefile::AbiRemoved<%s>" % rust_ty(f["ty"])
    return rust_ty(f["ty"])


def canon_fields(fields, accessor):
    parts = []
    for i, f in enumerate(fields):
        if f["kind"] in ("removed", "abiremoved"):
            parts.append('o.push_str("VUnit");')
        else:
            parts.append("%s.canon(o);" % accessor(i, f))
    out = []
    for i, p in enumerate(parts):
        if i:
            out.append('o.push(\';\');')
        out.append(p)
    return " ".join(out)


def rust_item(t):
    out = []
    if t["k"] == "struct":
        derives = "Savefile" + (", Default" if t.get("derive_default") else "")
        out.append("#[derive(%s)]" % derives)
        if t["repr"] == "C":
            out.append("#[repr(C)]")
        if t.get("tuple"):
            body = ", ".join("%s pub %s" % (attrs_for_field(f), field_rust_ty(f)) for f in t["fields"])
            out.append("pub struct %s(%s);" % (t["name"], body))
            acc = lambda i, f: "self.%d" % i
        else:
            body = " ".join("%s pub %s: %s," % (attrs_for_field(f), f["name"], field_rust_ty(f)) for f in t["fields"])
            out.append("pub struct %s {%s}" % (t["name"], body))
            acc = lambda i, f: "self.%s" % f["name"]
        out.append("impl Canon for %s { fn canon(&self, o: &mut String) { o.push_str(\"(VRec [\"); %s o.push_str(\"])\"); } }" % (
            t["name"], canon_fields(t["fields"], acc)))
        # layout probe
        offs = ", ".join("std::mem::offset_of!(%s, %s)" % (t["name"], (str(i) if t.get("tuple") else f["name"])) for i, f in enumerate(t["fields"]))
        out.append("impl Probe for %s { fn probe() -> String { format!(\"{} {} [{}]\", std::mem::size_of::<%s>(), std::mem::align_of::<%s>(), { let v: Vec<usize> = vec![%s]; v.iter().map(|x| x.to_string()).collect::<Vec<_>>().join(\",\") }) } }" % (
            t["name"], t["name"], t["name"], offs))
    else:
        out.append("#[derive(Savefile)]")
        if t["repr"]:
            out.append("#[repr(%s%s)]" % (t["repr"], ",C" if t.get("reprc") else ""))
        vs = []
        arms = []
        parms = []
        for i, v in enumerate(t["variants"]):
            vattr = ""
            if v.get("from", 0) != 0 or v.get("to") is not None:
                vattr = '#[savefile_versions="%s..%s"] ' % (v.get("from", 0), "" if v.get("to") is None else v["to"])
            d = (" = %d" % v["discr"]) if v.get("discr") is not None else ""
            if not v["fields"]:
                vs.append("%s%s%s," % (vattr, v["name"], d))
                arms.append('%s::%s => { o.push_str("(VVar %d [])"); }' % (t["name"], v["name"], i))
                parms.append('%s::%s => String::new(),' % (t["name"], v["name"]))
            elif v.get("named"):
                vs.append("%s%s {%s}%s," % (vattr, v["name"], " ".join("%s %s: %s," % (attrs_for_field(f), f["name"], field_rust_ty(f)) for f in v["fields"]), d))
                binds = ", ".join(f["name"] for f in v["fields"])
                arms.append('%s::%s{%s} => { o.push_str("(VVar %d ["); %s o.push_str("])"); }' % (
                    t["name"], v["name"], binds, i, canon_fields(v["fields"], lambda j, f: f["name"])))
                parms.append('%s::%s{%s} => { let b = self as *const _ as usize; let v: Vec<usize> = vec![%s]; v.iter().map(|x| x.to_string()).collect::<Vec<_>>().join(",") }' % (
                    t["name"], v["name"], binds, ", ".join("(%s as *const _ as usize) - b" % f["name"] for f in v["fields"])))
            else:
                vs.append("%s%s(%s)%s," % (vattr, v["name"], ", ".join("%s %s" % (attrs_for_field(f), field_rust_ty(f)) for f in v["fields"]), d))
                binds = ", ".join("b%d" % j for j in range(len(v["fields"])))
                arms.append('%s::%s(%s) => { o.push_str("(VVar %d ["); %s o.push_str("])"); }' % (
                    t["name"], v["name"], binds, i, canon_fields(v["fields"], lambda j, f: "b%d" % j)))
                parms.append('%s::%s(%s) => { let b = self as *const _ as usize; let v: Vec<usize> = vec![%s]; v.iter().map(|x| x.to_string()).collect::<Vec<_>>().join(",") }' % (
                    t["name"], v["name"], binds, ", ".join("(b%d as *const _ as usize) - b" % j for j in range(len(v["fields"])))))
        out.append("pub enum %s {%s}" % (t["name"], " ".join(vs)))
        out.append("impl Canon for %s { fn canon(&self, o: &mut String) { match self { %s } } }" % (t["name"], " ".join(arms)))
        out.append("impl %s { #[allow(unused_variables)] pub fn variant_offsets(&self) -> String { match self { %s } } }" % (t["name"], " ".join(parms)))
        out.append("impl Probe for %s { fn probe() -> String { format!(\"{} {} []\", std::mem::size_of::<%s>(), std::mem::align_of::<%s>()) } }" % (
            t["name"], t["name"], t["name"]))
    return "\n".join(out)


def walk_types(t, f):
    """apply f to every type node (pre-order)"""
    f(t)
    k = t["k"]
    if k in ("vec", "seq", "array", "option", "box", "cell", "arrayvec"):
        walk_types(t["t"], f)
    elif k == "result":
        walk_types(t["a"], f)
        walk_types(t["b"], f)
    elif k == "tuple":
        for x in t["ts"]:
            walk_types(x, f)
    elif k == "struct":
        for fd in t["fields"]:
            walk_types(fd["ty"], f)
    elif k == "enum":
        for v in t["variants"]:
            for fd in v["fields"]:
                walk_types(fd["ty"], f)


def render_gen_rs(items, roots, extra=""):
    """items: struct/enum definitions; roots: list of (type, [values]) — the root types of the cases.
    Produces the text of harness/src/gen/mod.rs."""
    out = ["// GENERATED by vp/tygen.py — do not edit.", "#![allow(non_camel_case_types, dead_code, unused_imports, unused_parens, unused_braces, unused_variables)]",
           "use savefile::prelude::*;", "use savefile_derive::Savefile;", "use crate::canon::{Canon, Probe};", "use crate::ops;", ""]
    seen = set()
    for it in items:
        if it["name"] in seen:
            continue
        seen.add(it["name"])
        out.append(rust_item(it))
    out.append(extra)
    # tuple layout probes
    tuples = []

    def collect(t):
        if t["k"] == "tuple":
            key = rust_ty(t)
            if key not in [x[0] for x in tuples]:
                tuples.append((key, t))
    for it in items:
        walk_types(it, collect)
    for r, _ in roots:
        walk_types(r, collect)
    out.append("pub fn tuple_probe(i: usize) -> String { match i {")
    for i, (key, t) in enumerate(tuples):
        offs = ", ".join("offset_of_tuple!(%s, %d)" % (key, j) for j in range(len(t["ts"])))
        out.append("  %d => { let v: Vec<usize> = vec![%s]; format!(\"{} {} [{}]\", std::mem::size_of::<%s>(), std::mem::align_of::<%s>(), v.iter().map(|x| x.to_string()).collect::<Vec<_>>().join(\",\")) }" % (i, offs, key, key))
    out.append("  _ => String::new() } }")
    out.append("pub fn item_probe(i: usize) -> String { match i {")
    names = []
    for it in items:
        if it["name"] not in names:
            names.append(it["name"])
    for i, n in enumerate(names):
        out.append("  %d => <%s as Probe>::probe()," % (i, n))
    out.append("  _ => String::new() } }")
    # enum variant offsets need a value of each variant
    out.append("pub fn variant_probe(i: usize, v: usize) -> String { match (i, v) {")
    rng = random.Random(12345)
    for i, n in enumerate(names):
        it = [x for x in items if x["name"] == n][0]
        if it["k"] == "enum":
            for vi, v in enumerate(it["variants"]):
                val = ("var", vi, gen_fields_val(rng, v["fields"], 3))
                out.append("  (%d, %d) => { let x: %s = %s; x.variant_offsets() }" % (i, vi, n, rust_val(it, val)))
    out.append("  _ => String::new() } }")
    # roots
    for i, (r, vals) in enumerate(roots):
        out.append("pub fn values_%d() -> Vec<%s> { vec![%s] }" % (i, rust_ty(r), ", ".join(rust_val(r, v) for v in vals)))
    out.append("pub fn dispatch(ty: usize, op: &str, toks: &[&str]) -> String { match ty {")
    for i, (r, vals) in enumerate(roots):
        rt = rust_ty(r)
        out.append("  %d => ops::%s::<%s>(op, toks, values_%d)," % (i, "run_base" if "Cell<" in rt else "run", rt, i))
    out.append("  _ => \"BAD-TYPE\".to_string() } }")
    return "\n".join(out) + "\n", tuples, names
