# Shared machinery for the ABI-side checks (C09 C10 C11 C15).
import re
from . import common as C
from . import tygen as TG
from . import gencrate as GC
from . import datacases as D

HEADER = ("From Coq Require Import String.\nFrom SFX Require Import Extracted.\nFrom SF Require Import Bytes Schema Ty HarnessTy HarnessC5 Abi HarnessAbi.\n"
          "Import ListNotations.\nOpen Scope string_scope.\nOpen Scope N_scope.\n"
          # Abi.vres also has constructors named VOk / VErr: in case files these names always mean the values of Result types
          "Notation VOk := Ty.VOk (only parsing).\nNotation VErr := Ty.VErr (only parsing).\n")


def cb(b):
    return "[" + ";".join(str(x) for x in b) + "]"


def defs_for(binary, fams):
    """definitions of every trait revision j at every version v <= j, as hex: {(f, j, v): hex}"""
    lines = []
    for fam in fams:
        for j in range(fam["nver"]):
            for v in range(j + 1):
                lines.append("d_%d_%d_%d abi_def %d %d %d" % (fam["id"], j, v, fam["id"], j, v))
    obs = C.run_harness(binary, lines)
    out = {}
    for k, o in obs.items():
        _, f, j, v = k.split("_")
        out[(int(f), int(j), int(v))] = o
    return out


def parse_call(o):
    """'OK <ret> @@ <log>' / 'PANIC <msg> @@ <log>' / 'CONNECT-ERR x'"""
    if o.startswith("CONNECT-ERR"):
        return ("connect-err", o.split(" ")[1] if " " in o else "", "")
    head, _, lg = o.partition(" @@ ")
    kind, _, rest = head.partition(" ")
    return (kind, rest, lg)


def logged_canon(lg, method):
    """canon of the (struct) argument the implementation logged for this method"""
    for ent in lg.split(" ;; "):
        if ent.startswith(method + " "):
            rest = ent[len(method) + 1:]
            if method == "mixed":
                m = re.match(r"7 (\(VRec .*\)) h", rest)
                return m.group(1) if m else None
            return rest
    return None
