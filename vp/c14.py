# C14 — encrypted files load only when intact and with the right password.
import random
from . import common as C
from . import tygen as TG
from . import gencrate as GC
from . import datacases as D

THEOREMS = ["C14_intact", "C14_tamper", "C14_truncate", "C14_wrong_password"]
HEADER = "From SF Require Import Bytes Crypto HarnessC8.\nImport ListNotations.\nOpen Scope N_scope.\n"


def run(chk, tier, seed):
    chk.obligations(THEOREMS, "C14")
    U, binary = GC.ensure(seed, tier)
    if U is None:
        chk.broken.append("harness does not build against /repo: " + binary[-1500:])
        return
    rng = random.Random(seed * 733 + 14)
    roots = D.roots_for(U, exclude=("k13bulk", "hist", "kf", "arrayvec", "ignored", "vervariant"))
    pick = rng.sample(roots, min(len(roots), 6 if tier == "quick" else 40))
    lines, meta = [], {}
    for ri, r in pick:
        vi = rng.randrange(len(r["vals"]))
        cid = "t%d_%d" % (ri, vi)
        lines.append("%s ty_tamper %d 0 %d %d" % (cid, ri, vi, 1 if tier == "thorough" else 2))
        meta[cid] = {"root": ri, "val": vi, "container": "crypto", "version": 0}
    # multi-chunk files: incompressible payloads of 1, 2 and 3+ chunks, boundary sizes
    bigs = [(120000, 1, 3001), (250000, 2, 4999)] if tier == "quick" else [(99000, 3, 997), (120000, 1, 499), (205000, 4, 997), (330000, 2, 1999)]
    for (size, sd, stride) in bigs:
        cid = "b%d" % size
        lines.append("%s crypto_big_tamper %d %d %d" % (cid, size, sd + seed, stride))
        meta[cid] = {"big": size}
    obs = C.run_harness(binary, lines, timeout=2400)
    tried = 0
    for cid, m in meta.items():
        o = obs.get(cid, "MISSING")
        if "big" in m and o.startswith("frames="):
            o2 = o.split(" ", 1)[1] if " " in o else ""
        else:
            o2 = o
        p = o2.split(" ", 2)         # the third field lists offenders and may contain spaces (passwords)
        if "big" in m:
            chk.cov.setdefault("frames_of_big_files", []).append(o.split(" ")[0])
        if len(p) != 3 or not p[0].isdigit():
            chk.violations.append(("tamper enumeration did not complete: " + o[:100], {"harness_line": [l for l in lines if l.startswith(cid + " ")][0]}))
            continue
        tried += int(p[1])
        chk.distinct.add((cid.split("_")[0], p[0]))
        if p[2] != "-":
            offenders = p[2].split(",")
            what = offenders[0]
            desc = ("a modified / truncated encrypted file, or a wrong password, does not yield an error: %s (%d offending cases of %s tried)" % (what, len(offenders), p[1]))
            chk.violations.append((desc, {"harness_line": [l for l in lines if l.startswith(cid + " ")][0], "offenders": offenders[:40],
                                          "input": D.describe(U, m) if "root" in m else {"payload_bytes": m["big"]}}))
    chk.add_eval(tried)
    # frame structure against the writer model
    progs = ["w100000", "w100001", "w99999,w1", "w1,f,w100000,w100000", "w300001"]
    fl = ["f%d crypto_frames %s" % (i, p) for i, p in enumerate(progs)]
    fo = C.run_harness(binary, fl, timeout=600)
    terms = []
    for i, p in enumerate(progs):
        q = fo.get("f%d" % i, "").split(" ")
        if len(q) != 3 or q[0] != "SAME":
            chk.violations.append(("the encrypted stream does not decrypt to the bytes written", {"harness_line": fl[i], "observed": " ".join(q)[:100]}))
            continue
        ops = "[" + ";".join("None" if x == "f" else "Some %s" % x[1:] for x in p.split(",")) + "]"
        terms.append((i + 1, "agree_frames %s [%s] %s" % (ops, ";".join(x for x in q[2].split(",") if x != "-"), q[1])))
    bad, errs = C.coq_eval_bad("C14", HEADER, terms, shard=60)
    for ids, out in errs:
        chk.broken.append("correspondence shard failed to evaluate: " + out[-300:])
    for i in bad:
        chk.broken.append("correspondence C14: frame structure for write program %s differs from the model" % progs[i - 1])
    chk.cov["traces_validated_against_impl"] += len(terms)
    chk.cov["exhaustive"] = tier == "thorough"
    # truncation at a frame boundary that removes only the tail of the compressed stream (the bzip2 trailer travels in a
    # frame of its own): must be an error for every payload size
    tl = ["T%d crypto_tail_search %d %d %d" % (k, a, a + (40 if tier == "quick" else 400), seed + k) for k, a in enumerate((0, 1, 13, 1000, 50000, 99960, 100180, 199480))]
    tobs = C.run_harness(binary, tl, timeout=900)
    ntail = 0
    for l in tl:
        o = tobs.get(l.split(" ")[0], "MISSING")
        if " | " not in o:
            chk.violations.append(("the trailing-frame truncation search did not complete: " + o[:80], {"harness_line": l}))
            continue
        for ent in o.split(" | ", 1)[1].split(" ; "):
            if ent:
                ntail += 1
                if "-> ERR-" not in ent:
                    chk.violations.append(("an encrypted file truncated at its last frame boundary is not rejected: " + ent, {"harness_line": l, "observed": o[:300]}))
    chk.add_eval(ntail)
    chk.cov["trailing_frame_truncations"] = ntail
    # the encryption layer used as a stream (CryptoWriter / CryptoReader around an UNCOMPRESSED save, so that no second
    # container shields it): multi-chunk payloads cut at every chunk boundary +-2 and at a stride
    sl = ["X%d crypto_stream_cuts %d %d %d" % (k, n_, seed + k, 4999 if tier == "quick" else 499) for k, n_ in enumerate((10, 100000, 150000, 250000))]
    sobs_ = C.run_harness(binary, sl, timeout=900)
    ncuts_ = 0
    for l in sl:
        o = sobs_.get(l.split(" ")[0], "MISSING")
        p_ = o.split(" ")
        if len(p_) != 3 or not p_[0].isdigit():
            chk.violations.append(("cutting an encrypted stream did not complete: " + o[:80], {"harness_line": l}))
            continue
        ncuts_ += len(p_[1])
        if p_[2] != "-":
            chk.violations.append(("a strict prefix of an encrypted stream (%s bytes, cut at a chunk boundary or elsewhere) %s: %s" % (p_[0], "loads to a DIFFERENT value" if "D" in p_[1] else "panics", p_[2]),
                                   {"harness_line": l, "classes": p_[1][:400]}))
    chk.add_eval(ncuts_)
    chk.cov["encrypted_stream_cuts"] = ncuts_
    chk.cov["rule"] = ("encrypted saves of sampled values: every (quick: every 2nd) byte position x 3 replacement values, every truncation length, 8 wrong passwords incl. "
                       "prefixes/suffixes of the right one; multi-chunk files of incompressible data with all header, length-field and tag bytes and a strided sweep; "
                       "oracle: always an error, never a value, never a panic; frame structure compared with the CryptoWriter model in Coq")
    for cid in list(meta)[:3]:
        chk.sample({"case": cid, "observed": obs.get(cid, "")[:120]})
