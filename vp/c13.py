# C13 — schema values persist exactly; comparison reflexive and complete.
import random
from . import common as C
from . import schema_gen as G

THEOREMS = ["C13_rt2", "C13_rt1", "C13_v0", "C13_refl", "C13_complete", "C13_shape_iff",
            "C13_prim_changed", "C13_field_added", "C13_array_len_changed", "C13_option_wrapped",
            "C13_vector_wrapped", "C13_width_changed",
            "C13_rt1_refuted", "C13_refl_refuted_undefined", "C13_trait_plus_rejected", "C13_reader_no_panic",
            "C13_tables_agree", "C13_gates_agree", "C13_hypotheses_satisfiable"]

HEADER = "From Coq Require Import String.\nFrom SF Require Import Bytes Schema Harness.\nImport ListNotations.\nOpen Scope string_scope.\nOpen Scope N_scope.\n"

ERRS = {"EEof", "EGeneral", "EUtf8", "EWrongVersion", "EInvalidChar", "ESchema", "ELayout", "EOther"}


def obs_de_term(o):
    p = o.split()
    if p[0] == "OK":
        return '(ODeOk %s (unhex "%s"))' % (p[1], "" if p[2] == "-" else p[2])
    if p[0] == "ERR":
        return "(ODeErr %s)" % (p[1] if p[1] in ERRS else "EOther")
    if p[0] == "PANIC":
        return "ODePanic"
    return None


def hexlit(h):
    return '(unhex "%s")' % ("" if h == "-" else h)


def mutate_bytes(rng, b):
    b = bytearray(b)
    out = []
    if not b:
        return [bytes(b)]
    for _ in range(3):
        c = bytearray(b)
        i = rng.randrange(len(c))
        c[i] = rng.choice([0, 1, 2, 5, 9, 18, 0x2b, 0x7f, 0x80, 0xff, (c[i] + 1) % 256])
        out.append(bytes(c))
    out.append(bytes(b[:rng.randrange(len(b))]))
    c = bytearray(b)
    i = rng.randrange(len(c))
    c[i:i + 1] = bytes([0xff] * 8)
    out.append(bytes(c))
    return out


def run(chk, tier, seed):
    rng = random.Random(seed * 7919 + 13)
    chk.obligations(THEOREMS, "C13")
    binary, out = C.build_harness()
    if not binary:
        chk.broken.append("harness does not build against /repo: " + out[-1500:])
        return
    nrand = 70 if tier == "quick" else 2000
    general = [G.gen_schema(rng, rng.choice([1, 2, 2, 3]), {"no_undef": True, "no_future": True}) for _ in range(nrand)]
    general += [G.gen_schema(rng, rng.choice([1, 2, 3]), {}) for _ in range(nrand // 3)]
    v1 = [G.gen_schema(rng, rng.choice([1, 2, 3]), {"v1": True}) for _ in range(nrand // 2)]
    data = [G.gen_schema(rng, rng.choice([1, 2, 3, 4]), {"data_only": True}) for _ in range(nrand)]
    if tier == "thorough":
        data += G.enumerate_small(4)
    else:
        data += G.enumerate_small(2)

    lines, meta = [], {}
    cid = [0]

    def add(op, args, m):
        cid[0] += 1
        lines.append("%d %s %s" % (cid[0], op, " ".join(args)))
        meta[str(cid[0])] = m
        return cid[0]

    for s in general + data[:len(data) // 2]:
        add("schema_ser", ["2"] + G.tokens(s), ("ser", 2, s))
        add("schema_ser", ["1"] + G.tokens(s), ("ser", 1, s))
        add("schema_rt", ["2"] + G.tokens(s), ("rt", 2, s))
    for s in v1 + data[:60]:
        add("schema_ser", ["1"] + G.tokens(s), ("ser", 1, s))
        add("schema_rt", ["1"] + G.tokens(s), ("rt", 1, s))
    refl = [s for s in general[:nrand] + data]
    for s in refl:
        for rp in (0, 1):
            add("schema_diff", [str(rp)] + G.tokens(s) + G.tokens(s), ("refl", rp, s))
    nmut = 0
    for s in data:
        pos = list(G.positions(s))
        for _ in range(2 if tier == "quick" else 4):
            path, node = rng.choice(pos)
            eds = G.edits_of(node, rng)
            kind, new = rng.choice(eds)
            m = G.replace_at(s, path, new)
            rp = rng.randrange(2)
            add("schema_diff", [str(rp)] + G.tokens(s) + G.tokens(m), ("mut", rp, s, m, kind))
            add("schema_diff", [str(rp)] + G.tokens(m) + G.tokens(s), ("mut", rp, m, s, kind))
            nmut += 1
    # layout_compatible rides along (C11 uses the same model)
    obs = C.run_harness(binary, lines)

    # second pass: decode (possibly malformed) byte strings
    lines2, meta2 = [], {}
    for i, m in meta.items():
        if m[0] == "ser" and obs.get(i, "").startswith("OK "):
            h = obs[i].split()[1]
            b = bytes.fromhex("" if h == "-" else h)
            fv = m[1]
            muts = [b + b"\x07"] + (mutate_bytes(rng, b) if rng.random() < 0.5 else [])
            for mb in muts:
                cid[0] += 1
                lines2.append("%d schema_de %d %s" % (cid[0], fv, mb.hex() or "-"))
                meta2[str(cid[0])] = ("de", fv, mb)
    # format 0: the model's ser0 bytes, decoded by the real reader
    v0 = [s for s in data[:150 if tier == "quick" else 3000]]
    vals, vout = C.coq_eval_values("C13_ser0", HEADER, ["ser0 %s" % G.coq(s) for s in v0])
    import re
    for s, v in zip(v0, vals):
        if v is None:
            chk.broken.append("model evaluation of ser0 failed: " + vout[-400:])
            break
        body = v.split(":")[0]
        nums = [int(x) for x in re.findall(r"\d+", body.split("=", 1)[1])] if "=" in body else []
        b = bytes(nums)
        cid[0] += 1
        lines2.append("%d schema_de 0 %s" % (cid[0], b.hex() or "-"))
        meta2[str(cid[0])] = ("de0", 0, b, s)
        for mb in (mutate_bytes(rng, b)[:2] if rng.random() < 0.3 else []):
            cid[0] += 1
            lines2.append("%d schema_de 0 %s" % (cid[0], mb.hex() or "-"))
            meta2[str(cid[0])] = ("de", 0, mb)
    obs2 = C.run_harness(binary, lines2)

    # ---- correspondence: the model evaluated in Coq against every observation
    terms = []
    kinds = {}
    for i, m in meta.items():
        o = obs.get(i, "MISSING")
        k = m[0]
        kinds[k] = kinds.get(k, 0) + 1
        if k == "ser":
            if o.startswith("OK "):
                terms.append((int(i), "wfs %s && agree_ser %d %s %s" % (G.coq(m[2]), m[1], G.coq(m[2]), hexlit(o.split()[1]))))
            else:
                terms.append((int(i), "false"))
        elif k in ("refl", "mut"):
            a, b = (m[2], m[2]) if k == "refl" else (m[2], m[3])
            d = {"SAME": "DSame", "DIFF": "DDiff"}.get(o.split()[0], "DPanic" if o.startswith("PANIC") else None)
            terms.append((int(i), "agree_diff %s %s %s %s" % (G.coq(a), G.coq(b), "true" if m[1] else "false", d) if d else "false"))
    for i, m in meta2.items():
        o = obs2.get(i, "MISSING")
        t = obs_de_term(o)
        kinds[m[0]] = kinds.get(m[0], 0) + 1
        if t is None:
            terms.append((int(i), "false"))
        elif m[0] == "de":
            terms.append((int(i), "agree_de %d %s %s" % (m[1], hexlit(m[2].hex() or "-"), t)))
        else:
            terms.append((int(i), "agree_de 0 %s %s && agree_de0_strip %s %s" % (hexlit(m[2].hex() or "-"), t, G.coq(m[3]), t)))
    bad, errs = C.coq_eval_bad("C13", HEADER, terms)
    allmeta = dict(meta)
    allmeta.update(meta2)
    allobs = dict(obs)
    allobs.update(obs2)
    for ids, out in errs:
        chk.broken.append("correspondence shard failed to evaluate (cases %s..): %s" % (ids[:3], out[-300:]))
    for i in bad[:20]:
        m = allmeta[str(i)]
        chk.broken.append("correspondence C13 case %d kind=%s: model and implementation disagree; impl observed %s; input %s" % (
            i, m[0], allobs.get(str(i), "")[:200], describe(m)[:600]))
    chk.cov["traces_validated_against_impl"] += len(terms)
    chk.cov["disagreements"] = len(bad)

    # ---- direct oracle on the implementation (the property itself)
    for i, m in allmeta.items():
        o = allobs.get(i, "MISSING")
        k = m[0]
        fail = None
        if k == "rt" and o != "OK 1 1":
            fail = "schema does not survive write+read at format %d: %s" % (m[1], o)
        elif k == "refl" and o != "SAME":
            fail = "diff_schema(s, s) reports %s" % o
        elif k == "mut" and G.py_shape(m[2]) != G.py_shape(m[3]) and o != "DIFF":
            fail = "single edit '%s' altering the wire layout not reported (%s)" % (m[4], o)
        elif k == "mut" and G.py_shape(m[2]) == G.py_shape(m[3]) and o != "SAME":
            fail = None  # a name-only change; not a wire-layout change (never generated)
        elif k == "de0":
            pass  # judged in Coq (agree_de0_strip); failure shows up as disagreement and below
        elif o.startswith("ABORT") or o.startswith("TIMEOUT") or o == "MISSING":
            fail = "implementation aborted/hung: " + o
        if fail:
            chk.violations.append((fail, {"op": k, "input": describe(m), "harness_line": find_line(lines + lines2, i), "observed": o}))
        chk.distinct.add((k, G.py_shape(m[2]) if k not in ("de", "de0") else m[2][:24]))
    # de0 property-level failures: identify which disagreeing cases are de0 with an Ok of the wrong schema
    for i in bad:
        m = allmeta[str(i)]
        if m[0] == "de0":
            chk.violations.append(("format-0 schema section does not decode to the schema minus layout annotations",
                                   {"op": "de0", "input": describe(m), "observed": allobs.get(str(i))}))
    chk.add_eval(len(allmeta))
    chk.cov["case_kinds"] = kinds
    chk.cov["rule"] = ("seeded random schema trees (all 20 variants, depth<=4) and exhaustive small trees of the data fragment; "
                       "ops: write at formats 1/2, read back, read of mutated/truncated bytes at formats 0/1/2, format-0 bytes from the model's ser0, "
                       "diff(s,s), diff(s, single-edit mutant) both directions; distinct = (op kind, wire shape or byte prefix)")
    for i in list(meta)[:3] + list(meta2)[:2]:
        m = allmeta[i]
        chk.sample({"case": i, "kind": m[0], "input": describe(m)[:300], "observed": allobs.get(i, "")[:120]})

    # ---- known findings: replay the listed witnesses on the real code
    kf_lines = [
        ("K7a", "900001 schema_diff 0 Un Un", lambda o: o == "DIFF", "diff_schema(Undefined, Undefined) reports a difference (reflexivity fails for Undefined)"),
        ("K7b", "900002 schema_diff 0 Fu 54 0 0 0 0 0 0 Fu 54 0 0 0 0 0 0", lambda o: o.startswith("PANIC"), "diff_schema on a Future outside return position panics"),
        ("F17", "900003 schema_de 2 %s" % (bytes([15, 1]) + (5).to_bytes(8, "little") + b"T+Foo" + (0).to_bytes(8, "little")).hex(),
         lambda o: o.startswith("PANIC"), "stored trait name with an unknown +segment panics the schema reader"),
        ("K10s", "900004 schema_rt 1 Tr 0 54 1 66 Ze 1 0 0 0 0", lambda o: o == "OK 0 1", "format 1 drops receiver/async of trait methods (Mut receiver reads back as Shared)"),
    ]
    kobs = C.run_harness(binary, [l for _, l, _, _ in kf_lines])
    listed = {e["id"]: e for e in C.known_findings("C13")}
    for (kid, line, pred, what) in kf_lines:
        o = kobs.get(line.split()[0], "")
        still = pred(o)
        if kid in listed and listed[kid].get("status") == "open":
            if still:
                chk.known_lines.append("%s: %s" % (kid, what))
            else:
                chk.info.append("known finding %s no longer reproduces (observed %s)" % (kid, o))
        elif still:
            chk.violations.append((what, {"harness_line": line, "observed": o}))


def describe(m):
    k = m[0]
    if k in ("ser", "rt"):
        return "format %d schema %s" % (m[1], " ".join(G.tokens(m[2])))
    if k == "refl":
        return "rp=%d a=b=%s" % (m[1], " ".join(G.tokens(m[2])))
    if k == "mut":
        return "rp=%d edit=%s a=%s b=%s" % (m[1], m[4], " ".join(G.tokens(m[2])), " ".join(G.tokens(m[3])))
    if k in ("de", "de0"):
        return "format %d bytes %s" % (m[1], m[2].hex())
    return str(m)


def find_line(lines, i):
    for l in lines:
        if l.startswith(str(i) + " "):
            return l
    return None
