# C16 — ABI connections are safe to create and use concurrently (partial: see DESIGN.md §5 C16).
import random
from concurrent.futures import ThreadPoolExecutor
from . import common as C
from . import gencrate as GC

THEOREMS = ["C16_no_deadlock", "C16_mutual_exclusion", "C16_steps_decrease", "C16_termination", "C16_results_schedule_independent",
            "C16_linearizable", "C16_per_thread_results", "C16_lock_order", "C16_source_lock_order", "C16_source_send_sync_bounds"]
HEADER = ("From SF Require Import Bytes Locks HarnessC16.\nImport ListNotations.\nOpen Scope N_scope.\n")

SCENARIOS = ["prims", "frame60", "frame61", "frame68", "nested_tuples", "rec_by_val", "rec_by_ref", "pod_by_ref", "strs", "slices", "res", "opt",
             "call_fn", "call_fnmut", "take_boxed_fn", "take_boxed_trait", "make_counter", "make_closure", "mutate", "many_args",
             "panic_literal", "panic_formatted"]
NESTED = ["call_fn", "call_fnmut", "take_boxed_fn", "take_boxed_trait", "make_counter", "make_closure"]
METHODS = ["echo", "by_ref", "mixed", "passable", "gone"]


def gen_prog(rng, fams, nops):
    ops = []
    for _ in range(nops):
        r = rng.random()
        if r < 0.55:
            fam = rng.choice(fams)
            ops.append("abi_call %d %d %d %s %d" % (fam["id"], rng.randrange(fam["nver"]), rng.randrange(fam["nver"]), rng.choice(METHODS), rng.randrange(2)))
        elif r < 0.85:
            ops.append("abi_fixed %s" % rng.choice(NESTED))
        else:
            ops.append("abi_fixed %s" % rng.choice(SCENARIOS))
    return ops


def enc(progs):
    return "|".join(";".join(o.replace(" ", "+") for o in p) for p in progs)


def split_out(o):
    body, _, log = o.partition(" LOCKLOG ")
    return [t.split(" ## ") for t in body.split(" %% ")], log


def parse_log(log):
    out = []
    for e in log.split(","):
        if e:
            t, w, k = e.split(".")
            out.append((int(t), int(w), int(k)))
    return out


def mutex_violation(ev):
    """direct check on the log: two holders of one lock, or a release by a non-holder"""
    owner = {}
    for n, (t, w, k) in enumerate(ev):
        if k == 1:
            if w in owner:
                return "event %d: thread %d acquires lock %d while thread %d holds it" % (n, t, w, owner[w])
            owner[w] = t
        elif k == 2:
            if owner.get(w) != t:
                return "event %d: thread %d releases lock %d held by %s" % (n, t, w, owner.get(w))
            del owner[w]
    return None


def run(chk, tier, seed):
    chk.obligations(THEOREMS, "C16")
    U, binary = GC.ensure(seed, tier)
    if U is None:
        chk.broken.append("harness does not build against /repo: " + binary[-1500:])
        return
    hook_bin, hout = C.build_harness(hook=True)
    if not hook_bin:
        chk.broken.append("harness does not build with --cfg avl_savefile_verif: " + hout[-800:])
    rng = random.Random(seed * 104729 + 16)
    fams = U["families"]
    ncases = 24 if tier == "quick" else 160
    cases = []
    # first-use races on one key, on many keys, nested creations, and random mixes
    f0 = fams[0]
    cases.append([["abi_call %d 0 0 echo 0" % f0["id"]]] * 8)
    cases.append([["abi_call %d %d %d echo 0" % (f0["id"], i % f0["nver"], j % f0["nver"])] for i in range(3) for j in range(3)][:8])
    cases.append([["abi_fixed %s" % s] for s in NESTED] + [["abi_fixed call_fn"], ["abi_fixed make_counter"]])
    cases.append([["abi_fixed %s" % s, "abi_call %d 0 0 mixed 1" % f0["id"]] for s in NESTED[:4]] * 2)
    # the same first-use races again, each in its own fresh process
    for _ in range(10 if tier == "quick" else 120):
        fam = rng.choice(fams)
        i, j = rng.randrange(fam["nver"]), rng.randrange(fam["nver"])
        cases.append([["abi_call %d %d %d %s 0" % (fam["id"], i, j, rng.choice(METHODS))]] * rng.choice([4, 8, 16]))
        cases.append([["abi_fixed %s" % rng.choice(NESTED)]] * rng.choice([4, 8]))
    ncases += len(cases)
    while len(cases) < ncases:
        nt = rng.choice([2, 3, 4, 6, 8, 12, 16])
        cases.append([gen_prog(rng, fams, rng.randint(1, 5)) for _ in range(nt)])

    def one(arg):
        k, progs = arg
        e = enc(progs)
        # (address-space limit raised: every thread reserves its stack)
        par = C.run_harness(binary, ["p conc par %s" % e], timeout=60, mem_gb=16).get("p", "MISSING")
        seq = C.run_harness(binary, ["s conc seq %s" % e], timeout=60, mem_gb=16).get("s", "MISSING")
        hk = C.run_harness(hook_bin, ["h conc par %s" % e], timeout=60, mem_gb=16).get("h", "MISSING") if hook_bin else ""
        return k, par, seq, hk

    # in batches: once a few runs have hung there is no point in waiting for the watchdog another hundred times
    results, todo = [], list(enumerate(cases))
    with ThreadPoolExecutor(max_workers=4) as ex:
        while todo:
            batch, todo = todo[:8], todo[8:]
            results += list(ex.map(one, batch))
            if sum(1 for r in results if r[1].startswith("HANG") or r[3].startswith("HANG")) >= 3:
                chk.info.append("stopped after %d of %d cases: several runs hung" % (len(results), len(cases)))
                break
    terms = []
    nops = nthreads = nevents = 0
    sizes = {}
    for k, par, seq, hk in results:
        progs = cases[k]
        line = "conc par %s" % enc(progs)
        nthreads += len(progs)
        sizes[len(progs)] = sizes.get(len(progs), 0) + 1
        for name, o in (("concurrent", par), ("hooked concurrent", hk)):
            if o.startswith("HANG") or o in ("TIMEOUT", "MISSING") or o.startswith("ABORT") or o.startswith("THREAD-DIED"):
                if name == "hooked concurrent" and not hook_bin:
                    continue
                chk.violations.append(("%d threads creating and using connections do not complete (%s run): %s" % (len(progs), name, o[:120]), {"harness_line": line, "programs": progs}))
        if " %% " not in seq and len(progs) > 1:
            chk.broken.append("the sequential reference run of case %d did not complete: %s" % (k, seq[:100]))
            continue
        sres, _ = split_out(seq)
        for name, o in (("concurrent", par), ("hooked concurrent", hk)):
            if not o or " %% " not in o and len(progs) > 1:
                continue
            pres, log = split_out(o)
            for ti, (a, b) in enumerate(zip(pres, sres)):
                for oi, (x, y) in enumerate(zip(a, b)):
                    nops += 1
                    if x != y:
                        chk.violations.append(("operation '%s' of thread %d returns a different result when %d threads run concurrently than when the same operations run one after another" % (progs[ti][oi], ti, len(progs)),
                                               {"harness_line": line, "programs": progs, "concurrent": x[:300], "sequential": y[:300]}))
                        break
                if len(a) != len(b):
                    chk.violations.append(("thread %d completed %d of %d operations in the %s run" % (ti, len(a), len(b), name), {"harness_line": line, "programs": progs}))
            if name == "hooked concurrent":
                ev = parse_log(log)
                nevents += len(ev)
                mv = mutex_violation(ev)
                if mv:
                    chk.violations.append(("the lock event log of a %d-thread run violates mutual exclusion: %s" % (len(progs), mv), {"harness_line": line, "programs": progs, "log": log[:2000]}))
                for ti, p in enumerate(progs):
                    got = sum(1 for t, w, kk in ev if t == ti and w == 2 and kk == 1)
                    if got < len(pres[ti]) and len(pres[ti]) == len(p):
                        chk.broken.append("case %d: thread %d created connections in %d operations but took the template lock only %d times (the lock programs of Locks.v no longer describe the code)" % (k, ti, len(p), got))
                if any(t < 0 for t, _, _ in ev):
                    chk.broken.append("lock events from an unknown thread in case %d" % k)
                terms.append((k, "trace_conforms %d (mk_trace [%s])" % (len(progs), ";".join("(%d,%d,%d)" % e for e in ev))))
        chk.distinct.add(tuple(tuple(p) for p in progs))
    # the compile-time contract: AbiConnection<dyn I> is Send exactly when I: Send and Sync exactly when I: Sync
    bo = C.run_harness(binary, ["b abi_bounds"]).get("b", "MISSING")
    chk.cov["send_sync_bounds"] = bo
    if bo != "00 10 01 11":
        chk.violations.append(("AbiConnection<dyn I> has the wrong Send/Sync bounds: observed (Send,Sync) = %s for I plain / I: Send / I: Sync / I: Send + Sync, expected 00 10 01 11 "
                               "(a connection to an interface that is not Sync must not be shareable between threads)" % bo, {"harness_line": "b abi_bounds"}))
    # shared connection
    shared = []
    hung = sum(1 for r in results if r[1].startswith("HANG") or r[3].startswith("HANG")) >= 3
    for n, m in ([] if hung else [(2, 50), (8, 200), (16, 100)] if tier == "quick" else [(2, 50), (4, 500), (8, 1000), (16, 500), (32, 200), (48, 50)]):
        for b, nm in ((binary, "plain"), (hook_bin, "hooked")):
            if not b:
                continue
            o = C.run_harness(b, ["c conc_shared %d %d %d" % (n, m, seed)], timeout=200, mem_gb=16).get("c", "MISSING")
            body, _, log = o.partition(" LOCKLOG ")
            shared.append((n, m, nm, body[:60]))
            if not body.startswith("OK "):
                chk.violations.append(("%d threads calling through one shared AbiConnection (%d calls each, closures and boxed trait objects among the arguments): %s" % (n, m, body[:200]),
                                       {"harness_line": "conc_shared %d %d %d" % (n, m, seed), "binary": nm}))
            else:
                nops += n * m
            if nm == "hooked" and log:
                ev = parse_log(log)
                nevents += len(ev)
                mv = mutex_violation(ev)
                if mv:
                    chk.violations.append(("the lock event log of %d threads sharing a connection violates mutual exclusion: %s" % (n, mv), {"harness_line": "conc_shared %d %d %d" % (n, m, seed)}))
                # the creating thread is not one of the n workers: map thread -1 (main) to index n
                ev2 = [(t if t >= 0 else n, w, k) for t, w, k in ev]
                if len(ev2) <= 6000:
                    terms.append((1000 + n, "trace_conforms %d (mk_trace [%s])" % (n + 1, ";".join("(%d,%d,%d)" % e for e in ev2))))
    bad, errs = C.coq_eval_bad("C16", HEADER, terms, shard=8)
    for ids, out in errs:
        chk.broken.append("trace shard failed to evaluate (cases %s..): %s" % (ids[:3], out[-400:]))
    for i in bad[:6]:
        chk.broken.append("correspondence C16 case %d: the lock event log of the real run is not an interleaving of the model's lock programs (Locks.prog_of): %s" % (i, ("conc par " + enc(cases[i]))[:300] if i < 1000 else "conc_shared %d" % (i - 1000)))
    chk.cov["traces_validated_against_impl"] += len(terms)
    chk.add_eval(len(cases) * 3 + len(shared))
    chk.cov["schedules_explored"] = len(cases) * 2 + len(shared)
    chk.cov["rule"] = ("fresh processes in which 2..16 threads start behind a barrier and create connections (first use and cached, %d generated interface families x version pairs, "
                       "closure / boxed-trait scenarios that create further connections inside calls) and call through them; every operation's result compared with the same operations "
                       "performed one after another in a fresh process; a watchdog reports hangs; N threads calling through one shared connection compared with direct calls; with the "
                       "cfg-guarded hook the log of lock request/acquire/release events is checked for mutual exclusion and, inside Coq, for being an interleaving of Locks.prog_of" % len(fams))
    chk.cov["input_distribution"] = {"cases_by_threads": sizes, "operations_compared": nops, "threads": nthreads, "lock_events": nevents, "shared_connection_runs": shared}
    chk.cov["not_covered"] = ("the OS scheduler picks the interleavings: the runs sample schedules, the theorems cover all schedules of the lock-level model only; data races inside unsafe code and "
                              "the memory model are not modelled; load_shared_library (ENTRY_CACHE/LIBRARY_CACHE) is covered by the model and the extracted lock order, not by runs (no dylib)")
    for k in range(min(3, len(cases))):
        chk.sample({"case": k, "threads": len(cases[k]), "line": ("conc par " + enc(cases[k]))[:200], "observed": results[k][1][:120]})
