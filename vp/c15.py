# C15 — the ABI compatibility ledger accepts compatible and rejects breaking changes.
import random
from . import common as C
from . import tygen as TG
from . import gencrate as GC
from . import datacases as D
from . import abichecks as A

THEOREMS = ["C15_ledger_inv", "C15_accept_iff", "C15_idempotent", "C15_selfcompat_sync", "C15_removed_method", "C15_arg_count", "C15_added_methods", "C15_async_refuted"]


def parse_ledger(o):
    res, _, files = o.partition(" | ")
    results = [{"ok": 0, "panic": 2}.get(r, 1) for r in res.split(",") if r]
    fl = []
    for ent in files.split(" "):
        if "=" in ent:
            name, h = ent.split("=")
            ver = int(name.rsplit("_", 1)[1].split(".")[0])
            fl.append((ver, h))
    return results, fl


def run(chk, tier, seed):
    if THEOREMS:
        chk.obligations(THEOREMS, "C15")
    else:
        ok, out = C.coq_make()
        if not ok:
            chk.broken.append("coq build failed: " + out[-800:])
    U, binary = GC.ensure(seed, tier)
    if U is None:
        chk.broken.append("harness does not build against /repo: " + binary[-1500:])
        return
    rng = random.Random(seed * 31337 + 15)
    fams = U["families"]
    defs = A.defs_for(binary, fams)
    lines, meta = [], {}
    n = 0
    for fam in fams:
        nv = fam["nver"]
        seqs = [list(range(nv)), [0, 0], [nv - 1, nv - 1, nv - 1], list(range(nv)) + list(range(nv)), [nv - 1, 0]]
        for _ in range(2 if tier == "quick" else 8):
            seqs.append([rng.randrange(nv) for _ in range(rng.randint(1, 4))])
        for s in seqs:
            n += 1
            lines.append("l%d abi_ledger %d %s" % (n, fam["id"], ",".join(map(str, s))))
            meta["l%d" % n] = {"f": fam["id"], "seq": s, "n": n, "kind": "fam"}
    bad_seqs = [["v0", "v0"], ["v0", "v1a"], ["v0", "v1b"], ["v0", "v1c"], ["v0", "v1d"], ["v1d", "v0"], ["v1b", "v0"], ["v1a", "v0"], ["v1a", "v1a", "v1a"], ["v1c"], ["v0", "v1a", "v0"],
                ["la", "la"], ["la", "lb"], ["la", "lc"], ["lc", "la"], ["la", "lc", "lb"], ["lb", "la"]]
    for s in bad_seqs:
        n += 1
        lines.append("l%d bad_ledger %s" % (n, ",".join(s)))
        meta["l%d" % n] = {"seq": s, "n": n, "kind": "bad"}
    bd = C.run_harness(binary, ["bd_%s_%d bad_def %s %d" % (a, v, a, v) for a in ("v0", "v1a", "v1b", "v1c", "v1d", "la", "lb", "lc") for v in (0, 1)])
    obs = C.run_harness(binary, lines, timeout=900)
    terms = []
    for cid, m in meta.items():
        o = obs.get(cid, "MISSING")
        if " | " not in o:
            chk.violations.append(("the ledger check did not complete: " + o[:100], {"harness_line": lines[m["n"] - 1]}))
            continue
        results, files = parse_ledger(o)
        if m["kind"] == "fam":
            revs = "[" + ";".join("[" + ";".join(D.hexlit(defs[(m["f"], j, v)]) for v in range(j + 1)) + "]" for j in m["seq"]) + "]"
            fam = [x for x in fams if x["id"] == m["f"]][0]
            nv = fam["nver"]
            # oracle: forward runs over successive revisions: the only breaking step is the removal of a method in the last revision;
            # re-running an unchanged revision always succeeds
            for k, j in enumerate(m["seq"]):
                prev = m["seq"][:k]
                if results[k] == 2:
                    chk.violations.append(("the ledger check panics", {"harness_line": lines[m["n"] - 1], "observed": o[:200]}))
                if j in prev and all(results[x] == 0 for x in range(k)) and max(prev) <= j and results[k] != 0:
                    chk.violations.append(("an unchanged interface fails the ledger check on a later run (revision %d, sequence %s)" % (j, m["seq"]),
                                           {"family_history": fam["edits"], "harness_line": lines[m["n"] - 1], "observed": o[:300]}))
                if prev and all(results[x] == 0 for x in range(k)) and max(prev) < j and j < nv - 1 and results[k] != 0:
                    chk.violations.append(("backward-compatible evolution (new methods, versioned fields) is rejected at revision %d after %s" % (j, prev),
                                           {"family_history": fam["edits"], "harness_line": lines[m["n"] - 1], "observed": o[:300]}))
                if prev and all(results[x] == 0 for x in range(k)) and j == nv - 1 and nv > 1 and max(prev) < j and results[k] != 1:
                    chk.violations.append(("a removed method is not reported by the ledger (revision %d after %s)" % (j, prev),
                                           {"family_history": fam["edits"], "harness_line": lines[m["n"] - 1], "observed": o[:300]}))
        else:
            ver = {"v0": 0}
            revs = "[" + ";".join("[" + ";".join(D.hexlit(bd["bd_%s_%d" % (a, v)]) for v in range(ver.get(a, 1) + 1)) + "]" for a in m["seq"]) + "]"
            exp = {("v0", "v0"): [0, 0], ("v0", "v1a"): [0, 1], ("v0", "v1b"): [0, 1], ("v0", "v1c"): [0, 1], ("v0", "v1d"): [0, 1], ("v1d", "v0"): [0, 1], ("v1b", "v0"): [0, 1], ("v1a", "v1a", "v1a"): [0, 0, 0], ("v1c",): [0],
                   ("la", "la"): [0, 0], ("la", "lb"): [0, 1], ("la", "lc"): [0, 0], ("lc", "la"): [0, 1], ("la", "lc", "lb"): [0, 0, 1], ("lb", "la"): [0, 1]}.get(tuple(m["seq"]))
            if exp is not None and results != exp:
                chk.violations.append(("ledger results %s for the revision sequence %s; expected %s (changed argument type / argument count / return type must be errors, unchanged runs must pass)" % (results, m["seq"], exp),
                                       {"harness_line": lines[m["n"] - 1], "observed": o[:300]}))
        terms.append((m["n"], "agree_ledger %s [%s] [%s]" % (revs, ";".join(map(str, results)), ";".join("(%d, %s)" % (v, D.hexlit(h)) for v, h in files))))
        chk.distinct.add((m["kind"], m.get("f"), tuple(m["seq"])))
    bad, errs = C.coq_eval_bad("C15", A.HEADER, terms, shard=40)
    for ids, out in errs:
        chk.broken.append("shard failed to evaluate (cases %s..): %s" % (ids[:3], out[-400:]))
    byn = {m["n"]: cid for cid, m in meta.items()}
    for i in bad[:12]:
        m = meta[byn[i]]
        chk.broken.append("correspondence C15 case %s: ledger model and verify_compatiblity disagree on sequence %s of family %s: observed %s" % (byn[i], m["seq"], m.get("f", "Bad"), obs.get(byn[i], "")[:160]))
    chk.cov["traces_validated_against_impl"] += len(terms)
    chk.add_eval(len(meta))
    chk.cov["rule"] = ("sequences of verify_compatiblity runs over successive / repeated / out-of-order revisions of generated interface families (from an empty directory), and of a "
                       "family with a changed argument type, argument count and return type; per-run results and the resulting file bytes compared with Abi.ledger_seq in Coq")
    for cid in list(meta)[:3]:
        chk.sample({"case": cid, "line": lines[meta[cid]["n"] - 1], "observed": obs.get(cid, "")[:140]})
    # known finding K10: async interface
    ko = C.run_harness(binary, ["k kf async_ledger"]).get("k", "")
    listed = {e["id"]: e for e in C.known_findings("C15")}
    if ko.startswith("DEFECT"):
        if listed.get("K10", {}).get("status") == "open":
            chk.known_lines.append("K10: an unchanged #[async_trait] interface fails the ledger check on its second run (the stored format 1 drops the async flag)")
        else:
            chk.violations.append(("an unchanged async interface fails the ledger check on its second run", {"harness_line": "k kf async_ledger", "observed": ko[:200]}))
    elif listed.get("K10", {}).get("status") == "open":
        chk.info.append("known finding K10 no longer reproduces: " + ko[:80])
