# C08 — I/O faults surface as errors; results are independent of chunking.
import random
from . import common as C
from . import tygen as TG
from . import gencrate as GC
from . import datacases as D

THEOREMS = ["C08_crypto_stream_roundtrip", "C08_write_fault", "C08_write_fault_flushed", "C08_drop_after_failed_flush_silent",
            "C08_chunking_independent", "C08_serve_total", "C08_served_intact", "C08_read_fault"]
HEADER = "From Coq Require Import String.\nFrom SF Require Import Bytes Crypto CryptoIo HarnessC8.\nImport ListNotations.\nOpen Scope string_scope.\nOpen Scope N_scope.\n"

SCHEDS = ["1", "2", "7", "3,1,4,1,5,9,2,6", "0,1", "3,0", "0,5,0,0,2", "8,0,4", "1,1,1,0"]


def run(chk, tier, seed):
    if THEOREMS:
        chk.obligations(THEOREMS, "C08")
    else:
        ok, out = C.coq_make()
        if not ok:
            chk.broken.append("coq build failed: " + out[-800:])
    U, binary = GC.ensure(seed, tier)
    if U is None:
        chk.broken.append("harness does not build against /repo: " + binary[-1500:])
        return
    rng = random.Random(seed * 4099 + 8)
    roots = D.roots_for(U, exclude=("k13bulk", "hist", "kf", "arrayvec", "ignored", "vervariant"))
    pick = rng.sample(roots, min(len(roots), 14 if tier == "quick" else 60))
    known = {e["id"]: e for e in C.known_findings("C08")}
    lines, meta = [], {}
    n = 0

    def add(line, **m):
        nonlocal n
        n += 1
        cid = "c%d" % n
        lines.append("%s %s" % (cid, line))
        m["n"] = n
        meta[cid] = m

    for ri, r in pick:
        vi = rng.randrange(len(r["vals"]))
        for c in ("plain", "noschema", "bzip2"):
            for kind in ((0, 1, 2) if c != "bzip2" else (0, 1)):     # Ok(0) under bzip2 hangs: known finding K15, replayed separately
                add("ty_wfault %d %s 0 %d all %d" % (ri, c, vi, kind), kind="wfault", root=ri, val=vi, container=c, fkind=kind)
            add("ty_rfault %d %s 0 %d" % (ri, c, vi), kind="rfault", root=ri, val=vi, container=c)
        add("ty_rfault %d crypto 0 %d" % (ri, vi), kind="rfault", root=ri, val=vi, container="crypto")
        for c in ("plain", "bzip2", "crypto"):
            for (chunk, ie) in ((1, 0), (2, 3), (7, 2), (1, 2)):
                add("ty_wchunk %d %s 0 %d %d %d" % (ri, c, vi, chunk, ie), kind="wchunk", root=ri, val=vi, container=c, chunk=chunk, ie=ie)
            for s in SCHEDS:
                add("ty_rchunk %d %s 0 %d %s" % (ri, c, vi, s), kind="rchunk", root=ri, val=vi, container=c, sched=s)
    # crypto write faults: one child-process-safe line per offset (a double panic aborts the process)
    for ri, r in pick[: (3 if tier == "quick" else 12)]:
        for b in ([0, 5, 11, 12, 13, 19, 20, 21, 40, 100, 150] if tier == "quick" else list(range(0, 60)) + [100, 150, 200, 300]):
            for kind in (0, 1):
                add("ty_wfault %d crypto 0 0 %d %d" % (ri, b, kind), kind="wfault1", root=ri, val=0, container="crypto", budget=b, fkind=kind)
    obs = C.run_harness(binary, lines, timeout=1500)
    for cid, m in meta.items():
        o = obs.get(cid, "MISSING")
        r = U["roots"][m["root"]]
        line = lines[m["n"] - 1]
        base = {"input": D.describe(U, m), "harness_line": line, "observed": o[:300]}
        chk.distinct.add((m["kind"], m["container"], D.shape_key(r["ty"])))
        if m["kind"] == "wfault":
            p = o.split(" ")
            if len(p) != 2:
                chk.violations.append(("write-fault enumeration did not complete: " + o[:80], base))
                continue
            s = p[1]
            for k, ch in enumerate(s):
                last = k == len(s) - 1
                if ch == "P":
                    chk.violations.append(("a writer failure at byte %d of %s (%s container) panics instead of returning an error" % (k, p[0], m["container"]), dict(base, offset=k)))
                    break
                if ch == "X":
                    chk.violations.append(("bytes accepted before a write failure at byte %d are not a prefix of the fault-free output" % k, dict(base, offset=k)))
                    break
                if ch == "O" or (ch == "K" and not last) or (last and ch != "K"):
                    if m["container"] == "bzip2" and ch == "O" and known.get("F9", {}).get("status") == "open":
                        if not any(l.startswith("F9") for l in chk.known_lines):
                            chk.known_lines.append("F9: a writer failure within the last bytes of a compressed save is swallowed (save returns Ok, e.g. failure at byte %d of %s)" % (k, p[0]))
                        continue
                    chk.violations.append(("a writer failure at byte %d of %s (%s container, error kind %d) is a silent success" % (k, p[0], m["container"], m["fkind"]), dict(base, offset=k, classes=s)))
                    break
        elif m["kind"] == "wfault1":
            if o.startswith("ABORT") or o.endswith(" P"):
                if known.get("F6", {}).get("status") == "open":
                    if not any(l.startswith("F6") for l in chk.known_lines):
                        chk.known_lines.append("F6: a failing writer under CryptoWriter panics in Drop / aborts the process (budget %d)" % m["budget"])
                else:
                    chk.violations.append(("a writer failure under the encrypted container %s (budget %d bytes)" % ("aborts the process" if o.startswith("ABORT") else "panics", m["budget"]), base))
            elif o.endswith(" O"):
                chk.violations.append(("a writer failure under the encrypted container is a silent success (budget %d)" % m["budget"], base))
        elif m["kind"] == "rfault":
            p = o.split(" ")
            s = p[-1] if len(p) == 2 else ""
            for k, ch in enumerate(s):
                if ch in ("P", "D") or (ch == "S" and m["container"] not in ("bzip2", "crypto")):
                    chk.violations.append(("a reader failure at byte %d (%s container) gives %s" % (k, m["container"], {"P": "a panic", "D": "a different value", "S": "a silent success"}[ch]), dict(base, offset=k)))
                    break
            if len(p) != 2:
                chk.violations.append(("read-fault enumeration did not complete: " + o[:80], base))
        elif m["kind"] == "wchunk":
            if o != "SAME":
                chk.violations.append(("bytes saved depend on how the writer accepts them (chunk %d, interrupted every %d): %s" % (m["chunk"], m["ie"], o[:60]), base))
        elif m["kind"] == "rchunk":
            if o != "SAME":
                if m["container"] == "crypto" and "0" in m["sched"].split(",") and known.get("F10", {}).get("status") == "open":
                    if not any(l.startswith("F10") for l in chk.known_lines):
                        chk.known_lines.append("F10: an Interrupted read while CryptoReader reads a chunk-size header loses the header bytes already read (schedule %s -> %s)" % (m["sched"], o[:40]))
                    continue
                chk.violations.append(("the result of loading depends on how the reader splits the data (schedule %s, %s container): %s" % (m["sched"], m["container"], o[:80]), base))
    # known finding K15: a writer returning Ok(0) under the compressed container hangs (bzip2's dump loop)
    ri0 = pick[0][0]
    ho = C.run_harness(binary, ["hang ty_wfault %d bzip2 0 0 20 2" % ri0], timeout=8)
    hung = ho.get("hang", "") == "TIMEOUT"
    if known.get("K15", {}).get("status") == "open":
        if hung:
            chk.known_lines.append("K15: save_compressed onto a writer that returns Ok(0) never returns (bzip2 0.4.4 BzEncoder::dump loops)")
        else:
            chk.info.append("known finding K15 no longer reproduces: " + ho.get("hang", "")[:60])
    elif hung:
        chk.violations.append(("save_compressed onto a writer that returns Ok(0) hangs", {"harness_line": "hang ty_wfault %d bzip2 0 0 20 2" % ri0}))
    # chunk structure of the encrypted container against the writer model (no AEAD needed)
    progs = ["w10,f,w100000,w1,f,w250000", "w99999,w1,w1", "w100001", "w1,f,f,w2", "f", "w100000,f", "w50000,w50000,w1,w99999,w2"]
    for _ in range(6 if tier == "quick" else 40):
        progs.append(",".join(rng.choice(["f", "w%d" % rng.choice([1, 7, 99999, 100000, 100001, 250000, rng.randint(1, 300000)])]) for _ in range(rng.randint(1, 6))))
    fl = ["f%d crypto_frames %s" % (i, p) for i, p in enumerate(progs)]
    fo = C.run_harness(binary, fl, timeout=600)
    terms = []
    for i, p in enumerate(progs):
        o = fo.get("f%d" % i, "")
        q = o.split(" ")
        if len(q) != 3 or q[0] != "SAME":
            chk.violations.append(("the encrypted stream does not decrypt to the bytes written: " + o[:80], {"harness_line": fl[i]}))
            continue
        ops = "[" + ";".join("None" if x == "f" else "Some %s" % x[1:] for x in p.split(",")) + "]"
        sizes = "[" + ";".join(x for x in q[2].split(",") if x != "-") + "]"
        terms.append((i + 1, "agree_frames %s %s %s" % (ops, sizes, q[1])))
    bad, errs = C.coq_eval_bad("C08", HEADER, terms, shard=60)
    for ids, out in errs:
        chk.broken.append("correspondence shard failed to evaluate: " + out[-400:])
    for i in bad:
        chk.broken.append("correspondence C08: frame structure of the encrypted stream for write program %s differs from the CryptoWriter model (observed %s)" % (progs[i - 1], fo.get("f%d" % (i - 1), "")[:120]))
    chk.cov["traces_validated_against_impl"] += len(terms)
    chk.add_eval(len(meta) + len(progs))
    chk.cov["fault_offsets_enumerated"] = sum(len(obs.get(c, " ").split(" ")[-1]) for c, m in meta.items() if m["kind"] in ("wfault", "rfault"))
    # ---- through a buffering writer (what save_file does): when save returns Ok everything must have reached the sink ----
    bl = []
    for ri, r in pick[:6 if tier == "quick" else 25]:
        for cont in ("plain", "noschema", "bzip2", "crypto"):
            bl.append("W%d_%s ty_wfaultbuf %d %s %d 0 %d" % (ri, cont, ri, cont, r.get("curver", 0), 0 if cont in ("bzip2", "crypto") else rng.choice([0, 1])))
    bobs = C.run_harness(binary, bl, timeout=900)
    nb = 0
    for l in bl:
        o = bobs.get(l.split(" ")[0], "MISSING")
        p_ = o.split(" ")
        if len(p_) != 2 or not p_[0].isdigit():
            chk.violations.append(("saving through a buffering writer onto a failing sink did not complete: " + o[:80], {"harness_line": l}))
            continue
        nb += len(p_[1])
        bad_ = [k for k, ch in enumerate(p_[1]) if ch in "UP" or (ch == "K" and k != int(p_[0]))]
        if bad_:
            k = bad_[0]
            chk.violations.append(("save through a BufWriter onto a sink that fails after %d of %s bytes %s" % (k, p_[0], "returns Ok although bytes are still unwritten (the failure is swallowed)" if p_[1][k] in "UK" else "panics"),
                                   {"harness_line": l, "classes": p_[1][-80:], "type": TG.rust_ty(U["roots"][int(l.split(" ")[2])]["ty"])}))
    chk.add_eval(nb)
    chk.cov["buffered_writer_fault_offsets"] = nb
    # ---- CryptoReader state machine: served read_exact requests under chunk / Interrupted / fault schedules (CryptoIo.v) ----
    progs = ["w5,f,w3", "w1", "w0", "-", "w40,f,w1,f,w17", "w30", "f,w9,f", "w12,w13,f,w2"]
    slines, smeta = [], {}
    ns = 0
    for _ in range(60 if tier == "quick" else 600):
        prog = rng.choice(progs)
        total = sum(int(x[1:]) for x in prog.split(",") if x.startswith("w"))
        tam = rng.choice(["-"] * 5 + ["p%d:%d" % (rng.randrange(12 + 24 + total + 40), rng.randrange(256)), "t%d" % rng.randrange(12 + 24 + total + 30), "d0", "d1"])
        sched = rng.choice(["-", "-", ",".join(str(rng.choice([0, 0, 1, 1, 2, 3, 5, 8, 13, 100])) for _ in range(rng.randint(1, 40)))])
        budget = rng.choice(["-"] * 4 + [str(rng.randrange(0, 12 + 24 + total + 30))])
        reqs, left = [], total + rng.choice([0, 0, 1, 5])
        while left > 0 and len(reqs) < 12:
            r = rng.choice([0, 1, 1, 2, 3, 4, 8, left])
            reqs.append(r)
            left -= max(r, 1)
        ns += 1
        slines.append("S%d crypto_serve %s %s %s %s %s" % (ns, prog, tam, sched, budget, ",".join(map(str, reqs)) or "-"))
        smeta["S%d" % ns] = (ns, sched, budget, reqs)
    sobs = C.run_harness(binary, slines, timeout=600)
    sterms = []
    kinds = {}
    for cid, (k, sched, budget, reqs) in smeta.items():
        o = sobs.get(cid, "MISSING")
        try:
            _, fhex, _, table, _, res = o.split(" ")
        except ValueError:
            chk.violations.append(("serving reads through a CryptoReader did not complete: " + o[:100], {"harness_line": slines[k - 1]}))
            continue
        tb = []
        for ent in ([] if table == "-" else table.split(";")):
            nn, pt = ent.split("=")
            d1, d2, ct = nn.split(".")
            tb.append("(%s, %s, %s, %s)" % (d1, d2, D.hexlit(ct), D.hexlit(pt)))
        ob = []
        for r in ([] if (res == "-" and not reqs) else res.split(",")):
            if r[:2] in ("E:", "N:"):
                ob.append("IoErr IoEof" if r[2:] == "eof" else "IoErr IoOther")
                kinds[r] = kinds.get(r, 0) + 1
            else:
                ob.append("IoOk %s" % D.hexlit(r))       # "-" is the empty byte string
        sterms.append((k, "agree_serve [%s] %s [%s] %s [%s] [%s]" % (";".join(tb), D.hexlit(fhex), "" if sched == "-" else sched.replace(",", ";"),
                                                                     "None" if budget == "-" else "(Some %s)" % budget, ";".join(map(str, reqs)), ";".join(ob))))
        chk.distinct.add(("serve", slines[k - 1].split(" ", 2)[2]))
    sbad, serrs = C.coq_eval_bad("C08_serve", HEADER, sterms, shard=40)
    for ids, out in serrs:
        chk.broken.append("serve shard failed to evaluate (cases %s..): %s" % (ids[:3], out[-400:]))
    for i in sbad[:8]:
        chk.broken.append("correspondence C08 serve case S%d: CryptoIo.serve (model) and CryptoReader disagree: %s => %s" % (i, slines[i - 1][:200], sobs.get("S%d" % i, "").split(" RES ")[-1][:200]))
    chk.cov["traces_validated_against_impl"] += len(sterms)
    chk.cov["serve_cases"] = len(sterms)
    chk.cov["serve_error_kinds"] = kinds
    chk.add_eval(len(smeta))
    chk.cov["rule"] = ("for sampled (type, value): EVERY writer failure offset 0..len x {Other, BrokenPipe, Ok(0)} in plain / noschema / bzip2 containers, sampled offsets under the "
                       "encrypted container (child process per offset), EVERY reader failure offset in 4 containers, short-write / Interrupted writer schedules, 9 reader "
                       "chunk schedules incl. Interrupted; frame structure of CryptoWriter for write/flush programs around the 100 000-byte boundary against the model in Coq")
    for cid in list(meta)[:4]:
        chk.sample({"case": cid, "line": lines[meta[cid]["n"] - 1], "observed": obs.get(cid, "")[:100]})
