# C06 — malformed input is handled safely (partial: the logical preconditions of memory safety / panic freedom).
import random
from . import common as C
from . import tygen as TG
from . import gencrate as GC
from . import datacases as D

THEOREMS = ["C06_no_panic", "C06_valid", "C06_len", "C06_suffix", "C06_total", "C06_valid_refuted_bulk_bool", "C06_len_refuted_before_F7", "C06_schema_section_no_panic"]
HEADER = D.HEADER.replace("HarnessTy.", "HarnessTy Packed PackedDec HarnessC6.").replace(
    "From SF Require Import", "From SFX Require Import Extracted.\nFrom SF Require Import")

SPECIAL_LENS = [0, 1, 2, 255, 256, 65535, 1000001, 2 ** 31, 2 ** 32, 2 ** 32 + 1, 2 ** 62 + 1, 2 ** 63, 2 ** 64 - 1]


def niche_under_bulk(t):
    """python mirror of (not bulk_safe): a bool/char/enum below a Vec/array element (conservative: regardless of packedness)"""
    hit = []

    def has_niche(u):
        h = []
        TG.walk_types(u, lambda w: h.append(1) if w["k"] in ("bool", "char", "enum") else None)
        return bool(h)

    def f(u):
        if u["k"] in ("vec", "array") and has_niche(u["t"]):
            hit.append(1)
    TG.walk_types(t, f)
    return bool(hit)


def min_size(t):
    k = t["k"]
    if k == "int":
        return TG.INTS[t["ity"]][0]
    if k in ("bool",):
        return 1
    if k in ("char", "f32"):
        return 4
    if k == "f64":
        return 8
    if k == "unit":
        return 0
    if k in ("string", "vec", "seq"):
        return 8
    if k == "array":
        return t["n"] * min_size(t["t"])
    if k in ("option", "result"):
        return 1
    if k in ("box", "cell"):
        return min_size(t["t"])
    if k == "tuple":
        return sum(min_size(x) for x in t["ts"])
    if k == "struct":
        return sum(min_size(f["ty"]) for f in t["fields"] if f["kind"] == "normal" and f.get("from", 0) == 0)
    if k == "enum":
        return 1
    return 0


def zst_elems(t):
    """a Vec / VecDeque whose elements may encode in zero bytes: any count is encodable, and the harness cannot print it"""
    hit = []
    TG.walk_types(t, lambda u: hit.append(1) if u["k"] in ("vec", "seq") and min_size(u["t"]) == 0 else None)
    return bool(hit)


def mutations(rng, b, tier, has_char=False):
    out = []
    n = len(b)
    if n == 0:
        return [b"\x01", b"\xff" * 8]
    pos = range(n) if n <= (48 if tier == "quick" else 160) else sorted(rng.sample(range(n), 48 if tier == "quick" else 160))
    for i in pos:
        for v in (0, 1, 2, 0x7f, 0x80, 0xff):
            if b[i] != v:
                c = bytearray(b)
                c[i] = v
                out.append(bytes(c))
    # 8-byte windows overwritten by special lengths
    wins = range(0, max(1, n - 7)) if n <= 40 else sorted(rng.sample(range(0, n - 7), 12))
    for i in wins:
        for L in (SPECIAL_LENS if tier == "thorough" else rng.sample(SPECIAL_LENS, 5)):
            c = bytearray(b)
            c[i:i + 8] = L.to_bytes(8, "little")
            out.append(bytes(c))
    for k in sorted(set([0, 1, n // 2, n - 1])):
        out.append(b[:k])
    for _ in range(4):
        out.append(bytes(rng.getrandbits(8) for _ in range(rng.choice([1, 3, 8, 9, 17, 40]))))
    out.append(b + b"\x00")
    cap = 50 if tier == "quick" else 400
    if len(out) > cap:
        out = rng.sample(out, cap)
    if has_char and n <= 64:
        # boundary scalar values of char at every 4-byte window (not subject to the cap): both ends of the surrogate
        # gap, the last scalar, the first invalid one
        for i in range(0, n - 3):
            for sc in (0xD7FF, 0xD800, 0xDBFF, 0xDC00, 0xDFFE, 0xDFFF, 0xE000, 0x10FFFF, 0x110000, 0xFFFFFFFF):
                c = bytearray(b)
                c[i:i + 4] = sc.to_bytes(4, "little")
                out.append(bytes(c))
    return out


def obs6(o):
    p = o.split(" ", 2)
    if p[0] == "OK":
        return "(O6Ok %s %s)" % (p[1], p[2])
    if p[0] == "ERR":
        return "(O6Err %s)" % (p[1] if p[1] in D.ERRS else "EOther")
    if p[0] == "PANIC":
        if "allocate" in o or "capacity_overflow" in o or "memory_allocation" in o:
            return "O6Oom"
        return "O6Panic"
    if p[0] == "ABORT":
        # allocation failure on an absurd declared length (excluded by the property); any other death of the process is a crash
        return "O6Oom" if o.startswith("ABORT oom") else "O6Panic"
    return None


def run(chk, tier, seed):
    if THEOREMS:
        chk.obligations(THEOREMS, "C06")
    else:
        ok, out = C.coq_make()
        if not ok:
            chk.broken.append("coq build failed: " + out[-800:])
    U, binary = GC.ensure(seed, tier)
    if U is None:
        chk.broken.append("harness does not build against /repo: " + binary[-1500:])
        return
    rng = random.Random(seed * 9176 + 6)
    roots = [(i, r) for i, r in D.roots_for(U, exclude=("k13bulk", "kf", "arrayvec")) if not niche_under_bulk(r["ty"]) and not zst_elems(r["ty"])]
    pick = rng.sample(roots, min(len(roots), 45 if tier == "quick" else 200))
    pick += [(i, r) for i, r in enumerate(U["roots"]) if "arrayvec" in r["tags"]]
    # every fixed root that holds a char outside a bulk-read position is always in (scalar-value validation)
    def has_char(t):
        hit = []
        TG.walk_types(t, lambda u: hit.append(1) if u["k"] == "char" else None)
        return bool(hit)
    pick += [(i, r) for i, r in roots if "fixed" in r["tags"] and has_char(r["ty"]) and (i, r) not in pick][:12]
    lines = []
    for ri, r in pick:
        lines.append("v%d ty_save %d bare %d 0" % (ri, ri, r.get("curver", 0)))
    o1 = C.run_harness(binary, lines)
    builds = [("Debug", binary)]
    if tier == "thorough":
        rb, out = C.build_harness(release=True)
        if rb:
            builds.append(("Release", rb))
        else:
            chk.broken.append("release harness does not build: " + out[-500:])
    lines2, meta = [], {}
    n = 0
    for ri, r in pick:
        o = o1.get("v%d" % ri, "")
        if not o.startswith("OK "):
            continue
        b = bytes.fromhex(o.split(" ")[1].replace("-", ""))
        for mb in mutations(rng, b, tier, has_char=(r["ty"]["k"] != "arrayvec" and has_char(r["ty"]))):
            n += 1
            lines2.append("m%d ty_load %d bare %d %s" % (n, ri, r.get("curver", 0), mb.hex() or "-"))
            meta["m%d" % n] = {"root": ri, "val": 0, "version": r.get("curver", 0), "bytes": mb, "n": n, "container": "bare"}
    allbad = []
    for md, bn in builds:
        obs = C.run_harness(bn, lines2, timeout=1500, mem_gb=3)
        terms, oterms = [], []
        for cid, m in meta.items():
            o = obs.get(cid, "MISSING")
            t6 = obs6(o)
            r = U["roots"][m["root"]]
            ct = TG.coq_ty(r["ty"]) if r["ty"]["k"] != "arrayvec" else None
            hx = D.hexlit(m["bytes"].hex() or "-")
            if len(o) > 20000:
                chk.cov["skipped_giant_observations"] = chk.cov.get("skipped_giant_observations", 0) + 1
                continue
            if t6 is None:
                chk.violations.append(("implementation hung or produced no observation: " + o[:60], {"input": D.describe(U, m), "harness_line": lines2[m["n"] - 1][:2000], "build": md}))
                continue
            if r["ty"]["k"] == "arrayvec":
                et, cap = TG.coq_ty(r["ty"]["t"]), r["ty"]["cap"]
                terms.append((m["n"], "agree_arrayvec %s %d %s %d %s %s" % (md, m["version"], et, cap, hx, t6)))
                oterms.append((m["n"], "arrayvec_oracle %s %d %s" % (et, cap, t6)))
            else:
                terms.append((m["n"], "agree_malformed %s %d %s %s %s" % (md, m["version"], ct, hx, t6)))
                oterms.append((m["n"], "malformed_oracle %d %s %s %s" % (m["version"], ct, hx, t6)))
            chk.distinct.add((D.shape_key(r["ty"]), o.split(" ")[0] + (o.split(" ")[1] if o.startswith("ERR") else "")))
        bad, errs = C.coq_eval_bad("C06" + md, HEADER, terms, shard=150)
        obad, oerrs = C.coq_eval_bad("C06o" + md, HEADER, oterms, shard=150)
        for ids, out in errs + oerrs:
            chk.broken.append("shard failed to evaluate (cases %s..): %s" % (ids[:3], out[-400:]))
        byn = {m["n"]: cid for cid, m in meta.items()}
        for i in bad[:12]:
            m = meta[byn[i]]
            chk.broken.append("correspondence C06 (%s build) case %s: model and implementation disagree loading %s into %s: observed %s" % (
                md, byn[i], m["bytes"].hex()[:120], TG.rust_ty(U["roots"][m["root"]]["ty"]), obs.get(byn[i], "")[:160]))
        for i in obad:
            m = meta[byn[i]]
            o = obs.get(byn[i], "")
            chk.violations.append(("malformed input is not handled safely (%s build): %s" % (md, "panic" if o.startswith("PANIC") else ("the process died: " + o[:60]) if o.startswith("ABORT") else "an invalid or oversized value was returned"),
                                   {"type": TG.rust_ty(U["roots"][m["root"]]["ty"]), "bytes_hex": m["bytes"].hex(), "harness_line": lines2[m["n"] - 1][:3000], "observed": o[:400], "build": md}))
        chk.cov["traces_validated_against_impl"] += len(terms)
        chk.cov.setdefault("outcome_classes_" + md, {})
        for cid in meta:
            k = obs.get(cid, "MISSING").split(" ")
            key = k[0] + ("_" + k[1] if k[0] == "ERR" and len(k) > 1 else "")
            chk.cov["outcome_classes_" + md][key] = chk.cov["outcome_classes_" + md].get(key, 0) + 1
    chk.add_eval(len(meta) * len(builds))
    chk.cov["runtime_behaviour_not_exhibited"] = ("actual out-of-bounds accesses, allocator aborts and sanitizer findings are runtime events a Gallina model cannot exhibit; "
                                                  "the model carries their logical preconditions (validity of materialised values, size arithmetic, bounds on claimed lengths)")
    chk.cov["rule"] = ("valid bare encodings of sampled root types mutated: every byte position x 6 values, 8-byte windows overwritten by boundary lengths "
                       "(0..2^64-1, 2^62+1), truncations, random strings; loaded by the real code (debug; thorough: also release) under a 3 GiB address-space limit; "
                       "outcome class and value compared with impl_dec in Coq; oracle: never a panic, returned values valid; distinct = (type key, outcome class)")
    for cid in list(meta)[:4]:
        m = meta[cid]
        chk.sample({"case": cid, "type": TG.rust_ty(U["roots"][m["root"]]["ty"]), "bytes": m["bytes"].hex()[:80]})
    # library types outside the universe: crafted inputs (mutated valid encodings, boundary lengths, truncations, random bytes)
    from . import libcases
    listed0 = {e["id"]: e for e in C.known_findings("C06")}
    kmap = [(k, names) for k, names in (("F14", {"systemtime", "systemtime_before_epoch"}), ("F13", {"bitvec", "bitvec_empty", "bitset"}))
            if listed0.get(k, {}).get("status") == "open"]
    lib_hits = libcases.run_malformed(chk, binary, rng, 120 if tier == "quick" else 700, known=kmap)
    chk.cov["library_malformed_known_hits"] = lib_hits
    # known findings
    KF = [("K1a", "kf bulk_invalid_bool", "Vec<bool> read in bulk holds the byte 7 (invalid bool materialised)"),
          ("K1b", "kf bulk_invalid_char", "Vec<char> read in bulk holds the surrogate 0xD800"),
          ("K1c", "kf bulk_invalid_enum", "Vec<repr(u8) enum with 3 variants> read in bulk holds discriminant 200"),
          ("F7", "kf vec_overflow", "bulk Vec<u32> reader: elem_size * num_elems unchecked (debug: overflow panic; release: a Vec claiming 2^62+1 elements over 4 bytes)"),
          ("F14", "kf systemtime_panic", "SystemTime from an untrusted u128 panics (overflow adding duration)"),
          ("F13", "kf bitvec_setlen", "BitVec claims 1000 bits over one storage word (set_len beyond storage)"),
          ("F17", "kf trait_name_panic", "a stored schema containing a trait name with an unknown +segment panics plain load::<u32>")]
    listed = {e["id"]: e for e in C.known_findings("C06")}
    kobs = C.run_harness(binary, ["%s %s" % (k, l) for k, l, _ in KF])
    for kid, line, what in KF:
        o = kobs.get(kid, "")
        still = o.startswith("DEFECT")
        if kid in listed and listed[kid].get("status") == "open":
            if still:
                chk.known_lines.append("%s: %s" % (kid, what))
            else:
                chk.info.append("known finding %s no longer reproduces: %s" % (kid, o[:100]))
        elif still:
            chk.violations.append((what, {"harness_line": "%s %s" % (kid, line), "observed": o[:300]}))
