# The generated data-side crate module (harness/src/gen/mod.rs): one universe of type
# definitions + values per (seed, tier), shared by all data-side checks, with layouts probed
# from the real compilation.
import os, json, random, copy, hashlib
from . import common as C
from . import tygen as TG
from .tygen import T

GEN_RS = os.path.join(C.HARNESS, "src", "gen", "mod.rs")


def I(ity):
    return T("int", ity=ity)


def F(name, ty, frm=0, to=None, kind="normal", default="auto", mode=None, src=None):
    f = {"name": name, "ty": ty, "from": frm, "to": to, "kind": kind}
    if default == "auto":
        f["default"] = TG.default_val(ty) if TG.defaultable(ty) else None
    else:
        f["default"] = default
    if mode:
        f["default_mode"] = mode
        f["default_src"] = src
    return f


def S(name, fields, repr_="Rust", tuple_=False, derive_default=False):
    return T("struct", name=name, repr=repr_, fields=fields, tuple=tuple_, derive_default=derive_default)


def E(name, variants, repr_=None, reprc=False):
    return T("enum", name=name, repr=repr_, reprc=reprc, variants=variants,
             repr_bytes={None: None, "u8": 1, "i8": 1, "u16": 2, "i16": 2, "u32": 4, "i32": 4}[repr_])


def V(name, fields=(), named=False, frm=0, to=None, discr=None):
    return {"name": name, "from": frm, "to": to, "fields": list(fields), "named": named, "discr": discr}


def fixed_corpus():
    """Deterministic boundary definitions: the shapes the pinned suite never has."""
    items, roots = [], []

    def add(t, vals=None, tags=()):
        roots.append({"ty": t, "vals": vals, "tags": set(tags) | {"fixed"}})

    def reg(t):
        items.append(t)
        return t

    # padding in every position, repr(C) and repr(Rust), interior reordering candidates
    shapes = [("u8", "u32"), ("u32", "u8"), ("u8", "u16", "u8"), ("u32", "u8", "u16", "u8"), ("u64", "u16", "f32", "i16"),
              ("bool", "u8", "bool", "u8"), ("u16", "u16"), ("u8", "u8", "u8", "u8"), ("u64",), ("u8", "u64", "u8"),
              ("i128", "u8"), ("char", "bool", "u16", "u8"), ("f64", "f32", "u32"), ("usize", "u8"), ("u32", "u32", "u64")]
    for n, sh in enumerate(shapes):
        for r in ("C", "Rust"):
            fs = [F("f%d" % i, (I(p) if p not in ("bool", "char", "f32", "f64") else T(p))) for i, p in enumerate(sh)]
            st = reg(S("FixS%d%s" % (n, r), fs, r))
            add(st, tags=("packedshape",))
            add(T("vec", t=st, kind="Vec"), tags=("packedshape", "vec"))
            if n % 3 == 0:
                add(T("array", t=st, n=3), tags=("packedshape",))
                add(T("vec", t=st, kind="BoxSlice"), tags=("packedshape", "vec"))
            if n % 3 == 1:
                add(T("vec", t=st, kind="ArcSlice"), tags=("packedshape", "vec"))
                add(T("option", t=st))
    # tuple structs and nesting
    inner = reg(S("FixInner", [F("a", I("u16")), F("b", I("u16"))], "C"))
    outer = reg(S("FixOuter", [F("x", inner), F("y", I("u32")), F("z", T("array", t=I("u8"), n=4))], "C"))
    add(outer, tags=("packedshape",))
    add(T("vec", t=outer), tags=("packedshape", "vec"))
    ts = reg(S("FixTup", [F("f0", I("u32")), F("f1", I("u8")), F("f2", I("u16")), F("f3", I("u8"))], "Rust", tuple_=True))
    add(ts, tags=("packedshape",))
    add(T("vec", t=ts), tags=("packedshape", "vec"))
    # tuples
    for tt in (["u8", "u8"], ["u8", "u32"], ["u16", "u16", "u16"], ["u64"], ["u8", "u16", "u8"]):
        tup = T("tuple", ts=[I(x) for x in tt])
        add(tup, tags=("tuple",))
        add(T("vec", t=tup), tags=("tuple", "vec"))
    # enums: field-less with repr, with data, by-count width
    e1 = reg(E("FixE8", [V("A"), V("B"), V("C")], "u8"))
    e2 = reg(E("FixE16", [V("A"), V("B")], "u16"))
    e3 = reg(E("FixE32", [V("A"), V("B"), V("C"), V("D")], "u32"))
    e4 = reg(E("FixENoRepr", [V("A"), V("B", [F("x0", I("u32"))]), V("C", [F("p", T("string")), F("q", I("u8"))], named=True)]))
    e5 = reg(E("FixEData8", [V("A", [F("x0", I("u8"))]), V("B", [F("x0", I("u8"))])], "u8"))
    e6 = reg(E("FixEData8C", [V("A", [F("x0", I("u8")), F("x1", I("u16"))]), V("B", [F("x0", I("u32"))])], "u8", reprc=True))
    e7 = reg(E("FixEMixed8", [V("A"), V("B", [F("x0", I("u8"))])], "u8"))
    e8 = reg(E("FixEI8", [V("A"), V("B"), V("C")], "i8"))
    for e in (e1, e2, e3, e4, e5, e6, e7, e8):
        add(e, vals="allvariants", tags=("enum",))
        add(T("vec", t=e), vals="vecallvariants", tags=("enum", "vec"))
    big = reg(E("FixE257", [V("V%d" % i) for i in range(257)]))
    add(big, vals=[("var", 0, []), ("var", 255, []), ("var", 256, [])], tags=("enum", "wide"))
    big2 = reg(E("FixE256", [V("V%d" % i) for i in range(256)]))
    add(big2, vals=[("var", 0, []), ("var", 255, [])], tags=("enum", "wide"))
    hold = reg(S("FixHoldE", [F("a", I("u8")), F("e", e1), F("w", e2)], "C"))
    add(hold, tags=("enum", "packedshape"))
    add(T("vec", t=hold), tags=("enum", "vec"))
    # library types
    for p in TG.INTS:
        add(I(p), tags=("prim",))
        add(T("vec", t=I(p)), tags=("prim", "vec"))
    for p in ("bool", "char", "f32", "f64", "unit", "string"):
        add(T(p), tags=("prim",))
    add(T("vec", t=T("bool")), tags=("prim", "vec"))
    add(T("vec", t=T("char")), tags=("prim", "vec"))
    add(T("vec", t=T("f64")), tags=("prim", "vec"))
    add(T("vec", t=T("string")), tags=("vec",))
    add(T("string", kind="ArcStr"), tags=("prim",))
    add(T("seq", t=I("u16")))
    add(T("seq", t=T("string")))
    add(T("array", t=I("u32"), n=5))
    add(T("array", t=T("string"), n=2))
    add(T("array", t=I("u8"), n=0))
    add(T("option", t=I("u64")))
    add(T("option", t=T("option", t=T("bool"))))
    add(T("result", a=I("u8"), b=T("string")))
    for kind in TG.BOXKINDS:
        add(T("box", t=I("i32"), kind=kind))
    add(T("cell", t=I("u16")))
    add(T("vec", t=T("cell", t=I("u16"))), tags=("vec",))
    add(T("tuple", ts=[T("string"), I("u8"), T("vec", t=I("u8"))]))
    add(T("vec", t=T("vec", t=I("u16"))), tags=("vec",))
    add(T("vec", t=T("option", t=I("u8"))), tags=("vec",))
    # ArrayVec: a top-level container outside the Coq universe (modelled by PackedDec.arrayvec_dec); only C06 uses these roots
    for (et, cap) in ((I("u32"), 4), (T("unit"), 4), (T("string"), 3), (I("u8"), 0), (I("u16"), 8)):
        roots.append({"ty": T("arrayvec", t=et, cap=cap), "vals": None, "tags": {"fixed", "arrayvec"}})
    roots.append({"ty": T("arrayvec", t=outer, cap=2), "vals": None, "tags": {"fixed", "arrayvec"}})
    # #[savefile_ignore]d fields in every position, in named structs, tuple structs and enum variants: they occupy memory
    # but are neither written nor described by the schema, so every recorded offset after them must still be the real one
    def ig(name, ty):
        return F(name, ty, kind="ignored")
    ign = [reg(S("FixSIgnFirst", [ig("f0", I("u32")), F("f1", I("u32")), F("f2", I("u16"))], "C")),
           reg(S("FixSIgnMid", [F("f0", I("u8")), ig("f1", I("u64")), F("f2", I("u8"))], "Rust")),
           reg(S("FixSIgnLast", [F("f0", I("u16")), F("f1", I("u16")), ig("f2", I("u32"))], "C")),
           reg(S("FixTIgnFirst", [ig("f0", I("u32")), F("f1", I("u32")), F("f2", I("u32"))], "C", tuple_=True)),
           reg(S("FixTIgnMid", [F("f0", I("u16")), ig("f1", I("u32")), F("f2", I("u16"))], "Rust", tuple_=True)),
           reg(E("FixEIgn", [V("A", [ig("x0", I("u32")), F("x1", I("u32")), F("x2", I("u32"))], named=True), V("B", [F("x0", I("u8"))])], "u8", reprc=True)),
           reg(E("FixEIgnT", [V("A", [F("x0", I("u16")), ig("x1", I("u32")), F("x2", I("u16"))]), V("B")]))]
    for t in ign:
        add(t, vals=("allvariants" if t["k"] == "enum" else None), tags=("ignored",))
        add(T("vec", t=t), vals=("vecallvariants" if t["k"] == "enum" else None), tags=("ignored", "vec"))
    # explicit-repr enums whose variant fields were added in a later version: padding-free, so the packed decision depends
    # on the version alone (packed from version 1 on, never at version 0)
    ev = [reg(E("FixEVer8", [V("A", [F("x0", I("u8")), F("x1", I("u8"), frm=1)]), V("B", [F("id", I("u8")), F("flags", I("u8"), frm=1)], named=True)], "u8")),
          reg(E("FixEVer16", [V("A", [F("x0", I("u16"), frm=1)]), V("B", [F("x0", I("u16"))])], "u16"))]
    for t in ev:
        roots.append({"ty": t, "vals": "allvariants", "tags": {"fixed", "enum", "vervariant"}, "curver": 1})
        roots.append({"ty": T("vec", t=t), "vals": "vecallvariants", "tags": {"fixed", "enum", "vec", "vervariant"}, "curver": 1})
    return items, roots


def known_class_corpus():
    """Witness definitions of known findings (kept apart from the property corpus)."""
    items, roots = [], []
    ed = E("KfEDiscr", [V("A", discr=1), V("B", discr=5)], "u8")
    items.append(ed)
    hold = S("KfHoldDiscr", [F("a", I("u8")), F("e", ed)], "C")
    items.append(hold)
    roots.append({"ty": hold, "vals": [("rec", [("int", 7), ("var", 1, [])])], "tags": {"kf", "F2"}})
    roots.append({"ty": T("vec", t=ed), "vals": [("seq", [("var", 0, []), ("var", 1, [])])], "tags": {"kf", "F2"}})
    return items, roots


def build_universe(seed, tier):
    rng = random.Random(seed * 1000003 + 17)
    items, roots = fixed_corpus()
    kitems, kroots = known_class_corpus()
    items += kitems
    roots += kroots
    g = TG.Gen(rng, prefix="R")
    nrand = 40 if tier == "quick" else 220
    for i in range(nrand):
        t = g.gen_ty(rng.choice([1, 2, 2, 3]), packed_bias=rng.random() < 0.4)
        roots.append({"ty": t, "vals": None, "tags": {"random"}})
        if t["k"] in ("struct", "enum") and rng.random() < 0.5:
            roots.append({"ty": T("vec", t=t, kind=rng.choice(TG.VECKINDS)), "vals": None, "tags": {"random", "vec"}})
    # evolution histories
    U_hist = []
    extra_fns = []
    nh = 10 if tier == "quick" else 60
    for hid in range(nh + 1):
        if hid == nh:
            # fixed history "Reuse" (found by the thorough tier, see known finding K16): a field is removed (AbiRemoved)
            # and a new field of the same size is added, so that the native layouts of version 0 and version 1 are
            # byte-identical while their fields mean different things
            r_a, r_b = F("f1", I("u8")), F("f2", I("u8"))
            r_a1 = dict(r_a)
            r_a1.update({"kind": "abiremoved", "to": 0, "default": ("int", 0)})
            r_c = F("f3", I("u8"), frm=1)
            h = {"id": nh, "edits": [("remove", 0, True), ("add", 1, "f3")],
                 "types": [S("H%dV0" % nh, [dict(r_a), dict(r_b)], "Rust"), S("H%dV1" % nh, [r_a1, r_c, dict(r_b)], "Rust")]}
        elif hid == 0:
            # fixed history "Pad": a repr(C) struct whose added field lands in the tail padding of the older layout
            # (same size, alignment and offsets of the shared fields on both sides)
            f_a, f_b = F("f1", I("u32")), F("f2", I("u8"))
            f_c = F("f3", I("u8"), frm=1, default=("int", 7), mode="val", src="7")
            f_d = F("f4", I("u16"), frm=2)
            h = {"id": 0, "edits": [("add", 2, "f3"), ("add", 3, "f4")],
                 "types": [S("H0V0", [dict(f_a), dict(f_b)], "C"), S("H0V1", [dict(f_a), dict(f_b), dict(f_c)], "C"),
                           S("H0V2", [dict(f_a), dict(f_b), dict(f_c), dict(f_d)], "C")]}
        else:
            h = gen_history(rng, g, hid, extra_fns)
        U_hist.append(h)
        for j, t in enumerate(h["types"]):
            roots.append({"ty": t, "vals": None, "tags": {"hist"}, "hist": (hid, j), "curver": j})
    items += g.items
    for h in U_hist:
        items += h["types"]
    # values: the fixed corpus gets seed-independent values (so golden files stay comparable), plus seeded ones
    nvals = 3 if tier == "quick" else 6
    frng = random.Random(424242)
    for r in roots:
        t = r["ty"]
        vr = frng if "fixed" in r["tags"] else rng
        if r["vals"] == "allvariants":
            r["vals"] = TG.all_variants_vals(vr, t)
        elif r["vals"] == "vecallvariants":
            vs = TG.all_variants_vals(vr, t["t"])
            r["vals"] = [("seq", vs), ("seq", []), ("seq", vs + vs)]
        elif r["vals"] is None:
            r["vals"] = [TG.gen_val(vr, t) for _ in range(3)]
            if "fixed" in r["tags"]:
                r["nfixed"] = len(r["vals"])
                r["vals"] += [TG.gen_val(rng, t) for _ in range(nvals - 2)]
            else:
                r["vals"] += [TG.gen_val(rng, t) for _ in range(max(0, nvals - 3))]
            if t["k"] == "enum":
                r["vals"] += TG.all_variants_vals(rng, t)
        if "nfixed" not in r:
            r["nfixed"] = len(r["vals"]) if "fixed" in r["tags"] else 0
    # known class K13 (mixed field-less / data variants under an explicit repr, reached through a bulk path):
    # tag such roots so that only the checks owning that finding (C02, C04) look at their bytes
    def is_mixed(t):
        return (t["k"] == "enum" and t.get("repr") is not None and any(v["fields"] for v in t["variants"])
                and any(not v["fields"] for v in t["variants"]))
    for r in roots:
        hit = []

        def visit(t, hit=hit):
            if t["k"] in ("vec", "array"):
                TG.walk_types(t["t"], lambda u: hit.append(1) if is_mixed(u) else None)
        TG.walk_types(r["ty"], visit)
        if hit:
            r["tags"].add("k13bulk")
    # dedupe roots by rust type
    seen, out = {}, []
    for r in roots:
        key = TG.rust_ty(r["ty"])
        if key in seen:
            seen[key]["tags"] |= r["tags"]
            continue
        seen[key] = r
        out.append(r)
    U = {"items": items, "roots": out, "seed": seed, "tier": tier, "hist": U_hist, "extra_rs": "\n".join(extra_fns)}
    relink(U)
    return U


_cache = {}


def write_sources(seed, tier):
    """write harness/src/gen/mod.rs and src/gen_abi/mod.rs for (seed, tier) without building"""
    U = build_universe(seed, tier)
    text, tuples, names = TG.render_gen_rs(U["items"], [(r["ty"], r["vals"]) for r in U["roots"]], U.get("extra_rs", ""))
    from . import abigen
    fams = abigen.families(U)
    if tier == "quick":
        fams = fams[:5] + fams[-1:]
    abi_text = abigen.render(U, fams)
    ABI_RS = os.path.join(C.HARNESS, "src", "gen_abi", "mod.rs")
    with C.Lock("gen"):
        os.makedirs(os.path.dirname(GEN_RS), exist_ok=True)
        os.makedirs(os.path.dirname(ABI_RS), exist_ok=True)
        if not os.path.exists(GEN_RS):
            open(GEN_RS, "w").write(text)
        if not os.path.exists(ABI_RS):
            open(ABI_RS, "w").write(abi_text)


def ensure(seed, tier, extra_roots_fn=None):
    """Generate gen/mod.rs for (seed, tier), build the harness, probe layouts. Returns (universe, binary) or
    (None, log) if the harness does not build."""
    key = (seed, tier)
    if key in _cache:
        return _cache[key]
    U = build_universe(seed, tier)
    if extra_roots_fn:
        extra_roots_fn(U)
    text, tuples, names = TG.render_gen_rs(U["items"], [(r["ty"], r["vals"]) for r in U["roots"]], U.get("extra_rs", ""))
    from . import abigen
    U["families"] = abigen.families(U)
    if tier == "quick":
        U["families"] = U["families"][:5] + U["families"][-1:]
    abi_text = abigen.render(U, U["families"])
    ABI_RS = os.path.join(C.HARNESS, "src", "gen_abi", "mod.rs")
    with C.Lock("gen"):
        os.makedirs(os.path.dirname(GEN_RS), exist_ok=True)
        os.makedirs(os.path.dirname(ABI_RS), exist_ok=True)
        old = open(GEN_RS).read() if os.path.exists(GEN_RS) else None
        if old != text:
            open(GEN_RS, "w").write(text)
        old = open(ABI_RS).read() if os.path.exists(ABI_RS) else None
        if old != abi_text:
            open(ABI_RS, "w").write(abi_text)
        binary, out = C.build_harness()
    if not binary:
        _cache[key] = (None, out)
        return _cache[key]
    # probe layouts
    lines = []
    for i, n in enumerate(names):
        lines.append("i%d probe_item %d" % (i, i))
    for i, (k, t) in enumerate(tuples):
        lines.append("t%d probe_tuple %d" % (i, i))
    byname = {}
    for it in U["items"]:
        byname.setdefault(it["name"], it)
    for i, n in enumerate(names):
        it = byname[n]
        if it["k"] == "enum":
            for vi, v in enumerate(it["variants"]):
                lines.append("v%d_%d probe_variant %d %d" % (i, vi, i, vi))
    obs = C.run_harness(binary, lines)

    def parse_lay(s):
        a, b, c = s.split(" ", 2)
        offs = [int(x) for x in c.strip("[]").split(",") if x]
        return {"size": int(a), "align": int(b), "offs": offs}

    for i, n in enumerate(names):
        it = byname[n]
        it["lay"] = parse_lay(obs["i%d" % i])
        if it["k"] == "enum":
            it["voffs"] = []
            for vi, v in enumerate(it["variants"]):
                o = obs.get("v%d_%d" % (i, vi), "")
                it["voffs"].append([int(x) for x in o.split(",") if x])
    tl = {k: parse_lay(obs["t%d" % i]) for i, (k, t) in enumerate(tuples)}

    def settup(t):
        if t["k"] == "tuple":
            t["lay"] = tl[TG.rust_ty(t)]
    for it in U["items"]:
        TG.walk_types(it, settup)
    for r in U["roots"]:
        TG.walk_types(r["ty"], settup)
    U["binary"] = binary
    _cache[key] = (U, binary)
    return _cache[key]


# ------------------------------------------------------------------ evolution histories (C03 / C18)

def gen_history(rng, g, hid, extra_fns):
    """A struct evolved over 1..3 versions by the documented rules. Returns dict with per-version types."""
    import copy
    packedish = rng.random() < 0.4
    nbase = rng.choice([1, 2, 3, 4])
    repr_ = rng.choice(["C", "Rust"])
    fid = [0]

    def newname():
        fid[0] += 1
        return "f%d" % fid[0]

    def fty(need_default):
        if packedish:
            return TG.gen_prim(rng, allow_usize=False)
        return g.gen_ty(rng.choice([0, 1, 1, 2]), packed_bias=False, need_default=need_default)

    fields = [F(newname(), fty(False)) for _ in range(nbase)]
    versions = [copy.deepcopy(fields)]
    nedits = rng.choice([1, 2, 2, 3])
    edits = []
    for ver in range(1, nedits + 1):
        live = [i for i, f in enumerate(fields) if f["kind"] == "normal"]
        do_remove = live and rng.random() < 0.45
        if do_remove:
            cand = [i for i in live]
            abi = rng.random() < 0.6
            if abi:
                cand = [i for i in cand if TG.defaultable(fields[i]["ty"])]
            if not cand:
                do_remove = False
        if do_remove:
            i = rng.choice(cand)
            f = dict(fields[i])
            f["kind"] = "abiremoved" if abi else "removed"
            f["to"] = ver - 1
            f["default"] = TG.default_val(f["ty"]) if abi else None
            f.pop("default_mode", None)
            fields = fields[:i] + [f] + fields[i + 1:]
            edits.append(("remove", i, abi))
        else:
            pos = rng.randrange(len(fields) + 1)
            t = fty(True)
            while not TG.defaultable(t):
                t = TG.gen_prim(rng, allow_usize=False)
            mode = rng.choice(["trait", "trait", "val", "fn"]) if t["k"] == "int" else rng.choice(["trait", "trait", "fn"] if t["k"] == "string" else ["trait"])
            name = newname()
            if mode == "val":
                z = TG.clampi(rng.choice([42, 1, 100, 7]), t["ity"])
                f = F(name, t, frm=ver, default=("int", z), mode="val", src=str(z))
            elif mode == "fn":
                fn = "dflt_h%d_%s" % (hid, name)
                if t["k"] == "int":
                    z = TG.clampi(rng.choice([77, 3, 120]), t["ity"])
                    extra_fns.append("pub fn %s() -> %s { %d }" % (fn, TG.rust_ty(t), z))
                    f = F(name, t, frm=ver, default=("int", z), mode="fn", src=fn)
                else:
                    extra_fns.append('pub fn %s() -> String { "dflt".to_string() }' % fn)
                    f = F(name, t, frm=ver, default=("str", b"dflt"), mode="fn", src=fn)
            else:
                f = F(name, t, frm=ver)
            fields = fields[:pos] + [f] + fields[pos:]
            edits.append(("add", pos, name))
        versions.append(copy.deepcopy(fields))
    types = []
    for j, fs in enumerate(versions):
        # share nested type objects (layouts are attached to them later): deep copies above copied them, so
        # re-link field types by name to the originals
        types.append(S("H%dV%d" % (hid, j), fs, repr_))
    return {"id": hid, "types": types, "edits": edits}


def relink(U):
    """after deep copies, nested struct/enum dicts may be duplicated objects with equal names: make every node
    with a given name the same object so that probed layouts are visible everywhere"""
    canon = {}

    def fix(t):
        for key in ("t", "a", "b"):
            if key in t and isinstance(t[key], dict):
                t[key] = sub(t[key])
        if t["k"] == "tuple":
            t["ts"] = [sub(x) for x in t["ts"]]
        if t["k"] == "struct":
            for f in t["fields"]:
                f["ty"] = sub(f["ty"])
        if t["k"] == "enum":
            for v in t["variants"]:
                for f in v["fields"]:
                    f["ty"] = sub(f["ty"])

    def sub(t):
        if t["k"] in ("struct", "enum"):
            if t["name"] in canon:
                return canon[t["name"]]
            canon[t["name"]] = t
        fix(t)
        return t
    U["items"] = [sub(it) for it in U["items"]]
    for r in U["roots"]:
        r["ty"] = sub(r["ty"])
