# C03 — backward-compatible loading across schema evolution.  (C18 reuses the machinery: write_old)
import random
from . import common as C
from . import tygen as TG
from . import gencrate as GC
from . import datacases as D
from .c05 import obs_term

THEOREMS = ["C03_wire_invariant", "C03_fields_transfer", "C03_load_old", "C03_history_example"]
HEADER = D.HEADER.replace("HarnessTy.", "HarnessTy Container HarnessC5.")


def hist_roots(U):
    """hid -> list of root indices by version"""
    out = {}
    for i, r in enumerate(U["roots"]):
        if "hist" in r:
            hid, j = r["hist"]
            out.setdefault(hid, {})[j] = i
    return out


def upgrade(tk, tj, x):
    """expected value in the version-j definition of a value of the version-k definition (by field name)"""
    byname = {f["name"]: y for f, y in zip(tk["fields"], x[1])}
    k = int(tk["name"].split("V")[-1])
    out = []
    for f in tj["fields"]:
        if f["kind"] in ("removed", "abiremoved"):
            out.append(("unit",))
        elif f.get("from", 0) <= k:
            out.append(byname[f["name"]])
        else:
            out.append(f["default"])
    return ("rec", out)


def run(chk, tier, seed, prop="C03"):
    chk.obligations(THEOREMS, "C03") if THEOREMS else None
    U, binary = GC.ensure(seed, tier)
    if U is None:
        chk.broken.append("harness does not build against /repo: " + binary[-1500:])
        return
    rng = random.Random(seed * 17 + 3)
    H = hist_roots(U)
    containers = ("plain", "noschema", "bare", "bzip2") if tier == "quick" else ("plain", "noschema", "bare", "bzip2", "crypto")
    # stage 1: save with the version-k program at version k; schemas of the version-j program at version k
    lines, meta1 = [], {}
    for hid, vers in H.items():
        for k, rk in vers.items():
            nv = len(U["roots"][rk]["vals"])
            for vi in range(min(nv, 2 if tier == "quick" else 4)):
                for c in containers:
                    cid = "s_%d_%d_%d_%s" % (hid, k, vi, c)
                    lines.append("%s ty_save %d %s %d %d" % (cid, rk, c, k, vi))
                    meta1[cid] = (hid, k, vi, c)
            for j, rj in vers.items():
                if j >= k:
                    lines.append("sc_%d_%d_%d ty_schema %d %d" % (hid, j, k, rj, k))
    obs1 = C.run_harness(binary, lines, timeout=900)
    # stage 2: load with the version-j program (memory version j)
    lines2, meta = [], {}
    n = 0
    for cid, (hid, k, vi, c) in meta1.items():
        o = obs1.get(cid, "")
        if not o.startswith("OK "):
            chk.violations.append(("saving at the current version fails: " + o[:100], {"harness_line": [l for l in lines if l.startswith(cid + " ")][0]}))
            continue
        fhex = o.split(" ")[1]
        for j, rj in H[hid].items():
            if j < k:
                continue
            n += 1
            x = "x%d" % n
            ver = k if c == "bare" else j      # bare_deserialize is told the file version; load() is told the program's version
            lines2.append("%s ty_load %d %s %d %s" % (x, rj, c, ver, fhex))
            meta[x] = {"hid": hid, "k": k, "j": j, "val": vi, "container": c, "root": rj, "rootk": H[hid][k], "file": fhex, "n": n, "version": ver}
    obs2 = C.run_harness(binary, lines2, timeout=900)
    terms = []
    for x, m in meta.items():
        o = obs2.get(x, "MISSING")
        t = obs_term(o)
        rk, rj = U["roots"][m["rootk"]], U["roots"][m["root"]]
        expect = TG.coq_val(upgrade(rk["ty"], rj["ty"], rk["vals"][m["val"]]))
        line = lines2[m["n"] - 1]
        # oracle: the property itself
        if t is None or not o.startswith("OK "):
            chk.violations.append(("data saved at version %d does not load in the version-%d program (%s container): %s" % (m["k"], m["j"], m["container"], o[:120]),
                                   {"history": U["hist"][m["hid"]]["edits"], "saved_type": TG.rust_item(rk["ty"])[:1500], "loading_type": TG.rust_item(rj["ty"])[:1500],
                                    "value": TG.rust_val(rk["ty"], rk["vals"][m["val"]])[:500], "harness_line": line[:3000], "observed": o[:300]}))
            continue
        got = o.split(" ", 2)[2]
        if got != expect:
            chk.violations.append(("loaded value is not the upgrade of the saved one (v%d -> v%d, %s container)" % (m["k"], m["j"], m["container"]),
                                   {"history": U["hist"][m["hid"]]["edits"], "saved_type": TG.rust_item(rk["ty"])[:1500], "loading_type": TG.rust_item(rj["ty"])[:1500],
                                    "expected": expect[:600], "observed": got[:600], "harness_line": line[:3000]}))
        chk.distinct.add((m["hid"], m["k"], m["j"], m["container"]))
        # correspondence with the model
        ct = TG.coq_ty(rj["ty"])
        if m["container"] == "bare":
            terms.append((m["n"], "agree_dec %d %s %s %s" % (m["k"], ct, D.hexlit(m["file"]), t)))
        elif m["container"] == "noschema":
            terms.append((m["n"], "agree_load_noschema %d %s %s %s" % (m["j"], ct, D.hexlit(m["file"]), t)))
        elif m["container"] == "plain":
            sj = obs1.get("sc_%d_%d_%d" % (m["hid"], m["j"], m["k"]))
            if sj:
                terms.append((m["n"], "agree_xload %d %s %s %s %s" % (m["j"], ct, D.hexlit(sj), D.hexlit(m["file"]), t)))
    bad, errs = C.coq_eval_bad(prop, HEADER, terms, shard=100)
    for ids, out in errs:
        chk.broken.append("correspondence shard failed to evaluate (cases %s..): %s" % (ids[:3], out[-400:]))
    byn = {m["n"]: x for x, m in meta.items()}
    for i in bad[:12]:
        m = meta[byn[i]]
        chk.broken.append("correspondence C03 case %s: model and implementation disagree loading v%d data with the v%d program %s (%s); observed %s" % (
            byn[i], m["k"], m["j"], TG.rust_ty(U["roots"][m["root"]]["ty"]), m["container"], obs2.get(byn[i], "")[:200]))
    chk.cov["traces_validated_against_impl"] += len(terms)
    chk.add_eval(len(meta))
    chk.cov["histories"] = len(H)
    chk.cov["edit_kinds"] = {}
    for h in U["hist"]:
        for e in h["edits"]:
            key = e[0] + ("_abi" if e[0] == "remove" and e[2] else "")
            chk.cov["edit_kinds"][key] = chk.cov["edit_kinds"].get(key, 0) + 1
    # evolution steps outside the generated histories (and outside the Coq edit language, see DESIGN §9.3 C03): converted
    # field types (#[savefile_versions_as] with a function / with From / chained, next to packable neighbours, nested)
    # and appended enum variants; expected values come from hand-written upgrade functions in harness/src/evo_ops.rs
    elines = []
    for fam, pairs in (("conv", [(0, 0), (0, 1), (0, 2), (1, 1), (1, 2), (2, 2)]), ("convvec", [(0, 2), (1, 2)]), ("packedconv", [(0, 1), (1, 1)]),
                       ("enum", [(0, 0), (0, 1), (0, 2), (1, 1), (1, 2), (2, 2)])):
        for (j, k) in pairs:
            for cont in ("bare", "plain", "noschema", "bzip2", "crypto"):
                for vi in range(3 if fam == "conv" else 1):
                    elines.append("E%d evo %s %s %d %d %d" % (len(elines), fam, cont, j, k, vi))
    eobs = C.run_harness(binary, elines, timeout=600)
    for l in elines:
        cid = l.split(" ")[0]
        o = eobs.get(cid, "MISSING")
        chk.distinct.add(("evo",) + tuple(l.split(" ")[2:6]))
        if " || EXPECTED " not in o:
            chk.violations.append(("loading data saved by an earlier version of an evolved type did not complete (%s): %s" % (l.split(" ", 2)[2], o[:100]), {"harness_line": l}))
            continue
        got, exp = o[len("LOADED "):].split(" || EXPECTED ")
        if got != exp:
            p = l.split(" ")
            chk.violations.append(("%s family: data saved at version %s and loaded by the version-%s definition (%s container) does not hold the converted / retained values" % (p[2], p[4], p[5], p[3]),
                                   {"harness_line": l, "loaded": got[:500], "expected": exp[:500]}))
    chk.add_eval(len(elines))
    chk.cov["conversion_and_variant_cases"] = len(elines)
    chk.cov["rule"] = ("seeded evolution histories (add field with Default/default_val/default_fn at any position, remove by Removed/AbiRemoved, 1-3 versions, "
                       "nested and packed neighbours); for EVERY pair k <= j: value saved by the version-k program at version k, loaded by the version-j program; "
                       "oracle = upgrade by field name; model = dec k (annotated j) evaluated in Coq; distinct = (history, k, j, container)")
    for x in list(meta)[:4]:
        m = meta[x]
        chk.sample({"case": x, "history": U["hist"][m["hid"]]["edits"], "k": m["k"], "j": m["j"], "container": m["container"], "observed": obs2.get(x, "")[:120]})
