# C18 — writing an older version yields data the older definition reads.
import random
from . import common as C
from . import tygen as TG
from . import gencrate as GC
from . import datacases as D
from .c05 import obs_term
from .c03 import hist_roots

THEOREMS = ["C18_write_old", "C18_removed_panics", "C18_min_safe"]
HEADER = D.HEADER


def downgrade(tn, tk, x):
    """expected value in the version-k definition of a version-n value written at version k"""
    byname = {f["name"]: (f, y) for f, y in zip(tn["fields"], x[1])}
    out = []
    for f in tk["fields"]:
        if f["kind"] in ("removed", "abiremoved"):
            out.append(("unit",))
            continue
        fn, y = byname[f["name"]]
        if fn["kind"] == "abiremoved":
            out.append(fn["default"])        # constructed value
        elif fn["kind"] == "removed":
            out.append(None)                 # cannot be written: panics
        else:
            out.append(y)
    return ("rec", out)


def run(chk, tier, seed):
    chk.obligations(THEOREMS, "C18") if THEOREMS else None
    U, binary = GC.ensure(seed, tier)
    if U is None:
        chk.broken.append("harness does not build against /repo: " + binary[-1500:])
        return
    H = hist_roots(U)
    lines, meta1 = [], {}
    for hid, vers in H.items():
        for n_, rn in vers.items():
            for k in vers:
                if k > n_:
                    continue
                for vi in range(min(len(U["roots"][rn]["vals"]), 2 if tier == "quick" else 4)):
                    cid = "w_%d_%d_%d_%d" % (hid, n_, k, vi)
                    lines.append("%s ty_save %d bare %d %d" % (cid, rn, k, vi))
                    meta1[cid] = (hid, n_, k, vi)
    obs1 = C.run_harness(binary, lines, timeout=900)
    lines2, meta = [], {}
    n = 0
    terms = []
    for cid, (hid, n_, k, vi) in meta1.items():
        o = obs1.get(cid, "")
        rn, rk = U["roots"][H[hid][n_]], U["roots"][H[hid][k]]
        exp = downgrade(rn["ty"], rk["ty"], rn["vals"][vi])
        must_panic = any(y is None for y in exp[1])
        line = [l for l in lines if l.startswith(cid + " ")][0]
        n += 1
        # model of the writer
        ct, cx = TG.coq_ty(rn["ty"]), TG.coq_val(rn["vals"][vi])
        if o.startswith("OK "):
            terms.append((n, "match enc %d %s %s with Ok b => bytes_eqb b %s | _ => false end" % (k, ct, cx, D.hexlit(o.split(" ")[1]))))
        elif o.startswith("PANIC"):
            terms.append((n, "match enc %d %s %s with Panic => true | _ => false end" % (k, ct, cx)))
        else:
            terms.append((n, "false"))
        meta["t%d" % n] = {"n": n, "cid": cid}
        if must_panic:
            if not o.startswith("PANIC"):
                chk.violations.append(("writing a version at which a plain Removed field still existed does not panic: " + o[:80], {"harness_line": line}))
            continue
        if not o.startswith("OK "):
            chk.violations.append(("a version-%d value cannot be written at version %d: %s" % (n_, k, o[:100]),
                                   {"history": U["hist"][hid]["edits"], "type": TG.rust_item(rn["ty"])[:1500], "harness_line": line}))
            continue
        n += 1
        x = "r%d" % n
        lines2.append("%s ty_load %d bare %d %s" % (x, H[hid][k], k, o.split(" ")[1]))
        meta[x] = {"n": n, "hid": hid, "nver": n_, "k": k, "val": vi, "exp": exp, "file": o.split(" ")[1], "root": H[hid][k], "rootn": H[hid][n_]}
    obs2 = C.run_harness(binary, lines2, timeout=900)
    for x, m in meta.items():
        if not x.startswith("r"):
            continue
        o = obs2.get(x, "MISSING")
        t = obs_term(o)
        rk = U["roots"][m["root"]]
        expect = TG.coq_val(m["exp"])
        line = [l for l in lines2 if l.startswith(x + " ")][0]
        if not o.startswith("OK "):
            chk.violations.append(("data written at the older version %d by the version-%d program is not read by the version-%d program: %s" % (m["k"], m["nver"], m["k"], o[:100]),
                                   {"history": U["hist"][m["hid"]]["edits"], "writer_type": TG.rust_item(U["roots"][m["rootn"]]["ty"])[:1500],
                                    "reader_type": TG.rust_item(rk["ty"])[:1500], "harness_line": line[:3000]}))
            continue
        p = o.split(" ", 2)
        if p[2] != expect or int(p[1]) * 2 != len(m["file"].replace("-", "")):
            chk.violations.append(("value read by the older program is not the downgrade of the written one (v%d written at %d)" % (m["nver"], m["k"]),
                                   {"history": U["hist"][m["hid"]]["edits"], "expected": expect[:600], "observed": o[:600], "harness_line": line[:3000]}))
        terms.append((m["n"], "agree_dec %d %s %s %s" % (m["k"], TG.coq_ty(rk["ty"]), D.hexlit(m["file"]), t)))
        chk.distinct.add((m["hid"], m["nver"], m["k"]))
    # the packed fast path is never taken for a version whose wire layout differs from memory: Vec<T> of the
    # newest definition written at every older version equals the element-wise writing (model: enc)
    bad, errs = C.coq_eval_bad("C18", HEADER, terms, shard=100)
    for ids, out in errs:
        chk.broken.append("correspondence shard failed to evaluate (cases %s..): %s" % (ids[:3], out[-400:]))
    for i in bad[:12]:
        chk.broken.append("correspondence C18 case %d: model and implementation disagree" % i)
    chk.cov["traces_validated_against_impl"] += len(terms)
    chk.add_eval(len(meta1) + len(lines2))
    chk.cov["rule"] = ("for every history and every pair k <= n: a value of the version-n program written with bare_serialize at version k, read by the "
                       "version-k program; oracle = downgrade by field name (AbiRemoved -> constructed value, plain Removed -> panic); "
                       "model = enc k (annotated n) / dec k (annotated k) in Coq; distinct = (history, n, k)")
    for x in [x for x in meta if x.startswith("r")][:4]:
        m = meta[x]
        chk.sample({"case": x, "history": U["hist"][m["hid"]]["edits"], "n": m["nver"], "k": m["k"], "observed": obs2.get(x, "")[:120]})
