# C04 — the packed fast path is transparent and only taken for padding-free layouts.
from . import common as C
from . import tygen as TG
from . import gencrate as GC
from . import datacases as D

THEOREMS = ["C04_packed_sound", "C04_image_size", "C04_transparent_write", "C04_transparent_read", "C04_version_gate", "C04_packed_sound_refuted_mixed_enum", "C04_hypotheses_satisfiable"]
HEADER = D.HEADER.replace("HarnessTy.", "HarnessTy Packed HarnessPk.")


def elem_type(t):
    return t["t"] if t["k"] in ("vec", "array") else None


def run(chk, tier, seed):
    if THEOREMS:
        chk.obligations(THEOREMS, "C04")
    else:
        ok, out = C.coq_make()
        if not ok:
            chk.broken.append("coq build failed: " + out[-800:])
    U, binary = GC.ensure(seed, tier)
    if U is None:
        chk.broken.append("harness does not build against /repo: " + binary[-1500:])
        return
    roots = D.roots_for(U, exclude=("arrayvec",))
    versions = (0, 1, 2) if tier == "quick" else (0, 1, 2, 3, 7)
    lines, meta = [], {}
    n = 0
    for ri, r in roots:
        for v in versions:
            n += 1
            lines.append("pk%d ty_packed %d %d" % (n, ri, v))
            meta["pk%d" % n] = {"kind": "packed", "root": ri, "version": v, "n": n, "val": 0}
        for vi in range(len(r["vals"])):
            n += 1
            lines.append("by%d ty_rt %d bare %d %d" % (n, ri, r.get("curver", 0), vi))
            meta["by%d" % n] = {"kind": "bytes", "root": ri, "version": r.get("curver", 0), "val": vi, "n": n, "container": "bare"}
            n += 1
            lines.append("dt%d ty_det %d bare %d %d" % (n, ri, r.get("curver", 0), vi))
            meta["dt%d" % n] = {"kind": "det", "root": ri, "version": r.get("curver", 0), "val": vi, "n": n, "container": "bare"}
    obs = C.run_harness(binary, lines, timeout=900)
    terms = []
    npacked = 0
    for cid, m in meta.items():
        o = obs.get(cid, "MISSING")
        r = U["roots"][m["root"]]
        t = r["ty"]
        ct = TG.coq_ty(t)
        if m["kind"] == "packed":
            if o in ("0", "1"):
                npacked += o == "1"
                terms.append((m["n"], "agree_packed %d %s %s" % (m["version"], ct, "true" if o == "1" else "false")))
            else:
                terms.append((m["n"], "false"))
        elif m["kind"] == "bytes":
            p = o.split(" ", 3)
            if p[0] == "OK":
                cx = TG.coq_val(r["vals"][m["val"]])
                terms.append((m["n"], "agree_impl %d %s %s %s" % (m["version"], ct, cx, D.hexlit(p[1]))))
            else:
                terms.append((m["n"], "false"))
    # hypotheses of the theorems, evaluated on every generated definition with its real layout
    hyp_terms = []
    hyp_meta = {}
    for ri, r in roots:
        n += 1
        ct = TG.coq_ty(r["ty"])
        hyp_terms.append((n, "wf_ty %s && empty_struct_zst %s && wf_layout %s && regions_ok 0 %s && regions_ok 2 %s" % (ct, ct, ct, ct, ct)))
        hyp_meta[n] = ri
    hbad, herrs = C.coq_eval_bad("C04hyp", HEADER.replace("HarnessPk.", "HarnessPk PackedProofs."), hyp_terms, shard=150)
    for ids, out in herrs:
        chk.broken.append("hypothesis shard failed to evaluate: " + out[-300:])
    for i in hbad:
        chk.broken.append("a generated definition with its REAL layout violates a hypothesis of the C04 theorems (wf_ty / empty_struct_zst / wf_layout / regions_ok): %s" % TG.rust_ty(U["roots"][hyp_meta[i]]["ty"]))
    chk.cov["hypotheses_checked_on_definitions"] = len(hyp_terms)
    bad, errs = C.coq_eval_bad("C04", HEADER, terms, shard=120)
    for ids, out in errs:
        chk.broken.append("correspondence shard failed to evaluate (cases %s..): %s" % (ids[:3], out[-400:]))
    byn = {m["n"]: cid for cid, m in meta.items()}
    for i in bad[:20]:
        cid = byn[i]
        m = meta[cid]
        chk.broken.append("correspondence C04 case %s (%s): model and implementation disagree on %s; observed %s" % (
            cid, m["kind"], D.describe(U, m), obs.get(cid, "")[:200]))
    chk.cov["traces_validated_against_impl"] += len(terms)

    # ---- direct oracle on the implementation:
    #  (a) bytes of a bulk-capable container equal the length prefix + the element-wise bytes of the same elements
    #  (b) two saves of the same value are byte-identical (padding must never reach the file)
    #  (c) bytes equal the field-by-field (documented) encoding, evaluated in Coq
    spec_terms = []
    for cid, m in meta.items():
        o = obs.get(cid, "MISSING")
        r = U["roots"][m["root"]]
        t = r["ty"]
        if m["kind"] == "det":
            if not o.startswith("1"):
                kf = known(U, r)
                what = "two saves of the same value differ (indeterminate bytes written): " + o[:200]
                if kf:
                    chk.known_hits.setdefault(kf, what) if hasattr(chk, "known_hits") else None
                else:
                    chk.violations.append((what, {"input": D.describe(U, m), "harness_line": [l for l in lines if l.startswith(cid + " ")][0], "observed": o[:400]}))
        elif m["kind"] == "bytes" and o.startswith("OK "):
            p = o.split(" ", 3)
            spec_terms.append((m["n"], "spec_bytes %d %s %s %s" % (m["version"], TG.coq_ty(t), TG.coq_val(r["vals"][m["val"]]), D.hexlit(p[1]))))
            chk.distinct.add((D.shape_key(t), "bytes"))
        elif m["kind"] == "packed":
            chk.distinct.add((D.shape_key(t), m["version"], o))
    sbad, serrs = C.coq_eval_bad("C04spec", HEADER, spec_terms, shard=150)
    for ids, out in serrs:
        chk.broken.append("oracle shard failed to evaluate: " + out[-300:])
    for i in sbad:
        cid = byn[i]
        m = meta[cid]
        r = U["roots"][m["root"]]
        kf = known(U, r)
        what = "bytes written through the bulk/packed path differ from the field-by-field encoding"
        if kf:
            continue
        chk.violations.append((what, {"input": D.describe(U, m), "harness_line": [l for l in lines if l.startswith(cid + " ")][0], "observed": obs.get(cid, "")[:400]}))
    chk.add_eval(len(meta))
    chk.cov["packed_yes_answers"] = npacked
    # generic instantiations (hand-written: the generated universe has no generic definitions): an explicit-repr enum /
    # repr(C) struct holding the same generic wrapper with a bulk-copyable and a not bulk-copyable payload must not be
    # declared packed, and must write exactly what its field-by-field twin writes
    go = C.run_harness(binary, ["g generic_packed"]).get("g", "MISSING")
    for ent in go.split(" ; "):
        if "packed=0 vec_same=1 single_same=1 loads_as_twin=1" not in ent:
            chk.violations.append(("generic instantiation case: the packed fast path is taken for a type with a non-packable field, or its bytes differ from the field-by-field encoding: " + ent[:120],
                                   {"harness_line": "g generic_packed", "observed": go[:600]}))
    chk.add_eval(6)
    chk.cov["rule"] = ("for every root type: real repr_c_optimization_safe(v) for several v against packed v t (layouts probed from the real compilation); "
                       "real bytes of every value against the implementation model impl_enc and against the field-by-field encoding; determinism of two saves; "
                       "distinct = (structural type key, version, answer)")
    for cid in list(meta)[:5]:
        chk.sample({"case": cid, "input": D.describe(U, meta[cid]), "observed": obs.get(cid, "")[:120]})
    replay_known(chk, U, binary)


def known(U, r):
    """known-finding class of a root (by the specific definitions listed in known_findings.json)"""
    names = set()
    TG.walk_types(r["ty"], lambda t: names.add(t.get("name")))
    for e in C.known_findings("C04"):
        if e.get("status") == "open" and e.get("type_name") in names:
            return e["id"]
    return None


def replay_known(chk, U, binary):
    for e in C.known_findings(chk.prop):
        if e.get("status") != "open" or "harness_type" not in e:
            continue
        # find the root
        idx = [i for i, r in enumerate(U["roots"]) if TG.rust_ty(r["ty"]) == e["harness_type"]]
        if not idx:
            chk.info.append("known finding %s: witness type %s not in the universe" % (e["id"], e["harness_type"]))
            continue
        fails = 0
        for k in range(4):
            o = C.run_harness(binary, ["k ty_det %d bare 0 0" % idx[0]]).get("k", "")
            p = o.split()
            exp = e.get("spec_bytes")
            if not o.startswith("1") or (exp and len(p) > 1 and p[1] != exp):
                fails += 1
        if fails:
            chk.known_lines.append("%s: %s" % (e["id"], e["what"]))
        else:
            chk.info.append("known finding %s no longer reproduces" % e["id"])
