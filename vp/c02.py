# C02 — wire-format conformance: bytes equal the documented savefile encoding.
import json, os, random
from . import common as C
from . import tygen as TG
from . import gencrate as GC
from . import datacases as D

THEOREMS = ["C02_format", "C02_header", "C02_forward", "C02_discr_width", "C02_discr_index"]
HEADER = D.HEADER.replace("HarnessTy.", "HarnessTy Packed HarnessPk.")


def known_root(r):
    return "k13bulk" in r["tags"]


def run(chk, tier, seed):
    if THEOREMS:
        chk.obligations(THEOREMS, "C02")
    else:
        ok, out = C.coq_make()
        if not ok:
            chk.broken.append("coq build failed: " + out[-800:])
    U, binary = GC.ensure(seed, tier)
    if U is None:
        chk.broken.append("harness does not build against /repo: " + binary[-1500:])
        return
    roots = D.roots_for(U, exclude=("arrayvec",))
    lines, meta = [], {}
    n = 0
    for ri, r in roots:
        for vi in range(len(r["vals"])):
            for c in ("bare", "noschema", "plain"):
                n += 1
                lines.append("b%d ty_rt %d %s %d %d" % (n, ri, c, r.get("curver", 0), vi))
                meta["b%d" % n] = {"kind": "bytes", "root": ri, "val": vi, "container": c, "version": r.get("curver", 0), "n": n}
            n += 1
            lines.append("d%d ty_det %d bare %d %d" % (n, ri, r.get("curver", 0), vi))
            meta["d%d" % n] = {"kind": "det", "root": ri, "val": vi, "container": "bare", "version": r.get("curver", 0), "n": n}
    # golden files written by the pinned (earlier) build: still loaded to the same value, still written identically
    gpath = os.path.join(C.ROOT, "golden", "golden.json")
    gold = json.load(open(gpath))["entries"] if os.path.exists(gpath) else []
    byname = {TG.rust_ty(r["ty"]): i for i, r in roots}
    if tier == "quick":
        gold = random.Random(seed).sample(gold, min(400, len(gold)))
    for g in gold:
        if g["type"] not in byname:
            continue
        n += 1
        lines.append("g%d ty_load %d %s 0 %s" % (n, byname[g["type"]], g["container"], g["file_hex"]))
        meta["g%d" % n] = {"kind": "gload", "root": byname[g["type"]], "val": g["value_index"], "container": g["container"], "version": 0, "n": n, "gold": g}
        n += 1
        lines.append("w%d ty_save %d %s 0 %d" % (n, byname[g["type"]], g["container"], g["value_index"]))
        meta["w%d" % n] = {"kind": "gsave", "root": byname[g["type"]], "val": g["value_index"], "container": g["container"], "version": 0, "n": n, "gold": g}
    obs = C.run_harness(binary, lines, timeout=1200)
    oterms = []
    for cid, m in meta.items():
        o = obs.get(cid, "MISSING")
        r = U["roots"][m["root"]]
        t = r["ty"]
        line = lines[m["n"] - 1]
        if o.startswith("ABORT") or o == "MISSING" or o.startswith("TIMEOUT"):
            chk.violations.append(("implementation aborted: " + o, {"input": D.describe(U, m), "harness_line": line[:2000]}))
            continue
        if m["kind"] == "bytes":
            p = o.split(" ", 3)
            if p[0] not in ("OK", "LOAD-ERR"):
                chk.violations.append(("save failed: " + o[:100], {"input": D.describe(U, m), "harness_line": line}))
                continue
            ct, cx = TG.coq_ty(t), TG.coq_val(r["vals"][m["val"]])
            if m["container"] == "bare":
                oterms.append((m["n"], "spec_bytes %d %s %s %s" % (m["version"], ct, cx, D.hexlit(p[1]))))
            elif m["container"] == "noschema":
                oterms.append((m["n"], "bytes_eqb (firstn 16 %s) (header %d false) && spec_bytes %d %s %s (skipn 16 %s)" % (D.hexlit(p[1]), m["version"], m["version"], ct, cx, D.hexlit(p[1]))))
            else:
                oterms.append((m["n"], "bytes_eqb (firstn 16 %s) (header %d false) && match de_top 2 (skipn 16 %s) with Ok (_, payload) => spec_bytes %d %s %s payload | _ => false end" % (
                    D.hexlit(p[1]), m["version"], D.hexlit(p[1]), m["version"], ct, cx)))
            chk.distinct.add((D.shape_key(t), m["container"]))
        elif m["kind"] == "det":
            if not o.startswith("1") and not known_root(r):
                chk.violations.append(("equal values do not produce identical bytes: " + o[:160], {"input": D.describe(U, m), "harness_line": line, "observed": o[:400]}))
        elif m["kind"] == "gload":
            g = m["gold"]
            p = o.split(" ", 2)
            if p[0] != "OK" or p[2] != g["loaded"]:
                chk.violations.append(("a file written by the pinned earlier build no longer loads to the same value (type %s, %s container): %s" % (g["type"], g["container"], o[:120]),
                                       {"golden": {k: g[k] for k in ("type", "value_index", "container")}, "harness_line": line[:3000], "expected": g["loaded"][:300], "observed": o[:300]}))
        elif m["kind"] == "gsave":
            g = m["gold"]
            p = o.split(" ")
            if p[0] != "OK" or p[1] != g["file_hex"]:
                chk.violations.append(("bytes written for a fixed value differ from those the pinned earlier build wrote (type %s, %s container)" % (g["type"], g["container"]),
                                       {"golden": {k: g[k] for k in ("type", "value_index", "container")}, "harness_line": line, "expected": g["file_hex"][:400], "observed": o[:400]}))
    obad, oerrs = C.coq_eval_bad("C02", HEADER, oterms, shard=150)
    for ids, out in oerrs:
        chk.broken.append("shard failed to evaluate (cases %s..): %s" % (ids[:3], out[-400:]))
    byn = {m["n"]: cid for cid, m in meta.items()}
    for i in obad:
        cid = byn[i]
        m = meta[cid]
        if known_root(U["roots"][m["root"]]):
            continue
        chk.violations.append(("bytes are not the documented encoding (header / schema section / little-endian fields in declaration order / index discriminants)",
                               {"input": D.describe(U, m), "harness_line": lines[m["n"] - 1], "observed": obs.get(cid, "")[:500]}))
    chk.cov["traces_validated_against_impl"] += len(oterms)
    chk.add_eval(len(meta))
    chk.cov["golden_files"] = sum(1 for m in meta.values() if m["kind"] == "gload")
    # library types outside the universe: bytes against Ty.enc of the equivalent term, determinism, golden bytes of the pinned build
    from . import libcases
    lib_bare = libcases.run_rt(chk, binary, containers=("bare",))
    libcases.run_det_and_golden(chk, binary, lib_bare)
    chk.cov["rule"] = ("real bytes of every (root, value) in bare / noschema / plain containers against the documented encoding `enc` (and the header) evaluated in Coq; "
                       "two saves of equal values byte-identical; golden files written by the pinned build (322d5e5) load to the recorded value and are re-written "
                       "byte-identically by the current build; distinct = (type key, container)")
    for cid in list(meta)[:3]:
        chk.sample({"case": cid, "input": D.describe(U, meta[cid]), "observed": obs.get(cid, "")[:140]})
    # known finding K13: replay the listed witness
    from . import c04
    c04.replay_known(chk, U, binary)
