# C11 — by-reference argument passing only between provably identical layouts.
import random
from . import common as C
from . import tygen as TG
from . import gencrate as GC
from . import datacases as D
from . import abichecks as A
from . import schema_gen as G

THEOREMS = ["C11_sound", "C11_unknown_is_no", "C11_mask", "C11_by_ref_needs_layout", "C11_by_ref_needs_unchanged"]
HEADER13 = "From Coq Require Import String.\nFrom SF Require Import Bytes Schema Harness.\nImport ListNotations.\nOpen Scope string_scope.\nOpen Scope N_scope.\n"


def layout_mutants(rng, s):
    """near-miss pairs: one layout fact changed"""
    out = []
    pos = list(G.positions(s))
    for _ in range(4):
        path, node = rng.choice(pos)
        k = node[0]
        if k == 'St':
            _, name, size, align, fields = node
            cands = [('St', name, ((size or 0) + 1) % 2**64, align, fields), ('St', name, size, ((align or 1) * 2) % 2**64, fields), ('St', name, None, align, fields)]
            cands.append(('St', name, size, align, fields + [(b"extra", ('Pr', 2, None), ((size or 1) - 1))]))   # an extra trailing field inside the same size
            if fields:
                cands.append(('St', name, size, align, fields[:-1]))
                i = rng.randrange(len(fields))
                n, v, o = fields[i]
                cands.append(('St', name, size, align, fields[:i] + [(n, v, ((o or 0) + 1) % 2**64)] + fields[i + 1:]))
                cands.append(('St', name, size, align, fields[:i] + [(n, v, None)] + fields[i + 1:]))
            new = rng.choice(cands)
        elif k == 'En':
            _, name, vs, ds, rp, size, align = node
            new = rng.choice([('En', name, vs, ds, not rp, size, align), ('En', name, vs, {1: 2, 2: 4, 4: 1}.get(ds, 1), rp, size, align), ('En', name, vs, ds, rp, ((size or 0) + 4) % 2**64, align)])
        elif k == 'Ve':
            new = ('Ve', node[1], (node[2] + 1) % 9)
        elif k == 'Pr' and node[1] == 9:
            new = ('Pr', 9, (node[2] + 1) % 9)
        elif k == 'Ar':
            new = ('Ar', node[1], (node[2] + 1) % 2**64)
        else:
            continue
        out.append(G.replace_at(s, path, new))
    return out


def clean_struct_pairs(rng, count):
    """fully laid-out structs (size, alignment and every offset known, hence compatible with themselves) against every
    single-fact near miss, in BOTH argument orders: an unknown offset on one side only, a shifted offset, a changed
    size / alignment, a field more or less"""
    out = []
    prims = [(2, 1), (4, 2), (6, 4), (8, 8), (12, 1)]          # (primitive tag, size)
    for _ in range(count):
        fields, off = [], 0
        for i in range(rng.randint(1, 4)):
            tag, sz = rng.choice(prims)
            off = (off + sz - 1) // sz * sz
            fields.append((b"f%d" % i, ('Pr', tag, None), off))
            off += sz
        size = (off + 7) // 8 * 8
        s = ('St', b"S", size, 8, fields)
        out.append((s, s))
        for i, (n, v, o) in enumerate(fields):
            for t in (('St', b"S", size, 8, fields[:i] + [(n, v, None)] + fields[i + 1:]),
                      ('St', b"S", size, 8, fields[:i] + [(n, v, o + 1)] + fields[i + 1:]),
                      ('St', b"S", size, 8, fields[:i] + [(n, ('Pr', 3 if v[1] != 3 else 5, None), o)] + fields[i + 1:])):
                out += [(s, t), (t, s)]
        for t in (('St', b"S", size + 8, 8, fields), ('St', b"S", size, 4, fields), ('St', b"S", None, 8, fields), ('St', b"S", size, None, fields),
                  ('St', b"S", size, 8, fields[:-1]), ('St', b"S", size, 8, fields + [(b"x", ('Pr', 2, None), size - 1)])):
            out += [(s, t), (t, s)]
    return out


def run(chk, tier, seed):
    if THEOREMS:
        chk.obligations(THEOREMS, "C11")
    else:
        ok, out = C.coq_make()
        if not ok:
            chk.broken.append("coq build failed: " + out[-800:])
    U, binary = GC.ensure(seed, tier)
    if U is None:
        chk.broken.append("harness does not build against /repo: " + binary[-1500:])
        return
    rng = random.Random(seed * 1117 + 11)
    # (a) Schema::layout_compatible on pairs of schema trees (same tree, near misses, unrelated) against the model
    n = 160 if tier == "quick" else 1500
    trees = [G.gen_schema(rng, rng.choice([1, 2, 3]), {"data_only": True}) for _ in range(n)]
    lines, meta = [], {}
    k = 0
    for s in trees:
        for t in [s] + layout_mutants(rng, s) + [rng.choice(trees)]:
            k += 1
            lines.append("y%d schema_layout %s %s" % (k, " ".join(G.tokens(s)), " ".join(G.tokens(t))))
            meta[k] = (s, t)
    for (s, t) in clean_struct_pairs(rng, 12 if tier == "quick" else 80):
        k += 1
        lines.append("y%d schema_layout %s %s" % (k, " ".join(G.tokens(s)), " ".join(G.tokens(t))))
        meta[k] = (s, t)
    # real schemas of the universe: every root against itself and against its siblings
    roots = D.roots_for(U, exclude=("k13bulk", "arrayvec"))
    sl = ["s%d ty_schema %d %d" % (i, i, r.get("curver", 0)) for i, r in roots]
    so = C.run_harness(binary, sl)
    obs = C.run_harness(binary, lines, timeout=900)
    terms = []
    tree_oracle = []
    for k, (s, t) in meta.items():
        o = obs.get("y%d" % k, "")
        if o not in ("0", "1"):
            chk.violations.append(("layout_compatible failed: " + o[:60], {"harness_line": lines[k - 1][:2000]}))
            continue
        terms.append((k, "agree_layout %s %s %s" % (G.coq(s), G.coq(t), "true" if o == "1" else "false")))
        if o == "1":
            tree_oracle.append((k, "match mty_of %s, mty_of %s with Some m1, Some m2 => mty_eqb m1 m2 | _, _ => false end" % (G.coq(s), G.coq(t))))
        chk.distinct.add(("tree", o, G.py_shape(s) == G.py_shape(t)))
    bad, errs = C.coq_eval_bad("C11", HEADER13, terms, shard=150)
    for ids, out in errs:
        chk.broken.append("shard failed to evaluate: " + out[-300:])
    for i in bad[:10]:
        chk.broken.append("correspondence C11: Schema::layout_compatible differs from the model on %s vs %s" % (" ".join(G.tokens(meta[i][0]))[:200], " ".join(G.tokens(meta[i][1]))[:200]))
    tbad, terrs = C.coq_eval_bad("C11t", A.HEADER.replace("HarnessAbi.", "HarnessAbi AbiLayout HarnessC11."), tree_oracle, shard=150)
    for ids_, out in terrs:
        chk.broken.append("tree oracle shard failed to evaluate: " + out[-300:])
    for k in tbad:
        chk.violations.append(("Schema::layout_compatible returns true for two schemas that do not claim the identical memory type",
                               {"harness_line": lines[k - 1][:3000], "a": " ".join(G.tokens(meta[k][0]))[:600], "b": " ".join(G.tokens(meta[k][1]))[:600]}))
    # (b) oracle on REAL schemas: whenever two real definitions are declared compatible, their memory types are identical
    oterms = []
    hx = {i: so.get("s%d" % i) for i, _ in roots}
    pairs = []
    ids = [i for i, _ in roots if hx.get(i)]
    for i in ids:
        pairs.append((i, i))
        for j in rng.sample(ids, 3):
            pairs.append((i, j))
    for q, (i, j) in enumerate(pairs):
        oterms.append((q + 1, "layout_oracle %s %s" % (D.hexlit(hx[i]), D.hexlit(hx[j]))))
    obad, oerrs = C.coq_eval_bad("C11o", A.HEADER.replace("HarnessAbi.", "HarnessAbi AbiLayout HarnessC11."), oterms, shard=150)
    for ids_, out in oerrs:
        chk.broken.append("oracle shard failed to evaluate: " + out[-300:])
    for q in obad:
        i, j = pairs[q - 1]
        chk.violations.append(("two real definitions are declared layout compatible although the memory types their schemas claim differ (or something is unknown)",
                               {"types": [TG.rust_ty(U["roots"][i]["ty"]), TG.rust_ty(U["roots"][j]["ty"])]}))
    # (c) through real connections: by-reference arguments are seen as if serialized (C10's agree_byref_seen covers values); here: mask bits vs the model
    fams = U["families"]
    defs = A.defs_for(binary, fams)
    cl, cm = [], {}
    for fam in fams:
        for i in range(fam["nver"]):
            for j in range(fam["nver"]):
                cid = "p_%d_%d_%d" % (fam["id"], i, j)
                cl.append("%s abi_call %d %d %d passable 0" % (cid, fam["id"], i, j))
                cm[cid] = (fam["id"], i, j)
    co = C.run_harness(binary, cl)
    cterms = []
    for q, (cid, (f, i, j)) in enumerate(cm.items()):
        kind, rest, _ = A.parse_call(co.get(cid, ""))
        bits = rest.split(" ")
        if kind != "OK" or len(bits) != 3:
            continue
        e = min(i, j)
        h4 = [defs[(f, i, e)], defs[(f, j, e)], defs[(f, i, i)], defs[(f, j, j)]]
        bl = "[(%s, 0, %s); (%s, 1, %s); (%s, 0, %s)]" % (A.cb(b"by_ref"), "true" if bits[0] == "1" else "false", A.cb(b"mixed"), "true" if bits[1] == "1" else "false", A.cb(b"echo"), "true" if bits[2] == "1" else "false")
        cterms.append((q + 1, "agree_connect %d %s %s %s %s true %s" % (e, D.hexlit(h4[0]), D.hexlit(h4[1]), D.hexlit(h4[2]), D.hexlit(h4[3]), bl)))
        chk.distinct.add(("conn", f, i, j, rest))
        # oracle: different versions of an evolved struct never have identical layouts AND identical field sets, so across versions by_ref must be 0 unless the definitions are the same
    cbad, cerrs = C.coq_eval_bad("C11c", A.HEADER, cterms, shard=60)
    for ids_, out in cerrs:
        chk.broken.append("connection shard failed to evaluate: " + out[-300:])
    for q in cbad:
        chk.broken.append("correspondence C11: compatibility mask of connection %s differs from Abi.analyze" % list(cm)[q - 1])
    chk.cov["traces_validated_against_impl"] += len(terms) + len(cterms)
    chk.add_eval(len(meta) + len(pairs) + len(cm))
    chk.cov["runtime_behaviour_not_exhibited"] = "implementations compiled by a different compiler / with randomised layouts are not built in this tier; the decision procedure is checked on layout facts"
    chk.cov["rule"] = ("Schema::layout_compatible on generated schema trees vs themselves, single-layout-fact mutants and unrelated trees, against the model; on the REAL schemas of the universe: "
                       "declared compatible => identical claimed memory type (mty_of) evaluated in Coq; compatibility masks of real connections across all version pairs against Abi.analyze")
    for k in list(meta)[:3]:
        chk.sample({"a": " ".join(G.tokens(meta[k][0]))[:120], "b": " ".join(G.tokens(meta[k][1]))[:120], "observed": obs.get("y%d" % k)})
    # known finding K8
    ko = C.run_harness(binary, ["k kf ignored_field_layout"]).get("k", "")
    listed = {e["id"]: e for e in C.known_findings("C11")}
    if ko.startswith("DEFECT"):
        if listed.get("K8", {}).get("status") == "open":
            chk.known_lines.append("K8: " + ko[7:160])
        else:
            chk.violations.append(("ignored fields are absent from the schema but present in size_of: declared layout compatible although the definitions differ", {"harness_line": "k kf ignored_field_layout", "observed": ko[:300]}))
    elif listed.get("K8", {}).get("status") == "open":
        chk.info.append("known finding K8 no longer reproduces: " + ko[:80])
