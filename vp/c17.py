# C17 — introspection is self-consistent and navigation never panics.
import random
from . import common as C
from . import tygen as TG
from . import gencrate as GC
from . import datacases as D

THEOREMS = ["C17_total_index_flatten", "C17_total_index_exact", "C17_results_wf", "C17_no_panic", "C17_fuel_suffices",
            "C17_sequences_safe", "C17_sequences_total_index", "C17_first_frame", "C17_library_len", "C17_rule_exact",
            "C17_model_len", "C17_dump_len"]
HEADER = ("From Coq Require Import String.\nFrom SF Require Import Bytes Introspect HarnessC17.\nImport ListNotations.\n"
          "Open Scope string_scope.\nOpen Scope N_scope.\n")
HEADER_SHAPE = D.HEADER.replace("HarnessTy.", "HarnessTy Introspect IntrospectOf.")

U64MAX = 2 ** 64 - 1


def hexof(tok):
    h = tok[1:]
    return "" if h == "-" else h


class P:
    """parser for the harness's compact formats"""

    def __init__(self, s):
        self.s, self.i = s, 0

    def eat(self, c):
        assert self.s[self.i:self.i + len(c)] == c, (self.s[self.i:self.i + 20], c)
        self.i += len(c)

    def until(self, chars):
        j = self.i
        while self.s[j] not in chars:
            j += 1
        r = self.s[self.i:j]
        self.i = j
        return r

    def tree(self):
        self.eat("N(")
        v = hexof(self.until(","))
        self.eat(",")
        ln = int(self.until(","))
        self.eat(",[")
        ch = []
        while self.s[self.i] != "]":
            if ch:
                self.eat(";")
            k = hexof(self.until(":"))
            self.eat(":")
            ch.append((k, self.tree()))
        self.eat("])")
        return {"v": v, "len": ln, "ch": ch}


def has_cellbox(t):
    found = []
    TG.walk_types(t, lambda x: found.append(1) if (x["k"] == "box" and x.get("kind", "Box") in ("RefCell", "Mutex", "RwLock")) or x["k"] == "cell" else None)
    return bool(found)


def tree_coq(t):
    return "(INode %s %d [%s])" % (D.hexlit(t["v"]), t["len"], ";".join("(%s, %s)" % (D.hexlit(k), tree_coq(c)) for k, c in t["ch"]))


def tree_nodes(t):
    return 1 + sum(tree_nodes(c) for _, c in t["ch"])


def elem_coq(e):
    d, k, dis, v, hc, sel = e.split(".")
    return "(EL %s %s %s %s %s %s)" % (d, D.hexlit(hexof(k)), dis, D.hexlit(hexof(v)), "true" if hc == "1" else "false", "true" if sel == "1" else "false")


def frame_coq(f):
    # F(sel,limit,[e;e])
    assert f.startswith("F(") and f.endswith("])")
    sel, lim, rest = f[2:-2].split(",", 2)
    els = [x for x in rest[1:].split(";") if x]
    return "(FR %s [%s] %s)" % ("None" if sel == "-" else "(Some %s)" % sel, ";".join(map(elem_coq, els)), "true" if lim == "1" else "false"), len(els)


def cmd_coq(c):
    p = c.split(".")
    if p[0] == "E":
        return "(Expand %s %s %s)" % (p[1], D.hexlit(hexof(p[2])), p[3])
    if p[0] == "S":
        return "(SelectNth %s %s)" % (p[1], p[2])
    return {"N": "NavNothing", "U": "NavUp"}[p[0]]


def gen_cmds(rng, tree, n):
    """mostly-valid commands, tracking a guess of the current path (child indices), plus junk"""
    path, out = [], []

    def node_at(p):
        t = tree
        for i in p:
            if i >= len(t["ch"]):
                return None
            t = t["ch"][i][1]
        return t

    def dis_of(t, idx):
        k = t["ch"][idx][0]
        return sum(1 for kk, _ in t["ch"][:idx] if kk == k)

    for _ in range(n):
        r = rng.random()
        depth = (len(path) if rng.random() < 0.6 else rng.randint(0, len(path))) if rng.random() < 0.88 else rng.choice([len(path) + 1, len(path) + 2, 7, U64MAX])
        t = node_at(path[:depth]) if depth <= len(path) else None
        if r < 0.45:
            if t is not None and t["ch"] and rng.random() < 0.9:
                idx = rng.randrange(len(t["ch"]))
                path = path[:depth] + [idx]
            else:
                idx = rng.choice([0, 1, 5, len(t["ch"]) if t else 3, U64MAX])
            out.append("S.%d.%d" % (depth, idx))
        elif r < 0.82:
            if t is not None and t["ch"] and rng.random() < 0.88:
                idx = rng.randrange(len(t["ch"]))
                key, dis = t["ch"][idx][0], dis_of(t, idx)
                if rng.random() < 0.1:
                    dis += rng.choice([1, 2, U64MAX - dis])
                else:
                    path = path[:depth] + [idx]
            else:
                key, dis = rng.choice(["", "6e6f7065", "30", "6b"]), rng.choice([0, 0, 1])
            out.append("E.%d.x%s.%d" % (depth, key or "-", dis))
        elif r < 0.92 and (path or rng.random() < 0.15):
            out.append("U")
            path = path[:-1]
        else:
            out.append("N")
    return out


def run(chk, tier, seed):
    chk.obligations(THEOREMS, "C17")
    U, binary = GC.ensure(seed, tier)
    if U is None:
        chk.broken.append("harness does not build against /repo: " + binary[-1500:])
        return
    rng = random.Random(seed * 7919 + 17)
    listed = {e["id"]: e for e in C.known_findings("C17")}
    names = C.run_harness(binary, ["a intro_names"]).get("a", "").split()
    if len(names) < 20:
        chk.broken.append("the harness does not list its fixed introspection corpus: " + " ".join(names)[:100])
        return
    roots = [(i, r) for i, r in D.roots_for(U, exclude=("k13bulk",)) if "Cell<" not in TG.rust_ty(r["ty"])]
    if tier == "quick":
        keep = [x for x in roots if "fixed" in x[1]["tags"]][:40]
        rest = [x for x in roots if x not in keep]
        roots = keep + rng.sample(rest, min(60, len(rest)))
    targets = [("fixed", n, None) for n in names]
    for i, r in roots:
        for vi in range(min(len(r["vals"]), 2 if tier == "quick" else 4)):
            targets.append(("gen", i, vi))
    # ---- phase 1: trees and reported lengths ----
    lines = []
    for k, (kind, a, b) in enumerate(targets):
        if kind == "fixed":
            lines.append("d%d intro_dump %s" % (k, a))
            lines.append("l%d intro_len %s" % (k, a))
        else:
            lines.append("d%d ty_introdump %d %d" % (k, a, b))
            lines.append("l%d ty_introlen %d %d" % (k, a, b))
    obs1 = C.run_harness(binary, lines, timeout=900)
    trees, nlen, mism = {}, 0, []
    for k, (kind, a, b) in enumerate(targets):
        lo = obs1.get("l%d" % k, "MISSING")
        what = a if kind == "fixed" else "%s value %d" % (TG.rust_ty(U["roots"][a]["ty"]), b)
        if lo.startswith("OK "):
            nlen += int(lo.split()[1])
        elif lo.startswith("MISMATCH"):
            p = lo.split()
            nlen += int(p[1])
            for ent in p[2:]:
                path, val, rep, cnt, gap = ent.split("|")
                vs = bytes.fromhex(hexof(val)).decode("utf8", "replace")
                chk.violations.append(("introspect_len() of %s (node %s, value '%s') reports %s children but %s can be fetched by index%s" % (what, path, vs[:60], rep, cnt, " (with a gap)" if gap == "1" else ""),
                                       {"harness_line": lines[2 * k + 1], "observed": lo[:300]}))
        else:
            chk.violations.append(("walking the introspection tree of %s did not complete: %s" % (what, lo[:80]), {"harness_line": lines[2 * k + 1]}))
        do = obs1.get("d%d" % k, "MISSING")
        if do.startswith("N("):
            try:
                trees[k] = P(do).tree()
            except Exception as e:
                chk.broken.append("cannot parse the tree dump of %s: %r" % (what, e))
    chk.cov["nodes_len_checked"] = nlen
    # ---- shape correspondence: the dumped tree of each generated value against IntrospectOf.shape_of ----
    sterms, smeta = [], {}
    for k, t in trees.items():
        kind, a, b = targets[k]
        r = U["roots"][a] if kind == "gen" else None
        # TBox stands for Box/Rc/Arc (which delegate); RefCell and Mutex serve their content as one child instead and
        # are covered by the rule table and the reported-length walk only
        if r is None or "arrayvec" in r["tags"] or has_cellbox(r["ty"]):
            continue
        sterms.append((k, "agree_shape %s %s %s" % (TG.coq_ty(r["ty"]), TG.coq_val(r["vals"][b]), tree_coq(t))))
        chk.distinct.add(("shape", D.shape_key(r["ty"])))
    sbad, serrs = C.coq_eval_bad("C17_shape", HEADER_SHAPE, sterms, shard=80)
    for ids, out in serrs:
        chk.broken.append("shape shard failed to evaluate (cases %s..): %s" % (ids[:3], out[-400:]))
    for k in sbad[:8]:
        kind, a, b = targets[k]
        chk.broken.append("correspondence C17 shape: IntrospectOf.shape_of and the real introspection tree (reported lengths, children) differ for %s value %d: %s" % (TG.rust_ty(U["roots"][a]["ty"]), b, obs1.get("d%d" % k, "")[:200]))
    chk.cov["traces_validated_against_impl"] += len(sterms)
    chk.cov["shape_cases"] = len(sterms)
    # ---- phase 2: command sequences ----
    nseq = 3 if tier == "quick" else 12
    lines2, meta = [], {}
    n = 0
    scripted = [["N", "S.0.1", "S.1.1", "S.2.0", "U", "E.1.x7468697264.0", "U", "U", "U", "U"],
                ["S.0.2", "S.1.1", "S.2.1", "S.3.0", "N", "U", "N", "S.0.0"],
                ["E.0.x6b.1", "E.1.x61.0", "E.0.x-.1", "E.0.x6b.3", "S.0.4", "S.0.1"],
                ["S.0.0", "S.0.1", "S.0.2", "U", "U", "U", "U"]]
    for k, t in trees.items():
        kind, a, b = targets[k]
        seqs = []
        if kind == "fixed":
            seqs += [(c, s) for s in scripted for c in ("-", "2")]
        for _ in range(nseq if tree_nodes(t) > 1 else 1):
            clc = rng.choice(["-", "-", "-", "0", "1", "2", "3", "5", str(U64MAX)])
            seqs.append((clc, gen_cmds(rng, t, rng.randint(2, 9))))
        for clc, cmds in seqs:
            n += 1
            cid = "n%d" % n
            if kind == "fixed":
                lines2.append("%s intro_nav %s %s %s" % (cid, a, clc, ",".join(cmds)))
            else:
                lines2.append("%s ty_intronav %d %d %s %s" % (cid, a, b, clc, ",".join(cmds)))
            meta[cid] = {"n": n, "k": k, "clc": clc, "cmds": cmds}
    obs2 = C.run_harness(binary, lines2, timeout=1200)
    terms = []
    stats = {"ok": 0, "err": 0, "errs": {}, "depth2": 0, "limit": 0}
    for cid, m in meta.items():
        o = obs2.get(cid, "MISSING")
        kind, a, b = targets[m["k"]]
        what = a if kind == "fixed" else "%s value %d" % (TG.rust_ty(U["roots"][a]["ty"]), b)
        line = lines2[m["n"] - 1]
        if " # " not in o:
            chk.violations.append(("navigating %s did not complete: %s" % (what, o[:100]), {"harness_line": line}))
            continue
        tr, _, ob = o.partition(" # ")
        try:
            tree = P(tr).tree()
            xs = []
            for x in [y for y in ob.split(" | ") if y]:
                p = x.split("#")
                if p[0] == "PANIC":
                    xs.append("XPanic")
                    chk.violations.append(("a navigation command sequence panics on %s (commands %s, child limit %s)" % (what, ",".join(m["cmds"]), m["clc"]), {"harness_line": line, "observed": ob[:300]}))
                elif p[0] == "ERR":
                    xs.append("(XErr %s %s)" % (p[1], p[2]))
                    stats["err"] += 1
                    stats["errs"][p[2]] = stats["errs"].get(p[2], 0) + 1
                else:
                    total = int(p[2])
                    frs = [frame_coq(f) for f in p[3].split("/") if f]
                    tis = p[4].split("/")
                    if sum(c for _, c in frs) != total:
                        chk.violations.append(("total_len() = %d but the frames hold %d elements (%s, commands %s)" % (total, sum(c for _, c in frs), what, ",".join(m["cmds"])), {"harness_line": line, "observed": x[:300]}))
                    idxs = list(range(total + 3)) + [U64MAX, U64MAX // 2]
                    for i, t in zip(idxs, tis):
                        if t == "P":
                            chk.violations.append(("total_index(%d) panics on a result with total_len() = %d (%s, commands %s, child limit %s)" % (i, total, what, ",".join(m["cmds"]), m["clc"]), {"harness_line": line, "observed": x[:300]}))
                            break
                        if (t != "-") != (i < total):
                            chk.violations.append(("total_index(%d) is %s on a result with total_len() = %d (%s, commands %s, child limit %s)" % (i, "None" if t == "-" else "Some", total, what, ",".join(m["cmds"]), m["clc"]), {"harness_line": line, "observed": x[:300]}))
                            break
                    xs.append("(XOk %s %d [%s] [%s])" % (p[1], total, ";".join(f for f, _ in frs), ";".join("TNone" if t == "-" else "TPanic" if t == "P" else "(TSome %s)" % elem_coq(t) for t in tis)))
                    stats["ok"] += 1
                    stats["depth2"] += len(frs) >= 3
                    stats["limit"] += "F(" in p[3] and any(f.split(",")[1] == "1" for f in p[3].split("/") if f)
            clc = "None" if m["clc"] == "-" else "(Some %s)" % m["clc"]
            terms.append((m["n"], "check_nav %s %s [%s] [%s]" % (tree_coq(tree), clc, ";".join(cmd_coq(c) for c in m["cmds"]), ";".join(xs))))
            chk.distinct.add((kind, a, b, m["clc"], tuple(m["cmds"])))
        except Exception as e:
            chk.broken.append("cannot parse the observation of case %s: %r: %s" % (cid, e, o[:120]))
    bad, errs = C.coq_eval_bad("C17", HEADER, terms, shard=60)
    for ids, out in errs:
        chk.broken.append("shard failed to evaluate (cases %s..): %s" % (ids[:3], out[-400:]))
    byn = {m["n"]: cid for cid, m in meta.items()}
    for i in bad[:12]:
        m = meta[byn[i]]
        chk.broken.append("correspondence C17 case %s: Introspect.do_introspect/total_index (model) and the Introspector disagree: %s => %s" % (byn[i], lines2[i - 1][:200], obs2.get(byn[i], "").partition(" # ")[2][:300]))
    chk.cov["traces_validated_against_impl"] += len(terms)
    chk.add_eval(len(meta) + len(targets))
    chk.cov["rule"] = ("every node of the introspection trees of a fixed corpus of %d library/derived values and of the generated type universe's values: introspect_len() against the "
                       "children fetchable by index (no gaps); scripted and random command sequences (Expand/SelectNth/Up/Nothing with valid and junk depths, keys, disambiguators, "
                       "indices up to usize::MAX; child limits none/0/1/2/3/5/usize::MAX) run on the real Introspector and on Introspect.do_introspect inside Coq over the dumped tree: "
                       "frames, errors, num_frames(), total_len() and total_index(i) for i in 0..total_len+2, usize::MAX/2, usize::MAX compared" % len(names))
    chk.cov["input_distribution"] = stats
    for cid in list(meta)[:3]:
        chk.sample({"case": cid, "line": lines2[meta[cid]["n"] - 1][:200], "observed": obs2.get(cid, "").partition(" # ")[2][:160]})
