# Library-type corpus (harness/src/librt.rs): maps, sets, heaps, deques, index maps, small/array vectors, net and
# time types, smart pointers, cells, locks, atomics, tuples, nested combinations — types outside the generated type
# universe. Shared by C01 (round trips in every container, bytes = Ty.enc of the equivalent model term),
# C02 (determinism, golden bytes of the pinned build) and C07 (cuts).
import json, os
from . import common as C
from . import datacases as D


def load_cases(binary):
    o = C.run_harness(binary, ["a lib_cases"]).get("a", "")
    out = []
    for ent in o.split():
        p = ent.split("|")
        if len(p) == 4:
            out.append({"name": p[0], "hash_order": p[1] == "1", "ty": None if p[2] == "-" else p[2].replace("~", " "), "val": None if p[3] == "-" else p[3].replace("~", " ")})
    return out


def run_rt(chk, binary, containers=("bare", "plain", "noschema", "bzip2", "crypto"), model=True):
    cases = load_cases(binary)
    if len(cases) < 40:
        chk.broken.append("the harness does not list its library corpus")
        return {}
    lines, meta = [], {}
    for c in cases:
        for ct in containers:
            cid = "L_%s_%s" % (c["name"], ct)
            lines.append("%s lib_rt %s %s" % (cid, c["name"], ct))
            meta[cid] = (c, ct)
    obs = C.run_harness(binary, lines, timeout=900)
    bare = {}
    for cid, (c, ct) in meta.items():
        o = obs.get(cid, "MISSING")
        p = o.split(" ", 4)
        line = "%s lib_rt %s %s" % (cid, c["name"], ct)
        chk.distinct.add(("lib", c["name"], ct))
        if p[0] != "OK" or len(p) < 4:
            chk.violations.append(("library type case %s: saving and loading it in the %s container fails: %s" % (c["name"], ct, o[:120]), {"harness_line": line}))
            continue
        if p[2] != "1":
            chk.violations.append(("library type case %s: the value loaded back from the %s container differs from the one saved (loaded: %s)" % (c["name"], ct, (p[4] if len(p) > 4 else "")[:160]),
                                   {"harness_line": line, "file_hex": p[1][:400]}))
        if p[3] != "1":
            chk.violations.append(("library type case %s: loading from the %s container does not consume exactly the bytes that saving produced" % (c["name"], ct), {"harness_line": line, "file_hex": p[1][:400]}))
        if ct == "bare":
            bare[c["name"]] = p[1]
    chk.add_eval(len(meta))
    if len(containers) > 1:
        # large, poorly compressible packed payloads (several bzip2 blocks / many encryption chunks): writers that accept
        # only part of a buffer are exercised here
        bl = ["B%d_%s lib_big %d %s" % (n_, ct, n_, ct) for n_ in (1000000, 2500000) for ct in ("plain", "bzip2", "crypto")]
        bobs = C.run_harness(binary, bl, timeout=600, mem_gb=6)
        for l in bl:
            o = bobs.get(l.split(" ")[0], "MISSING")
            if not o.startswith("OK ") or not o.endswith(" 1"):
                chk.violations.append(("a %s-byte poorly compressible Vec<u8> saved in the %s container does not load back equal: %s" % (l.split(" ")[2], l.split(" ")[3], o[:80]), {"harness_line": l}))
        chk.add_eval(len(bl))
    if model:
        terms = []
        for n, c in enumerate(cases):
            if c["ty"] and c["name"] in bare:
                terms.append((n, "match enc 0 %s %s with Ok b => bytes_eqb b %s | _ => false end" % (c["ty"], c["val"], D.hexlit(bare[c["name"]]))))
                terms.append((1000 + n, "match dec 0 %s (List.app %s [7]) with Ok (y, r) => val_eqb y (norm 0 %s %s) && bytes_eqb r [7] | _ => false end" % (c["ty"], D.hexlit(bare[c["name"]]), c["ty"], c["val"])))
        bad, errs = C.coq_eval_bad(chk.prop + "_lib", D.HEADER, terms, shard=40)
        for ids, out in errs:
            chk.broken.append("library corpus shard failed to evaluate (cases %s..): %s" % (ids[:3], out[-400:]))
        for i in bad[:8]:
            c = cases[i % 1000]
            chk.broken.append("correspondence (library corpus) case %s: the bytes written for it are not Ty.%s of the equivalent model term %s: %s" % (c["name"], "enc" if i < 1000 else "dec", c["ty"], bare.get(c["name"], "")[:200]))
        chk.cov["traces_validated_against_impl"] += len(terms)
        chk.cov["library_cases_with_model"] = len(terms) // 2
    chk.cov["library_cases"] = len(cases)
    return bare


def run_det_and_golden(chk, binary, bare):
    cases = load_cases(binary)
    lines = ["D_%s lib_det %s" % (c["name"], c["name"]) for c in cases if not c["hash_order"]]
    obs = C.run_harness(binary, lines, timeout=300)
    for c in cases:
        if c["hash_order"]:
            continue
        o = obs.get("D_%s" % c["name"], "MISSING")
        if o != "1":
            chk.violations.append(("library type case %s: two saves of equal values produce different bytes (%s)" % (c["name"], o[:40]), {"harness_line": "D lib_det %s" % c["name"]}))
    chk.add_eval(len(lines))
    gpath = os.path.join(C.ROOT, "golden", "golden_lib.json")
    if os.path.exists(gpath):
        g = json.load(open(gpath))
        n = 0
        for name, hx in g["bare"].items():
            if name in bare:
                n += 1
                if bare[name] != hx:
                    chk.violations.append(("library type case %s: the bytes written differ from those written by the pinned build %s" % (name, g["pinned_commit"]),
                                           {"harness_line": "L lib_rt %s bare" % name, "pinned": hx[:400], "now": bare[name][:400]}))
        chk.cov["golden_library_files"] = n


def run_cuts(chk, binary, containers=("plain", "noschema", "bzip2", "crypto"), step=997):
    cases = load_cases(binary)
    lines, meta = [], {}
    for c in cases:
        for ct in containers:
            cid = "K_%s_%s" % (c["name"], ct)
            lines.append("%s lib_cuts %s %s %d" % (cid, c["name"], ct, step))
            meta[cid] = (c, ct)
    obs = C.run_harness(binary, lines, timeout=1500)
    ncuts = 0
    for cid, (c, ct) in meta.items():
        o = obs.get(cid, "MISSING")
        p = o.split(" ")
        line = "%s lib_cuts %s %s %d" % (cid, c["name"], ct, step)
        if len(p) != 2 or not p[0].isdigit():
            chk.violations.append(("library type case %s: cutting its %s file did not complete: %s" % (c["name"], ct, o[:100]), {"harness_line": line}))
            continue
        ncuts += len(p[1])
        chk.distinct.add(("libcut", c["name"], ct))
        for k, ch in enumerate(p[1]):
            if ch in "DP":
                chk.violations.append(("library type case %s: a strict prefix of its %s file (cut class index %d of %d) %s" % (c["name"], ct, k, len(p[1]), "loads to a DIFFERENT value" if ch == "D" else "panics"),
                                       {"harness_line": line, "classes": p[1][:300]}))
                break
    chk.add_eval(ncuts)
    chk.cov["library_cuts"] = ncuts


def mutations(b, rng, budget):
    out = []
    n = len(b)
    stride = max(1, n // 120)
    for i in range(0, n, stride):
        for v in (0, 1, 2, 0x7f, 0x80, 0xff, b[i] ^ 1, (b[i] + 1) & 255):
            if v != b[i]:
                out.append(b[:i] + bytes([v]) + b[i + 1:])
    for off in range(0, min(n - 7, 96)):
        for l in (0, 1, 2, 3, 255, 256, 65535, 65536, 1 << 20, (1 << 32) + 1, (1 << 62) + 1, (1 << 64) - 1, n, n + 1):
            out.append(b[:off] + l.to_bytes(8, "little") + b[off + 8:])
    for k in range(min(n, 48)):
        out.append(b[:k])
    for _ in range(48):
        m = bytearray(b)
        for _ in range(3):
            if m:
                m[rng.randrange(len(m))] = rng.randrange(256)
        out.append(bytes(m))
    for _ in range(16):
        out.append(bytes(rng.randrange(256) for _ in range(rng.randint(0, 40))))
    rng.shuffle(out)
    return out[:budget]


def run_malformed(chk, binary, rng, budget, known=()):
    """C06 for the library corpus: crafted inputs never panic (allocation failures on absurd declared lengths excepted),
    never kill the process otherwise, and a loaded value's own encoding is never longer than the input consumed."""
    cases = load_cases(binary)
    bare = {}
    obs0 = C.run_harness(binary, ["L_%s lib_rt %s bare" % (c["name"], c["name"]) for c in cases])
    lines, meta = [], {}
    n = 0
    for c in cases:
        o = obs0.get("L_%s" % c["name"], "")
        if not o.startswith("OK "):
            continue
        hx = o.split(" ")[1]
        b = bytes.fromhex("" if hx == "-" else hx)
        if len(b) > 5000:
            continue
        for m in mutations(b, rng, budget):
            n += 1
            cid = "M%d" % n
            lines.append("%s lib_load %s %s" % (cid, c["name"], m.hex() or "-"))
            meta[cid] = (c["name"], m)
    obs = C.run_harness(binary, lines, timeout=1800, mem_gb=3)
    classes = {}
    hits = {}
    for cid, (name, m) in meta.items():
        o = obs.get(cid, "MISSING")
        p = o.split(" ")
        key = p[0] + ("_oom" if (p[0] == "PANIC" and ("allocat" in o or "capacity_overflow" in o)) or o.startswith("ABORT oom") else "")
        classes[key] = classes.get(key, 0) + 1
        what = None
        if p[0] == "PANIC" and not key.endswith("_oom"):
            what = "panics (%s)" % o[6:80]
        elif p[0] == "ABORT" and not key.endswith("_oom"):
            what = "kills the process (%s)" % o[:80]
        elif p[0] in ("TIMEOUT", "MISSING"):
            what = "does not return (%s)" % o[:40]
        elif p[0] == "OK" and len(p) == 3 and p[2].isdigit() and int(p[2]) > int(p[1]) and not name.startswith(("bitvec", "bitset")):
            # (BitVec/BitSet are exempt: their current encoding stores whole 32-bit words, so a value read from the old
            #  byte-granular format legitimately re-encodes up to 3 bytes longer)
            what = "returns a value whose own encoding (%s bytes) is longer than the %s bytes consumed: it claims more than the input could have encoded" % (p[2], p[1])
        elif p[0] == "OK" and len(p) == 3 and not p[2].isdigit():
            what = "returns a value that cannot be saved again (%s)" % p[2]
        if what:
            k = [kf for kf, names in known if name in names]
            if k:
                hits.setdefault(k[0], 0)
                hits[k[0]] += 1
            else:
                chk.violations.append(("loading crafted bytes into library type case %s %s" % (name, what), {"harness_line": "%s lib_load %s %s" % (cid, name, m.hex() or "-"), "observed": o[:300]}))
        chk.distinct.add(("libmal", name, key))
    chk.add_eval(len(meta))
    chk.cov["library_malformed_inputs"] = len(meta)
    chk.cov["library_malformed_outcomes"] = classes
    return hits
