# C12 — schemas are faithful: the schema of a type describes the bytes written for it.
from . import common as C
from . import tygen as TG
from . import gencrate as GC
from . import datacases as D

THEOREMS = ["C12_faithful", "C12_no_spurious_recursion", "C12_refuted_result", "C12_refuted_wide_enum", "C12_hypotheses_satisfiable"]
HEADER = D.HEADER.replace("HarnessTy.", "HarnessTy SchemaOf HarnessC5 HarnessC12.")


def in_known_class(t):
    hit = []

    def f(u):
        if u["k"] == "result" or (u["k"] == "enum" and len(u["variants"]) > 256):
            hit.append(1)
    TG.walk_types(t, f)
    return bool(hit)


def run(chk, tier, seed):
    if THEOREMS:
        chk.obligations(THEOREMS, "C12")
    else:
        ok, out = C.coq_make()
        if not ok:
            chk.broken.append("coq build failed: " + out[-800:])
    U, binary = GC.ensure(seed, tier)
    if U is None:
        chk.broken.append("harness does not build against /repo: " + binary[-1500:])
        return
    roots = D.roots_for(U)
    lines, meta = [], {}
    n = 0
    for ri, r in roots:
        cur = r.get("curver", 0)
        vers = sorted({0, cur} | ({1, 2} if "hist" in r["tags"] else set()))
        for v in vers:
            n += 1
            lines.append("s%d ty_schema %d %d" % (n, ri, v))
            meta["s%d" % n] = {"kind": "schema", "root": ri, "version": v, "val": 0, "n": n}
        for vi in range(min(len(r["vals"]), 3 if tier == "quick" else 8)):
            # at the current version, and for evolved types also at every older version they can still be written at
            # (a Removed field present at that version makes the write panic by design: those are skipped below)
            for v in ([cur] if "hist" not in r["tags"] else [x for x in vers if x <= cur]):
                n += 1
                lines.append("b%d ty_save %d bare %d %d" % (n, ri, v, vi))
                meta["b%d" % n] = {"kind": "bytes", "root": ri, "version": v, "val": vi, "n": n}
    obs = C.run_harness(binary, lines, timeout=900)
    schema_at = {}
    for cid, m in meta.items():
        if m["kind"] == "schema":
            schema_at[(m["root"], m["version"])] = obs.get(cid)
    terms, oterms = [], []
    for cid, m in meta.items():
        o = obs.get(cid, "MISSING")
        r = U["roots"][m["root"]]
        t = r["ty"]
        ct = TG.coq_ty(t)
        if m["kind"] == "schema":
            if o and o != "MISSING" and not o.startswith(("PANIC", "ABORT")):
                terms.append((m["n"], "agree_schema %d %s %s" % (m["version"], ct, D.hexlit(o))))
                chk.distinct.add((D.shape_key(t), m["version"]))
            else:
                chk.violations.append(("get_schema fails: " + str(o)[:100], {"input": D.describe(U, m), "harness_line": lines[m["n"] - 1]}))
        else:
            if not o.startswith("OK "):
                continue
            s = schema_at.get((m["root"], m["version"]))
            if not s:
                continue
            oterms.append((m["n"], "sread_oracle %d %s %s %s %s" % (m["version"], ct, TG.coq_val(r["vals"][m["val"]]), D.hexlit(s), D.hexlit(o.split(" ")[1]))))
    bad, errs = C.coq_eval_bad("C12", HEADER, terms, shard=120)
    obad, oerrs = C.coq_eval_bad("C12o", HEADER, oterms, shard=120)
    for ids, out in errs + oerrs:
        chk.broken.append("shard failed to evaluate (cases %s..): %s" % (ids[:3], out[-400:]))
    byn = {m["n"]: cid for cid, m in meta.items()}
    for i in bad[:15]:
        m = meta[byn[i]]
        chk.broken.append("correspondence C12 case %s: real schema of %s at version %d differs from schema_of (or carries a recursion marker)" % (
            byn[i], TG.rust_ty(U["roots"][m["root"]]["ty"]), m["version"]))
    kopen = {e["id"] for e in C.known_findings("C12") if e.get("status") == "open"}
    seen_known = set()
    for i in obad:
        m = meta[byn[i]]
        r = U["roots"][m["root"]]
        if in_known_class(r["ty"]):
            seen_known.add("K4" if any(1 for _ in [0] if "Result" in TG.rust_ty(r["ty"])) else "K14")
            continue
        chk.violations.append(("a reader driven only by the reported schema does not parse the written bytes to the value's structure",
                               {"input": D.describe(U, m), "schema_hex": (schema_at.get((m["root"], m["version"])) or "")[:1500],
                                "harness_line": lines[m["n"] - 1], "observed": obs.get(byn[i], "")[:400]}))
    chk.cov["traces_validated_against_impl"] += len(terms) + len(oterms)
    chk.add_eval(len(meta))
    chk.cov["rule"] = ("get_schema::<T>(v) of every root type at its versions against schema_of v t in Coq (names/layout probes erased; no recursion marker allowed); "
                       "real bytes of values parsed in Coq by the schema-driven reader sread under the REAL schema and compared with tree_of; distinct = (type key, version)")
    for cid in list(meta)[:4]:
        chk.sample({"case": cid, "input": D.describe(U, meta[cid]), "observed": str(obs.get(cid, ""))[:120]})
    # library container types outside the model: real schema + real bytes through sread in Coq
    lo = C.run_harness(binary, ["lc libcorpus"]).get("lc", "")
    lterms, lmeta = [], {}
    for k, ent in enumerate(x.strip() for x in lo.split("|")):
        p = ent.split(" ")
        if len(p) != 3:
            continue
        lterms.append((k + 1, "lib_ok %s %s" % (D.hexlit(p[1]), D.hexlit(p[2]))))
        lmeta[k + 1] = p
    if len(lterms) < 20:
        chk.broken.append("library corpus op returned too few entries: " + lo[:200])
    lbad, lerrs = C.coq_eval_bad("C12lib", HEADER, lterms, shard=60)
    for ids, out in lerrs:
        chk.broken.append("library corpus shard failed to evaluate: " + out[-300:])
    for i in lbad:
        p = lmeta[i]
        chk.violations.append(("library type %s: the generic reader driven by its schema does not parse its bytes completely, or its schema carries a recursion marker" % p[0],
                               {"type": p[0], "schema_hex": p[1][:1500], "bytes_hex": p[2][:500], "harness_line": "lc libcorpus"}))
    chk.add_eval(len(lterms), [("lib", lmeta[i][0]) for i in lmeta])
    chk.cov["library_corpus_types"] = len(lterms)
    # known findings: replay listed witnesses
    replay_known(chk, binary)


KF = [
    ("K4", "kf result_schema", "Result<u8,u16>: both schema variants carry discriminant 0, Ok(5) is written with tag 1"),
    ("K3", "kf sockaddr_schema", "SocketAddr reports the schema of IpAddr although it also writes the port"),
    ("K6", "kf hashmap_recursion", "HashMap<u32,Vec<u32>> (non-recursive) yields a Recursion marker: the value is guarded as the key type"),
    ("K5", "kf bitvec_schema", "BitVec schema promises (u64, u64, Vec<u8>) but the writer emits len|1<<63 and raw words"),
    ("K14", "kf wide_enum_schema", "enum with 257 variants: schema discriminants are u8 (variant 256 recorded as 0) while the wire uses 2 bytes"),
]


def replay_known(chk, binary):
    listed = {e["id"]: e for e in C.known_findings(chk.prop)}
    obs = C.run_harness(binary, ["%s %s" % (k, line) for k, line, _ in KF])
    for kid, line, what in KF:
        o = obs.get(kid, "")
        still = o.startswith("UNFAITHFUL")
        if kid in listed and listed[kid].get("status") == "open":
            if still:
                chk.known_lines.append("%s: %s" % (kid, what))
            else:
                chk.info.append("known finding %s no longer reproduces: %s" % (kid, o[:100]))
        elif still:
            chk.violations.append((what, {"harness_line": "%s %s" % (kid, line), "observed": o[:300]}))
