# C05 — schema and header gate: mismatched data is rejected, never misread.
import random
from . import common as C
from . import tygen as TG
from . import gencrate as GC
from . import datacases as D

THEOREMS = ["C05_diff_iff_shape", "C05_reject", "C05_reject_by_shape", "C05_accept", "C05_bad_magic",
            "C05_short_header", "C05_future_lib", "C05_future_data"]
HEADER = D.HEADER.replace("HarnessTy.", "HarnessTy Container HarnessC5.")


def obs_term(o):
    p = o.split(" ", 2)
    if p[0] == "OK":
        return "(OLoadOk %s %s)" % (p[1] if p[1] != "-1" else "0", p[2])
    if p[0] == "ERR":
        return "(OLoadErr %s)" % (p[1] if p[1] in D.ERRS else "EOther")
    if p[0] == "PANIC":
        return "OLoadPanic"
    return None


def run(chk, tier, seed):
    chk.obligations(THEOREMS, "C05")
    U, binary = GC.ensure(seed, tier)
    if U is None:
        chk.broken.append("harness does not build against /repo: " + binary[-1500:])
        return
    rng = random.Random(seed * 131 + 5)
    roots = D.roots_for(U, exclude=("k13bulk", "hist", "arrayvec"))
    byname = {TG.rust_ty(r["ty"]): i for i, r in roots}
    nA = 45 if tier == "quick" else 200
    prims = [i for i, r in roots if r["ty"]["k"] in ("int", "bool", "char", "f32", "f64", "string", "unit")]
    As = prims + [i for n, i in byname.items() if n.startswith("FixE") and "25" not in n] + [i for i, _ in rng.sample(roots, min(nA, len(roots)))]
    As = list(dict.fromkeys(As))
    # stage 1: files and schemas
    lines = []
    for a in As:
        lines.append("f%d ty_save %d plain 0 0" % (a, a))
    for i, _ in roots:
        lines.append("s%d ty_schema %d 0" % (i, i))
    obs1 = C.run_harness(binary, lines, timeout=900)
    files = {a: obs1.get("f%d" % a, "").split(" ")[1] for a in As if obs1.get("f%d" % a, "").startswith("OK ")}
    schemas = {i: obs1.get("s%d" % i) for i, _ in roots}
    # stage 2: cross loads
    lines2, meta = [], {}
    n = 0

    def add(kind, b, version, fhex, extra=None):
        nonlocal n
        n += 1
        cid = "x%d" % n
        lines2.append("%s ty_load %d %s %d %s" % (cid, b, "plain" if kind == "pair" else "noschema", version, fhex))
        meta[cid] = dict(kind=kind, root=b, val=0, version=version, file=fhex, n=n, **(extra or {}))

    for a in files:
        nameA = TG.rust_ty(U["roots"][a]["ty"])
        Bs = [a]
        for sib in (nameA.replace("C", "Rust") if "FixS" in nameA and nameA.endswith("C") else None,
                    nameA.replace("Rust", "C") if "FixS" in nameA and nameA.endswith("Rust") else None,
                    "Vec<%s>" % nameA, "Option<%s>" % nameA):
            if sib and sib in byname and sib != nameA:
                Bs.append(byname[sib])
        if a in prims:
            Bs += prims
        if nameA.startswith("FixE") and "257" not in nameA and "256" not in nameA:
            # every fixed enum against every other: same variant names and discriminants with different payloads included
            Bs += [i for n, i in byname.items() if n.startswith("FixE") and "25" not in n]
        Bs += [i for i, _ in rng.sample(roots, 4 if tier == "quick" else 12)]
        for b in dict.fromkeys(Bs):
            add("pair", b, 0, files[a], {"a": a})
    # files as EARLIER builds of the library wrote them (library format 0 and 1: older schema encodings), plain and
    # bzip2-compressed: the uncompressed ones are compared with load_plain in Coq (which parses the schema section at the
    # file's format version); a compressed file must behave exactly like its uncompressed twin
    old_as = list(files)[:30 if tier == "quick" else 150]
    ol = ["o%d_%d_%d ty_oldfile %d %d %d 0 0" % (a, fmt, comp, a, fmt, comp) for a in old_as for fmt in (0, 1) for comp in (0, 1)]
    oobs = C.run_harness(binary, ol, timeout=600)
    for a in old_as:
        for fmt in (0, 1):
            for comp in (0, 1):
                o = oobs.get("o%d_%d_%d" % (a, fmt, comp), "")
                if o.startswith("OK "):
                    add("pair", a, 0, o.split(" ")[1], {"a": a, "old": (fmt, comp)})
    # header corruption on schema-less files of a few types
    hdr_roots = prims[:3] + [i for i, _ in rng.sample(roots, 4)]
    lines_h = ["h%d ty_save %d noschema 0 0" % (a, a) for a in hdr_roots]
    obs_h = C.run_harness(binary, lines_h)
    for a in hdr_roots:
        o = obs_h.get("h%d" % a, "")
        if not o.startswith("OK "):
            continue
        fb = bytes.fromhex(o.split(" ")[1].replace("-", ""))
        for pos in range(16):
            for val in {0, 1, 2, 3, 0x7f, 0xff, fb[pos] ^ 1, (fb[pos] + 1) % 256}:
                if val == fb[pos]:
                    continue
                mb = bytearray(fb)
                mb[pos] = val
                for cur in (0, 2):
                    add("hdr", a, cur, bytes(mb).hex(), {"pos": pos, "byte": val})
        for cut in range(17):
            add("hdr", a, 0, fb[:cut].hex() or "-", {"pos": cut, "byte": -1})
    obs2 = C.run_harness(binary, lines2, timeout=900)
    # ---- correspondence + oracle, both evaluated in Coq
    terms, oterms = [], []
    for cid, m in meta.items():
        o = obs2.get(cid, "MISSING")
        t = obs_term(o)
        r = U["roots"][m["root"]]
        tB = TG.coq_ty(r["ty"])
        if t is None:
            chk.violations.append(("implementation aborted/hung on a load: " + o[:100], {"input": D.describe(U, m), "harness_line": lines2[m["n"] - 1][:3000]}))
            continue
        if m["kind"] == "pair" and m.get("old") and m["old"][1] == 1:
            # compressed old-format file: same outcome as the uncompressed twin
            twin = [c for c, mm in meta.items() if mm.get("old") == (m["old"][0], 0) and mm.get("a") == m["a"] and mm["kind"] == "pair"]
            if twin and obs2.get(twin[0], "").split(" ")[0:1] + obs2.get(twin[0], "").split(" ")[2:] != o.split(" ")[0:1] + o.split(" ")[2:]:
                chk.violations.append(("a bzip2-compressed file in library format %d of %s loads differently from the same file uncompressed: %s vs %s" % (
                    m["old"][0], TG.rust_ty(r["ty"]), o[:80], obs2.get(twin[0], "")[:80]), {"harness_line": lines2[m["n"] - 1][:3000], "observed": o[:300], "uncompressed": obs2.get(twin[0], "")[:300]}))
            chk.distinct.add(("oldfmt", m["old"], D.shape_key(r["ty"])))
            continue
        if m["kind"] == "pair":
            sA, sB = schemas.get(m["a"]), schemas.get(m["root"])
            if not sA or not sB:
                continue
            terms.append((m["n"], "agree_xload 0 %s %s %s %s" % (tB, D.hexlit(sB), D.hexlit(m["file"]), t)))
            if not m.get("old"):     # (the oracle locates the payload behind a format-2 schema section)
                oterms.append((m["n"], "xload_oracle %s %s %s && xload_not_misread %s %s %s" % (D.hexlit(sA), D.hexlit(sB), t, tB, D.hexlit(m["file"]), t)))
            chk.distinct.add(("pair", D.shape_key(U["roots"][m["a"]]["ty"]), D.shape_key(r["ty"])))
        else:
            fb0 = bytes.fromhex(m["file"].replace("-", ""))
            if not (len(fb0) >= 16 and fb0[15] != 0):   # a set compression flag routes through bzip2, which load_plain does not model
                terms.append((m["n"], "agree_load_noschema %d %s %s %s" % (m["version"], tB, D.hexlit(m["file"]), t)))
            chk.distinct.add(("hdr", m["pos"], m["byte"], m["version"]))
            # oracle for the header: any change to magic / newer lib / newer data version must be an error
            fb = bytes.fromhex(m["file"].replace("-", ""))
            must_err = len(fb) < 16 or fb[:9] != b"savefile\0" or int.from_bytes(fb[9:11], "little") > 2 or int.from_bytes(fb[11:15], "little") > m["version"]
            if must_err and not o.startswith("ERR"):
                chk.violations.append(("a file with a bad header is not rejected with an error: " + o[:80], {"input": D.describe(U, m), "harness_line": lines2[m["n"] - 1], "observed": o[:200]}))
    bad, errs = C.coq_eval_bad("C05", HEADER, terms, shard=120)
    obad, oerrs = C.coq_eval_bad("C05o", HEADER, oterms, shard=120)
    for ids, out in errs + oerrs:
        chk.broken.append("shard failed to evaluate (cases %s..): %s" % (ids[:3], out[-400:]))
    byn = {m["n"]: cid for cid, m in meta.items()}
    for i in bad[:15]:
        cid = byn[i]
        m = meta[cid]
        chk.broken.append("correspondence C05 case %s (%s): model and implementation disagree; loading type %s, saved from %s; observed %s" % (
            cid, m["kind"], TG.rust_ty(U["roots"][m["root"]]["ty"]), TG.rust_ty(U["roots"][m["a"]]["ty"]) if "a" in m else "-", obs2.get(cid, "")[:200]))
    kf = {e["id"]: e for e in C.known_findings("C05") if e.get("status") == "open"}
    for i in obad:
        cid = byn[i]
        m = meta[cid]
        ta, tb = TG.rust_ty(U["roots"][m["a"]]["ty"]), TG.rust_ty(U["roots"][m["root"]]["ty"])
        chk.violations.append(("schema gate: a file saved from %s and loaded as %s is %s although the wire shapes %s" % (
            ta, tb, obs2.get(cid, "")[:60], "differ (must be a schema error)" if not obs2.get(cid, "").startswith("OK") and "ESchema" not in obs2.get(cid, "") or obs2.get(cid, "").startswith("OK") else "agree (must not be a schema error, and must not be misread)"),
            {"saved_type": ta, "loaded_type": tb, "harness_line": lines2[m["n"] - 1][:3000], "observed": obs2.get(cid, "")[:300]}))
    chk.cov["traces_validated_against_impl"] += len(terms)
    chk.add_eval(len(meta))
    chk.cov["pairs"] = sum(1 for m in meta.values() if m["kind"] == "pair")
    chk.cov["header_cases"] = sum(1 for m in meta.values() if m["kind"] == "hdr")
    chk.cov["rule"] = ("ordered pairs (type saved, type loaded) over the universe incl. all primitive pairs, name-only siblings and wrappers; every single-byte "
                       "corruption (8 values) and truncation of the 16 header bytes at two program versions; outcome classes compared with load_plain in Coq; "
                       "oracle: schema error iff the shapes of the two real schemas differ, accepted loads re-encode to the payload")
    for cid in list(meta)[:3] + [c for c in meta if meta[c]["kind"] == "hdr"][:2]:
        m = meta[cid]
        chk.sample({"case": cid, "kind": m["kind"], "loaded_as": TG.rust_ty(U["roots"][m["root"]]["ty"]), "file": m["file"][:80], "observed": obs2.get(cid, "")[:100]})
