#!/usr/bin/env python3
# One-off: /verif/golden/golden_lib.json — the bytes the PINNED commit of avl/savefile writes (bare, version 0) for every
# deterministic case of the library corpus (harness/src/librt.rs). Scratch worktree + scratch harness copy under /tmp/wt.
import os, sys, json, subprocess, shutil
sys.path.insert(0, os.path.dirname(os.path.dirname(os.path.abspath(__file__))))
from vp import common as C, libcases
PIN = "322d5e5"
wt, hs = "/tmp/wt/goldenrepo", "/tmp/wt/goldenharness"
os.makedirs("/tmp/wt", exist_ok=True)
subprocess.run("git -C /repo worktree add -f %s %s" % (wt, PIN), shell=True, check=True)
try:
    shutil.copytree("/verif/harness", hs, ignore=shutil.ignore_patterns("target*"))
    s = open(hs + "/Cargo.toml").read().replace("/repo/", wt + "/")
    open(hs + "/Cargo.toml", "w").write(s)
    shutil.copy(wt + "/Cargo.lock", hs + "/Cargo.lock")
    rc, out = C.sh("cargo build --offline 2>&1", cwd=hs, timeout=2400)
    assert rc == 0, out[-3000:]
    binary = hs + "/target/debug/sfharness"
    cases = libcases.load_cases(binary)
    obs = C.run_harness(binary, ["L_%s lib_rt %s bare" % (c["name"], c["name"]) for c in cases if not c["hash_order"]])
    bare = {}
    for c in cases:
        o = obs.get("L_%s" % c["name"], "")
        if o.startswith("OK "):
            bare[c["name"]] = o.split(" ")[1]
    json.dump({"pinned_commit": PIN, "bare": bare}, open("/verif/golden/golden_lib.json", "w"), indent=0)
    print("golden library entries:", len(bare))
finally:
    shutil.rmtree(hs, ignore_errors=True)
    subprocess.run("git -C /repo worktree remove --force %s" % wt, shell=True)
