#!/usr/bin/env python3
# Regenerates MANIFEST.json from the table below (claimed checks) + not_applicable for the rest.
import json, os
ROOT = os.path.dirname(os.path.dirname(os.path.abspath(__file__)))
props = [json.loads(l) for l in open(os.path.join(ROOT, "properties.jsonl"))]
CLAIMED = json.load(open(os.path.join(ROOT, "tools", "claimed.json")))
import subprocess
HOOK_COMMIT = subprocess.run(['git', '-C', '/repo', 'log', '--format=%h', '--grep=^verif hook:', '-n', '1'], capture_output=True, text=True).stdout.strip() or 'unknown'
checks, na = [], []
for p in props:
    pid = p["id"]
    if pid in CLAIMED:
        c = CLAIMED[pid]
        checks.append({
            "property_id": pid,
            "quick_cmd": "./check %s --tier quick" % pid,
            "thorough_cmd": "./check %s --tier thorough" % pid,
            "evidence_file": "/verif/evidence/%s.json" % pid,
            "replay_cmd_template": "./check %s --replay {path}" % pid,
            "engine": "coq-proof+correspondence",
            "level_claimed": {"category": "proof", "text": c["text"], "design_ref": c.get("design_ref", "DESIGN.md §5 " + pid)},
            "level_note": c["note"],
            "technique": c["technique"],
        })
    else:
        na.append({"property_id": pid, "reason": "not yet built in this round: the Coq model and correspondence check for this property are planned in DESIGN.md §5 but not present; no other technique is substituted"})
m = {
    "version": 1,
    "setup_cmd": "./check setup",
    "hooks": {"guard": "avl_savefile_verif", "enable": "RUSTFLAGS='--cfg avl_savefile_verif' (set by vp/common.py build_harness(hook=True), separate target dir harness/target_hook); used by C16 only: savefile_abi::verif_hooks::LOCK_LOG records request/acquire/release events of the three global cache mutexes",
              "baseline_off_cmd": "cd /repo && (cargo nextest run --workspace --no-fail-fast --test-threads 8 --offline || cargo test --workspace --no-fail-fast --offline)",
              "source_commits": [HOOK_COMMIT], "add_only": True},
    "engines": [{"name": "coq-proof+correspondence", "path": "/verif/check", "serves_properties": sorted(CLAIMED),
                 "kind_free_text": "Coq 8.16.1 theorems over an executable Gallina model (coq/theories, coq/Properties), tied to /repo by (T) tables re-extracted from the sources on every run and proved equal to the model's constants (vp/extract.py, ExtractedAgree.v) and (C) a correspondence check that runs the real implementation (harness/) and the model (vm_compute inside coqc) on the same generated inputs"}],
    "checks": checks,
    "not_applicable": na,
    "notes": "See DESIGN.md. Known findings are listed in known_findings.json; seeded changes used to test detection are under seeded/.",
}
json.dump(m, open(os.path.join(ROOT, "MANIFEST.json"), "w"), indent=1)
print("claimed:", len(checks), "not_applicable:", len(na))
