#!/bin/bash
# run_seed.sh <seed dir name under /verif/seeded> <check ids...> : apply the seeded patch to /repo, run the checks, undo.
s=$1; shift
cd /verif
git -C /repo apply /verif/seeded/$s/patch.diff || { echo "patch does not apply"; exit 2; }
for c in "$@"; do
  echo "== $s vs $c"
  ./check $c --tier quick 2>&1 | grep -v conda | grep -E "^(VIOLATION|KNOWN|C[0-9]+ (ok|FAIL))" | cut -c1-200
done
git -C /repo checkout -- .
git -C /repo status --short | head -3
