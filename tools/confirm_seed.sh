#!/bin/bash
# confirm_seed.sh <Cxx> [<worktree>] : confirm a seeded change ourselves in its scratch worktree:
#  demo passes on pristine code, fails with the patch; workspace tests pass with the patch.
# Then copy patch/demo/meta to /verif/seeded/<id>/ and record what was run.
id=$1; wt=${2:-/tmp/wt/$id}; dest=${3:-/verif/seeded/$id}
set -u
cd $wt || exit 2
export CARGO_NET_OFFLINE=true
log=$wt/seeded/confirm.log; : > $log
cp seeded/patch.diff /tmp/wt/$id.patch
git checkout -- savefile savefile-derive savefile-abi 2>>$log
(cd seeded_demo && cargo build --offline >>$log 2>&1; timeout 600 cargo run --offline >>$log 2>&1); pristine=$?
git apply /tmp/wt/$id.patch 2>>$log || { echo "patch does not apply"; exit 3; }
(cd seeded_demo && cargo build --offline >>$log 2>&1; timeout 600 cargo run --offline >>$log 2>&1); patched=$?
timeout 3000 cargo nextest run --workspace --no-fail-fast --test-threads 8 --offline > $wt/seeded/tests.log 2>&1
summary=$(grep -E "tests run:" $wt/seeded/tests.log | tail -1)
echo "demo_pristine_exit=$pristine demo_patched_exit=$patched tests: $summary"
mkdir -p $dest
cp seeded/patch.diff $dest/patch.diff
rm -rf $dest/demo; mkdir -p $dest/demo/src; cp seeded_demo/Cargo.toml $dest/demo/; cp -r seeded_demo/src/. $dest/demo/src/
python3 - "$dest" "$pristine" "$patched" "$summary" <<'PY'
import json,sys
dest,pr,pa,summ=sys.argv[1:5]
try: m=json.load(open(dest.replace('/verif/seeded/','/tmp/wt/')+'/seeded/meta.json'))
except Exception: m={}
m['confirmed_by_us']={'demo_exit_pristine':int(pr),'demo_exit_patched':int(pa),'tests_summary_with_patch':summ,
  'ran':['git checkout -- savefile savefile-derive savefile-abi; (cd seeded_demo && cargo run --offline)','git apply patch.diff; (cd seeded_demo && cargo run --offline)','cargo nextest run --workspace --no-fail-fast --test-threads 8 --offline']}
json.dump(m,open(dest+'/meta.json','w'),indent=1)
PY
