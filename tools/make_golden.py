#!/usr/bin/env python3
# One-off: produce /verif/golden/golden.json from the PINNED commit of avl/savefile (an "earlier build"):
# for every fixed-corpus root and its seed-independent values, the files written by that build in the
# bare / plain / noschema containers and the value it loads back. Uses a scratch worktree + a scratch copy
# of the harness under /tmp/wt (removed afterwards).
import os, sys, json, subprocess, shutil
sys.path.insert(0, os.path.dirname(os.path.dirname(os.path.abspath(__file__))))
from vp import gencrate as GC, tygen as TG, common as C
PIN = "322d5e5"
wt, hs = "/tmp/wt/goldenrepo", "/tmp/wt/goldenharness"
subprocess.run("git -C /repo worktree add -f %s %s" % (wt, PIN), shell=True, check=True)
shutil.copytree("/verif/harness", hs, ignore=shutil.ignore_patterns("target*"))
U = GC.build_universe(1, "quick")
text, tuples, names = TG.render_gen_rs(U["items"], [(r["ty"], r["vals"]) for r in U["roots"]])
open(hs + "/src/gen/mod.rs", "w").write(text)
s = open(hs + "/Cargo.toml").read().replace("/repo/", wt + "/")
open(hs + "/Cargo.toml", "w").write(s)
shutil.copy(wt + "/Cargo.lock", hs + "/Cargo.lock")
rc, out = C.sh("cargo build --offline 2>&1", cwd=hs, timeout=1500)
assert rc == 0, out[-2000:]
binary = hs + "/target/debug/sfharness"
lines, meta = [], {}
for i, r in enumerate(U["roots"]):
    if "fixed" not in r["tags"] or "kf" in r["tags"] or "k13bulk" in r["tags"]:
        continue
    for vi in range(r["nfixed"]):
        for c in ("bare", "plain", "noschema"):
            cid = "g%d_%d_%s" % (i, vi, c)
            lines.append("%s ty_rt %d %s 0 %d" % (cid, i, c, vi))
            meta[cid] = (TG.rust_ty(r["ty"]), vi, c)
obs = C.run_harness(binary, lines, timeout=900)
gold = []
for cid, (ty, vi, c) in meta.items():
    o = obs[cid].split(" ", 3)
    assert o[0] == "OK", (cid, obs[cid][:200])
    gold.append({"type": ty, "value_index": vi, "container": c, "file_hex": o[1], "loaded": o[3]})
os.makedirs("/verif/golden", exist_ok=True)
json.dump({"pinned_commit": PIN, "entries": gold}, open("/verif/golden/golden.json", "w"), indent=0)
print("golden entries:", len(gold))
shutil.rmtree(hs)
subprocess.run("git -C /repo worktree remove --force %s" % wt, shell=True)
