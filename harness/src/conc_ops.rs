// Concurrency operations (C16): N threads start together behind a barrier in a fresh process and run lists of
// harness operations that create ABI connections (first use and cached) and call through them; a watchdog reports
// a hang. The same lists run one after another give the reference results. With --cfg avl_savefile_verif the lock
// event log of savefile-abi is printed as well.
use crate::abi_fixed::Counter;
use savefile_abi::{AbiConnection, AbiExportable};
use savefile_derive::savefile_abi_exportable;
use std::sync::atomic::{AtomicU64, Ordering};
use std::sync::{Arc, Barrier};

#[savefile_abi_exportable(version = 0)]
pub trait Shared: Send + Sync {
    fn add(&self, x: u64) -> u64;
    fn apply(&self, x: u32, f: &dyn Fn(u32) -> u32) -> u32;
    fn make_counter(&self, base: u32) -> Box<dyn Counter>;
    fn use_counter(&self, c: Box<dyn Counter>, by: u32) -> u32;
    fn echo(&self, s: String, v: Vec<u16>) -> (String, Vec<u16>);
}
pub struct SharedImpl {
    pub calls: AtomicU64,
}
impl Shared for SharedImpl {
    fn add(&self, x: u64) -> u64 {
        self.calls.fetch_add(1, Ordering::SeqCst);
        x.wrapping_mul(3).wrapping_add(1)
    }
    fn apply(&self, x: u32, f: &dyn Fn(u32) -> u32) -> u32 {
        self.calls.fetch_add(1, Ordering::SeqCst);
        f(x).wrapping_add(f(x + 1))
    }
    fn make_counter(&self, base: u32) -> Box<dyn Counter> {
        self.calls.fetch_add(1, Ordering::SeqCst);
        Box::new(crate::abi_fixed::CounterImpl { drops: Arc::new(std::sync::atomic::AtomicUsize::new(0)), base })
    }
    fn use_counter(&self, c: Box<dyn Counter>, by: u32) -> u32 {
        self.calls.fetch_add(1, Ordering::SeqCst);
        c.bump(by)
    }
    fn echo(&self, s: String, v: Vec<u16>) -> (String, Vec<u16>) {
        self.calls.fetch_add(1, Ordering::SeqCst);
        (s, v)
    }
}

/// one call on the shared connection, chosen by k; the result is a function of k alone
fn shared_call(conn: &AbiConnection<dyn Shared>, k: u32) -> String {
    match k % 5 {
        0 => format!("add {}", conn.add(k as u64)),
        1 => format!("apply {}", conn.apply(k, &|y| y.wrapping_mul(k | 1))),
        2 => {
            let c = conn.make_counter(k);
            format!("counter {}", c.bump(5))
        }
        3 => {
            let c: Box<dyn Counter> =
                Box::new(crate::abi_fixed::CounterImpl { drops: Arc::new(std::sync::atomic::AtomicUsize::new(0)), base: k });
            format!("usecounter {}", conn.use_counter(c, 9))
        }
        _ => format!("echo {:?}", conn.echo(format!("s{}", k), vec![k as u16, 1, 2])),
    }
}
fn shared_expected(k: u32) -> String {
    let imp = SharedImpl { calls: AtomicU64::new(0) };
    match k % 5 {
        0 => format!("add {}", imp.add(k as u64)),
        1 => format!("apply {}", imp.apply(k, &|y| y.wrapping_mul(k | 1))),
        2 => format!("counter {}", k + 5),
        3 => format!("usecounter {}", k + 9),
        _ => format!("echo {:?}", (format!("s{}", k), vec![k as u16, 1, 2])),
    }
}

fn run_line(line: &str) -> String {
    let toks: Vec<&str> = line.split_whitespace().collect();
    if toks.is_empty() {
        return "EMPTY".to_string();
    }
    match std::panic::catch_unwind(std::panic::AssertUnwindSafe(|| crate::dispatch(toks[0], &toks[1..]))) {
        Ok(s) => s,
        Err(p) => format!("PANIC {}", crate::util::panic_class(&p)),
    }
}

#[cfg(avl_savefile_verif)]
fn lock_log(ids: &[std::thread::ThreadId]) -> String {
    let l = savefile_abi::verif_hooks::LOCK_LOG.lock().unwrap();
    let v: Vec<String> = l
        .iter()
        .map(|(t, w, e)| format!("{}.{}.{}", ids.iter().position(|x| x == t).map(|p| p as i64).unwrap_or(-1), w, e))
        .collect();
    format!(" LOCKLOG {}", v.join(","))
}
#[cfg(not(avl_savefile_verif))]
fn lock_log(_ids: &[std::thread::ThreadId]) -> String {
    String::new()
}

fn watchdog<R: Send + 'static>(secs: u64, handles: Vec<std::thread::JoinHandle<R>>) -> Result<Vec<R>, String> {
    let n = handles.len();
    let (tx, rx) = std::sync::mpsc::channel();
    let joiner = std::thread::spawn(move || {
        for (i, h) in handles.into_iter().enumerate() {
            let r = h.join();
            let _ = tx.send((i, r.ok()));
        }
    });
    let deadline = std::time::Instant::now() + std::time::Duration::from_secs(secs);
    let mut got: Vec<Option<R>> = (0..n).map(|_| None).collect();
    let mut done = 0;
    while done < n {
        let left = deadline.saturating_duration_since(std::time::Instant::now());
        match rx.recv_timeout(left) {
            Ok((i, Some(r))) => {
                got[i] = Some(r);
                done += 1;
            }
            Ok((i, None)) => return Err(format!("THREAD-DIED {}", i)),
            Err(_) => {
                let missing: Vec<String> = got.iter().enumerate().filter(|(_, g)| g.is_none()).map(|(i, _)| i.to_string()).collect();
                return Err(format!("HANG threads {} did not finish within {}s", missing.join(","), secs));
            }
        }
    }
    drop(joiner);
    Ok(got.into_iter().map(|g| g.unwrap()).collect())
}

// compile-time thread-safety contract of AbiConnection<T>, observed through method resolution: the inherent method is
// chosen only when the bound holds
struct Probe<T: ?Sized>(std::marker::PhantomData<T>);
trait NoBound {
    fn is_send(&self) -> bool { false }
    fn is_sync(&self) -> bool { false }
}
impl<T: ?Sized> NoBound for Probe<T> {}
struct SendProbe<T: ?Sized>(std::marker::PhantomData<T>);
struct SyncProbe<T: ?Sized>(std::marker::PhantomData<T>);
trait NoSend { fn yes(&self) -> bool { false } }
impl<T: ?Sized> NoSend for SendProbe<T> {}
impl<T: ?Sized + Send> SendProbe<T> { fn yes(&self) -> bool { true } }
trait NoSync { fn yes(&self) -> bool { false } }
impl<T: ?Sized> NoSync for SyncProbe<T> {}
impl<T: ?Sized + Sync> SyncProbe<T> { fn yes(&self) -> bool { true } }

#[savefile_abi_exportable(version = 0)]
pub trait PlainIface { fn f(&self) -> u8; }
#[savefile_abi_exportable(version = 0)]
pub trait SendIface: Send { fn f(&self) -> u8; }
#[savefile_abi_exportable(version = 0)]
pub trait SyncIface: Sync { fn f(&self) -> u8; }

fn bounds() -> String {
    macro_rules! b {
        ($t:ty) => {
            format!("{}{}", SendProbe::<AbiConnection<$t>>(std::marker::PhantomData).yes() as u8, SyncProbe::<AbiConnection<$t>>(std::marker::PhantomData).yes() as u8)
        };
    }
    // (Send, Sync) of AbiConnection<dyn I> for I without bounds, I: Send, I: Sync, I: Send + Sync
    format!("{} {} {} {}", b!(dyn PlainIface), b!(dyn SendIface), b!(dyn SyncIface), b!(dyn Shared))
}

pub fn dispatch(op: &str, toks: &[&str]) -> Option<String> {
    match op {
        "abi_bounds" => Some(bounds()),
        // conc <par|seq> <thread programs: lines separated by ';', threads by '|'; spaces written as '+'>
        "conc" => {
            let par = toks[0] == "par";
            let progs: Vec<Vec<String>> = toks[1].split('|').map(|p| p.split(';').filter(|x| !x.is_empty()).map(|x| x.replace('+', " ")).collect()).collect();
            if !par {
                let ids = vec![std::thread::current().id()];
                let res: Vec<String> = progs.iter().map(|p| p.iter().map(|l| run_line(l)).collect::<Vec<_>>().join(" ## ")).collect();
                return Some(format!("{}{}", res.join(" %% "), lock_log(&ids)));
            }
            let n = progs.len();
            let barrier = Arc::new(Barrier::new(n));
            let ids = Arc::new(std::sync::Mutex::new(vec![None; n]));
            let handles: Vec<_> = progs
                .into_iter()
                .enumerate()
                .map(|(i, p)| {
                    let b = barrier.clone();
                    let ids = ids.clone();
                    std::thread::spawn(move || {
                        ids.lock().unwrap()[i] = Some(std::thread::current().id());
                        b.wait();
                        p.iter().map(|l| run_line(l)).collect::<Vec<_>>().join(" ## ")
                    })
                })
                .collect();
            Some(match watchdog(25, handles) {
                Ok(res) => {
                    let idv: Vec<std::thread::ThreadId> = ids.lock().unwrap().iter().map(|x| x.unwrap()).collect();
                    format!("{}{}", res.join(" %% "), lock_log(&idv))
                }
                Err(e) => e,
            })
        }
        // conc_shared <threads> <calls per thread> <seed> : one connection (created while other threads create theirs),
        // shared by all threads; every call's result is compared with the direct computation
        "conc_shared" => {
            let (n, m, seed): (usize, u32, u32) = (toks[0].parse().unwrap(), toks[1].parse().unwrap(), toks[2].parse().unwrap());
            let imp: Box<dyn Shared> = Box::new(SharedImpl { calls: AtomicU64::new(0) });
            let conn = match AbiConnection::<dyn Shared>::from_boxed_trait(imp) {
                Ok(c) => Arc::new(c),
                Err(e) => return Some(format!("CONNECT-ERR {}", crate::util::err_class(&e))),
            };
            let barrier = Arc::new(Barrier::new(n));
            let ids = Arc::new(std::sync::Mutex::new(vec![None; n]));
            let handles: Vec<_> = (0..n)
                .map(|i| {
                    let (b, c, ids) = (barrier.clone(), conn.clone(), ids.clone());
                    std::thread::spawn(move || {
                        ids.lock().unwrap()[i] = Some(std::thread::current().id());
                        b.wait();
                        let mut bad = Vec::new();
                        for j in 0..m {
                            let k = seed.wrapping_mul(31).wrapping_add((i as u32) * 1000 + j);
                            let r = std::panic::catch_unwind(std::panic::AssertUnwindSafe(|| shared_call(&c, k))).unwrap_or_else(|_| "PANIC".to_string());
                            let e = shared_expected(k);
                            if r != e && bad.len() < 3 {
                                bad.push(format!("k={} got '{}' expected '{}'", k, r, e));
                            }
                        }
                        bad
                    })
                })
                .collect();
            Some(match watchdog(25, handles) {
                Ok(res) => {
                    let idv: Vec<std::thread::ThreadId> = ids.lock().unwrap().iter().map(|x| x.unwrap()).collect();
                    let bad: Vec<String> = res.into_iter().flatten().collect();
                    if bad.is_empty() {
                        format!("OK {}{}", n as u32 * m, lock_log(&idv))
                    } else {
                        format!("MISMATCH {}{}", bad.join(" ;; "), lock_log(&idv))
                    }
                }
                Err(e) => e,
            })
        }
        _ => None,
    }
}

#[allow(dead_code)]
fn _entry_exists() {
    let _ = <dyn Shared as AbiExportable>::ABI_ENTRY;
}
