use savefile::SavefileError;
use std::any::Any;

pub fn hex(b: &[u8]) -> String {
    let mut s = String::with_capacity(b.len() * 2);
    for x in b {
        s.push_str(&format!("{:02x}", x));
    }
    if s.is_empty() {
        s.push('-');
    }
    s
}
pub fn unhex(s: &str) -> Vec<u8> {
    if s == "-" {
        return vec![];
    }
    let b = s.as_bytes();
    (0..b.len() / 2)
        .map(|i| u8::from_str_radix(std::str::from_utf8(&b[2 * i..2 * i + 2]).unwrap(), 16).unwrap())
        .collect()
}
pub fn panic_msg(p: &Box<dyn Any + Send>) -> String {
    if let Some(s) = p.downcast_ref::<&str>() {
        s.to_string()
    } else if let Some(s) = p.downcast_ref::<String>() {
        s.clone()
    } else {
        "?".to_string()
    }
}
pub fn panic_class(p: &Box<dyn Any + Send>) -> String {
    let m = panic_msg(p);
    let m: String = m.chars().take(60).map(|c| if c.is_whitespace() { '_' } else { c }).collect();
    m
}
/// Map SavefileError to the small enum the Coq model uses.
pub fn err_class(e: &SavefileError) -> &'static str {
    match e {
        SavefileError::IOError { io_error } => {
            if io_error.kind() == std::io::ErrorKind::UnexpectedEof {
                "EEof"
            } else {
                "EOther"
            }
        }
        SavefileError::GeneralError { .. } => "EGeneral",
        SavefileError::InvalidUtf8 { .. } => "EUtf8",
        SavefileError::WrongVersion { .. } => "EWrongVersion",
        SavefileError::InvalidChar => "EInvalidChar",
        SavefileError::IncompatibleSchema { .. } => "ESchema",
        SavefileError::MemoryAllocationLayoutError => "ELayout",
        _ => "EOther",
    }
}

/// bzip2-decompress with the bzip2 crate directly (not through savefile)
pub fn bunzip(b: &[u8]) -> Option<Vec<u8>> {
    use std::io::Read;
    let mut d = bzip2::read::BzDecoder::new(b);
    let mut out = Vec::new();
    d.read_to_end(&mut out).ok()?;
    Some(out)
}

/// Independent reference decryptor of the encrypted container, written against the documented
/// framing (12-byte nonce, then [u64 len][AES-256-GCM ciphertext || 16-byte tag] chunks, the nonce
/// counter advanced before every chunk), using ring directly. Returns (plaintext, chunk plaintext sizes).
pub fn ref_decrypt(file: &[u8], password: &str) -> Option<(Vec<u8>, Vec<usize>)> {
    use ring::aead::{Aad, LessSafeKey, Nonce, UnboundKey, AES_256_GCM};
    let key = ring::digest::digest(&ring::digest::SHA256, password.as_bytes());
    let key = LessSafeKey::new(UnboundKey::new(&AES_256_GCM, key.as_ref()).ok()?);
    if file.len() < 12 {
        return None;
    }
    let mut data1 = u64::from_le_bytes(file[0..8].try_into().unwrap());
    let mut data2 = u32::from_le_bytes(file[8..12].try_into().unwrap());
    let mut pos = 12;
    let mut out = Vec::new();
    let mut sizes = Vec::new();
    while pos < file.len() {
        if pos + 8 > file.len() {
            return None;
        }
        let l = u64::from_le_bytes(file[pos..pos + 8].try_into().unwrap()) as usize;
        pos += 8;
        if pos + l > file.len() || l < 16 {
            return None;
        }
        data2 = data2.wrapping_add(1);
        if data2 == 0 {
            data1 = data1.wrapping_add(1);
        }
        let mut nb = [0u8; 12];
        nb[..8].copy_from_slice(&data1.to_le_bytes());
        nb[8..].copy_from_slice(&data2.to_le_bytes());
        let mut chunk = file[pos..pos + l].to_vec();
        let pt = key.open_in_place(Nonce::assume_unique_for_key(nb), Aad::empty(), &mut chunk).ok()?;
        sizes.push(pt.len());
        out.extend_from_slice(pt);
        pos += l;
    }
    Some((out, sizes))
}
