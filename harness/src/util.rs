use savefile::SavefileError;
use std::any::Any;

pub fn hex(b: &[u8]) -> String {
    let mut s = String::with_capacity(b.len() * 2);
    for x in b {
        s.push_str(&format!("{:02x}", x));
    }
    if s.is_empty() {
        s.push('-');
    }
    s
}
pub fn unhex(s: &str) -> Vec<u8> {
    if s == "-" {
        return vec![];
    }
    let b = s.as_bytes();
    (0..b.len() / 2)
        .map(|i| u8::from_str_radix(std::str::from_utf8(&b[2 * i..2 * i + 2]).unwrap(), 16).unwrap())
        .collect()
}
pub fn panic_msg(p: &Box<dyn Any + Send>) -> String {
    if let Some(s) = p.downcast_ref::<&str>() {
        s.to_string()
    } else if let Some(s) = p.downcast_ref::<String>() {
        s.clone()
    } else {
        "?".to_string()
    }
}
pub fn panic_class(p: &Box<dyn Any + Send>) -> String {
    let m = panic_msg(p);
    let m: String = m.chars().take(60).map(|c| if c.is_whitespace() { '_' } else { c }).collect();
    m
}
/// Map SavefileError to the small enum the Coq model uses.
pub fn err_class(e: &SavefileError) -> &'static str {
    match e {
        SavefileError::IOError { io_error } => {
            if io_error.kind() == std::io::ErrorKind::UnexpectedEof {
                "EEof"
            } else {
                "EOther"
            }
        }
        SavefileError::GeneralError { .. } => "EGeneral",
        SavefileError::InvalidUtf8 { .. } => "EUtf8",
        SavefileError::WrongVersion { .. } => "EWrongVersion",
        SavefileError::InvalidChar => "EInvalidChar",
        SavefileError::IncompatibleSchema { .. } => "ESchema",
        SavefileError::MemoryAllocationLayoutError => "ELayout",
        _ => "EOther",
    }
}
