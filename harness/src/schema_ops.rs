// Schema operations for C13 / C05 / C11 / C15: parse a schema description (prefix tokens),
// run the real Schema::serialize / deserialize / diff_schema / layout_compatible.
use crate::util::*;
use savefile::*;
use std::io::Cursor;

pub struct Toks<'a> {
    pub t: &'a [&'a str],
    pub i: usize,
}
impl<'a> Toks<'a> {
    pub fn next(&mut self) -> &'a str {
        let x = self.t[self.i];
        self.i += 1;
        x
    }
    pub fn num(&mut self) -> usize {
        self.next().parse::<u64>().unwrap() as usize
    }
    pub fn boolean(&mut self) -> bool {
        self.next() == "1"
    }
    pub fn opt(&mut self) -> Option<usize> {
        let x = self.next();
        if x == "N" {
            None
        } else {
            Some(x.parse::<u64>().unwrap() as usize)
        }
    }
    pub fn name(&mut self) -> String {
        String::from_utf8(unhex(self.next())).unwrap()
    }
    pub fn layout(&mut self) -> VecOrStringLayout {
        match self.num() {
            1 => VecOrStringLayout::DataCapacityLength,
            2 => VecOrStringLayout::DataLengthCapacity,
            3 => VecOrStringLayout::CapacityDataLength,
            4 => VecOrStringLayout::LengthDataCapacity,
            5 => VecOrStringLayout::CapacityLengthData,
            6 => VecOrStringLayout::LengthCapacityData,
            7 => VecOrStringLayout::LengthData,
            8 => VecOrStringLayout::DataLength,
            _ => VecOrStringLayout::Unknown,
        }
    }
}

fn parse_field(t: &mut Toks) -> Field {
    let name = t.name();
    let value = parse_schema(t);
    let off = t.opt();
    unsafe { Field::unsafe_new(name, Box::new(value), off) }
}

fn parse_td(t: &mut Toks) -> AbiTraitDefinition {
    let name = t.name();
    let n = t.num();
    let mut methods = vec![];
    for _ in 0..n {
        let mname = t.name();
        let ret = parse_schema(t);
        let receiver = match t.num() {
            0 => ReceiverType::Shared,
            1 => ReceiverType::Mut,
            _ => ReceiverType::PinMut,
        };
        let na = t.num();
        let mut arguments = vec![];
        for _ in 0..na {
            arguments.push(AbiMethodArgument { schema: parse_schema(t) });
        }
        let async_trait_heuristic = t.boolean();
        methods.push(AbiMethod {
            name: mname,
            info: AbiMethodInfo {
                return_value: ret,
                receiver,
                arguments,
                async_trait_heuristic,
            },
        });
    }
    let sync = t.boolean();
    let send = t.boolean();
    AbiTraitDefinition { name, methods, sync, send }
}

pub fn parse_schema(t: &mut Toks) -> Schema {
    match t.next() {
        "St" => {
            let name = t.name();
            let size = t.opt();
            let align = t.opt();
            let n = t.num();
            let mut fields = vec![];
            for _ in 0..n {
                fields.push(parse_field(t));
            }
            Schema::Struct(SchemaStruct::new_unsafe(name, fields, size, align))
        }
        "En" => {
            let name = t.name();
            let n = t.num();
            let mut variants = vec![];
            for _ in 0..n {
                let vname = t.name();
                let discriminant = t.num() as u8;
                let nf = t.num();
                let mut fields = vec![];
                for _ in 0..nf {
                    fields.push(parse_field(t));
                }
                variants.push(Variant { name: vname, discriminant, fields });
            }
            let dsize = t.num() as u8;
            let repr = t.boolean();
            let size = t.opt();
            let align = t.opt();
            Schema::Enum(SchemaEnum::new_unsafe(name, variants, dsize, repr, size, align))
        }
        "Pr" => {
            let tag = t.num();
            Schema::Primitive(match tag {
                1 => SchemaPrimitive::schema_i8,
                2 => SchemaPrimitive::schema_u8,
                3 => SchemaPrimitive::schema_i16,
                4 => SchemaPrimitive::schema_u16,
                5 => SchemaPrimitive::schema_i32,
                6 => SchemaPrimitive::schema_u32,
                7 => SchemaPrimitive::schema_i64,
                8 => SchemaPrimitive::schema_u64,
                9 => SchemaPrimitive::schema_string(t.layout()),
                10 => SchemaPrimitive::schema_f32,
                11 => SchemaPrimitive::schema_f64,
                12 => SchemaPrimitive::schema_bool,
                13 => SchemaPrimitive::schema_canary1,
                14 => SchemaPrimitive::schema_i128,
                15 => SchemaPrimitive::schema_u128,
                16 => SchemaPrimitive::schema_char,
                _ => panic!("bad prim tag in case"),
            })
        }
        "Ve" => {
            let s = parse_schema(t);
            let l = t.layout();
            Schema::Vector(Box::new(s), l)
        }
        "Ar" => {
            let s = parse_schema(t);
            let count = t.num();
            Schema::Array(SchemaArray { item_type: Box::new(s), count })
        }
        "Op" => Schema::SchemaOption(Box::new(parse_schema(t))),
        "Un" => Schema::Undefined,
        "Ze" => Schema::ZeroSize,
        "Cu" => Schema::Custom(t.name()),
        "Bo" => Schema::Boxed(Box::new(parse_schema(t))),
        "Sl" => Schema::Slice(Box::new(parse_schema(t))),
        "Str" => Schema::Str,
        "Re" => Schema::Reference(Box::new(parse_schema(t))),
        "Tr" => {
            let m = t.boolean();
            Schema::Trait(m, parse_td(t))
        }
        "Fn" => {
            let m = t.boolean();
            Schema::FnClosure(m, parse_td(t))
        }
        "Rc" => Schema::Recursion(t.num()),
        "Io" => Schema::StdIoError,
        "Fu" => {
            let d = parse_td(t);
            let send = t.boolean();
            let sync = t.boolean();
            let unpin = t.boolean();
            Schema::Future(d, send, sync, unpin)
        }
        "Us" => Schema::UninitSlice,
        "Ut" => Schema::UtcTimestamp,
        x => panic!("bad schema token {}", x),
    }
}

pub fn ser_schema(fv: u32, s: &Schema) -> Result<Vec<u8>, SavefileError> {
    let mut buf = Vec::new();
    {
        let mut ser = Serializer::<Vec<u8>>::new_raw(&mut buf, fv);
        s.serialize(&mut ser)?;
    }
    Ok(buf)
}

/// Returns (schema, bytes consumed)
pub fn de_schema(fv: u16, bytes: &[u8]) -> Result<(Schema, usize), SavefileError> {
    let mut cur = Cursor::new(bytes);
    let s = {
        let mut de = new_schema_deserializer(&mut cur, fv);
        Schema::deserialize(&mut de)?
    };
    Ok((s, cur.position() as usize))
}

pub fn dispatch(op: &str, toks: &[&str]) -> Option<String> {
    let mut t = Toks { t: toks, i: 0 };
    Some(match op {
        // schema_ser <fv> <schema> -> hex
        "schema_ser" => {
            let fv = t.num() as u32;
            let s = parse_schema(&mut t);
            match ser_schema(fv, &s) {
                Ok(b) => format!("OK {}", hex(&b)),
                Err(e) => format!("ERR {}", err_class(&e)),
            }
        }
        // schema_rt <fv> <schema> -> whether de(ser s) == s and consumed everything
        "schema_rt" => {
            let fv = t.num() as u32;
            let s = parse_schema(&mut t);
            let b = ser_schema(fv, &s).unwrap();
            let mut b2 = b.clone();
            b2.extend_from_slice(&[0xAA, 0x55, 0x01]);
            match de_schema(fv as u16, &b2) {
                Ok((s2, used)) => format!("OK {} {}", if s2 == s { 1 } else { 0 }, if used == b.len() { 1 } else { 0 }),
                Err(e) => format!("ERR {}", err_class(&e)),
            }
        }
        // schema_de <fv> <hex> -> OK <consumed> <hex of the decoded schema re-serialized at format 2>
        "schema_de" => {
            let fv = t.num() as u16;
            let bytes = unhex(t.next());
            match de_schema(fv, &bytes) {
                Ok((s, used)) => format!("OK {} {}", used, hex(&ser_schema(2, &s).unwrap())),
                Err(e) => format!("ERR {}", err_class(&e)),
            }
        }
        // schema_diff <rp> <a> <b>
        "schema_diff" => {
            let rp = t.boolean();
            let a = parse_schema(&mut t);
            let b = parse_schema(&mut t);
            match diff_schema(&a, &b, ".".to_string(), rp) {
                None => "SAME".to_string(),
                Some(_) => "DIFF".to_string(),
            }
        }
        // schema_layout <a> <b>
        "schema_layout" => {
            let a = parse_schema(&mut t);
            let b = parse_schema(&mut t);
            format!("{}", if a.layout_compatible(&b) { 1 } else { 0 })
        }
        _ => return None,
    })
}
