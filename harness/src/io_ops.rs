// I/O fault and chunking operations (C08) and encrypted-file tampering (C14) on the real implementation.
use crate::canon::Canon;
use crate::ops::{load_container, save_container, PASSWORD};
use crate::util::*;
use savefile::prelude::*;
use savefile::{CryptoReader, CryptoWriter, Deserializer, Serializer};
use std::io::{Error, ErrorKind, Read, Write};

fn key_of(password: &str) -> [u8; 32] {
    let d = ring::digest::digest(&ring::digest::SHA256, password.as_bytes());
    let mut k = [0u8; 32];
    k.copy_from_slice(d.as_ref());
    k
}

/// Writer that accepts `budget` bytes and then fails; `chunk` limits how much one write call accepts;
/// `interrupt_every`: every n-th call returns Interrupted first.
pub struct FaultyWriter {
    pub out: Vec<u8>,
    pub budget: Option<usize>,
    pub kind: u8, // 0 = Other, 1 = BrokenPipe, 2 = Ok(0) (WriteZero)
    pub chunk: usize,
    pub interrupt_every: usize,
    pub calls: usize,
    pub flushes: usize,
}
impl FaultyWriter {
    pub fn new(budget: Option<usize>, kind: u8, chunk: usize, interrupt_every: usize) -> Self {
        FaultyWriter { out: vec![], budget, kind, chunk, interrupt_every, calls: 0, flushes: 0 }
    }
}
impl Write for FaultyWriter {
    fn write(&mut self, buf: &[u8]) -> std::io::Result<usize> {
        self.calls += 1;
        if self.interrupt_every > 0 && self.calls % self.interrupt_every == 0 {
            return Err(Error::new(ErrorKind::Interrupted, "interrupted"));
        }
        if buf.is_empty() {
            return Ok(0);
        }
        let mut n = buf.len().min(self.chunk.max(1));
        if let Some(b) = self.budget {
            if b == 0 {
                return match self.kind {
                    0 => Err(Error::new(ErrorKind::Other, "disk full")),
                    1 => Err(Error::new(ErrorKind::BrokenPipe, "broken pipe")),
                    _ => Ok(0),
                };
            }
            n = n.min(b);
            self.budget = Some(b - n);
        }
        self.out.extend_from_slice(&buf[..n]);
        Ok(n)
    }
    fn flush(&mut self) -> std::io::Result<()> {
        self.flushes += 1;
        Ok(())
    }
}

/// Reader delivering `data` in chunks following a cyclic schedule; entry 0 = Interrupted; fails after `budget` bytes.
pub struct ChunkReader<'a> {
    pub data: &'a [u8],
    pub pos: usize,
    pub sched: Vec<usize>,
    pub i: usize,
    pub budget: Option<usize>,
}
impl<'a> Read for ChunkReader<'a> {
    fn read(&mut self, buf: &mut [u8]) -> std::io::Result<usize> {
        let c = if self.sched.is_empty() { usize::MAX } else { let c = self.sched[self.i % self.sched.len()]; self.i += 1; c };
        if c == 0 {
            return Err(Error::new(ErrorKind::Interrupted, "interrupted"));
        }
        if let Some(b) = self.budget {
            if self.pos >= b {
                return Err(Error::new(ErrorKind::Other, "read fault"));
            }
        }
        let mut n = buf.len().min(c).min(self.data.len() - self.pos);
        if let Some(b) = self.budget {
            n = n.min(b - self.pos);
        }
        buf[..n].copy_from_slice(&self.data[self.pos..self.pos + n]);
        self.pos += n;
        Ok(n)
    }
}

pub fn save_to<T: Serialize + WithSchema, W: Write>(container: &str, version: u32, x: &T, w: &mut W) -> Result<(), SavefileError> {
    match container {
        "bare" => Serializer::bare_serialize(w, version, x),
        "plain" => savefile::save(w, version, x),
        "noschema" => savefile::save_noschema(w, version, x),
        "bzip2" => savefile::save_compressed(w, version, x),
        "crypto" => {
            // what save_encrypted_file does, over an arbitrary writer
            let mut cw = CryptoWriter::new(w, key_of(PASSWORD))?;
            Serializer::<CryptoWriter>::save::<T>(&mut cw, version, x, true)?;
            cw.flush()?;
            Ok(())
        }
        _ => panic!("bad container"),
    }
}

pub fn load_from<T: Deserialize + WithSchema, R: Read>(container: &str, version: u32, r: &mut R) -> Result<T, SavefileError> {
    match container {
        "bare" => Deserializer::bare_deserialize::<T>(r, version),
        "plain" | "bzip2" => savefile::load::<T>(r, version),
        "noschema" => savefile::load_noschema::<T>(r, version),
        "crypto" => {
            let mut cr = CryptoReader::new(r, key_of(PASSWORD))?;
            Deserializer::<CryptoReader>::load::<T>(&mut cr, version)
        }
        _ => panic!("bad container"),
    }
}

fn cls(e: &SavefileError) -> char {
    match err_class(e) {
        "EEof" => 'e', "EGeneral" => 'g', "EUtf8" => 'u', "EWrongVersion" => 'w', "EInvalidChar" => 'c',
        "ESchema" => 's', "ELayout" => 'l', _ => 'o',
    }
}

pub fn run<T: Serialize + Deserialize + WithSchema + Packed + Canon>(op: &str, toks: &[&str], values: fn() -> Vec<T>) -> Option<String> {
    Some(match op {
        // ty_wfault <container> <version> <validx> <budget> <kind> : one failure offset. For non-crypto containers
        // budget = "all" enumerates every offset 0..len in this process.
        "ty_wfault" => {
            let (container, version, idx) = (toks[0], toks[1].parse::<u32>().unwrap(), toks[2].parse::<usize>().unwrap());
            let kind = toks[4].parse::<u8>().unwrap();
            let vals = values();
            let x = &vals[idx];
            let mut good = FaultyWriter::new(None, 0, usize::MAX, 0);
            if let Err(e) = save_to(container, version, x, &mut good) {
                return Some(format!("SAVE-ERR {}", err_class(&e)));
            }
            let full = good.out;
            // crypto output differs per run (random nonce): compare only lengths and the non-random prefix structure
            let one = |b: usize| -> char {
                let mut w = FaultyWriter::new(Some(b), kind, usize::MAX, 0);
                let r = std::panic::catch_unwind(std::panic::AssertUnwindSafe(|| save_to(container, version, x, &mut w)));
                let prefix_ok = if container == "crypto" { w.out.len() <= b } else { w.out.len() <= b && full[..w.out.len()] == w.out[..] };
                match r {
                    Err(_) => 'P',
                    Ok(Ok(())) => if w.out.len() == full.len() && prefix_ok { 'K' } else { 'O' },   // K: complete; O: silent success on a short write
                    Ok(Err(_)) => if prefix_ok { 'e' } else { 'X' },
                }
            };
            if toks[3] == "all" {
                let s: String = (0..=full.len()).map(one).collect();
                format!("{} {}", full.len(), s)
            } else {
                let b = toks[3].parse::<usize>().unwrap();
                format!("{} {}", full.len(), one(b))
            }
        }
        // ty_wfaultbuf <container> <version> <validx> <kind> : like ty_wfault all, but through a small BufWriter (as
        // save_file does): when save returns Ok, everything must have reached the sink (nothing left in the buffer).
        // One letter per budget: K complete, e error, U = Ok returned with unflushed / missing bytes, P panic
        "ty_wfaultbuf" => {
            let (container, version, idx) = (toks[0], toks[1].parse::<u32>().unwrap(), toks[2].parse::<usize>().unwrap());
            let kind = toks[3].parse::<u8>().unwrap();
            let vals = values();
            let x = &vals[idx];
            let mut good = FaultyWriter::new(None, 0, usize::MAX, 0);
            if let Err(e) = save_to(container, version, x, &mut good) {
                return Some(format!("SAVE-ERR {}", err_class(&e)));
            }
            let full_len = good.out.len();
            let s: String = (0..=full_len)
                .map(|b| {
                    let mut w = FaultyWriter::new(Some(b), kind, usize::MAX, 0);
                    let (r, unflushed) = {
                        let mut bw = std::io::BufWriter::with_capacity(64, &mut w);
                        let r = std::panic::catch_unwind(std::panic::AssertUnwindSafe(|| save_to(container, version, x, &mut bw)));
                        let (_, buffered) = bw.into_parts();
                        (r, buffered.map(|v| v.len()).unwrap_or(0))
                    };
                    match r {
                        Err(_) => 'P',
                        Ok(Ok(())) => if unflushed == 0 && w.out.len() == full_len { 'K' } else { 'U' },
                        Ok(Err(_)) => 'e',
                    }
                })
                .collect();
            format!("{} {}", full_len, s)
        }
        // ty_wchunk <container> <version> <validx> <chunk> <interrupt_every> : short writes / interrupted calls give the same bytes
        "ty_wchunk" => {
            let (container, version, idx) = (toks[0], toks[1].parse::<u32>().unwrap(), toks[2].parse::<usize>().unwrap());
            let (chunk, ie) = (toks[3].parse::<usize>().unwrap(), toks[4].parse::<usize>().unwrap());
            let vals = values();
            let x = &vals[idx];
            let mut a = FaultyWriter::new(None, 0, usize::MAX, 0);
            let mut b = FaultyWriter::new(None, 0, chunk, ie);
            let ra = save_to(container, version, x, &mut a);
            let rb = save_to(container, version, x, &mut b);
            if ra.is_err() || rb.is_err() {
                return Some(format!("ERR {} {}", ra.is_err(), rb.is_err()));
            }
            if container == "crypto" {
                // random nonce: compare the decrypted streams
                let (pa, pb) = (ref_decrypt(&a.out, PASSWORD), ref_decrypt(&b.out, PASSWORD));
                match (pa, pb) {
                    (Some((pa, _)), Some((pb, _))) => format!("{}", if pa == pb { "SAME" } else { "DIFFERENT" }),
                    _ => "UNDECRYPTABLE".to_string(),
                }
            } else {
                format!("{}", if a.out == b.out { "SAME" } else { "DIFFERENT" })
            }
        }
        // ty_rchunk <container> <version> <validx> <sched: comma separated, 0 = Interrupted> : load result independent of chunking
        "ty_rchunk" => {
            let (container, version, idx) = (toks[0], toks[1].parse::<u32>().unwrap(), toks[2].parse::<usize>().unwrap());
            let sched: Vec<usize> = toks[3].split(',').filter(|s| !s.is_empty()).map(|s| s.parse().unwrap()).collect();
            let vals = values();
            let x = &vals[idx];
            let mut a = FaultyWriter::new(None, 0, usize::MAX, 0);
            if let Err(e) = save_to(container, version, x, &mut a) {
                return Some(format!("SAVE-ERR {}", err_class(&e)));
            }
            let mut r = ChunkReader { data: &a.out, pos: 0, sched, i: 0, budget: None };
            let res = std::panic::catch_unwind(std::panic::AssertUnwindSafe(|| load_from::<T, _>(container, version, &mut r)));
            match res {
                Err(_) => "PANIC".to_string(),
                Ok(Ok(y)) => if y.canon_string() == x.canon_string() { "SAME".to_string() } else { format!("DIFFERENT {}", y.canon_string()) },
                Ok(Err(e)) => format!("ERR {}", err_class(&e)),
            }
        }
        // ty_rfault <container> <version> <validx> : reader fails at every offset 0..len-1 -> one letter per offset
        "ty_rfault" => {
            let (container, version, idx) = (toks[0], toks[1].parse::<u32>().unwrap(), toks[2].parse::<usize>().unwrap());
            let vals = values();
            let x = &vals[idx];
            let mut a = FaultyWriter::new(None, 0, usize::MAX, 0);
            if let Err(e) = save_to(container, version, x, &mut a) {
                return Some(format!("SAVE-ERR {}", err_class(&e)));
            }
            let orig = x.canon_string();
            let s: String = (0..a.out.len()).map(|b| {
                let mut r = ChunkReader { data: &a.out, pos: 0, sched: vec![], i: 0, budget: Some(b) };
                match std::panic::catch_unwind(std::panic::AssertUnwindSafe(|| load_from::<T, _>(container, version, &mut r))) {
                    Err(_) => 'P',
                    Ok(Ok(y)) => if y.canon_string() == orig { 'S' } else { 'D' },
                    Ok(Err(e)) => cls(&e),
                }
            }).collect();
            format!("{} {}", a.out.len(), s)
        }
        // ty_tamper <version> <validx> <stride> : encrypted file: every <stride>-th byte position x 3 replacement values,
        // every truncation, wrong passwords. Output: len, then offending cases.
        "ty_tamper" => {
            let (version, idx, stride) = (toks[0].parse::<u32>().unwrap(), toks[1].parse::<usize>().unwrap(), toks[2].parse::<usize>().unwrap().max(1));
            let vals = values();
            let x = &vals[idx];
            let file = match save_container("crypto", version, x) { Ok(f) => f, Err(e) => return Some(format!("SAVE-ERR {}", err_class(&e))) };
            tamper_file::<T>(&file, version, stride, &x.canon_string())
        }
        _ => return None,
    })
}

pub fn tamper_file<T: Deserialize + WithSchema + Canon>(file: &[u8], version: u32, stride: usize, orig: &str) -> String {
    let mut bad = vec![];
    let mut tried = 0usize;
    let mut check = |bytes: &[u8], what: String, bad: &mut Vec<String>, pw: &str| {
        let p = std::env::temp_dir().join(format!("sfh_tamper_{}.bin", std::process::id()));
        std::fs::write(&p, bytes).unwrap();
        let r = std::panic::catch_unwind(|| savefile::load_encrypted_file::<T, _>(&p, version, pw));
        match r {
            Err(_) => bad.push(format!("{}:PANIC", what)),
            Ok(Ok(y)) => bad.push(format!("{}:{}", what, if y.canon_string() == orig { "LOADED-SAME" } else { "LOADED-DIFFERENT" })),
            Ok(Err(_)) => {}
        }
        std::fs::remove_file(&p).ok();
    };
    // intact file must load
    {
        let p = std::env::temp_dir().join(format!("sfh_tamper_ok_{}.bin", std::process::id()));
        std::fs::write(&p, file).unwrap();
        match savefile::load_encrypted_file::<T, _>(&p, version, PASSWORD) {
            Ok(y) if y.canon_string() == orig => {}
            _ => bad.push("intact:NOT-LOADED".to_string()),
        }
        std::fs::remove_file(&p).ok();
    }
    let mut positions: Vec<usize> = (0..file.len()).step_by(stride).collect();
    // always include the header, and the 24 bytes around every frame boundary
    let mut pos = 12usize;
    positions.extend(0..12.min(file.len()));
    while pos + 8 <= file.len() {
        let l = u64::from_le_bytes(file[pos..pos + 8].try_into().unwrap()) as usize;
        positions.extend(pos..(pos + 8).min(file.len()));
        let end = pos + 8 + l;
        positions.extend(end.saturating_sub(17)..end.min(file.len()));
        pos = end;
    }
    positions.sort();
    positions.dedup();
    for &i in &positions {
        for v in [file[i] ^ 1, file[i].wrapping_add(1), !file[i]] {
            let mut f = file.to_vec();
            f[i] = v;
            tried += 1;
            check(&f, format!("flip@{}={}", i, v), &mut bad, PASSWORD);
        }
    }
    let cuts: Vec<usize> = if file.len() <= 4096 { (0..file.len()).collect() } else { positions.clone() };
    for &k in &cuts {
        tried += 1;
        check(&file[..k], format!("cut@{}", k), &mut bad, PASSWORD);
    }
    for pw in ["", "correct hors", "correct horse ", "Correct horse", "correct horse\0", "x", "correct  horse", "password"] {
        tried += 1;
        check(file, format!("password={:?}", pw), &mut bad, pw);
    }
    format!("{} {} {}", file.len(), tried, if bad.is_empty() { "-".to_string() } else { bad.join(",") })
}
