// Canonical printer: renders a loaded value in the Coq `val` syntax of theories/Ty.v.
use std::fmt::Write;

pub trait Canon {
    fn canon(&self, o: &mut String);
    fn canon_string(&self) -> String {
        let mut s = String::new();
        self.canon(&mut s);
        s
    }
}
pub trait Probe {
    fn probe() -> String;
}

macro_rules! canon_int {
    ($($t:ty),*) => { $( impl Canon for $t { fn canon(&self, o: &mut String) {
        if (*self as i128) < 0 && stringify!($t).starts_with('i') { write!(o, "(VInt ({}))", self).unwrap(); } else { write!(o, "(VInt {})", self).unwrap(); }
    } } )* }
}
canon_int!(u8, i8, u16, i16, u32, i32, u64, i64, u128, usize, isize);
impl Canon for i128 {
    fn canon(&self, o: &mut String) {
        if *self < 0 { write!(o, "(VInt ({}))", self).unwrap(); } else { write!(o, "(VInt {})", self).unwrap(); }
    }
}
impl Canon for bool { fn canon(&self, o: &mut String) { write!(o, "(VInt {})", if *self { 1 } else { 0 }).unwrap(); } }
impl Canon for char { fn canon(&self, o: &mut String) { write!(o, "(VInt {})", *self as u32).unwrap(); } }
impl Canon for f32 { fn canon(&self, o: &mut String) { write!(o, "(VInt {})", self.to_bits()).unwrap(); } }
impl Canon for f64 { fn canon(&self, o: &mut String) { write!(o, "(VInt {})", self.to_bits()).unwrap(); } }
impl Canon for () { fn canon(&self, o: &mut String) { o.push_str("VUnit"); } }
fn canon_bytes(b: &[u8], o: &mut String) {
    o.push_str("(VStr [");
    for (i, x) in b.iter().enumerate() { if i > 0 { o.push(';'); } write!(o, "{}", x).unwrap(); }
    o.push_str("])");
}
impl Canon for String { fn canon(&self, o: &mut String) { canon_bytes(self.as_bytes(), o) } }
impl Canon for std::sync::Arc<str> { fn canon(&self, o: &mut String) { canon_bytes(self.as_bytes(), o) } }
fn canon_seq<'a, T: Canon + 'a>(it: impl Iterator<Item = &'a T>, o: &mut String) {
    o.push_str("(VSeq [");
    for (i, x) in it.enumerate() { if i > 0 { o.push(';'); } x.canon(o); }
    o.push_str("])");
}
impl<T: Canon> Canon for Vec<T> { fn canon(&self, o: &mut String) { canon_seq(self.iter(), o) } }
impl<T: Canon> Canon for Box<[T]> { fn canon(&self, o: &mut String) { canon_seq(self.iter(), o) } }
impl<T: Canon> Canon for std::sync::Arc<[T]> { fn canon(&self, o: &mut String) { canon_seq(self.iter(), o) } }
impl<T: Canon> Canon for std::collections::VecDeque<T> { fn canon(&self, o: &mut String) { canon_seq(self.iter(), o) } }
impl<T: Canon, const N: usize> Canon for arrayvec::ArrayVec<T, N> { fn canon(&self, o: &mut String) { canon_seq(self.iter(), o) } }
impl<T: Canon, const N: usize> Canon for [T; N] { fn canon(&self, o: &mut String) { canon_seq(self.iter(), o) } }
impl<T: Canon> Canon for Option<T> { fn canon(&self, o: &mut String) { match self { None => o.push_str("VNone"), Some(x) => { o.push_str("(VSome "); x.canon(o); o.push(')'); } } } }
impl<A: Canon, B: Canon> Canon for Result<A, B> { fn canon(&self, o: &mut String) { match self {
    Ok(x) => { o.push_str("(VOk "); x.canon(o); o.push(')'); } Err(x) => { o.push_str("(VErr "); x.canon(o); o.push(')'); } } } }
impl<T: Canon> Canon for Box<T> { fn canon(&self, o: &mut String) { (**self).canon(o) } }
impl<T: Canon> Canon for std::rc::Rc<T> { fn canon(&self, o: &mut String) { (**self).canon(o) } }
impl<T: Canon> Canon for std::sync::Arc<T> { fn canon(&self, o: &mut String) { (**self).canon(o) } }
impl<T: Canon> Canon for std::cell::RefCell<T> { fn canon(&self, o: &mut String) { self.borrow().canon(o) } }
impl<T: Canon + Copy> Canon for std::cell::Cell<T> { fn canon(&self, o: &mut String) { self.get().canon(o) } }
impl<T: Canon> Canon for std::sync::Mutex<T> { fn canon(&self, o: &mut String) { self.lock().unwrap().canon(o) } }
impl<T: Canon> Canon for std::sync::RwLock<T> { fn canon(&self, o: &mut String) { self.read().unwrap().canon(o) } }
impl<A: Canon> Canon for (A,) { fn canon(&self, o: &mut String) { o.push_str("(VRec ["); self.0.canon(o); o.push_str("])"); } }
impl<A: Canon, B: Canon> Canon for (A, B) { fn canon(&self, o: &mut String) { o.push_str("(VRec ["); self.0.canon(o); o.push(';'); self.1.canon(o); o.push_str("])"); } }
impl<A: Canon, B: Canon, C: Canon> Canon for (A, B, C) { fn canon(&self, o: &mut String) { o.push_str("(VRec ["); self.0.canon(o); o.push(';'); self.1.canon(o); o.push(';'); self.2.canon(o); o.push_str("])"); } }
impl<A: Canon, B: Canon, C: Canon, D: Canon> Canon for (A, B, C, D) { fn canon(&self, o: &mut String) { o.push_str("(VRec ["); self.0.canon(o); o.push(';'); self.1.canon(o); o.push(';'); self.2.canon(o); o.push(';'); self.3.canon(o); o.push_str("])"); } }
