// Round trips, cuts and determinism for a fixed corpus of library (std / third-party) types that are outside the
// generated type universe (C01, C02, C07): maps, sets, heaps, deques, index maps, small/array vectors, strings,
// paths, net and time types, smart pointers, cells and locks, atomics, tuples, nested combinations.
// For entries whose bytes are deterministic and have an equivalent in the Coq type universe, `model` gives the
// (ty, val) terms: the bytes written must equal Ty.enc of that term.
use crate::ops::{load_container, save_container};
use crate::util::*;
use savefile::prelude::*;
use std::collections::*;
use std::sync::atomic::Ordering;

pub trait Visitor {
    fn visit<T: Serialize + Deserialize + WithSchema>(&mut self, make: &dyn Fn() -> T, eq: &dyn Fn(&T, &T) -> bool, dbg: &dyn Fn(&T) -> String) -> String;
}

const L0: &str = "(Lay' 0 0 [] false false)";

pub struct CaseInfo {
    pub name: &'static str,
    pub model: Option<(String, String)>,
    pub hash_order: bool, // bytes depend on hash iteration order
}

fn tup(ts: &[&str]) -> String {
    format!("(TTuple {} [{}])", L0, ts.join(";"))
}
fn vstr(s: &str) -> String {
    format!("(VStr [{}])", s.bytes().map(|b| b.to_string()).collect::<Vec<_>>().join(";"))
}

pub fn cases() -> Vec<CaseInfo> {
    let c = |name: &'static str, model: Option<(String, String)>, hash_order: bool| CaseInfo { name, model, hash_order };
    let m = |t: String, v: String| Some((t, v));
    vec![
        c("btreemap_u32_string", m(format!("(TVec {})", tup(&["(TInt U32)", "TString"])), format!("(VSeq [(VRec [(VInt 1);{}]);(VRec [(VInt 7);{}])])", vstr("a"), vstr("bc"))), false),
        c("btreemap_empty", m(format!("(TVec {})", tup(&["(TInt U8)", "(TInt U8)"])), "(VSeq [])".to_string()), false),
        c("btreemap_nested", m(format!("(TVec {})", tup(&["TString", "(TVec (TOption (TInt U16)))"])), format!("(VSeq [(VRec [{};(VSeq [(VSome (VInt 5));VNone])]);(VRec [{};(VSeq [])])])", vstr("k"), vstr("z"))), false),
        c("btreemap_1000", None, false),
        c("btreeset_u8", m("(TVec (TInt U8))".to_string(), "(VSeq [(VInt 1);(VInt 2);(VInt 9)])".to_string()), false),
        c("btreeset_string", m("(TVec TString)".to_string(), format!("(VSeq [{};{}])", vstr("q"), vstr("ré"))), false),
        c("hashmap_single", m(format!("(TVec {})", tup(&["(TInt U8)", "(TInt U8)"])), "(VSeq [(VRec [(VInt 1);(VInt 2)])])".to_string()), false),
        c("hashmap_100", None, true),
        c("hashmap_string_vec", m(format!("(TVec {})", tup(&["TString", "(TVec TString)"])), format!("(VSeq [(VRec [{};(VSeq [{};{}])])])", vstr("k"), vstr("x"), vstr("yz"))), false),
        c("hashset_single", m("(TVec (TInt U32))".to_string(), "(VSeq [(VInt 77)])".to_string()), false),
        c("hashset_100", None, true),
        c("binheap", None, false),
        c("binheap_empty", m("(TVec (TInt U16))".to_string(), "(VSeq [])".to_string()), false),
        c("vecdeque_wrapped", m("(TSeq TString)".to_string(), format!("(VSeq [{};{};{};{}])", vstr("f2"), vstr("f1"), vstr("b1"), vstr("b2"))), false),
        c("vecdeque_u8_70000", None, false),
        c("indexmap", m(format!("(TVec {})", tup(&["(TInt U8)", "(TInt U16)"])), "(VSeq [(VRec [(VInt 3);(VInt 4)]);(VRec [(VInt 1);(VInt 2)])])".to_string()), false),
        c("indexset", m("(TVec (TInt U8))".to_string(), "(VSeq [(VInt 3);(VInt 1)])".to_string()), false),
        c("smallvec_inline", m("(TVec (TInt U16))".to_string(), "(VSeq [(VInt 1);(VInt 2);(VInt 3)])".to_string()), false),
        c("smallvec_spilled", m("(TVec (TInt U16))".to_string(), "(VSeq [(VInt 1);(VInt 2);(VInt 3);(VInt 4);(VInt 5);(VInt 6)])".to_string()), false),
        c("arrayvec", m("(TVec (TInt U32))".to_string(), "(VSeq [(VInt 5);(VInt 6)])".to_string()), false),
        c("arraystring", m("TString".to_string(), vstr("hi")), false),
        c("duration", m("(TInt U128)".to_string(), "(VInt 5000000007)".to_string()), false),
        c("duration_max", None, false),
        c("systemtime", None, false),
        c("systemtime_before_epoch", None, false),
        c("ipaddr_v4", m(tup(&["(TInt U8)", "(TInt U32)"]), "(VRec [(VInt 0);(VInt 16909060)])".to_string()), false),
        c("ipaddr_v6", None, false),
        c("socketaddr_v4", None, false),
        c("socketaddr_v6", None, false),
        c("pathbuf", m("TString".to_string(), vstr("/tmp/xé")), false),
        c("range", None, false),
        c("cow_str", m("TString".to_string(), vstr("cow")), false),
        c("box_slice", m("(TVec (TInt U16))".to_string(), "(VSeq [(VInt 1);(VInt 2)])".to_string()), false),
        c("arc_slice_string", m("(TVec TString)".to_string(), format!("(VSeq [{};{}])", vstr("a"), vstr(""))), false),
        c("arc_str", m("TString".to_string(), vstr("shared")), false),
        c("vec_arc_str_shared", m("(TVec TString)".to_string(), format!("(VSeq [{};{};{}])", vstr("same"), vstr("same"), vstr("other"))), false),
        c("rc_vec", m("(TBox (TVec (TInt U8)))".to_string(), "(VSeq [(VInt 1);(VInt 2)])".to_string()), false),
        c("arc_string", m("(TBox TString)".to_string(), vstr("arc")), false),
        c("refcell", m("(TBox (TInt U32))".to_string(), "(VInt 9)".to_string()), false),
        c("cell", m("(TCell (TInt U16))".to_string(), "(VInt 9)".to_string()), false),
        c("std_mutex", m("(TBox TString)".to_string(), vstr("m")), false),
        c("pl_mutex", m("(TBox (TInt U8))".to_string(), "(VInt 3)".to_string()), false),
        c("pl_rwlock", m("(TBox (TInt U8))".to_string(), "(VInt 4)".to_string()), false),
        c("atomic_u32", m("(TInt U32)".to_string(), "(VInt 4000000000)".to_string()), false),
        c("atomic_bool", m("TBool".to_string(), "(VInt 1)".to_string()), false),
        c("atomic_i64", m("(TInt I64)".to_string(), "(VInt (-5))".to_string()), false),
        c("tuple1", m(tup(&["TString"]), format!("(VRec [{}])", vstr("t"))), false),
        c("tuple2", m(tup(&["(TInt U8)", "(TVec (TInt U8))"]), "(VRec [(VInt 1);(VSeq [(VInt 2)])])".to_string()), false),
        c("tuple3", m(tup(&["(TInt U8)", "TString", "(TInt U32)"]), format!("(VRec [(VInt 1);{};(VInt 3)])", vstr("x"))), false),
        c("opt_opt", m("(TOption (TOption (TInt U8)))".to_string(), "(VSome VNone)".to_string()), false),
        c("opt_box", m("(TOption (TBox (TInt U32)))".to_string(), "(VSome (VInt 4))".to_string()), false),
        c("result_err_string", m("(TResult (TVec (TInt U8)) TString)".to_string(), format!("(VErr {})", vstr("bad"))), false),
        c("string_multibyte", m("TString".to_string(), vstr("héllo wörld 日本語 \u{10ffff}")), false),
        c("string_empty", m("TString".to_string(), vstr("")), false),
        c("u128_max", m("(TInt U128)".to_string(), "(VInt 340282366920938463463374607431768211455)".to_string()), false),
        c("i128_min", m("(TInt I128)".to_string(), "(VInt (-170141183460469231731687303715884105728))".to_string()), false),
        c("f64_nan_payload", m("TF64".to_string(), "(VInt 18444492273895866369)".to_string()), false),
        c("f32_neg_zero", m("TF32".to_string(), "(VInt 2147483648)".to_string()), false),
        c("char_max", m("TChar".to_string(), "(VInt 1114111)".to_string()), false),
        c("bitvec", None, false),
        c("bitvec_empty", None, false),
        c("bitset", None, false),
        c("phantom", m("TUnit".to_string(), "VUnit".to_string()), false),
        c("unit", m("TUnit".to_string(), "VUnit".to_string()), false),
        c("vec_btreemap", m(format!("(TVec (TVec {}))", tup(&["(TInt U8)", "(TVec (TInt U8))"])), "(VSeq [(VSeq [(VRec [(VInt 1);(VSeq [(VInt 1)])])]);(VSeq [])])".to_string()), false),
        c("opt_btreemap", m(format!("(TOption (TVec {}))", tup(&["(TInt U8)", "(TInt U8)"])), "(VSome (VSeq [(VRec [(VInt 1);(VInt 2)])]))".to_string()), false),
        c("tuple_set_u8", m(tup(&["(TVec (TInt U8))", "(TInt U8)"]), "(VRec [(VSeq [(VInt 1)]);(VInt 2)])".to_string()), false),
        c("btreemap_of_btreemap", m(format!("(TVec {})", tup(&["(TInt U8)", &format!("(TVec {})", tup(&["(TInt U8)", "TString"]))])), format!("(VSeq [(VRec [(VInt 1);(VSeq [(VRec [(VInt 2);{}])])])])", vstr("in"))), false),
    ]
}

pub fn with_case<V: Visitor>(name: &str, v: &mut V) -> String {
    macro_rules! peq {
        ($mk:expr) => {
            v.visit(&|| $mk, &|a, b| a == b, &|a| format!("{:?}", a))
        };
    }
    match name {
        "btreemap_u32_string" => peq!(BTreeMap::from([(1u32, "a".to_string()), (7, "bc".to_string())])),
        "btreemap_empty" => peq!(BTreeMap::<u8, u8>::new()),
        "btreemap_nested" => peq!(BTreeMap::from([("k".to_string(), vec![Some(5u16), None]), ("z".to_string(), vec![])])),
        "btreemap_1000" => peq!((0..1000u16).map(|i| (i, i.wrapping_mul(3))).collect::<BTreeMap<u16, u16>>()),
        "btreeset_u8" => peq!(BTreeSet::from([1u8, 2, 9])),
        "btreeset_string" => peq!(BTreeSet::from(["q".to_string(), "ré".to_string()])),
        "hashmap_single" => peq!(HashMap::from([(1u8, 2u8)])),
        "hashmap_100" => peq!((0..100u32).map(|i| (i * 7, format!("v{}", i))).collect::<HashMap<u32, String>>()),
        "hashmap_string_vec" => peq!(HashMap::from([("k".to_string(), vec!["x".to_string(), "yz".to_string()])])),
        "hashset_single" => peq!(HashSet::from([77u32])),
        "hashset_100" => peq!((0..100u32).map(|i| i * 13).collect::<HashSet<u32>>()),
        "binheap" => v.visit(&|| BinaryHeap::from(vec![5u16, 1, 3, 9, 3]), &|a, b| a.clone().into_sorted_vec() == b.clone().into_sorted_vec(), &|a| format!("{:?}", a.clone().into_sorted_vec())),
        "binheap_empty" => v.visit(&|| BinaryHeap::<u16>::new(), &|a, b| a.len() == b.len(), &|a| format!("{:?}", a.clone().into_sorted_vec())),
        "vecdeque_wrapped" => peq!({
            let mut d = VecDeque::with_capacity(4);
            d.push_back("b1".to_string());
            d.push_front("f1".to_string());
            d.push_back("b2".to_string());
            d.push_front("f2".to_string());
            d
        }),
        "vecdeque_u8_70000" => peq!({
            let mut d: VecDeque<u8> = (0..70000u32).map(|i| (i % 251) as u8).collect();
            d.rotate_left(333);
            d
        }),
        "indexmap" => peq!(indexmap::IndexMap::<u8, u16>::from_iter([(3u8, 4u16), (1, 2)])),
        "indexset" => peq!(indexmap::IndexSet::<u8>::from_iter([3u8, 1])),
        "smallvec_inline" => peq!(smallvec::SmallVec::<[u16; 4]>::from_vec(vec![1u16, 2, 3])),
        "smallvec_spilled" => peq!(smallvec::SmallVec::<[u16; 4]>::from_vec(vec![1u16, 2, 3, 4, 5, 6])),
        "arrayvec" => peq!({
            let mut a = arrayvec::ArrayVec::<u32, 4>::new();
            a.push(5);
            a.push(6);
            a
        }),
        "arraystring" => peq!(arrayvec::ArrayString::<8>::from("hi").unwrap()),
        "duration" => peq!(std::time::Duration::new(5, 7)),
        "duration_max" => peq!(std::time::Duration::new(u64::MAX, 999_999_999)),
        "systemtime" => peq!(std::time::SystemTime::UNIX_EPOCH + std::time::Duration::new(1_700_000_000, 123)),
        "systemtime_before_epoch" => peq!(std::time::SystemTime::UNIX_EPOCH - std::time::Duration::new(86_400, 5)),
        "ipaddr_v4" => peq!(std::net::IpAddr::V4(std::net::Ipv4Addr::new(1, 2, 3, 4))),
        "ipaddr_v6" => peq!(std::net::IpAddr::V6(std::net::Ipv6Addr::new(0x2001, 0xdb8, 0, 0, 0, 0xff00, 0x42, 0x8329))),
        "socketaddr_v4" => peq!(std::net::SocketAddr::from(([1, 2, 3, 4], 8080))),
        "socketaddr_v6" => peq!(std::net::SocketAddr::V6(std::net::SocketAddrV6::new(std::net::Ipv6Addr::LOCALHOST, 443, 7, 9))),
        "pathbuf" => peq!(std::path::PathBuf::from("/tmp/xé")),
        "range" => peq!(3u32..9u32),
        "cow_str" => peq!(std::borrow::Cow::<str>::Owned("cow".to_string())),
        "box_slice" => peq!(vec![1u16, 2].into_boxed_slice()),
        "arc_slice_string" => peq!(std::sync::Arc::<[String]>::from(vec!["a".to_string(), "".to_string()])),
        "arc_str" => peq!(std::sync::Arc::<str>::from("shared")),
        "vec_arc_str_shared" => peq!({
            let s: std::sync::Arc<str> = std::sync::Arc::from("same");
            vec![s.clone(), s, std::sync::Arc::from("other")]
        }),
        "rc_vec" => peq!(std::rc::Rc::new(vec![1u8, 2])),
        "arc_string" => peq!(std::sync::Arc::new("arc".to_string())),
        "refcell" => peq!(std::cell::RefCell::new(9u32)),
        "cell" => peq!(std::cell::Cell::new(9u16)),
        "std_mutex" => v.visit(&|| std::sync::Mutex::new("m".to_string()), &|a, b| *a.lock().unwrap() == *b.lock().unwrap(), &|a| format!("{:?}", a.lock().unwrap())),
        "pl_mutex" => v.visit(&|| parking_lot::Mutex::new(3u8), &|a, b| *a.lock() == *b.lock(), &|a| format!("{:?}", *a.lock())),
        "pl_rwlock" => v.visit(&|| parking_lot::RwLock::new(4u8), &|a, b| *a.read() == *b.read(), &|a| format!("{:?}", *a.read())),
        "atomic_u32" => v.visit(&|| std::sync::atomic::AtomicU32::new(4_000_000_000), &|a, b| a.load(Ordering::SeqCst) == b.load(Ordering::SeqCst), &|a| format!("{:?}", a)),
        "atomic_bool" => v.visit(&|| std::sync::atomic::AtomicBool::new(true), &|a, b| a.load(Ordering::SeqCst) == b.load(Ordering::SeqCst), &|a| format!("{:?}", a)),
        "atomic_i64" => v.visit(&|| std::sync::atomic::AtomicI64::new(-5), &|a, b| a.load(Ordering::SeqCst) == b.load(Ordering::SeqCst), &|a| format!("{:?}", a)),
        "tuple1" => peq!(("t".to_string(),)),
        "tuple2" => peq!((1u8, vec![2u8])),
        "tuple3" => peq!((1u8, "x".to_string(), 3u32)),
        "opt_opt" => peq!(Some(Option::<u8>::None)),
        "opt_box" => peq!(Some(Box::new(4u32))),
        "result_err_string" => peq!(Result::<Vec<u8>, String>::Err("bad".to_string())),
        "string_multibyte" => peq!("héllo wörld 日本語 \u{10ffff}".to_string()),
        "string_empty" => peq!(String::new()),
        "u128_max" => peq!(u128::MAX),
        "i128_min" => peq!(i128::MIN),
        "f64_nan_payload" => v.visit(&|| f64::from_bits(0xfff8000000000001), &|a, b| a.to_bits() == b.to_bits(), &|a| format!("{:#x}", a.to_bits())),
        "f32_neg_zero" => v.visit(&|| -0.0f32, &|a, b| a.to_bits() == b.to_bits(), &|a| format!("{:#x}", a.to_bits())),
        "char_max" => peq!('\u{10ffff}'),
        "bitvec" => peq!({
            let mut b = bit_vec::BitVec::from_elem(70, false);
            b.set(0, true);
            b.set(33, true);
            b.set(69, true);
            b
        }),
        "bitvec_empty" => peq!(bit_vec::BitVec::new()),
        "bitset" => peq!({
            let mut b = bit_set::BitSet::new();
            b.insert(3);
            b.insert(100);
            b
        }),
        "phantom" => peq!(std::marker::PhantomData::<u8>),
        "unit" => peq!(()),
        "vec_btreemap" => peq!(vec![BTreeMap::from([(1u8, vec![1u8])]), BTreeMap::new()]),
        "opt_btreemap" => peq!(Some(BTreeMap::from([(1u8, 2u8)]))),
        "tuple_set_u8" => peq!((BTreeSet::from([1u8]), 2u8)),
        "btreemap_of_btreemap" => peq!(BTreeMap::from([(1u8, BTreeMap::from([(2u8, "in".to_string())]))])),
        _ => panic!("unknown library case {}", name),
    }
}

struct Rt<'a> {
    container: &'a str,
}
impl Visitor for Rt<'_> {
    fn visit<T: Serialize + Deserialize + WithSchema>(&mut self, make: &dyn Fn() -> T, eq: &dyn Fn(&T, &T) -> bool, dbg: &dyn Fn(&T) -> String) -> String {
        let x = make();
        let bytes = match save_container(self.container, 0, &x) {
            Ok(b) => b,
            Err(e) => return format!("SAVE-ERR {}", err_class(&e)),
        };
        let mut padded = bytes.clone();
        let pad = self.container != "crypto" && self.container != "bzip2";
        if pad {
            padded.extend_from_slice(&[0xA5, 0x5A, 0x01]);
        }
        match load_container::<T>(self.container, 0, &padded) {
            Ok((y, used)) => format!(
                "OK {} {} {} {}",
                hex(&bytes),
                if eq(&x, &y) { 1 } else { 0 },
                match used { Some(u) => if u == bytes.len() { 1 } else { 0 }, None => 1 },
                dbg(&y).replace(' ', "_").chars().take(200).collect::<String>()
            ),
            Err(e) => format!("LOAD-ERR {} {}", hex(&bytes), err_class(&e)),
        }
    }
}

struct Cuts<'a> {
    container: &'a str,
    step: usize,
}
impl Visitor for Cuts<'_> {
    fn visit<T: Serialize + Deserialize + WithSchema>(&mut self, make: &dyn Fn() -> T, eq: &dyn Fn(&T, &T) -> bool, _dbg: &dyn Fn(&T) -> String) -> String {
        let x = make();
        let bytes = match save_container(self.container, 0, &x) {
            Ok(b) => b,
            Err(e) => return format!("SAVE-ERR {}", err_class(&e)),
        };
        let mut classes = String::new();
        let mut k = 0;
        while k < bytes.len() {
            let r = std::panic::catch_unwind(std::panic::AssertUnwindSafe(|| load_container::<T>(self.container, 0, &bytes[..k])));
            classes.push(match r {
                Err(_) => 'P',
                Ok(Ok((y, _))) => if eq(&x, &y) { 'S' } else { 'D' },
                Ok(Err(_)) => 'e',
            });
            k += if k < 64 || bytes.len() - k < 64 { 1 } else { self.step };
        }
        format!("{} {}", bytes.len(), classes)
    }
}

/// mutations of the bare encoding, loaded under catch_unwind. Reports counts and the first few unexpected outcomes:
/// panics that are not allocation failures, and loaded values whose own encoding is longer than the input consumed.
struct Mut {
    budget: usize,
}
fn mutations(bytes: &[u8], budget: usize) -> Vec<Vec<u8>> {
    let mut out = Vec::new();
    let n = bytes.len();
    let stride = std::cmp::max(1, n / 150);
    let mut i = 0;
    while i < n {
        for v in [0u8, 1, 2, 0x7f, 0x80, 0xff, bytes[i] ^ 1, bytes[i].wrapping_add(1)] {
            if v != bytes[i] {
                let mut m = bytes.to_vec();
                m[i] = v;
                out.push(m);
            }
        }
        i += stride;
    }
    let mut off = 0;
    while off + 8 <= n && off < 96 {
        for l in [0u64, 1, 2, 3, 255, 256, 65535, 65536, 1 << 20, (1 << 32) + 1, (1 << 62) + 1, u64::MAX, n as u64, n as u64 + 1] {
            let mut m = bytes.to_vec();
            m[off..off + 8].copy_from_slice(&l.to_le_bytes());
            out.push(m);
        }
        off += 1;
    }
    for k in 0..n.min(64) {
        out.push(bytes[..k].to_vec());
    }
    let mut x: u64 = 0x9E3779B97F4A7C15 ^ (n as u64);
    for _ in 0..64 {
        let mut m = bytes.to_vec();
        for _ in 0..3 {
            x = x.wrapping_mul(6364136223846793005).wrapping_add(1442695040888963407);
            if !m.is_empty() {
                let pos = (x >> 33) as usize % m.len();
                m[pos] = (x >> 17) as u8;
            }
        }
        out.push(m);
    }
    out.truncate(budget);
    out
}
impl Visitor for Mut {
    fn visit<T: Serialize + Deserialize + WithSchema>(&mut self, make: &dyn Fn() -> T, _eq: &dyn Fn(&T, &T) -> bool, _dbg: &dyn Fn(&T) -> String) -> String {
        let bytes = match save_container("bare", 0, &make()) {
            Ok(b) => b,
            Err(e) => return format!("SAVE-ERR {}", err_class(&e)),
        };
        let (mut ok, mut err, mut oom) = (0, 0, 0);
        let (mut panics, mut grows) = (Vec::new(), Vec::new());
        for m in mutations(&bytes, self.budget) {
            let r = std::panic::catch_unwind(std::panic::AssertUnwindSafe(|| load_container::<T>("bare", 0, &m)));
            match r {
                Ok(Ok((y, used))) => {
                    ok += 1;
                    let again = std::panic::catch_unwind(std::panic::AssertUnwindSafe(|| save_container("bare", 0, &y)));
                    if let Ok(Ok(b2)) = again {
                        if b2.len() > used.unwrap_or(m.len()) && grows.len() < 3 {
                            grows.push(format!("{}>{}:{}", b2.len(), used.unwrap_or(m.len()), hex(&m[..m.len().min(120)])));
                        }
                    }
                }
                Ok(Err(_)) => err += 1,
                Err(p) => {
                    let c = panic_class(&p);
                    if c.contains("allocat") || c.contains("capacity_overflow") {
                        oom += 1;
                    } else if panics.len() < 3 {
                        panics.push(format!("{}:{}", c.chars().take(80).collect::<String>(), hex(&m[..m.len().min(120)])));
                    }
                }
            }
        }
        format!("{} {} {} | {} | {}", ok, err, oom, panics.join(";"), grows.join(";"))
    }
}

/// one crafted input: OK <consumed> <length of the loaded value's own encoding> | ERR <class>
struct Load<'a> {
    bytes: &'a [u8],
}
impl Visitor for Load<'_> {
    fn visit<T: Serialize + Deserialize + WithSchema>(&mut self, _make: &dyn Fn() -> T, _eq: &dyn Fn(&T, &T) -> bool, _dbg: &dyn Fn(&T) -> String) -> String {
        match load_container::<T>("bare", 0, self.bytes) {
            Ok((y, used)) => {
                let again = std::panic::catch_unwind(std::panic::AssertUnwindSafe(|| save_container("bare", 0, &y)));
                match again {
                    Ok(Ok(b2)) => format!("OK {} {}", used.unwrap_or(self.bytes.len()), b2.len()),
                    Ok(Err(e)) => format!("OK {} RESAVE-ERR-{}", used.unwrap_or(self.bytes.len()), err_class(&e)),
                    Err(_) => format!("OK {} RESAVE-PANIC", used.unwrap_or(self.bytes.len())),
                }
            }
            Err(e) => format!("ERR {}", err_class(&e)),
        }
    }
}

struct Det;
impl Visitor for Det {
    fn visit<T: Serialize + Deserialize + WithSchema>(&mut self, make: &dyn Fn() -> T, _eq: &dyn Fn(&T, &T) -> bool, _dbg: &dyn Fn(&T) -> String) -> String {
        let a = save_container("bare", 0, &make());
        let noise: Vec<Vec<u8>> = (0..32).map(|i| vec![i as u8; 3 + i * 5]).collect();
        std::hint::black_box(&noise);
        let b = save_container("bare", 0, &make());
        match (a, b) {
            (Ok(a), Ok(b)) => format!("{}", if a == b { 1 } else { 0 }),
            _ => "ERR".to_string(),
        }
    }
}

pub fn dispatch(op: &str, toks: &[&str]) -> Option<String> {
    Some(match op {
        // lib_cases : name|hash_order|model_ty|model_val per line item, separated by " ;; "
        "lib_cases" => cases()
            .iter()
            .map(|c| {
                let (t, v) = c.model.clone().unwrap_or(("-".to_string(), "-".to_string()));
                format!("{}|{}|{}|{}", c.name, c.hash_order as u8, t.replace(' ', "~"), v.replace(' ', "~"))
            })
            .collect::<Vec<_>>()
            .join(" "),
        // lib_rt <name> <container> : OK <hex> <equal> <consumed exactly> <debug of loaded>
        "lib_rt" => with_case(toks[0], &mut Rt { container: toks[1] }),
        // lib_cuts <name> <container> <step>
        "lib_cuts" => with_case(toks[0], &mut Cuts { container: toks[1], step: toks[2].parse().unwrap() }),
        "lib_det" => with_case(toks[0], &mut Det),
        // lib_big <size> <container> : a packed Vec<u8> of <size> poorly compressible bytes followed by a marker, saved and
        // loaded in the container (no bytes printed): OK <file length> <equal 0/1>
        "lib_big" => {
            let n: usize = toks[0].parse().unwrap();
            let mut x: u64 = 0x243F6A8885A308D3 ^ n as u64;
            let data: Vec<u8> = (0..n).map(|_| { x = x.wrapping_mul(6364136223846793005).wrapping_add(1442695040888963407); (x >> 33) as u8 }).collect();
            let value = (data, 0xC0FFEEu32);
            match save_container(toks[1], 0, &value) {
                Err(e) => format!("SAVE-ERR {}", err_class(&e)),
                Ok(bytes) => match load_container::<(Vec<u8>, u32)>(toks[1], 0, &bytes) {
                    Ok((y, _)) => format!("OK {} {}", bytes.len(), (y == value) as u8),
                    Err(e) => format!("LOAD-ERR {} {}", bytes.len(), err_class(&e)),
                },
            }
        }
        // lib_load <name> <hex>
        "lib_load" => with_case(toks[0], &mut Load { bytes: &unhex(toks[1]) }),
        // lib_mut <name> <budget>
        "lib_mut" => with_case(toks[0], &mut Mut { budget: toks[1].parse().unwrap() }),
        _ => return None,
    })
}
