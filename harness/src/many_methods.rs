// A trait with 70 methods (C09: any number of methods). GENERATED once by hand; static.
use savefile_abi::AbiConnection;
use savefile_derive::savefile_abi_exportable;

#[savefile_abi_exportable(version = 0)]
pub trait Many {
    fn m0(&self, x: u32) -> u32;
    fn m1(&self, x: u32) -> u32;
    fn m2(&self, x: u32) -> u32;
    fn m3(&self, x: u32) -> u32;
    fn m4(&self, x: u32) -> u32;
    fn m5(&self, x: u32) -> u32;
    fn m6(&self, x: u32) -> u32;
    fn m7(&self, x: u32) -> u32;
    fn m8(&self, x: u32) -> u32;
    fn m9(&self, x: u32) -> u32;
    fn m10(&self, x: u32) -> u32;
    fn m11(&self, x: u32) -> u32;
    fn m12(&self, x: u32) -> u32;
    fn m13(&self, x: u32) -> u32;
    fn m14(&self, x: u32) -> u32;
    fn m15(&self, x: u32) -> u32;
    fn m16(&self, x: u32) -> u32;
    fn m17(&self, x: u32) -> u32;
    fn m18(&self, x: u32) -> u32;
    fn m19(&self, x: u32) -> u32;
    fn m20(&self, x: u32) -> u32;
    fn m21(&self, x: u32) -> u32;
    fn m22(&self, x: u32) -> u32;
    fn m23(&self, x: u32) -> u32;
    fn m24(&self, x: u32) -> u32;
    fn m25(&self, x: u32) -> u32;
    fn m26(&self, x: u32) -> u32;
    fn m27(&self, x: u32) -> u32;
    fn m28(&self, x: u32) -> u32;
    fn m29(&self, x: u32) -> u32;
    fn m30(&self, x: u32) -> u32;
    fn m31(&self, x: u32) -> u32;
    fn m32(&self, x: u32) -> u32;
    fn m33(&self, x: u32) -> u32;
    fn m34(&self, x: u32) -> u32;
    fn m35(&self, x: u32) -> u32;
    fn m36(&self, x: u32) -> u32;
    fn m37(&self, x: u32) -> u32;
    fn m38(&self, x: u32) -> u32;
    fn m39(&self, x: u32) -> u32;
    fn m40(&self, x: u32) -> u32;
    fn m41(&self, x: u32) -> u32;
    fn m42(&self, x: u32) -> u32;
    fn m43(&self, x: u32) -> u32;
    fn m44(&self, x: u32) -> u32;
    fn m45(&self, x: u32) -> u32;
    fn m46(&self, x: u32) -> u32;
    fn m47(&self, x: u32) -> u32;
    fn m48(&self, x: u32) -> u32;
    fn m49(&self, x: u32) -> u32;
    fn m50(&self, x: u32) -> u32;
    fn m51(&self, x: u32) -> u32;
    fn m52(&self, x: u32) -> u32;
    fn m53(&self, x: u32) -> u32;
    fn m54(&self, x: u32) -> u32;
    fn m55(&self, x: u32) -> u32;
    fn m56(&self, x: u32) -> u32;
    fn m57(&self, x: u32) -> u32;
    fn m58(&self, x: u32) -> u32;
    fn m59(&self, x: u32) -> u32;
    fn m60(&self, x: u32) -> u32;
    fn m61(&self, x: u32) -> u32;
    fn m62(&self, x: u32) -> u32;
    fn m63(&self, x: u32) -> u32;
    fn m64(&self, x: u32) -> u32;
    fn m65(&self, x: u32) -> u32;
    fn m66(&self, x: u32) -> u32;
    fn m67(&self, x: u32) -> u32;
    fn m68(&self, x: u32) -> u32;
    fn m69(&self, x: u32) -> u32;
}
pub struct ManyImpl;
impl Many for ManyImpl {
    fn m0(&self, x: u32) -> u32 { x.wrapping_mul(1).wrapping_add(0) }
    fn m1(&self, x: u32) -> u32 { x.wrapping_mul(3).wrapping_add(1) }
    fn m2(&self, x: u32) -> u32 { x.wrapping_mul(5).wrapping_add(2) }
    fn m3(&self, x: u32) -> u32 { x.wrapping_mul(7).wrapping_add(3) }
    fn m4(&self, x: u32) -> u32 { x.wrapping_mul(9).wrapping_add(4) }
    fn m5(&self, x: u32) -> u32 { x.wrapping_mul(11).wrapping_add(5) }
    fn m6(&self, x: u32) -> u32 { x.wrapping_mul(13).wrapping_add(6) }
    fn m7(&self, x: u32) -> u32 { x.wrapping_mul(15).wrapping_add(7) }
    fn m8(&self, x: u32) -> u32 { x.wrapping_mul(17).wrapping_add(8) }
    fn m9(&self, x: u32) -> u32 { x.wrapping_mul(19).wrapping_add(9) }
    fn m10(&self, x: u32) -> u32 { x.wrapping_mul(21).wrapping_add(10) }
    fn m11(&self, x: u32) -> u32 { x.wrapping_mul(23).wrapping_add(11) }
    fn m12(&self, x: u32) -> u32 { x.wrapping_mul(25).wrapping_add(12) }
    fn m13(&self, x: u32) -> u32 { x.wrapping_mul(27).wrapping_add(13) }
    fn m14(&self, x: u32) -> u32 { x.wrapping_mul(29).wrapping_add(14) }
    fn m15(&self, x: u32) -> u32 { x.wrapping_mul(31).wrapping_add(15) }
    fn m16(&self, x: u32) -> u32 { x.wrapping_mul(33).wrapping_add(16) }
    fn m17(&self, x: u32) -> u32 { x.wrapping_mul(35).wrapping_add(17) }
    fn m18(&self, x: u32) -> u32 { x.wrapping_mul(37).wrapping_add(18) }
    fn m19(&self, x: u32) -> u32 { x.wrapping_mul(39).wrapping_add(19) }
    fn m20(&self, x: u32) -> u32 { x.wrapping_mul(41).wrapping_add(20) }
    fn m21(&self, x: u32) -> u32 { x.wrapping_mul(43).wrapping_add(21) }
    fn m22(&self, x: u32) -> u32 { x.wrapping_mul(45).wrapping_add(22) }
    fn m23(&self, x: u32) -> u32 { x.wrapping_mul(47).wrapping_add(23) }
    fn m24(&self, x: u32) -> u32 { x.wrapping_mul(49).wrapping_add(24) }
    fn m25(&self, x: u32) -> u32 { x.wrapping_mul(51).wrapping_add(25) }
    fn m26(&self, x: u32) -> u32 { x.wrapping_mul(53).wrapping_add(26) }
    fn m27(&self, x: u32) -> u32 { x.wrapping_mul(55).wrapping_add(27) }
    fn m28(&self, x: u32) -> u32 { x.wrapping_mul(57).wrapping_add(28) }
    fn m29(&self, x: u32) -> u32 { x.wrapping_mul(59).wrapping_add(29) }
    fn m30(&self, x: u32) -> u32 { x.wrapping_mul(61).wrapping_add(30) }
    fn m31(&self, x: u32) -> u32 { x.wrapping_mul(63).wrapping_add(31) }
    fn m32(&self, x: u32) -> u32 { x.wrapping_mul(65).wrapping_add(32) }
    fn m33(&self, x: u32) -> u32 { x.wrapping_mul(67).wrapping_add(33) }
    fn m34(&self, x: u32) -> u32 { x.wrapping_mul(69).wrapping_add(34) }
    fn m35(&self, x: u32) -> u32 { x.wrapping_mul(71).wrapping_add(35) }
    fn m36(&self, x: u32) -> u32 { x.wrapping_mul(73).wrapping_add(36) }
    fn m37(&self, x: u32) -> u32 { x.wrapping_mul(75).wrapping_add(37) }
    fn m38(&self, x: u32) -> u32 { x.wrapping_mul(77).wrapping_add(38) }
    fn m39(&self, x: u32) -> u32 { x.wrapping_mul(79).wrapping_add(39) }
    fn m40(&self, x: u32) -> u32 { x.wrapping_mul(81).wrapping_add(40) }
    fn m41(&self, x: u32) -> u32 { x.wrapping_mul(83).wrapping_add(41) }
    fn m42(&self, x: u32) -> u32 { x.wrapping_mul(85).wrapping_add(42) }
    fn m43(&self, x: u32) -> u32 { x.wrapping_mul(87).wrapping_add(43) }
    fn m44(&self, x: u32) -> u32 { x.wrapping_mul(89).wrapping_add(44) }
    fn m45(&self, x: u32) -> u32 { x.wrapping_mul(91).wrapping_add(45) }
    fn m46(&self, x: u32) -> u32 { x.wrapping_mul(93).wrapping_add(46) }
    fn m47(&self, x: u32) -> u32 { x.wrapping_mul(95).wrapping_add(47) }
    fn m48(&self, x: u32) -> u32 { x.wrapping_mul(97).wrapping_add(48) }
    fn m49(&self, x: u32) -> u32 { x.wrapping_mul(99).wrapping_add(49) }
    fn m50(&self, x: u32) -> u32 { x.wrapping_mul(101).wrapping_add(50) }
    fn m51(&self, x: u32) -> u32 { x.wrapping_mul(103).wrapping_add(51) }
    fn m52(&self, x: u32) -> u32 { x.wrapping_mul(105).wrapping_add(52) }
    fn m53(&self, x: u32) -> u32 { x.wrapping_mul(107).wrapping_add(53) }
    fn m54(&self, x: u32) -> u32 { x.wrapping_mul(109).wrapping_add(54) }
    fn m55(&self, x: u32) -> u32 { x.wrapping_mul(111).wrapping_add(55) }
    fn m56(&self, x: u32) -> u32 { x.wrapping_mul(113).wrapping_add(56) }
    fn m57(&self, x: u32) -> u32 { x.wrapping_mul(115).wrapping_add(57) }
    fn m58(&self, x: u32) -> u32 { x.wrapping_mul(117).wrapping_add(58) }
    fn m59(&self, x: u32) -> u32 { x.wrapping_mul(119).wrapping_add(59) }
    fn m60(&self, x: u32) -> u32 { x.wrapping_mul(121).wrapping_add(60) }
    fn m61(&self, x: u32) -> u32 { x.wrapping_mul(123).wrapping_add(61) }
    fn m62(&self, x: u32) -> u32 { x.wrapping_mul(125).wrapping_add(62) }
    fn m63(&self, x: u32) -> u32 { x.wrapping_mul(127).wrapping_add(63) }
    fn m64(&self, x: u32) -> u32 { x.wrapping_mul(129).wrapping_add(64) }
    fn m65(&self, x: u32) -> u32 { x.wrapping_mul(131).wrapping_add(65) }
    fn m66(&self, x: u32) -> u32 { x.wrapping_mul(133).wrapping_add(66) }
    fn m67(&self, x: u32) -> u32 { x.wrapping_mul(135).wrapping_add(67) }
    fn m68(&self, x: u32) -> u32 { x.wrapping_mul(137).wrapping_add(68) }
    fn m69(&self, x: u32) -> u32 { x.wrapping_mul(139).wrapping_add(69) }
}

fn call(m: &dyn Many, k: usize, x: u32) -> u32 {
    match k {
        0 => m.m0(x),
        1 => m.m1(x),
        2 => m.m2(x),
        3 => m.m3(x),
        4 => m.m4(x),
        5 => m.m5(x),
        6 => m.m6(x),
        7 => m.m7(x),
        8 => m.m8(x),
        9 => m.m9(x),
        10 => m.m10(x),
        11 => m.m11(x),
        12 => m.m12(x),
        13 => m.m13(x),
        14 => m.m14(x),
        15 => m.m15(x),
        16 => m.m16(x),
        17 => m.m17(x),
        18 => m.m18(x),
        19 => m.m19(x),
        20 => m.m20(x),
        21 => m.m21(x),
        22 => m.m22(x),
        23 => m.m23(x),
        24 => m.m24(x),
        25 => m.m25(x),
        26 => m.m26(x),
        27 => m.m27(x),
        28 => m.m28(x),
        29 => m.m29(x),
        30 => m.m30(x),
        31 => m.m31(x),
        32 => m.m32(x),
        33 => m.m33(x),
        34 => m.m34(x),
        35 => m.m35(x),
        36 => m.m36(x),
        37 => m.m37(x),
        38 => m.m38(x),
        39 => m.m39(x),
        40 => m.m40(x),
        41 => m.m41(x),
        42 => m.m42(x),
        43 => m.m43(x),
        44 => m.m44(x),
        45 => m.m45(x),
        46 => m.m46(x),
        47 => m.m47(x),
        48 => m.m48(x),
        49 => m.m49(x),
        50 => m.m50(x),
        51 => m.m51(x),
        52 => m.m52(x),
        53 => m.m53(x),
        54 => m.m54(x),
        55 => m.m55(x),
        56 => m.m56(x),
        57 => m.m57(x),
        58 => m.m58(x),
        59 => m.m59(x),
        60 => m.m60(x),
        61 => m.m61(x),
        62 => m.m62(x),
        63 => m.m63(x),
        64 => m.m64(x),
        65 => m.m65(x),
        66 => m.m66(x),
        67 => m.m67(x),
        68 => m.m68(x),
        69 => m.m69(x),
        _ => panic!("no such method"),
    }
}

/// abi_many <k> : DIRECT <v> || ABI <v> || AFTER <ok|panic> (whether another interface can still be connected afterwards)
pub fn dispatch(op: &str, toks: &[&str]) -> Option<String> {
    if op != "abi_many" {
        return None;
    }
    let k: usize = toks[0].parse().unwrap();
    let direct = call(&ManyImpl, k, 1000);
    let abi = std::panic::catch_unwind(|| {
        let conn = AbiConnection::<dyn Many>::from_boxed_trait(Box::new(ManyImpl)).map_err(|e| crate::util::err_class(&e).to_string())?;
        Ok::<u32, String>(call(&conn, k, 1000))
    });
    let abi = match abi {
        Ok(Ok(v)) => format!("{}", v),
        Ok(Err(e)) => format!("CONNECT-ERR {}", e),
        Err(p) => format!("PANIC {}", crate::util::panic_class(&p)),
    };
    let after = std::panic::catch_unwind(|| {
        let drops = std::sync::Arc::new(std::sync::atomic::AtomicUsize::new(0));
        let c = AbiConnection::<dyn crate::abi_fixed::Counter>::from_boxed_trait(Box::new(crate::abi_fixed::CounterImpl { drops, base: 1 }));
        c.is_ok()
    });
    Some(format!("DIRECT {} || ABI {} || AFTER {}", direct, abi, match after { Ok(true) => "ok", Ok(false) => "err", Err(_) => "panic" }))
}
