// Evolution steps that the generated histories do not use (C03): field types changed with a conversion
// (#[savefile_versions_as], with an explicit function, with From, chained over two versions, next to packable
// neighbours, nested in Vec/Option) and enum variants appended with a version range. Each op saves a value of the
// version-j definition at data version j and loads it with the version-k definition (k >= j); the expected value is
// computed by a hand-written upgrade function that does not use savefile.
use savefile::prelude::*;
use savefile_derive::Savefile;

fn phone_to_string(p: u64) -> String {
    p.to_string()
}
fn string_to_bytes(s: String) -> Vec<u8> {
    let mut v = s.into_bytes();
    v.reverse();
    v
}
fn phone_to_bytes(p: u64) -> Vec<u8> {
    string_to_bytes(phone_to_string(p))
}

pub mod conv0 {
    use super::*;
    #[derive(Savefile, Debug, PartialEq, Clone)]
    pub struct Conv {
        pub name: String,
        pub phone: u64,
        pub speed: u8,
        pub flag: bool,
        pub small: i8,
        pub tail: u16,
    }
    #[derive(Savefile, Debug, PartialEq, Clone)]
    #[repr(C)]
    pub struct PackedConv {
        pub a: u32,
        pub b: u8,
        pub c: u8,
        pub d: u16,
    }
}
pub mod conv1 {
    use super::*;
    #[derive(Savefile, Debug, PartialEq, Clone)]
    pub struct Conv {
        pub name: String,
        #[savefile_versions_as = "0..0:phone_to_string:u64"]
        #[savefile_versions = "1.."]
        pub phone: String,
        #[savefile_versions_as = "0..0:u8"]
        #[savefile_versions = "1.."]
        pub speed: u16,
        #[savefile_versions_as = "0..0:bool"]
        #[savefile_versions = "1.."]
        pub flag: u8,
        #[savefile_versions_as = "0..0:i8"]
        #[savefile_versions = "1.."]
        pub small: i32,
        pub tail: u16,
        #[savefile_versions = "1.."]
        pub level: u16,
    }
    #[derive(Savefile, Debug, PartialEq, Clone)]
    #[repr(C)]
    pub struct PackedConv {
        pub a: u32,
        #[savefile_versions_as = "0..0:u8"]
        #[savefile_versions = "1.."]
        pub b: u16,
        pub c: u8,
        pub d: u16,
    }
}
pub mod conv2 {
    use super::*;
    #[derive(Savefile, Debug, PartialEq, Clone)]
    pub struct Conv {
        pub name: String,
        #[savefile_versions_as = "0..0:phone_to_bytes:u64"]
        #[savefile_versions_as = "1..1:string_to_bytes:String"]
        #[savefile_versions = "2.."]
        pub phone: Vec<u8>,
        #[savefile_versions_as = "0..0:u8"]
        #[savefile_versions_as = "1..1:u16"]
        #[savefile_versions = "2.."]
        pub speed: u64,
        #[savefile_versions_as = "0..0:bool"]
        #[savefile_versions = "1.."]
        pub flag: u8,
        #[savefile_versions_as = "0..0:i8"]
        #[savefile_versions = "1.."]
        pub small: i32,
        pub tail: u16,
        #[savefile_versions = "2.."]
        #[savefile_default_val = "77"]
        pub added: u32,
        // added at version 1 (implicit Default for version-0 files), converted at version 2
        #[savefile_versions_as = "1..1:u16"]
        #[savefile_versions = "2.."]
        pub level: u32,
    }
}

fn c0(i: usize) -> conv0::Conv {
    match i {
        0 => conv0::Conv { name: "Ann".into(), phone: 46701234567, speed: 255, flag: true, small: -128, tail: 0xBEEF },
        1 => conv0::Conv { name: "".into(), phone: 0, speed: 0, flag: false, small: 127, tail: 0 },
        _ => conv0::Conv { name: "ÅÄÖ 日本".into(), phone: u64::MAX, speed: 7, flag: true, small: -1, tail: 1 },
    }
}
fn up01(x: &conv0::Conv) -> conv1::Conv {
    conv1::Conv { name: x.name.clone(), phone: x.phone.to_string(), speed: x.speed as u16, flag: x.flag as u8, small: x.small as i32, tail: x.tail, level: 0 }
}
fn c1(i: usize) -> conv1::Conv {
    match i {
        0 => up01(&c0(0)),
        1 => conv1::Conv { name: "n".into(), phone: "+46 (0)70-12".into(), speed: 65535, flag: 200, small: i32::MIN, tail: 9, level: 65535 },
        _ => conv1::Conv { name: "x".repeat(70), phone: "".into(), speed: 256, flag: 0, small: 70000, tail: 65535, level: 3 },
    }
}
fn up12(x: &conv1::Conv) -> conv2::Conv {
    let mut b = x.phone.clone().into_bytes();
    b.reverse();
    conv2::Conv { name: x.name.clone(), phone: b, speed: x.speed as u64, flag: x.flag, small: x.small, tail: x.tail, added: 77, level: x.level as u32 }
}
fn c2(i: usize) -> conv2::Conv {
    match i {
        0 => up12(&c1(0)),
        1 => conv2::Conv { name: "q".into(), phone: vec![0, 255, 7], speed: u64::MAX, flag: 1, small: 0, tail: 2, added: 5, level: 4_000_000_000 },
        _ => up12(&c1(2)),
    }
}

pub mod en0 {
    use super::*;
    #[derive(Savefile, Debug, PartialEq, Clone)]
    pub enum En {
        A,
        B(u8),
    }
}
pub mod en1 {
    use super::*;
    #[derive(Savefile, Debug, PartialEq, Clone)]
    pub enum En {
        A,
        B(u8),
        #[savefile_versions = "1.."]
        C(u16),
    }
}
pub mod en2 {
    use super::*;
    #[derive(Savefile, Debug, PartialEq, Clone)]
    pub enum En {
        A,
        B(u8),
        #[savefile_versions = "1.."]
        C(u16),
        #[savefile_versions = "2.."]
        D { x: String, y: Vec<u8> },
    }
}

fn roundtrip<A: Serialize + WithSchema, B: Deserialize + WithSchema + std::fmt::Debug>(container: &str, j: u32, k: u32, x: &A) -> String {
    let bytes = match crate::ops::save_container(container, j, x) {
        Ok(b) => b,
        Err(e) => return format!("SAVE-ERR-{}", crate::util::err_class(&e)),
    };
    // a bare stream has no header: the reader is told the version the data was written at
    match crate::ops::load_container::<B>(container, if container == "bare" { j } else { k }, &bytes) {
        Ok((y, _)) => format!("{:?}", y),
        Err(e) => format!("LOAD-ERR-{}", crate::util::err_class(&e)),
    }
}

/// evo <family> <container> <saved version j> <loader version k> <value index> : LOADED <dbg> || EXPECTED <dbg>
pub fn dispatch(op: &str, toks: &[&str]) -> Option<String> {
    if op != "evo" {
        return None;
    }
    let (fam, container) = (toks[0], toks[1]);
    let (j, k, i): (u32, u32, usize) = (toks[2].parse().unwrap(), toks[3].parse().unwrap(), toks[4].parse().unwrap());
    let (got, exp): (String, String) = match (fam, j, k) {
        ("conv", 0, 0) => (roundtrip::<_, conv0::Conv>(container, 0, 0, &c0(i)), format!("{:?}", c0(i))),
        ("conv", 0, 1) => (roundtrip::<_, conv1::Conv>(container, 0, 1, &c0(i)), format!("{:?}", up01(&c0(i)))),
        ("conv", 0, 2) => (roundtrip::<_, conv2::Conv>(container, 0, 2, &c0(i)), format!("{:?}", up12(&up01(&c0(i))))),
        ("conv", 1, 1) => (roundtrip::<_, conv1::Conv>(container, 1, 1, &c1(i)), format!("{:?}", c1(i))),
        ("conv", 1, 2) => (roundtrip::<_, conv2::Conv>(container, 1, 2, &c1(i)), format!("{:?}", up12(&c1(i)))),
        ("conv", 2, 2) => (roundtrip::<_, conv2::Conv>(container, 2, 2, &c2(i)), format!("{:?}", c2(i))),
        // nested in Vec / Option
        ("convvec", 0, 2) => {
            let v: Vec<conv0::Conv> = (0..3).map(c0).collect();
            (roundtrip::<_, Vec<conv2::Conv>>(container, 0, 2, &v), format!("{:?}", v.iter().map(|x| up12(&up01(x))).collect::<Vec<_>>()))
        }
        ("convvec", 1, 2) => {
            let v: Vec<Option<conv1::Conv>> = vec![Some(c1(1)), None, Some(c1(2))];
            (roundtrip::<_, Vec<Option<conv2::Conv>>>(container, 1, 2, &v), format!("{:?}", v.iter().map(|x| x.as_ref().map(up12)).collect::<Vec<_>>()))
        }
        // a converted field between packable neighbours
        ("packedconv", 0, 1) => {
            let v: Vec<conv0::PackedConv> = (0..4u32).map(|n| conv0::PackedConv { a: 0xdead0000 + n + i as u32, b: 250 + n as u8, c: n as u8, d: 0xaa00 + n as u16 }).collect();
            (
                roundtrip::<_, Vec<conv1::PackedConv>>(container, 0, 1, &v),
                format!("{:?}", v.iter().map(|x| conv1::PackedConv { a: x.a, b: x.b as u16, c: x.c, d: x.d }).collect::<Vec<_>>()),
            )
        }
        ("packedconv", 1, 1) => {
            let v: Vec<conv1::PackedConv> = (0..4u32).map(|n| conv1::PackedConv { a: n + i as u32, b: 60000 + n as u16, c: n as u8, d: n as u16 }).collect();
            (roundtrip::<_, Vec<conv1::PackedConv>>(container, 1, 1, &v), format!("{:?}", v))
        }
        // enum variants appended
        ("enum", 0, kk) => {
            let v: Vec<en0::En> = vec![en0::En::A, en0::En::B(7), en0::En::B(255)];
            let e = "[A, B(7), B(255)]".to_string();
            match kk {
                0 => (roundtrip::<_, Vec<en0::En>>(container, 0, 0, &v), e),
                1 => (roundtrip::<_, Vec<en1::En>>(container, 0, 1, &v), e),
                _ => (roundtrip::<_, Vec<en2::En>>(container, 0, 2, &v), e),
            }
        }
        ("enum", 1, kk) => {
            let v: Vec<en1::En> = vec![en1::En::C(65535), en1::En::A, en1::En::B(1), en1::En::C(0)];
            let e = "[C(65535), A, B(1), C(0)]".to_string();
            match kk {
                1 => (roundtrip::<_, Vec<en1::En>>(container, 1, 1, &v), e),
                _ => (roundtrip::<_, Vec<en2::En>>(container, 1, 2, &v), e),
            }
        }
        ("enum", 2, 2) => {
            let v: Vec<en2::En> = vec![en2::En::D { x: "dé".into(), y: vec![1, 2] }, en2::En::C(3), en2::En::A];
            (roundtrip::<_, Vec<en2::En>>(container, 2, 2, &v), format!("{:?}", v))
        }
        _ => return Some("NO-SUCH-CASE".to_string()),
    };
    Some(format!("LOADED {} || EXPECTED {}", got, exp))
}
