// CryptoWriter framing on explicit write programs, and tampering of a multi-chunk encrypted file.
use crate::io_ops::tamper_file;
use crate::ops::PASSWORD;
use crate::util::*;
use savefile::CryptoWriter;
use std::io::Write;

fn lcg_bytes(n: usize, seed: u64) -> Vec<u8> {
    let mut s = seed.wrapping_mul(6364136223846793005).wrapping_add(1442695040888963407);
    (0..n).map(|_| { s = s.wrapping_mul(6364136223846793005).wrapping_add(1442695040888963407); (s >> 33) as u8 }).collect()
}

pub fn dispatch(op: &str, toks: &[&str]) -> String {
    match op {
        // crypto_frames <ops: w<size> or f, comma separated> : plaintext chunk sizes of the emitted frames, and whether the
        // decrypted stream equals the bytes written
        "crypto_frames" => {
            let d = ring::digest::digest(&ring::digest::SHA256, PASSWORD.as_bytes());
            let mut key = [0u8; 32];
            key.copy_from_slice(d.as_ref());
            let mut out: Vec<u8> = vec![];
            let mut written: Vec<u8> = vec![];
            {
                let mut cw = CryptoWriter::new(&mut out, key).unwrap();
                for (i, o) in toks[0].split(',').enumerate() {
                    if o == "f" {
                        cw.flush().unwrap();
                    } else {
                        let n: usize = o[1..].parse().unwrap();
                        let data = lcg_bytes(n, i as u64 + 7);
                        cw.write_all(&data).unwrap();
                        written.extend_from_slice(&data);
                    }
                }
            }
            match ref_decrypt(&out, PASSWORD) {
                Some((pt, sizes)) => format!("{} {} {}", if pt == written { "SAME" } else { "DIFFERENT" }, out.len(),
                                             if sizes.is_empty() { "-".to_string() } else { sizes.iter().map(|x| x.to_string()).collect::<Vec<_>>().join(",") }),
                None => "UNDECRYPTABLE".to_string(),
            }
        }
        // crypto_big_tamper <size> <seed> <stride> : a Vec<u8> of incompressible data spanning several chunks
        "crypto_big_tamper" => {
            let (n, seed, stride) = (toks[0].parse::<usize>().unwrap(), toks[1].parse::<u64>().unwrap(), toks[2].parse::<usize>().unwrap());
            let data = lcg_bytes(n, seed);
            let p = std::env::temp_dir().join(format!("sfh_big_{}.bin", std::process::id()));
            savefile::save_encrypted_file(&p, 0, &data, PASSWORD).unwrap();
            let file = std::fs::read(&p).unwrap();
            std::fs::remove_file(&p).ok();
            use crate::canon::Canon;
            let frames = ref_decrypt(&file, PASSWORD).map(|x| x.1.len()).unwrap_or(0);
            format!("frames={} {}", frames, tamper_file::<Vec<u8>>(&file, 0, stride, &data.canon_string()))
        }
        _ => "UNKNOWN".to_string(),
    }
}
