// CryptoWriter framing on explicit write programs, and tampering of a multi-chunk encrypted file.
use crate::io_ops::tamper_file;
use crate::ops::PASSWORD;
use crate::util::*;
use savefile::CryptoWriter;
use std::io::Write;

fn lcg_bytes(n: usize, seed: u64) -> Vec<u8> {
    let mut s = seed.wrapping_mul(6364136223846793005).wrapping_add(1442695040888963407);
    (0..n).map(|_| { s = s.wrapping_mul(6364136223846793005).wrapping_add(1442695040888963407); (s >> 33) as u8 }).collect()
}

pub fn dispatch(op: &str, toks: &[&str]) -> String {
    match op {
        // crypto_frames <ops: w<size> or f, comma separated> : plaintext chunk sizes of the emitted frames, and whether the
        // decrypted stream equals the bytes written
        "crypto_frames" => {
            let d = ring::digest::digest(&ring::digest::SHA256, PASSWORD.as_bytes());
            let mut key = [0u8; 32];
            key.copy_from_slice(d.as_ref());
            let mut out: Vec<u8> = vec![];
            let mut written: Vec<u8> = vec![];
            {
                let mut cw = CryptoWriter::new(&mut out, key).unwrap();
                for (i, o) in toks[0].split(',').enumerate() {
                    if o == "f" {
                        cw.flush().unwrap();
                    } else {
                        let n: usize = o[1..].parse().unwrap();
                        let data = lcg_bytes(n, i as u64 + 7);
                        cw.write_all(&data).unwrap();
                        written.extend_from_slice(&data);
                    }
                }
            }
            match ref_decrypt(&out, PASSWORD) {
                Some((pt, sizes)) => format!("{} {} {}", if pt == written { "SAME" } else { "DIFFERENT" }, out.len(),
                                             if sizes.is_empty() { "-".to_string() } else { sizes.iter().map(|x| x.to_string()).collect::<Vec<_>>().join(",") }),
                None => "UNDECRYPTABLE".to_string(),
            }
        }
        // crypto_big_tamper <size> <seed> <stride> : a Vec<u8> of incompressible data spanning several chunks
        "crypto_big_tamper" => {
            let (n, seed, stride) = (toks[0].parse::<usize>().unwrap(), toks[1].parse::<u64>().unwrap(), toks[2].parse::<usize>().unwrap());
            let data = lcg_bytes(n, seed);
            let p = std::env::temp_dir().join(format!("sfh_big_{}.bin", std::process::id()));
            savefile::save_encrypted_file(&p, 0, &data, PASSWORD).unwrap();
            let file = std::fs::read(&p).unwrap();
            std::fs::remove_file(&p).ok();
            use crate::canon::Canon;
            let frames = ref_decrypt(&file, PASSWORD).map(|x| x.1.len()).unwrap_or(0);
            format!("frames={} {}", frames, tamper_file::<Vec<u8>>(&file, 0, stride, &data.canon_string()))
        }
        // crypto_stream_cuts <size> <seed> <stride> : an UNCOMPRESSED save through CryptoWriter (the stream API, no bzip2 in
        // between) of (Vec<u8> of <size> incompressible bytes, u32, String); cut at every frame boundary +-2, at every
        // <stride>-th offset and near both ends; each prefix is loaded through CryptoReader. One letter per cut:
        // e = error, S = same value, D = DIFFERENT value, P = panic.
        "crypto_stream_cuts" => {
            let (n, seed, stride) = (toks[0].parse::<usize>().unwrap(), toks[1].parse::<u64>().unwrap(), toks[2].parse::<usize>().unwrap().max(1));
            let d = ring::digest::digest(&ring::digest::SHA256, PASSWORD.as_bytes());
            let mut key = [0u8; 32];
            key.copy_from_slice(d.as_ref());
            let value = (lcg_bytes(n, seed), 0xDEADBEEFu32, "tail".to_string());
            let mut file: Vec<u8> = vec![];
            {
                let mut cw = CryptoWriter::new(&mut file, key).unwrap();
                savefile::save_noschema(&mut cw, 0, &value).unwrap();
                cw.flush().unwrap();
            }
            let mut cuts: Vec<usize> = Vec::new();
            let mut pos = 12;
            while pos + 8 <= file.len() {
                let l = u64::from_le_bytes(file[pos..pos + 8].try_into().unwrap()) as usize;
                for d in 0..5usize {
                    cuts.push((pos + d).saturating_sub(2));
                }
                pos += 8 + l;
            }
            cuts.extend((0..file.len()).step_by(stride));
            cuts.extend(0..40.min(file.len()));
            cuts.extend(file.len().saturating_sub(40)..file.len());
            cuts.retain(|&c| c < file.len());
            cuts.sort();
            cuts.dedup();
            let mut classes = String::new();
            let mut firstbad = String::new();
            for &c in &cuts {
                let mut src = &file[..c];
                let r = std::panic::catch_unwind(std::panic::AssertUnwindSafe(|| {
                    let mut cr = savefile::CryptoReader::new(&mut src, key)?;
                    savefile::load_noschema::<(Vec<u8>, u32, String)>(&mut cr, 0)
                }));
                let ch = match r {
                    Err(_) => 'P',
                    Ok(Ok(v)) => if v == value { 'S' } else { 'D' },
                    Ok(Err(_)) => 'e',
                };
                if (ch == 'D' || ch == 'P') && firstbad.is_empty() {
                    firstbad = format!("cut@{}of{}", c, file.len());
                }
                classes.push(ch);
            }
            format!("{} {} {}", file.len(), classes, if firstbad.is_empty() { "-".to_string() } else { firstbad })
        }
        // crypto_tail_search <n_from> <n_to> <seed> : look for an encrypted save of incompressible Vec<u8> data whose LAST frame
        // holds only a few trailing bytes of the compressed stream; drop that frame (a truncation at a frame boundary) and load
        "crypto_tail_search" => {
            let (a, b, seed) = (toks[0].parse::<usize>().unwrap(), toks[1].parse::<usize>().unwrap(), toks[2].parse::<u64>().unwrap());
            let p = std::env::temp_dir().join(format!("sfh_tail_{}.bin", std::process::id()));
            let mut found = Vec::new();
            let mut smallest = usize::MAX;
            for n in a..b {
                let data = lcg_bytes(n, seed);
                savefile::save_encrypted_file(&p, 0, &data, PASSWORD).unwrap();
                let file = std::fs::read(&p).unwrap();
                if let Some((_, sizes)) = ref_decrypt(&file, PASSWORD) {
                    if sizes.len() >= 2 {
                        let last = *sizes.last().unwrap();
                        smallest = smallest.min(last);
                        if last <= 16 {
                            let cut = file.len() - (8 + last + 16);
                            std::fs::write(&p, &file[..cut]).unwrap();
                            let r = std::panic::catch_unwind(|| savefile::load_encrypted_file::<Vec<u8>, _>(&p, 0, PASSWORD));
                            let what = match r {
                                Err(_) => "PANIC".to_string(),
                                Ok(Ok(v)) => if v == data { "LOADED-SAME".to_string() } else { "LOADED-DIFFERENT".to_string() },
                                Ok(Err(e)) => format!("ERR-{}", err_class(&e)),
                            };
                            found.push(format!("n={} last={} frames={} -> {}", n, last, sizes.len(), what));
                            if found.len() >= 6 {
                                break;
                            }
                        }
                    }
                }
            }
            std::fs::remove_file(&p).ok();
            format!("smallest_last_frame={} | {}", smallest, found.join(" ; "))
        }
        // crypto_serve <write program> <tamper: - | p<pos>:<val> | t<len> | d<frame> (duplicate a frame)> <sched csv|-> <budget|-> <requests csv>
        // Builds an encrypted stream with CryptoWriter, tampers with it, then serves read_exact requests through a
        // CryptoReader over a reader that follows the schedule (0 = Interrupted, c = at most c bytes; afterwards unlimited)
        // and fails after <budget> bytes. Output: FILE <hex> TABLE <d1.d2.cthex=pthex;...> RES <per request: hex | E:eof | E:other | N:<kind>>
        "crypto_serve" => {
            let d = ring::digest::digest(&ring::digest::SHA256, PASSWORD.as_bytes());
            let mut key = [0u8; 32];
            key.copy_from_slice(d.as_ref());
            let mut out: Vec<u8> = vec![];
            {
                let mut cw = CryptoWriter::new(&mut out, key).unwrap();
                for (i, o) in toks[0].split(',').enumerate() {
                    if o == "f" {
                        cw.flush().unwrap();
                    } else if !o.is_empty() && o != "-" {
                        let n: usize = o[1..].parse().unwrap();
                        cw.write_all(&lcg_bytes(n, i as u64 + 11)).unwrap();
                    }
                }
            }
            let mut file = out;
            let t = toks[1];
            if let Some(rest) = t.strip_prefix('p') {
                let (pos, val) = rest.split_once(':').unwrap();
                let pos: usize = pos.parse().unwrap();
                if pos < file.len() {
                    file[pos] = val.parse().unwrap();
                }
            } else if let Some(rest) = t.strip_prefix('t') {
                file.truncate(rest.parse().unwrap());
            } else if let Some(rest) = t.strip_prefix('d') {
                // duplicate frame number <rest> right after itself
                let k: usize = rest.parse().unwrap();
                let mut pos = 12;
                let mut idx = 0;
                while pos + 8 <= file.len() {
                    let l = u64::from_le_bytes(file[pos..pos + 8].try_into().unwrap()) as usize;
                    if pos + 8 + l > file.len() {
                        break;
                    }
                    if idx == k {
                        let frame = file[pos..pos + 8 + l].to_vec();
                        let at = pos + 8 + l;
                        file.splice(at..at, frame);
                        break;
                    }
                    pos += 8 + l;
                    idx += 1;
                }
            }
            // table of the frames that authenticate at their position
            let mut table = Vec::new();
            if file.len() >= 12 {
                use ring::aead::{Aad, LessSafeKey, Nonce, UnboundKey, AES_256_GCM};
                let k = LessSafeKey::new(UnboundKey::new(&AES_256_GCM, &key).unwrap());
                let mut d1 = u64::from_le_bytes(file[0..8].try_into().unwrap());
                let mut d2 = u32::from_le_bytes(file[8..12].try_into().unwrap());
                let mut pos = 12;
                while pos + 8 <= file.len() {
                    let l = u64::from_le_bytes(file[pos..pos + 8].try_into().unwrap()) as usize;
                    if l > 100_016 || pos + 8 + l > file.len() {
                        break;
                    }
                    d2 = d2.wrapping_add(1);
                    if d2 == 0 {
                        d1 = d1.wrapping_add(1);
                    }
                    let mut nb = [0u8; 12];
                    nb[..8].copy_from_slice(&d1.to_le_bytes());
                    nb[8..].copy_from_slice(&d2.to_le_bytes());
                    let ct = file[pos + 8..pos + 8 + l].to_vec();
                    let mut chunk = ct.clone();
                    if let Ok(pt) = k.open_in_place(Nonce::assume_unique_for_key(nb), Aad::empty(), &mut chunk) {
                        table.push(format!("{}.{}.{}={}", d1, d2, hex(&ct), hex(pt)));
                    }
                    pos += 8 + l;
                }
            }
            struct SchedReader<'a> {
                data: &'a [u8],
                pos: usize,
                sched: Vec<usize>,
                i: usize,
                budget: Option<usize>,
            }
            impl std::io::Read for SchedReader<'_> {
                fn read(&mut self, buf: &mut [u8]) -> std::io::Result<usize> {
                    let c = if self.i < self.sched.len() { let c = self.sched[self.i]; self.i += 1; Some(c) } else { None };
                    if c == Some(0) {
                        return Err(std::io::Error::new(std::io::ErrorKind::Interrupted, "interrupted"));
                    }
                    if let Some(b) = self.budget {
                        if b == 0 {
                            return Err(std::io::Error::new(std::io::ErrorKind::Other, "read fault"));
                        }
                    }
                    let mut n = buf.len().min(self.data.len() - self.pos);
                    if let Some(c) = c {
                        n = n.min(c);
                    }
                    if let Some(b) = self.budget {
                        n = n.min(b);
                        self.budget = Some(b - n);
                    }
                    buf[..n].copy_from_slice(&self.data[self.pos..self.pos + n]);
                    self.pos += n;
                    Ok(n)
                }
            }
            let sched: Vec<usize> = if toks[2] == "-" { vec![] } else { toks[2].split(',').map(|x| x.parse().unwrap()).collect() };
            let budget: Option<usize> = if toks[3] == "-" { None } else { Some(toks[3].parse().unwrap()) };
            let reqs: Vec<usize> = if toks.len() < 5 || toks[4] == "-" { vec![] } else { toks[4].split(',').map(|x| x.parse().unwrap()).collect() };
            let mut r = SchedReader { data: &file, pos: 0, sched, i: 0, budget };
            let kind = |e: &std::io::Error| if e.kind() == std::io::ErrorKind::UnexpectedEof { "eof" } else { "other" };
            let mut res = Vec::new();
            match savefile::CryptoReader::new(&mut r, key) {
                Err(e) => res.push(format!("N:{}", match &e { savefile::SavefileError::IOError { io_error } => kind(io_error).to_string(), _ => err_class(&e).to_string() })),
                Ok(mut cr) => {
                    use std::io::Read;
                    for n in reqs {
                        let mut buf = vec![0u8; n];
                        match cr.read_exact(&mut buf) {
                            Ok(()) => res.push(hex(&buf)),
                            Err(e) => {
                                res.push(format!("E:{}", kind(&e)));
                                break;
                            }
                        }
                    }
                }
            }
            format!("FILE {} TABLE {} RES {}", hex(&file), if table.is_empty() { "-".to_string() } else { table.join(";") }, if res.is_empty() { "-".to_string() } else { res.join(",") })
        }
        _ => "UNKNOWN".to_string(),
    }
}
