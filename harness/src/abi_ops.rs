// ABI-side operations: calls through AbiConnection for every (caller version, implementation version),
// direct calls, definitions, the compatibility ledger.
use crate::schema_ops::ser_schema;
use crate::util::*;
use savefile::prelude::*;
use std::cell::RefCell;

thread_local! { static LOG: RefCell<Vec<String>> = RefCell::new(Vec::new()); }
pub fn log(s: String) { LOG.with(|l| l.borrow_mut().push(s)); }
pub fn take_log() -> Vec<String> { LOG.with(|l| std::mem::take(&mut *l.borrow_mut())) }

/// an AbiTraitDefinition as the hex of Schema::Trait(false, def) serialized at format 2
pub fn def_hex(d: AbiTraitDefinition) -> String {
    hex(&ser_schema(2, &Schema::Trait(false, d)).unwrap())
}

pub fn dispatch(op: &str, toks: &[&str]) -> Option<String> {
    Some(match op {
        // abi_call <family> <caller version> <impl version> <method> <validx>
        "abi_call" => crate::gen_abi::abi_call(toks[0].parse().unwrap(), toks[1].parse().unwrap(), toks[2].parse().unwrap(), toks[3], toks[4].parse().unwrap()),
        "abi_direct" => crate::gen_abi::abi_direct(toks[0].parse().unwrap(), toks[1].parse().unwrap(), toks[2], toks[3].parse().unwrap()),
        // abi_def <family> <trait version j> <definition version v>
        "abi_def" => crate::gen_abi::abi_def(toks[0].parse().unwrap(), toks[1].parse().unwrap(), toks[2].parse().unwrap()),
        // abi_ledger <family> <comma separated revision sequence> : runs verify_compatiblity for each revision over one fresh directory
        "abi_ledger" => {
            let f: usize = toks[0].parse().unwrap();
            let dir = std::env::temp_dir().join(format!("sfh_ledger_{}_{}", std::process::id(), f));
            let _ = std::fs::remove_dir_all(&dir);
            let mut res = vec![];
            for j in toks[1].split(',') {
                let j: usize = j.parse().unwrap();
                let r = std::panic::catch_unwind(|| crate::gen_abi::abi_verify(f, j, dir.to_str().unwrap()));
                res.push(match r { Ok(Ok(())) => "ok".to_string(), Ok(Err(e)) => format!("err:{}", err_class(&e)), Err(_) => "panic".to_string() });
            }
            let mut files: Vec<(String, String)> = std::fs::read_dir(&dir).map(|rd| rd.filter_map(|e| e.ok()).map(|e| {
                (e.file_name().to_string_lossy().to_string(), hex(&std::fs::read(e.path()).unwrap()))
            }).collect()).unwrap_or_default();
            files.sort();
            let _ = std::fs::remove_dir_all(&dir);
            format!("{} | {}", res.join(","), files.iter().map(|(n, h)| format!("{}={}", n, h)).collect::<Vec<_>>().join(" "))
        }
        "bad_connect" => crate::gen_abi::bad_connect(toks[0], toks[1]),
        "bad_def" => crate::gen_abi::bad_def(toks[0], toks[1].parse().unwrap()),
        // bad_ledger <comma separated revisions v0|v1a|v1b|v1c>
        "bad_ledger" => {
            let dir = std::env::temp_dir().join(format!("sfh_badledger_{}", std::process::id()));
            let _ = std::fs::remove_dir_all(&dir);
            let mut res = vec![];
            for j in toks[0].split(',') {
                let r = std::panic::catch_unwind(|| crate::gen_abi::bad_verify(j, dir.to_str().unwrap()));
                res.push(match r { Ok(Ok(())) => "ok".to_string(), Ok(Err(e)) => format!("err:{}", err_class(&e)), Err(_) => "panic".to_string() });
            }
            let mut files: Vec<(String, String)> = std::fs::read_dir(&dir).map(|rd| rd.filter_map(|e| e.ok()).map(|e| {
                (e.file_name().to_string_lossy().to_string(), hex(&std::fs::read(e.path()).unwrap()))
            }).collect()).unwrap_or_default();
            files.sort();
            let _ = std::fs::remove_dir_all(&dir);
            format!("{} | {}", res.join(","), files.iter().map(|(n, h)| format!("{}={}", n, h)).collect::<Vec<_>>().join(" "))
        }
        _ => return None,
    })
}
