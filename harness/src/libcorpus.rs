// Library container types that are outside the modelled type universe: for each, the reported schema and the
// bytes written for a sample value. The generic schema-driven reader (sread, in Coq) must parse the bytes
// completely under the schema, and non-recursive types must carry no recursion marker.
use crate::schema_ops::ser_schema;
use crate::util::hex;
use savefile::prelude::*;
use savefile::Serializer;
use std::collections::*;

fn item<T: Serialize + WithSchema>(name: &str, x: T, out: &mut Vec<String>) {
    let mut v = Vec::new();
    Serializer::bare_serialize(&mut v, 0, &x).unwrap();
    let s = get_schema::<T>(0);
    out.push(format!("{} {} {}", name.replace(' ', ""), hex(&ser_schema(2, &s).unwrap()), hex(&v)));
}

pub fn corpus() -> Vec<String> {
    let mut o = Vec::new();
    item("BTreeMap<u32,String>", BTreeMap::from([(1u32, "a".to_string()), (7, "bc".to_string())]), &mut o);
    item("BTreeMap<String,Vec<String>>", BTreeMap::from([("k".to_string(), vec!["x".to_string(), "yz".to_string()])]), &mut o);
    item("BTreeMap<u16,BTreeSet<u16>>", BTreeMap::from([(3u16, BTreeSet::from([1u16, 2]))]), &mut o);
    item("BTreeMap<u32,Option<Box<u32>>>", BTreeMap::from([(3u32, Some(Box::new(4u32))), (5, None)]), &mut o);
    item("BTreeMap<u8,[u8;2]>", BTreeMap::from([(3u8, [3u8, 4])]), &mut o);
    item("BTreeSet<u8>", BTreeSet::from([1u8, 2, 9]), &mut o);
    item("BTreeSet<String>", BTreeSet::from(["q".to_string()]), &mut o);
    item("HashSet<u32>", HashSet::from([77u32]), &mut o);
    item("HashMap<u8,u8>", HashMap::from([(1u8, 2u8)]), &mut o);
    item("HashMap<String,u64>", HashMap::from([("a".to_string(), 2u64)]), &mut o);
    item("BinaryHeap<u16>", BinaryHeap::from(vec![5u16, 1, 3]), &mut o);
    item("VecDeque<Vec<u8>>", VecDeque::from(vec![vec![1u8, 2], vec![]]), &mut o);
    item("Vec<BTreeMap<u8,u8>>", vec![BTreeMap::from([(1u8, 1u8)]), BTreeMap::new()], &mut o);
    item("Option<BTreeMap<u8,Vec<u8>>>", Some(BTreeMap::from([(1u8, vec![1u8])])), &mut o);
    item("(BTreeSet<u8>,u8)", (BTreeSet::from([1u8]), 2u8), &mut o);
    item("indexmap::IndexMap<u8,u16>", indexmap::IndexMap::<u8, u16>::from_iter([(1u8, 2u16), (3, 4)]), &mut o);
    item("indexmap::IndexSet<u8>", indexmap::IndexSet::<u8>::from_iter([1u8, 3]), &mut o);
    item("smallvec::SmallVec<[u16;4]>", smallvec::SmallVec::<[u16; 4]>::from_vec(vec![1u16, 2, 3]), &mut o);
    item("arrayvec::ArrayVec<u32,4>", { let mut a = arrayvec::ArrayVec::<u32, 4>::new(); a.push(5); a.push(6); a }, &mut o);
    item("arrayvec::ArrayString<8>", arrayvec::ArrayString::<8>::from("hi").unwrap(), &mut o);
    item("std::time::Duration", std::time::Duration::new(5, 7), &mut o);
    item("std::net::IpAddr", std::net::IpAddr::V4(std::net::Ipv4Addr::new(1, 2, 3, 4)), &mut o);
    item("std::path::PathBuf", std::path::PathBuf::from("/tmp/x"), &mut o);
    item("std::ops::Range<u32>", 3u32..9u32, &mut o);
    item("Box<[u16]>", vec![1u16, 2].into_boxed_slice(), &mut o);
    item("std::borrow::Cow<str>", std::borrow::Cow::<str>::Owned("cow".to_string()), &mut o);
    o
}
