// Fixed witnesses of known findings on library types that are outside the modelled type universe.
// Each returns "UNFAITHFUL ..." / "DEFECT ..." while the finding reproduces and "OK ..." once it does not.
use savefile::prelude::*;
use savefile::{diff_schema, Deserializer, Serializer};
use std::collections::HashMap;
use std::io::Cursor;
use std::net::{IpAddr, Ipv4Addr, SocketAddr};

fn bare<T: Serialize>(x: &T) -> Vec<u8> {
    let mut v = Vec::new();
    Serializer::bare_serialize(&mut v, 0, x).unwrap();
    v
}

pub fn dispatch(which: &str) -> String {
    match which {
        "result_schema" => {
            let s = get_schema::<Result<u8, u16>>(0);
            if let Schema::Enum(e) = &s {
                let b = bare(&Ok::<u8, u16>(5));
                if e.variants[0].discriminant == e.variants[1].discriminant {
                    return format!("UNFAITHFUL both variants have discriminant {} ; Ok(5) is written as {:?}", e.variants[0].discriminant, b);
                }
                return "OK distinct discriminants".to_string();
            }
            "OK not an enum".to_string()
        }
        "sockaddr_schema" => {
            let a = get_schema::<SocketAddr>(0);
            let b = get_schema::<IpAddr>(0);
            let sa = SocketAddr::new(IpAddr::V4(Ipv4Addr::new(1, 2, 3, 4)), 80);
            let ba = bare(&sa);
            let bb = bare(&sa.ip());
            if diff_schema(&a, &b, "".into(), false).is_none() && ba.len() != bb.len() {
                // and the consequence for the schema gate: a SocketAddr file loads as an IpAddr
                let mut f = Vec::new();
                savefile::save(&mut f, 0, &sa).unwrap();
                let r = savefile::load::<IpAddr>(&mut Cursor::new(&f), 0);
                return format!("UNFAITHFUL equal schemas, {} vs {} bytes; load::<IpAddr>(file of SocketAddr) = {:?}", ba.len(), bb.len(), r.map_err(|e| format!("{:?}", e)));
            }
            "OK".to_string()
        }
        "hashmap_recursion" => {
            let s = get_schema::<HashMap<u32, Vec<u32>>>(0);
            let d = format!("{:?}", s);
            if d.contains("Recursion") {
                "UNFAITHFUL Recursion marker in a non-recursive type".to_string()
            } else {
                "OK".to_string()
            }
        }
        "bitvec_schema" => {
            let mut bv = bit_vec::BitVec::<u32>::from_elem(10, true);
            bv.set(3, false);
            let b = bare(&bv);
            let s = get_schema::<bit_vec::BitVec<u32>>(0);
            // the schema describes (u64, u64, Vec<u8>): the second u64 would be a plain count
            let second = u64::from_le_bytes(b[8..16].try_into().unwrap());
            if second >> 63 == 1 {
                format!("UNFAITHFUL second word {:#x} has the top bit set; schema = {}", second, format!("{:?}", s).chars().take(80).collect::<String>())
            } else {
                "OK".to_string()
            }
        }
        "wide_enum_schema" => {
            let s = get_schema::<crate::gen::FixE257>(0);
            if let Schema::Enum(e) = &s {
                let b = bare(&crate::gen::FixE257::V256);
                if e.variants.len() == 257 && e.variants[256].discriminant == 0 {
                    return format!("UNFAITHFUL variant 256 recorded with discriminant 0, written as {:?}", b);
                }
            }
            "OK".to_string()
        }
        _ => format!("UNKNOWN-KF {}", which),
    }
}
