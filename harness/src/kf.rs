// Fixed witnesses of known findings on library types that are outside the modelled type universe.
// Each returns "UNFAITHFUL ..." / "DEFECT ..." while the finding reproduces and "OK ..." once it does not.
use savefile::prelude::*;
use savefile::{diff_schema, Deserializer, Serializer};
use std::collections::HashMap;
use std::io::Cursor;
use std::net::{IpAddr, Ipv4Addr, SocketAddr};

fn bare<T: Serialize>(x: &T) -> Vec<u8> {
    let mut v = Vec::new();
    Serializer::bare_serialize(&mut v, 0, x).unwrap();
    v
}

pub fn dispatch(which: &str) -> String {
    match which {
        "result_schema" => {
            let s = get_schema::<Result<u8, u16>>(0);
            if let Schema::Enum(e) = &s {
                let b = bare(&Ok::<u8, u16>(5));
                if e.variants[0].discriminant == e.variants[1].discriminant {
                    return format!("UNFAITHFUL both variants have discriminant {} ; Ok(5) is written as {:?}", e.variants[0].discriminant, b);
                }
                return "OK distinct discriminants".to_string();
            }
            "OK not an enum".to_string()
        }
        "sockaddr_schema" => {
            let a = get_schema::<SocketAddr>(0);
            let b = get_schema::<IpAddr>(0);
            let sa = SocketAddr::new(IpAddr::V4(Ipv4Addr::new(1, 2, 3, 4)), 80);
            let ba = bare(&sa);
            let bb = bare(&sa.ip());
            if diff_schema(&a, &b, "".into(), false).is_none() && ba.len() != bb.len() {
                // and the consequence for the schema gate: a SocketAddr file loads as an IpAddr
                let mut f = Vec::new();
                savefile::save(&mut f, 0, &sa).unwrap();
                let r = savefile::load::<IpAddr>(&mut Cursor::new(&f), 0);
                return format!("UNFAITHFUL equal schemas, {} vs {} bytes; load::<IpAddr>(file of SocketAddr) = {:?}", ba.len(), bb.len(), r.map_err(|e| format!("{:?}", e)));
            }
            "OK".to_string()
        }
        "hashmap_recursion" => {
            let s = get_schema::<HashMap<u32, Vec<u32>>>(0);
            let d = format!("{:?}", s);
            if d.contains("Recursion") {
                "UNFAITHFUL Recursion marker in a non-recursive type".to_string()
            } else {
                "OK".to_string()
            }
        }
        "bitvec_schema" => {
            let mut bv = bit_vec::BitVec::<u32>::from_elem(10, true);
            bv.set(3, false);
            let b = bare(&bv);
            let s = get_schema::<bit_vec::BitVec<u32>>(0);
            // the schema describes (u64, u64, Vec<u8>): the second u64 would be a plain count
            let second = u64::from_le_bytes(b[8..16].try_into().unwrap());
            if second >> 63 == 1 {
                format!("UNFAITHFUL second word {:#x} has the top bit set; schema = {}", second, format!("{:?}", s).chars().take(80).collect::<String>())
            } else {
                "OK".to_string()
            }
        }
        "wide_enum_schema" => {
            let s = get_schema::<crate::gen::FixE257>(0);
            if let Schema::Enum(e) = &s {
                let b = bare(&crate::gen::FixE257::V256);
                if e.variants.len() == 257 && e.variants[256].discriminant == 0 {
                    return format!("UNFAITHFUL variant 256 recorded with discriminant 0, written as {:?}", b);
                }
            }
            "OK".to_string()
        }
        // ---- C06: malformed input
        "bulk_invalid_bool" => {
            let mut b = 2u64.to_le_bytes().to_vec();
            b.extend_from_slice(&[7, 1]);
            match Deserializer::bare_deserialize::<Vec<bool>>(&mut Cursor::new(&b), 0) {
                Ok(v) => {
                    let raw = unsafe { *(v.as_ptr() as *const u8) };
                    if raw > 1 { format!("DEFECT Vec<bool> of len {} holds the byte {}", v.len(), raw) } else { "OK normalised".to_string() }
                }
                Err(e) => format!("OK rejected {:?}", e).chars().take(80).collect(),
            }
        }
        "bulk_invalid_char" => {
            let mut b = 1u64.to_le_bytes().to_vec();
            b.extend_from_slice(&0xD800u32.to_le_bytes());
            match Deserializer::bare_deserialize::<Vec<char>>(&mut Cursor::new(&b), 0) {
                Ok(v) => {
                    let raw = unsafe { *(v.as_ptr() as *const u32) };
                    if raw == 0xD800 { format!("DEFECT Vec<char> holds the surrogate {:#x}", raw) } else { "OK".to_string() }
                }
                Err(e) => format!("OK rejected {:?}", e).chars().take(80).collect(),
            }
        }
        "bulk_invalid_enum" => {
            let mut b = 1u64.to_le_bytes().to_vec();
            b.push(200);
            match Deserializer::bare_deserialize::<Vec<crate::gen::FixE8>>(&mut Cursor::new(&b), 0) {
                Ok(v) => {
                    let raw = unsafe { *(v.as_ptr() as *const u8) };
                    let r = format!("DEFECT Vec<FixE8> holds the discriminant {} (3 variants)", raw);
                    std::mem::forget(v);
                    r
                }
                Err(e) => format!("OK rejected {:?}", e).chars().take(80).collect(),
            }
        }
        "vec_overflow" => {
            let n: u64 = (1u64 << 62) + 1;
            let mut b = n.to_le_bytes().to_vec();
            b.extend_from_slice(&[1, 2, 3, 4]);
            let r = std::panic::catch_unwind(|| Deserializer::bare_deserialize::<Vec<u32>>(&mut Cursor::new(&b), 0));
            match r {
                Err(p) => format!("DEFECT panic: {}", crate::util::panic_class(&p)),
                Ok(Ok(v)) => {
                    let l = v.len();
                    std::mem::forget(v);
                    format!("DEFECT a Vec<u32> claiming {} elements was returned from 4 payload bytes", l)
                }
                Ok(Err(e)) => format!("OK rejected {:?}", e).chars().take(80).collect(),
            }
        }
        "systemtime_panic" => {
            let b = (u128::MAX >> 1).to_le_bytes().to_vec();
            let r = std::panic::catch_unwind(|| Deserializer::bare_deserialize::<std::time::SystemTime>(&mut Cursor::new(&b), 0).map(|_| ()));
            match r {
                Err(p) => format!("DEFECT panic: {}", crate::util::panic_class(&p)),
                Ok(r) => format!("OK {:?}", r.map_err(|e| format!("{:?}", e))).chars().take(80).collect(),
            }
        }
        "bitvec_setlen" => {
            let mut b = 1000u64.to_le_bytes().to_vec();
            b.extend_from_slice(&(4u64 | (1 << 63)).to_le_bytes());
            b.extend_from_slice(&[0xff, 0, 0, 0]);
            let r = std::panic::catch_unwind(|| Deserializer::bare_deserialize::<bit_vec::BitVec<u32>>(&mut Cursor::new(&b), 0));
            match r {
                Err(p) => format!("DEFECT panic: {}", crate::util::panic_class(&p)),
                Ok(Ok(v)) => {
                    let (l, words) = (v.len(), v.storage().len());
                    if l > words * 32 { let r = format!("DEFECT BitVec claims {} bits over {} storage words", l, words); std::mem::forget(v); r } else { "OK".to_string() }
                }
                Ok(Err(e)) => format!("OK rejected {:?}", e).chars().take(80).collect(),
            }
        }
        "trait_name_panic" => {
            let mut f = b"savefile\0".to_vec();
            f.extend_from_slice(&2u16.to_le_bytes());
            f.extend_from_slice(&0u32.to_le_bytes());
            f.push(0);
            f.extend_from_slice(&[15, 1]);
            f.extend_from_slice(&5u64.to_le_bytes());
            f.extend_from_slice(b"T+Foo");
            f.extend_from_slice(&0u64.to_le_bytes());
            f.extend_from_slice(&7u32.to_le_bytes());
            let r = std::panic::catch_unwind(|| savefile::load::<u32>(&mut Cursor::new(&f), 0));
            match r {
                Err(p) => format!("DEFECT panic: {}", crate::util::panic_class(&p)),
                Ok(r) => format!("OK {:?}", r.map_err(|e| format!("{:?}", e))).chars().take(80).collect(),
            }
        }
        "ignored_field_layout" => crate::abi_fixed::ignored_field_layout(),
        "async_ledger" => {
            let dir = std::env::temp_dir().join(format!("sfh_async_ledger_{}", std::process::id()));
            let _ = std::fs::remove_dir_all(&dir);
            let r1 = savefile_abi::verify_compatiblity::<dyn crate::abi_fixed::AsyncIface>(dir.to_str().unwrap());
            let r2 = savefile_abi::verify_compatiblity::<dyn crate::abi_fixed::AsyncIface>(dir.to_str().unwrap());
            let _ = std::fs::remove_dir_all(&dir);
            match (r1, r2) {
                (Ok(()), Ok(())) => "OK both runs pass".to_string(),
                (Ok(()), Err(e)) => format!("DEFECT second run of an unchanged async interface fails: {:?}", e).chars().take(200).collect(),
                (a, b) => format!("OTHER {:?} {:?}", a.is_ok(), b.is_ok()),
            }
        }
        _ => format!("UNKNOWN-KF {}", which),
    }
}
