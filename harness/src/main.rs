// sfharness: runs the real savefile implementation on cases read from stdin
// (one per line: "<id> <op> <args...>") and prints one observation per line
// ("<id> <observation>"). Panics are caught and reported as "PANIC <class>".
use std::io::{BufRead, Write};
use std::panic::{catch_unwind, AssertUnwindSafe};

mod util;
mod schema_ops;
mod canon;
mod ops;
mod gen;
mod kf;
mod libcorpus;
mod io_ops;
mod abi_ops;
mod abi_fixed;
mod gen_abi;
mod crypto_ops;
mod intro_ops;
mod conc_ops;
mod many_methods;
mod librt;
mod evo_ops;
mod generic_ops;

fn main() {
    std::panic::set_hook(Box::new(|_| {}));
    let stdin = std::io::stdin();
    let stdout = std::io::stdout();
    let mut out = std::io::BufWriter::new(stdout.lock());
    for line in stdin.lock().lines() {
        let line = line.unwrap();
        let line = line.trim();
        if line.is_empty() || line.starts_with('#') {
            continue;
        }
        let mut toks: Vec<&str> = line.split_whitespace().collect();
        let id = toks.remove(0).to_string();
        let op = toks.remove(0).to_string();
        let res = catch_unwind(AssertUnwindSafe(|| dispatch(&op, &toks)));
        let obs = match res {
            Ok(s) => s,
            Err(p) => format!("PANIC {}", util::panic_class(&p)),
        };
        writeln!(out, "{} {}", id, obs).unwrap();
        out.flush().unwrap();
    }
}

pub fn dispatch(op: &str, toks: &[&str]) -> String {
    if let Some(r) = conc_ops::dispatch(op, toks) {
        return r;
    }
    if let Some(r) = many_methods::dispatch(op, toks) {
        return r;
    }
    if let Some(r) = librt::dispatch(op, toks) {
        return r;
    }
    if let Some(r) = evo_ops::dispatch(op, toks) {
        return r;
    }
    if let Some(r) = generic_ops::dispatch(op, toks) {
        return r;
    }
    if let Some(r) = schema_ops::dispatch(op, toks) {
        return r;
    }
    if let Some(r) = abi_fixed::dispatch(op, toks) {
        return r;
    }
    if let Some(r) = abi_ops::dispatch(op, toks) {
        return r;
    }
    if let Some(r) = intro_ops::dispatch(op, toks) {
        return r;
    }
    if op.starts_with("ty_") {
        let ty = toks[0].parse::<usize>().unwrap();
        return gen::dispatch(ty, op, &toks[1..]);
    }
    match op {
        "kf" => return kf::dispatch(toks[0]),
        "libcorpus" => return libcorpus::corpus().join(" | "),
        "crypto_frames" | "crypto_big_tamper" | "crypto_serve" | "crypto_tail_search" | "crypto_stream_cuts" => return crypto_ops::dispatch(op, toks),
        "probe_item" => return gen::item_probe(toks[0].parse().unwrap()),
        "probe_tuple" => return gen::tuple_probe(toks[0].parse().unwrap()),
        "probe_variant" => return gen::variant_probe(toks[0].parse().unwrap(), toks[1].parse().unwrap()),
        _ => {}
    }
    format!("UNKNOWN-OP {}", op)
}
