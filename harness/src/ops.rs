// Generic operations over a (generated or library) type: the public save/load API in its
// container variants, the Packed answer, the schema.
use crate::canon::Canon;
use crate::schema_ops::ser_schema;
use crate::util::*;
use savefile::prelude::*;
use savefile::{Deserializer, Serializer};
use std::io::Cursor;

pub const PASSWORD: &str = "correct horse";

fn tmp_path(tag: &str) -> std::path::PathBuf {
    let dir = std::env::var("SFH_TMP").unwrap_or_else(|_| "/verif/work/tmp".to_string());
    std::fs::create_dir_all(&dir).ok();
    std::path::Path::new(&dir).join(format!("{}_{}.bin", tag, std::process::id()))
}

pub fn save_container<T: Serialize + WithSchema>(container: &str, version: u32, x: &T) -> Result<Vec<u8>, SavefileError> {
    let mut buf = Vec::new();
    match container {
        "bare" => Serializer::bare_serialize(&mut buf, version, x)?,
        "plain" => savefile::save(&mut buf, version, x)?,
        "noschema" => savefile::save_noschema(&mut buf, version, x)?,
        "bzip2" => savefile::save_compressed(&mut buf, version, x)?,
        "crypto" => {
            let p = tmp_path("enc");
            savefile::save_encrypted_file(&p, version, x, PASSWORD)?;
            buf = std::fs::read(&p).unwrap();
            std::fs::remove_file(&p).ok();
        }
        _ => panic!("bad container"),
    }
    Ok(buf)
}

/// returns (value, consumed bytes if known)
pub fn load_container<T: Deserialize + WithSchema>(container: &str, version: u32, bytes: &[u8]) -> Result<(T, Option<usize>), SavefileError> {
    match container {
        "bare" => {
            let mut c = Cursor::new(bytes);
            let v = Deserializer::bare_deserialize::<T>(&mut c, version)?;
            Ok((v, Some(c.position() as usize)))
        }
        "plain" => {
            let mut c = Cursor::new(bytes);
            let v = savefile::load::<T>(&mut c, version)?;
            Ok((v, Some(c.position() as usize)))
        }
        "noschema" => {
            let mut c = Cursor::new(bytes);
            let v = savefile::load_noschema::<T>(&mut c, version)?;
            Ok((v, Some(c.position() as usize)))
        }
        "bzip2" => {
            let mut c = Cursor::new(bytes);
            let v = savefile::load::<T>(&mut c, version)?;
            Ok((v, None))
        }
        "crypto" => {
            let p = tmp_path("dec");
            std::fs::write(&p, bytes).unwrap();
            let r = savefile::load_encrypted_file::<T, _>(&p, version, PASSWORD);
            std::fs::remove_file(&p).ok();
            Ok((r?, None))
        }
        _ => panic!("bad container"),
    }
}

pub fn run<T: Serialize + Deserialize + WithSchema + Packed + Canon + Introspect>(op: &str, toks: &[&str], values: fn() -> Vec<T>) -> String {
    if let Some(r) = crate::intro_ops::run::<T>(op, toks, values) {
        return r;
    }
    run_base::<T>(op, toks, values)
}

/// for root types without an Introspect impl (Cell<T>)
pub fn run_base<T: Serialize + Deserialize + WithSchema + Packed + Canon>(op: &str, toks: &[&str], values: fn() -> Vec<T>) -> String {
    if let Some(r) = crate::io_ops::run::<T>(op, toks, values) {
        return r;
    }
    match op {
        // ty_rt <container> <version> <validx> : save, then load what was saved
        "ty_rt" => {
            let (container, version, idx) = (toks[0], toks[1].parse::<u32>().unwrap(), toks[2].parse::<usize>().unwrap());
            let vals = values();
            let x = &vals[idx];
            let bytes = match save_container(container, version, x) {
                Ok(b) => b,
                Err(e) => return format!("SAVE-ERR {}", err_class(&e)),
            };
            let mut padded = bytes.clone();
            if container != "crypto" && container != "bzip2" {
                padded.extend_from_slice(&[0xA5, 0x5A, 0x01]);
            }
            // what is reported as "bytes": for bzip2 the header plus the decompressed stream (bzip2 crate used
            // directly), for crypto the same after decrypting with the independent reference decryptor
            let shown: Vec<u8> = match container {
                "bzip2" => match bunzip(&bytes[16.min(bytes.len())..]) {
                    Some(d) => { let mut v = bytes[..16].to_vec(); v.extend(d); v }
                    None => return "BAD-BZIP2".to_string(),
                },
                "crypto" => match ref_decrypt(&bytes, PASSWORD) {
                    Some((pt, _)) => match bunzip(&pt[16.min(pt.len())..]) {
                        Some(d) => { let mut v = pt[..16].to_vec(); v.extend(d); v }
                        None => return "BAD-BZIP2-IN-CRYPTO".to_string(),
                    },
                    None => return "BAD-CRYPTO-FRAMING".to_string(),
                },
                _ => bytes.clone(),
            };
            match load_container::<T>(container, version, &padded) {
                Ok((y, used)) => format!("OK {} {} {}", hex(&shown), used.map(|u| u as i64).unwrap_or(-1), y.canon_string()),
                Err(e) => format!("LOAD-ERR {} {}", hex(&shown), err_class(&e)),
            }
        }
        // ty_save <container> <version> <validx>
        "ty_save" => {
            let (container, version, idx) = (toks[0], toks[1].parse::<u32>().unwrap(), toks[2].parse::<usize>().unwrap());
            let vals = values();
            match save_container(container, version, &vals[idx]) {
                Ok(b) => format!("OK {}", hex(&b)),
                Err(e) => format!("ERR {}", err_class(&e)),
            }
        }
        // ty_load <container> <version> <hex>
        "ty_load" => {
            let (container, version) = (toks[0], toks[1].parse::<u32>().unwrap());
            let bytes = unhex(toks[2]);
            match load_container::<T>(container, version, &bytes) {
                Ok((y, used)) => format!("OK {} {}", used.map(|u| u as i64).unwrap_or(-1), y.canon_string()),
                Err(e) => format!("ERR {}", err_class(&e)),
            }
        }
        // ty_det <container> <version> <validx> : two saves of the same value (with unrelated heap/stack churn in
        // between) give identical bytes
        "ty_det" => {
            let (container, version, idx) = (toks[0], toks[1].parse::<u32>().unwrap(), toks[2].parse::<usize>().unwrap());
            let vals = values();
            let a = save_container(container, version, &vals[idx]);
            let noise: Vec<Vec<u8>> = (0..64).map(|i| vec![(i * 37 + 11) as u8; 1 + i * 7]).collect();
            std::hint::black_box(&noise);
            drop(noise);
            let vals2 = values();
            let b = save_container(container, version, &vals2[idx]);
            match (a, b) {
                (Ok(a), Ok(b)) => format!("{} {} {}", if a == b { 1 } else { 0 }, hex(&a), hex(&b)),
                _ => "ERR".to_string(),
            }
        }
        // ty_cuts <container> <version> <validx> : load every strict prefix of the saved file.
        // Output: "<len> <canon of original> <classes>" where classes has one letter per cut offset 0..len-1:
        //  e/g/u/w/c/s/l/o = the error classes, S = Ok with the same value, D = Ok with a DIFFERENT value, P = panic
        "ty_cuts" => {
            let (container, version, idx) = (toks[0], toks[1].parse::<u32>().unwrap(), toks[2].parse::<usize>().unwrap());
            let vals = values();
            let x = &vals[idx];
            let bytes = match save_container(container, version, x) {
                Ok(b) => b,
                Err(e) => return format!("SAVE-ERR {}", err_class(&e)),
            };
            let orig = x.canon_string();
            let mut classes = String::new();
            for k in 0..bytes.len() {
                let r = std::panic::catch_unwind(std::panic::AssertUnwindSafe(|| load_container::<T>(container, version, &bytes[..k])));
                classes.push(match r {
                    Err(_) => 'P',
                    Ok(Ok((y, _))) => if y.canon_string() == orig { 'S' } else { 'D' },
                    Ok(Err(e)) => match err_class(&e) {
                        "EEof" => 'e', "EGeneral" => 'g', "EUtf8" => 'u', "EWrongVersion" => 'w', "EInvalidChar" => 'c',
                        "ESchema" => 's', "ELayout" => 'l', _ => 'o',
                    },
                });
            }
            format!("{} {} {} {}", bytes.len(), hex(&bytes), orig, classes)
        }
        // ty_oldfile <format 0|1|2> <compressed 0|1> <version> <validx> : a file as an EARLIER build of the library wrote it:
        // header with that library format version, the type's schema serialized in that format, the payload; optionally the
        // schema and payload bzip2-compressed (flag 1). Output: the file as hex.
        "ty_oldfile" => {
            let (fmt, comp, version, idx) = (toks[0].parse::<u16>().unwrap(), toks[1] == "1", toks[2].parse::<u32>().unwrap(), toks[3].parse::<usize>().unwrap());
            let vals = values();
            let mut body = match ser_schema(fmt as u32, &get_schema::<T>(version)) {
                Ok(b) => b,
                Err(e) => return format!("ERR schema {}", err_class(&e)),
            };
            // today's Schema writer does not gate every field on the format version: only sections that the reader of that
            // format consumes completely are faithful old-format sections
            match crate::schema_ops::de_schema(fmt, &body) {
                Ok((_, used)) if used == body.len() => {}
                _ => return "SKIP schema section not expressible in that format".to_string(),
            }
            let mut payload = Vec::new();
            if let Err(e) = Serializer::bare_serialize(&mut payload, version, &vals[idx]) {
                return format!("ERR payload {}", err_class(&e));
            }
            body.extend_from_slice(&payload);
            let mut file = b"savefile\0".to_vec();
            file.extend_from_slice(&fmt.to_le_bytes());
            file.extend_from_slice(&version.to_le_bytes());
            file.push(comp as u8);
            if comp {
                use std::io::Write;
                let mut enc = bzip2::write::BzEncoder::new(Vec::new(), bzip2::Compression::default());
                enc.write_all(&body).unwrap();
                file.extend_from_slice(&enc.finish().unwrap());
            } else {
                file.extend_from_slice(&body);
            }
            format!("OK {}", hex(&file))
        }
        "ty_canon" => {
            let idx = toks[0].parse::<usize>().unwrap();
            values()[idx].canon_string()
        }
        "ty_packed" => {
            let version = toks[0].parse::<u32>().unwrap();
            format!("{}", if unsafe { T::repr_c_optimization_safe(version) }.is_yes() { 1 } else { 0 })
        }
        "ty_schema" => {
            let version = toks[0].parse::<u32>().unwrap();
            let s = get_schema::<T>(version);
            hex(&ser_schema(2, &s).unwrap())
        }
        "ty_size" => format!("{} {}", std::mem::size_of::<T>(), std::mem::align_of::<T>()),
        _ => format!("UNKNOWN-OP {}", op),
    }
}
