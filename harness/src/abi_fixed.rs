// Hand-written exported traits for C09 (ABI calls are transparent): every argument kind of the supported subset,
// argument frames straddling the 64-byte inline buffer, nested tuples (fixed-size frames), closures and boxed
// trait objects in both directions, drop counting, panic payloads (literal and formatted), and an async interface.
// Each op runs the same scenario DIRECTLY on the implementation and THROUGH an AbiConnection and prints both
// observations: "DIRECT <obs> || ABI <obs>".
use crate::util::*;
use async_trait::async_trait;
use savefile_abi::{AbiConnection, AbiExportable};
use savefile_derive::savefile_abi_exportable;
use savefile_derive::Savefile;
use std::cell::RefCell;
use std::sync::atomic::{AtomicUsize, Ordering};
use std::sync::Arc;

thread_local! { static LOG: RefCell<Vec<String>> = RefCell::new(Vec::new()); }
fn log(s: String) { LOG.with(|l| l.borrow_mut().push(s)); }
fn take_log() -> String { LOG.with(|l| std::mem::take(&mut *l.borrow_mut())).join(";") }

#[async_trait]
#[savefile_abi_exportable(version = 0)]
pub trait AsyncIface {
    async fn get(&mut self, x: u32) -> u32;
}

#[derive(Savefile, Clone, Debug, PartialEq)]
pub struct Rec {
    pub id: u32,
    pub name: String,
    pub data: Vec<u16>,
}
#[derive(Savefile, Clone, Copy, Debug, PartialEq)]
#[repr(C)]
pub struct Pod {
    pub a: u32,
    pub b: u16,
    pub c: u16,
}

#[savefile_abi_exportable(version = 0)]
pub trait Counter {
    fn bump(&self, by: u32) -> u32;
}
pub struct CounterImpl {
    pub drops: Arc<AtomicUsize>,
    pub base: u32,
}
impl Counter for CounterImpl {
    fn bump(&self, by: u32) -> u32 { log(format!("bump {}", by)); self.base + by }
}
impl Drop for CounterImpl {
    fn drop(&mut self) { self.drops.fetch_add(1, Ordering::SeqCst); }
}

#[savefile_abi_exportable(version = 0)]
pub trait Kitchen {
    fn prims(&self, a: u8, b: i16, c: u32, d: i64, e: f32, f: f64, g: bool, h: char) -> String;
    fn frame60(&self, a: u64, b: u64, c: u64, d: u64, e: u64, f: u64, g: u64) -> u64;
    fn frame61(&self, a: u64, b: u64, c: u64, d: u64, e: u64, f: u64, g: u64, h: u8) -> u64;
    fn frame68(&self, a: u64, b: u64, c: u64, d: u64, e: u64, f: u64, g: u64, h: (u32, u32)) -> u64;
    fn nested_tuples(&self, t: ((u32, u32), (u32, u32))) -> ((u32, u32), (u32, u32));
    fn tuple_array(&self, t: ([u16; 3], [u16; 3])) -> ([u16; 3], [u16; 3]);
    fn rec_by_val(&self, r: Rec) -> Rec;
    fn rec_by_ref(&self, r: &Rec) -> u32;
    fn pod_by_ref(&self, p: &Pod) -> Pod;
    fn strs(&self, s: &str, t: String) -> String;
    fn slices(&self, s: &[u32], p: &[Pod]) -> u64;
    fn res(&self, fail: bool) -> Result<u32, String>;
    fn opt(&self, o: Option<Rec>) -> Option<u32>;
    fn call_fn(&self, f: &dyn Fn(u32, &u32) -> u32) -> u32;
    fn call_fnmut(&self, f: &mut dyn FnMut(u32) -> u32) -> u32;
    fn take_boxed_fn(&self, f: Box<dyn Fn(u32) -> u32>) -> u32;
    fn take_boxed_trait(&self, c: Box<dyn Counter>) -> u32;
    fn make_counter(&self, base: u32) -> Box<dyn Counter>;
    fn make_closure(&self, k: u32) -> Box<dyn Fn(u32) -> u32>;
    fn panic_literal(&self) -> u32;
    fn panic_formatted(&self, n: u32) -> u32;
    fn mutate(&mut self, by: u32) -> u32;
    fn many_args(&self, a0: u8, a1: u8, a2: u8, a3: u8, a4: u8, a5: u8, a6: u8, a7: u8, a8: u16, a9: u16, a10: u16, a11: u16, a12: u32, a13: u32, a14: u64, a15: u64, a16: &str, a17: u8) -> u64;
}
pub struct KitchenImpl {
    pub state: u32,
    pub drops: Arc<AtomicUsize>,
}
impl Kitchen for KitchenImpl {
    fn prims(&self, a: u8, b: i16, c: u32, d: i64, e: f32, f: f64, g: bool, h: char) -> String {
        let s = format!("{} {} {} {} {} {} {} {}", a, b, c, d, e.to_bits(), f.to_bits(), g, h as u32);
        log(format!("prims {}", s));
        s
    }
    fn frame60(&self, a: u64, b: u64, c: u64, d: u64, e: u64, f: u64, g: u64) -> u64 { log(format!("frame60 {} {} {} {} {} {} {}", a, b, c, d, e, f, g)); a ^ b ^ c ^ d ^ e ^ f ^ g }
    fn frame61(&self, a: u64, b: u64, c: u64, d: u64, e: u64, f: u64, g: u64, h: u8) -> u64 { log(format!("frame61 {} {} {} {} {} {} {} {}", a, b, c, d, e, f, g, h)); a ^ b ^ c ^ d ^ e ^ f ^ g ^ h as u64 }
    fn frame68(&self, a: u64, b: u64, c: u64, d: u64, e: u64, f: u64, g: u64, h: (u32, u32)) -> u64 { log(format!("frame68 {} {} {} {} {} {} {} {:?}", a, b, c, d, e, f, g, h)); a ^ b ^ c ^ d ^ e ^ f ^ g ^ h.0 as u64 ^ ((h.1 as u64) << 32) }
    fn nested_tuples(&self, t: ((u32, u32), (u32, u32))) -> ((u32, u32), (u32, u32)) { log(format!("nested {:?}", t)); ((t.1 .1, t.1 .0), (t.0 .1, t.0 .0)) }
    fn tuple_array(&self, t: ([u16; 3], [u16; 3])) -> ([u16; 3], [u16; 3]) { log(format!("tuple_array {:?}", t)); (t.1, t.0) }
    fn rec_by_val(&self, r: Rec) -> Rec { log(format!("rec_by_val {:?}", r)); Rec { id: r.id + 1, name: r.name.clone() + "!", data: r.data.iter().rev().cloned().collect() } }
    fn rec_by_ref(&self, r: &Rec) -> u32 { log(format!("rec_by_ref {:?}", r)); r.id + r.data.len() as u32 }
    fn pod_by_ref(&self, p: &Pod) -> Pod { log(format!("pod_by_ref {:?}", p)); Pod { a: p.a ^ 1, b: p.c, c: p.b } }
    fn strs(&self, s: &str, t: String) -> String { log(format!("strs {} {}", s, t)); format!("{}+{}", s, t) }
    fn slices(&self, s: &[u32], p: &[Pod]) -> u64 { log(format!("slices {:?} {:?}", s, p)); s.iter().map(|x| *x as u64).sum::<u64>() + p.iter().map(|x| x.a as u64 + x.b as u64).sum::<u64>() }
    fn res(&self, fail: bool) -> Result<u32, String> { if fail { Err("nope".to_string()) } else { Ok(7) } }
    fn opt(&self, o: Option<Rec>) -> Option<u32> { log(format!("opt {:?}", o)); o.map(|r| r.id) }
    fn call_fn(&self, f: &dyn Fn(u32, &u32) -> u32) -> u32 { let a = f(1, &2); let b = f(a, &3); log(format!("call_fn {} {}", a, b)); a + b }
    fn call_fnmut(&self, f: &mut dyn FnMut(u32) -> u32) -> u32 { let a = f(10); let b = f(20); let c = f(30); log(format!("call_fnmut {} {} {}", a, b, c)); c }
    fn take_boxed_fn(&self, f: Box<dyn Fn(u32) -> u32>) -> u32 { let r = f(5) + f(6); log(format!("take_boxed_fn {}", r)); r }
    fn take_boxed_trait(&self, c: Box<dyn Counter>) -> u32 { let r = c.bump(3) + c.bump(4); log(format!("take_boxed_trait {}", r)); r }
    fn make_counter(&self, base: u32) -> Box<dyn Counter> { Box::new(CounterImpl { drops: self.drops.clone(), base }) }
    fn make_closure(&self, k: u32) -> Box<dyn Fn(u32) -> u32> { let d = self.drops.clone(); let guard = DropFlag(d); Box::new(move |x| { let _g = &guard; x * k }) }
    fn panic_literal(&self) -> u32 { panic!("literal boom") }
    fn panic_formatted(&self, n: u32) -> u32 { panic!("formatted boom {}", n) }
    fn mutate(&mut self, by: u32) -> u32 { self.state += by; self.state }
    fn many_args(&self, a0: u8, a1: u8, a2: u8, a3: u8, a4: u8, a5: u8, a6: u8, a7: u8, a8: u16, a9: u16, a10: u16, a11: u16, a12: u32, a13: u32, a14: u64, a15: u64, a16: &str, a17: u8) -> u64 {
        log(format!("many {} {} {} {} {} {} {} {} {} {} {} {} {} {} {} {} {} {}", a0, a1, a2, a3, a4, a5, a6, a7, a8, a9, a10, a11, a12, a13, a14, a15, a16, a17));
        a0 as u64 + a7 as u64 * 3 + a11 as u64 * 5 + a13 as u64 * 7 + a15 + a16.len() as u64 + a17 as u64
    }
}
pub struct DropFlag(pub Arc<AtomicUsize>);
impl Drop for DropFlag { fn drop(&mut self) { self.0.fetch_add(1, Ordering::SeqCst); } }

fn scenario(k: &mut dyn Kitchen, drops: &Arc<AtomicUsize>, which: &str) -> String {
    let before = drops.load(Ordering::SeqCst);
    let r: String = match which {
        "prims" => k.prims(255, -32768, 4000000000, i64::MIN, f32::from_bits(0x7fc00001), f64::from_bits(0xfff8000000000001), true, '\u{10ffff}'),
        "frame60" => format!("{}", k.frame60(1, u64::MAX, 3, 1 << 63, 5, 6, 0x0102030405060708)),
        "frame61" => format!("{}", k.frame61(1, u64::MAX, 3, 1 << 63, 5, 6, 0x0102030405060708, 0xab)),
        "frame68" => format!("{}", k.frame68(1, u64::MAX, 3, 1 << 63, 5, 6, 0x0102030405060708, (0xdeadbeef, 0x01020304))),
        w if w.starts_with("strlen") => { let n: usize = w[6..].parse().unwrap(); k.strs(&"x".repeat(n), String::new()) }
        "nested_tuples" => format!("{:?}", k.nested_tuples(((1, 2), (3, 4000000000)))),
        "tuple_array" => format!("{:?}", k.tuple_array(([1, 2, 3], [65535, 5, 6]))),
        "rec_by_val" => format!("{:?}", k.rec_by_val(Rec { id: 9, name: "ñame".to_string(), data: (0..40).collect() })),
        "rec_by_ref" => format!("{}", k.rec_by_ref(&Rec { id: 9, name: "x".repeat(70), data: vec![1, 2, 3] })),
        "pod_by_ref" => format!("{:?}", k.pod_by_ref(&Pod { a: 0xdeadbeef, b: 1, c: 2 })),
        "strs" => k.strs("héllo wörld ".repeat(6).as_str(), "t".repeat(65)),
        "slices" => format!("{}", k.slices(&(0..20).collect::<Vec<u32>>(), &[Pod { a: 1, b: 2, c: 3 }, Pod { a: 4, b: 5, c: 6 }])),
        "res" => format!("{:?} {:?}", k.res(false), k.res(true)),
        "opt" => format!("{:?} {:?}", k.opt(None), k.opt(Some(Rec { id: 3, name: "".into(), data: vec![] }))),
        "call_fn" => { let seen = RefCell::new(vec![]); let r = k.call_fn(&|a, b| { seen.borrow_mut().push((a, *b)); a * 10 + *b }); format!("{} {:?}", r, seen.borrow()) }
        "call_fnmut" => { let mut acc = 0u32; let r = k.call_fnmut(&mut |a| { acc += a; acc }); format!("{} {}", r, acc) }
        "take_boxed_fn" => { let flag = DropFlag(drops.clone()); let r = k.take_boxed_fn(Box::new(move |x| { let _f = &flag; x + 100 })); format!("{}", r) }
        "take_boxed_trait" => { let r = k.take_boxed_trait(Box::new(CounterImpl { drops: drops.clone(), base: 50 })); format!("{}", r) }
        "make_counter" => { let c = k.make_counter(1000); let a = c.bump(1); let b = c.bump(2); drop(c); format!("{} {}", a, b) }
        "make_closure" => { let c = k.make_closure(6); let a = c(7); let b = c(8); drop(c); format!("{} {}", a, b) }
        "mutate" => format!("{} {}", k.mutate(5), k.mutate(6)),
        "many_args" => format!("{}", k.many_args(1, 2, 3, 4, 5, 6, 7, 8, 9, 10, 11, 12, 13, 14, 15, 16, "seventeen", 18)),
        _ => "BAD-SCENARIO".to_string(),
    };
    let after = drops.load(Ordering::SeqCst);
    format!("ret=[{}] log=[{}] drops={}", r, take_log(), after - before)
}

fn panic_scenario(k: &mut dyn Kitchen, which: &str) -> String {
    let r = std::panic::catch_unwind(std::panic::AssertUnwindSafe(|| match which { "panic_literal" => k.panic_literal(), _ => k.panic_formatted(42) }));
    let msg = match r { Ok(v) => format!("returned {}", v), Err(p) => panic_msg(&p) };
    // the connection / object must stay usable afterwards
    let after = std::panic::catch_unwind(std::panic::AssertUnwindSafe(|| k.mutate(1)));
    format!("payload=[{}] usable_after={}", msg, after.is_ok())
}

pub fn dispatch(op: &str, toks: &[&str]) -> Option<String> {
    Some(match op {
        // abi_fixed <scenario> : DIRECT <obs> || ABI <obs>
        "abi_fixed" => {
            let which = toks[0];
            let d1 = Arc::new(AtomicUsize::new(0));
            let d2 = Arc::new(AtomicUsize::new(0));
            if which.starts_with("panic") {
                let mut direct = KitchenImpl { state: 0, drops: d1.clone() };
                let a = panic_scenario(&mut direct, which);
                let mut conn = AbiConnection::<dyn Kitchen>::from_boxed_trait(Box::new(KitchenImpl { state: 0, drops: d2.clone() })).unwrap();
                let b = panic_scenario(&mut conn, which);
                return Some(format!("DIRECT {} || ABI {}", a, b));
            }
            let a = { let mut direct = KitchenImpl { state: 0, drops: d1.clone() }; scenario(&mut direct, &d1, which) };
            let total1 = d1.load(Ordering::SeqCst);
            let b = { let mut conn = AbiConnection::<dyn Kitchen>::from_boxed_trait(Box::new(KitchenImpl { state: 0, drops: d2.clone() })).unwrap(); scenario(&mut conn, &d2, which) };
            let total2 = d2.load(Ordering::SeqCst);
            format!("DIRECT {} total_drops={} || ABI {} total_drops={}", a, total1, b, total2)
        }
        // flex <hex chunk>,<hex chunk>,... : FlexBuffer contents and whether it spilled
        "flex" => {
            use std::io::Write;
            let mut f = savefile_abi::FlexBuffer::new();
            for c in toks[0].split(',') { f.write_all(&unhex(c)).unwrap(); }
            let bytes = unsafe { std::slice::from_raw_parts(f.as_ptr(), f.len()) }.to_vec();
            format!("{} {}", matches!(f, savefile_abi::FlexBuffer::Spill(_)) as u8, hex(&bytes))
        }
        _ => return None,
    })
}

// K8 witness: two definitions differing only in an ignored field
pub mod ign_a {
    use savefile_derive::Savefile;
    #[derive(Savefile, Default)]
    #[repr(C)]
    pub struct WithIgnored { pub a: u64, #[savefile_ignore] pub b: u64 }
}
pub mod ign_b {
    use savefile_derive::Savefile;
    #[derive(Savefile, Default)]
    #[repr(C)]
    pub struct WithIgnored { pub a: u64, #[savefile_ignore] pub b: f64 }
}
pub fn ignored_field_layout() -> String {
    use savefile::prelude::*;
    let a = get_schema::<ign_a::WithIgnored>(0);
    let b = get_schema::<ign_b::WithIgnored>(0);
    if a.layout_compatible(&b) {
        format!("DEFECT {{a:u64, #[savefile_ignore] b:u64}} and {{a:u64, #[savefile_ignore] b:f64}} are declared layout compatible: the ignored field is absent from the schema but inside size_of = {}", std::mem::size_of::<ign_a::WithIgnored>())
    } else {
        "OK not compatible".to_string()
    }
}
