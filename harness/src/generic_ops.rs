// Generic instantiations (C04): the type universe of the generator has no generic definitions, so these are written by
// hand. An explicit-repr enum holds the same generic wrapper instantiated with a bulk-copyable and with a NOT bulk-copyable
// payload (and the same through module paths); its twin without an explicit repr always goes field by field.
use savefile::prelude::*;
use savefile_derive::Savefile;

#[derive(Savefile, Debug, PartialEq, Clone, Copy)]
#[repr(u8)]
pub enum Mode {
    Slow = 5,
    Fast = 9,
}
#[derive(Savefile, Debug, PartialEq, Clone, Copy)]
#[repr(C)]
pub struct Wrap<T> {
    v: T,
}
pub mod other {
    use super::*;
    #[derive(Savefile, Debug, PartialEq, Clone, Copy)]
    #[repr(C)]
    pub struct Wrap {
        pub m: super::Mode,
    }
}
// (written out, not produced by a macro: a `$t:ty` fragment reaches the derive wrapped in an invisible group)
#[derive(Savefile, Debug, PartialEq, Clone, Copy)]
#[repr(u8)]
pub enum Outer {
    Tagged(Wrap<u8>, Wrap<Mode>),
    Plain(Wrap<u8>, Wrap<u8>),
}
#[derive(Savefile, Debug, PartialEq, Clone, Copy)]
pub enum OuterTwin {
    Tagged(Wrap<u8>, Wrap<Mode>),
    Plain(Wrap<u8>, Wrap<u8>),
}
#[derive(Savefile, Debug, PartialEq, Clone, Copy)]
#[repr(u8)]
pub enum Outer2 {
    Tagged(Wrap<u8>, other::Wrap),
    Plain(Wrap<u8>, Wrap<u8>),
}
#[derive(Savefile, Debug, PartialEq, Clone, Copy)]
pub enum Outer2Twin {
    Tagged(Wrap<u8>, other::Wrap),
    Plain(Wrap<u8>, Wrap<u8>),
}
#[derive(Savefile, Debug, PartialEq, Clone, Copy)]
#[repr(C)]
pub struct Pair {
    a: Wrap<u16>,
    b: Wrap<Mode>,
    c: Wrap<u8>,
}
#[derive(Savefile, Debug, PartialEq, Clone, Copy)]
pub struct PairTwin {
    a: Wrap<u16>,
    b: Wrap<Mode>,
    c: Wrap<u8>,
}

fn bytes<T: Serialize>(v: &T, version: u32) -> Result<Vec<u8>, String> {
    let mut out = Vec::new();
    match std::panic::catch_unwind(std::panic::AssertUnwindSafe(|| Serializer::bare_serialize(&mut out, version, v))) {
        Ok(Ok(())) => Ok(out),
        Ok(Err(e)) => Err(format!("err:{}", crate::util::err_class(&e))),
        Err(_) => Err("panic".to_string()),
    }
}

fn case<A: Serialize + Packed, B: Serialize + Deserialize + Packed + PartialEq>(name: &str, a: Vec<A>, b: Vec<B>) -> String {
    let mut out = Vec::new();
    for version in [0u32, 1] {
        let pa = unsafe { A::repr_c_optimization_safe(version) }.is_yes();
        let (ba, bb) = (bytes(&a, version), bytes(&b, version));
        let single = a.iter().zip(b.iter()).all(|(x, y)| bytes(x, version) == bytes(y, version));
        let loads = match &ba {
            Ok(bs) => {
                let mut cur = std::io::Cursor::new(&bs[..]);
                matches!(Deserializer::bare_deserialize::<Vec<B>>(&mut cur, version), Ok(ref l) if *l == b)
            }
            Err(_) => false,
        };
        out.push(format!("{}@{} packed={} vec_same={} single_same={} loads_as_twin={}", name, version, pa as u8, (ba == bb && ba.is_ok()) as u8, single as u8, loads as u8));
    }
    out.join(" ; ")
}

pub fn dispatch(op: &str, _toks: &[&str]) -> Option<String> {
    if op != "generic_packed" {
        return None;
    }
    let v1 = vec![Outer::Tagged(Wrap { v: 1 }, Wrap { v: Mode::Slow }), Outer::Plain(Wrap { v: 2 }, Wrap { v: 3 }), Outer::Tagged(Wrap { v: 4 }, Wrap { v: Mode::Fast })];
    let t1 = vec![OuterTwin::Tagged(Wrap { v: 1 }, Wrap { v: Mode::Slow }), OuterTwin::Plain(Wrap { v: 2 }, Wrap { v: 3 }), OuterTwin::Tagged(Wrap { v: 4 }, Wrap { v: Mode::Fast })];
    let v2 = vec![Outer2::Tagged(Wrap { v: 1 }, other::Wrap { m: Mode::Fast }), Outer2::Plain(Wrap { v: 2 }, Wrap { v: 3 })];
    let t2 = vec![Outer2Twin::Tagged(Wrap { v: 1 }, other::Wrap { m: Mode::Fast }), Outer2Twin::Plain(Wrap { v: 2 }, Wrap { v: 3 })];
    let v3 = vec![Pair { a: Wrap { v: 513 }, b: Wrap { v: Mode::Fast }, c: Wrap { v: 7 } }; 3];
    let t3 = vec![PairTwin { a: Wrap { v: 513 }, b: Wrap { v: Mode::Fast }, c: Wrap { v: 7 } }; 3];
    Some(format!("{} ; {} ; {}", case("Outer", v1, t1), case("Outer2", v2, t2), case("Pair", v3, t3)))
}
