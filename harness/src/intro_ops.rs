// Introspection operations (C17) on the real implementation: tree dumps, reported-length checks, and
// Introspector command sequences with total_index sweeps.
use crate::util::hex;
use savefile::prelude::*;
use savefile::{IntrospectedElement, IntrospectedElementKey, IntrospectionError, Introspector, IntrospectorNavCommand};
use std::collections::*;
use std::panic::{catch_unwind, AssertUnwindSafe};

fn hx(s: &str) -> String {
    format!("x{}", hex(s.as_bytes()))
}
fn unhx(s: &str) -> String {
    String::from_utf8(crate::util::unhex(&s[1..])).unwrap()
}

pub const NODE_BUDGET: usize = 600;

/// N(<value>,<reported len>,[<key>:<child>;...]) ; Err(()) when the tree has more than NODE_BUDGET nodes
pub fn dump(o: &dyn Introspect, budget: &mut usize, out: &mut String) -> Result<(), ()> {
    if *budget == 0 {
        return Err(());
    }
    *budget -= 1;
    out.push_str(&format!("N({},{},[", hx(&o.introspect_value()), o.introspect_len()));
    let mut i = 0usize;
    loop {
        match o.introspect_child(i) {
            Some(item) => {
                if i > 0 {
                    out.push(';');
                }
                out.push_str(&hx(item.key()));
                out.push(':');
                dump(item.val(), budget, out)?;
            }
            None => break,
        }
        i += 1;
    }
    out.push_str("])");
    Ok(())
}

/// Walk the whole tree; at every node compare introspect_len() with the number of children that can be fetched
/// (first None ends the count; the next 3 indices must be None as well: no gaps).
pub fn len_check(o: &dyn Introspect, path: &str, nodes: &mut usize, bad: &mut Vec<String>) {
    if *nodes > 300_000 {
        return;
    }
    *nodes += 1;
    let reported = o.introspect_len();
    let mut count = 0usize;
    loop {
        match o.introspect_child(count) {
            Some(item) => {
                if count < 40 {
                    len_check(item.val(), &format!("{}/{}", path, item.key()), nodes, bad);
                }
            }
            None => break,
        }
        count += 1;
        if count > 40_000 {
            break;
        }
    }
    let mut gap = false;
    for k in 1..4 {
        if o.introspect_child(count + k).is_some() {
            gap = true;
        }
    }
    if (reported != count || gap) && bad.len() < 8 {
        bad.push(format!("{}|{}|{}|{}|{}", if path.is_empty() { "." } else { path }, hx(&o.introspect_value()), reported, count, gap as u8));
    }
}

fn elem(e: &IntrospectedElement) -> String {
    format!(
        "{}.{}.{}.{}.{}.{}",
        e.key.depth,
        hx(&e.key.key),
        e.key.key_disambiguator,
        hx(&e.value),
        e.has_children as u8,
        e.selected as u8
    )
}

fn parse_cmd(s: &str) -> IntrospectorNavCommand {
    let p: Vec<&str> = s.split('.').collect();
    match p[0] {
        "E" => IntrospectorNavCommand::ExpandElement(IntrospectedElementKey {
            depth: p[1].parse().unwrap(),
            key: unhx(p[2]),
            key_disambiguator: p[3].parse().unwrap(),
        }),
        "S" => IntrospectorNavCommand::SelectNth { select_depth: p[1].parse().unwrap(), select_index: p[2].parse().unwrap() },
        "N" => IntrospectorNavCommand::Nothing,
        "U" => IntrospectorNavCommand::Up,
        _ => panic!("bad cmd"),
    }
}

fn errname(e: IntrospectionError) -> &'static str {
    match e {
        IntrospectionError::BadDepth => "BadDepth",
        IntrospectionError::UnknownKey => "UnknownKey",
        IntrospectionError::NoChildren => "NoChildren",
        IntrospectionError::IndexOutOfRange => "IndexOutOfRange",
        IntrospectionError::AlreadyAtTop => "AlreadyAtTop",
    }
}

/// <tree> # obs | obs | ...
pub fn nav(o: &dyn Introspect, clc: &str, cmds: &str, extra_idx: &[usize]) -> String {
    let mut tree = String::new();
    let mut budget = NODE_BUDGET;
    if dump(o, &mut budget, &mut tree).is_err() {
        return "TOOBIG".to_string();
    }
    let mut intro = if clc == "-" { Introspector::new() } else { Introspector::new_with(clc.parse().unwrap()) };
    let mut obs = Vec::new();
    for c in cmds.split(',').filter(|c| !c.is_empty()) {
        let cmd = parse_cmd(c);
        let r = catch_unwind(AssertUnwindSafe(|| intro.do_introspect(o, cmd)));
        match r {
            Err(_) => {
                obs.push("PANIC".to_string());
                break;
            }
            Ok(Err(e)) => obs.push(format!("ERR#{}#{}", intro.num_frames(), errname(e))),
            Ok(Ok(res)) => {
                let frames: Vec<String> = res
                    .frames
                    .iter()
                    .map(|f| {
                        format!(
                            "F({},{},[{}])",
                            f.selected.map(|s| s.to_string()).unwrap_or("-".to_string()),
                            f.limit_reached as u8,
                            f.keyvals.iter().map(elem).collect::<Vec<_>>().join(";")
                        )
                    })
                    .collect();
                let tl = res.total_len();
                let mut idxs: Vec<usize> = (0..tl + 3).collect();
                idxs.extend_from_slice(extra_idx);
                let ti: Vec<String> = idxs
                    .iter()
                    .map(|&i| match catch_unwind(AssertUnwindSafe(|| res.total_index(i))) {
                        Err(_) => "P".to_string(),
                        Ok(None) => "-".to_string(),
                        Ok(Some(e)) => elem(&e),
                    })
                    .collect();
                obs.push(format!("OK#{}#{}#{}#{}", intro.num_frames(), tl, frames.join("/"), ti.join("/")));
            }
        }
    }
    format!("{} # {}", tree, obs.join(" | "))
}

pub fn run<T: Introspect>(op: &str, toks: &[&str], values: fn() -> Vec<T>) -> Option<String> {
    match op {
        // ty_introdump <validx>
        "ty_introdump" => {
            let vals = values();
            let mut s = String::new();
            let mut b = NODE_BUDGET;
            Some(match dump(&vals[toks[0].parse::<usize>().unwrap()], &mut b, &mut s) {
                Ok(()) => s,
                Err(()) => "TOOBIG".to_string(),
            })
        }
        // ty_introlen <validx>
        "ty_introlen" => {
            let vals = values();
            Some(len_report(&vals[toks[0].parse::<usize>().unwrap()]))
        }
        // ty_intronav <validx> <clc|-> <cmds>
        "ty_intronav" => {
            let vals = values();
            Some(nav(&vals[toks[0].parse::<usize>().unwrap()], toks[1], toks.get(2).copied().unwrap_or(""), &[usize::MAX, usize::MAX / 2]))
        }
        _ => None,
    }
}

fn len_report(o: &dyn Introspect) -> String {
    let mut nodes = 0;
    let mut bad = Vec::new();
    len_check(o, "", &mut nodes, &mut bad);
    if bad.is_empty() {
        format!("OK {}", nodes)
    } else {
        format!("MISMATCH {} {}", nodes, bad.join(" "))
    }
}

// ---------------- fixed corpus of library and derived types ----------------

#[derive(Savefile, Default, Clone)]
struct Leaf {
    a: u8,
    b: String,
}
#[derive(Savefile, Default, Clone)]
struct Mid {
    first: Leaf,
    second: Vec<Leaf>,
    third: Option<Leaf>,
    #[savefile_introspect_ignore]
    hidden: u32,
    fourth: (u8, Leaf),
}
#[derive(Savefile, Clone)]
enum En {
    Unit,
    Tup(u8, Leaf),
    Named { x: u16, y: Vec<u8> },
}
#[derive(Savefile, Clone)]
struct Top {
    #[savefile_introspect_key]
    name: String,
    mid: Mid,
    mids: Vec<Mid>,
    en: Vec<En>,
    tail: u64,
}
/// A hand-written Introspect with duplicate keys (disambiguators) and an empty-key child
struct Dups(Vec<(String, Leaf)>);
impl Introspect for Dups {
    fn introspect_value(&self) -> String {
        "dups".to_string()
    }
    fn introspect_child<'a>(&'a self, index: usize) -> Option<Box<dyn IntrospectItem<'a> + 'a>> {
        self.0.get(index).map(|(k, v)| introspect_item(k.clone(), v))
    }
}

fn leaf(a: u8) -> Leaf {
    Leaf { a, b: format!("s{}", a) }
}
fn mid(k: u8) -> Mid {
    Mid { first: leaf(k), second: (0..(k % 4)).map(leaf).collect(), third: if k % 2 == 0 { Some(leaf(k + 1)) } else { None }, hidden: 5, fourth: (k, leaf(9)) }
}

/// a std mutex poisoned by a thread that panicked while holding it
fn poisoned<T: Send + 'static>(x: T) -> std::sync::Mutex<T> {
    let m = std::sync::Arc::new(std::sync::Mutex::new(x));
    let m2 = m.clone();
    let _ = std::thread::spawn(move || {
        let _g = m2.lock().unwrap();
        panic!("poison");
    })
    .join();
    match std::sync::Arc::try_unwrap(m) {
        Ok(m) => m,
        Err(_) => panic!("mutex still shared"),
    }
}

pub fn fixed_names() -> Vec<&'static str> {
    vec![
        "top", "mid", "dups", "leaf", "u8", "string", "unit", "vec_empty", "vec_u8_3", "vec_vec", "opt_none", "opt_some_vec", "res_ok", "res_err",
        "tuple1", "tuple2", "tuple3", "tuple4", "array3", "array0", "array_10001", "vec_10001", "box_slice", "arc_slice", "arc_str", "boxed",
        "rc", "arc", "refcell", "std_mutex", "std_mutex_poisoned", "struct_with_poisoned_mutex", "vecdeque", "binheap", "btreemap0", "btreemap2", "btreemap_nested", "hashmap1", "hashset2", "btreeset3",
        "indexmap2", "indexset2", "smallvec", "arrayvec", "arraystring", "range", "ipaddr", "pathbuf", "cow", "bitvec", "bitset", "removed",
        "en_unit", "en_tup", "en_named", "phantom", "atomic", "f32", "char", "schema", "vec_btreemap", "opt_btreemap",
    ]
}

pub fn with_fixed<R>(name: &str, f: &mut dyn FnMut(&dyn Introspect) -> R) -> R {
    match name {
        "top" => f(&Top { name: "root".to_string(), mid: mid(2), mids: vec![mid(1), mid(3), mid(4)], en: vec![En::Unit, En::Tup(1, leaf(2)), En::Named { x: 3, y: vec![1, 2] }], tail: 77 }),
        "mid" => f(&mid(6)),
        "dups" => f(&Dups(vec![("k".to_string(), leaf(1)), ("k".to_string(), leaf(2)), ("".to_string(), leaf(3)), ("k".to_string(), leaf(4)), ("".to_string(), leaf(5))])),
        "leaf" => f(&leaf(1)),
        "u8" => f(&7u8),
        "string" => f(&"hello".to_string()),
        "unit" => f(&()),
        "vec_empty" => f(&Vec::<u32>::new()),
        "vec_u8_3" => f(&vec![1u8, 2, 3]),
        "vec_vec" => f(&vec![vec![1u16], vec![], vec![2, 3]]),
        "opt_none" => f(&Option::<Vec<u8>>::None),
        "opt_some_vec" => f(&Some(vec![leaf(1), leaf(2)])),
        "res_ok" => f(&Result::<Vec<u8>, String>::Ok(vec![1, 2])),
        "res_err" => f(&Result::<Vec<u8>, Leaf>::Err(leaf(3))),
        "tuple1" => f(&(leaf(1),)),
        "tuple2" => f(&(1u8, vec![2u8])),
        "tuple3" => f(&(1u8, leaf(2), 3u32)),
        "tuple4" => f(&(1u8, 2u8, leaf(3), vec![4u8])),
        "array3" => f(&[leaf(1), leaf(2), leaf(3)]),
        "array0" => f(&[0u8; 0]),
        "array_10001" => f(&[0u8; 10001]),
        "vec_10001" => f(&vec![0u8; 10001]),
        "box_slice" => f(&vec![leaf(1), leaf(2)].into_boxed_slice()),
        "arc_slice" => f(&std::sync::Arc::<[u16]>::from(vec![1u16, 2, 3])),
        "arc_str" => f(&std::sync::Arc::<str>::from("abc")),
        "boxed" => f(&Box::new(mid(1))),
        "rc" => f(&std::rc::Rc::new(vec![leaf(1)])),
        "arc" => f(&std::sync::Arc::new(mid(2))),
        "refcell" => f(&std::cell::RefCell::new(mid(2))),
        "std_mutex" => f(&std::sync::Mutex::new(vec![leaf(1), leaf(2)])),
        "std_mutex_poisoned" => f(&poisoned(vec![leaf(1), leaf(2)])),
        "struct_with_poisoned_mutex" => f(&(7u8, std::sync::Arc::new(poisoned(leaf(3))), vec![1u8, 2])),
        "vecdeque" => f(&VecDeque::from(vec![leaf(1), leaf(2)])),
        "binheap" => f(&BinaryHeap::from(vec![5u16, 1, 3])),
        "btreemap0" => f(&BTreeMap::<u8, u8>::new()),
        "btreemap2" => f(&BTreeMap::from([(1u32, "a".to_string()), (7, "bc".to_string())])),
        "btreemap_nested" => f(&BTreeMap::from([(1u8, vec![leaf(1)]), (2, vec![])])),
        "hashmap1" => f(&HashMap::from([(1u8, leaf(2))])),
        "hashset2" => f(&HashSet::from([77u32, 78])),
        "btreeset3" => f(&BTreeSet::from([1u8, 2, 9])),
        "indexmap2" => f(&indexmap::IndexMap::<u8, u16>::from_iter([(1u8, 2u16), (3, 4)])),
        "indexset2" => f(&indexmap::IndexSet::<u8>::from_iter([1u8, 3])),
        "smallvec" => f(&smallvec::SmallVec::<[u16; 4]>::from_vec(vec![1u16, 2, 3])),
        "arrayvec" => f(&{ let mut a = arrayvec::ArrayVec::<u32, 4>::new(); a.push(5); a.push(6); a }),
        "arraystring" => f(&arrayvec::ArrayString::<8>::from("hi").unwrap()),
        "range" => f(&(3u32..9u32)),
        "ipaddr" => f(&std::net::IpAddr::V4(std::net::Ipv4Addr::new(1, 2, 3, 4))),
        "pathbuf" => f(&std::path::PathBuf::from("/tmp/x")),
        "cow" => f(&std::borrow::Cow::<str>::Owned("cow".to_string())),
        "bitvec" => f(&bit_vec::BitVec::from_elem(5, true)),
        "bitset" => f(&{ let mut b = bit_set::BitSet::new(); b.insert(3); b }),
        "removed" => f(&Removed::<u32>::new()),
        "en_unit" => f(&En::Unit),
        "en_tup" => f(&En::Tup(1, leaf(2))),
        "en_named" => f(&En::Named { x: 3, y: vec![1, 2, 3] }),
        "phantom" => f(&std::marker::PhantomData::<u8>),
        "atomic" => f(&std::sync::atomic::AtomicU32::new(5)),
        "f32" => f(&1.5f32),
        "char" => f(&'x'),
        "schema" => f(&get_schema::<Top>(0)),
        "vec_btreemap" => f(&vec![BTreeMap::from([(1u8, 1u8)]), BTreeMap::new()]),
        "opt_btreemap" => f(&Some(BTreeMap::from([(1u8, vec![1u8])]))),
        _ => panic!("unknown fixed introspection value {}", name),
    }
}

pub fn dispatch(op: &str, toks: &[&str]) -> Option<String> {
    match op {
        "intro_names" => Some(fixed_names().join(" ")),
        "intro_dump" => Some(with_fixed(toks[0], &mut |o| {
            let mut s = String::new();
            let mut b = NODE_BUDGET;
            match dump(o, &mut b, &mut s) {
                Ok(()) => s,
                Err(()) => "TOOBIG".to_string(),
            }
        })),
        "intro_len" => Some(with_fixed(toks[0], &mut |o| len_report(o))),
        "intro_nav" => Some(with_fixed(toks[0], &mut |o| nav(o, toks[1], toks.get(2).copied().unwrap_or(""), &[usize::MAX, usize::MAX / 2]))),
        _ => None,
    }
}
