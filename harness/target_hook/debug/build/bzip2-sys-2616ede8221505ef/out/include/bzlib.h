
/*-------------------------------------------------------------*/
/*--- Public header file for the library.                   ---*/
/*---                                               bzlib.h ---*/
/*-------------------------------------------------------------*/

/* ------------------------------------------------------------------
   This file is part of bzip2/libbzip2, a program and library for
   lossless, block-sorting data compression.

   bzip2/libbzip2 version 1.0.8 of 13 July 2019
   Copyright (C) 1996-2019 Julian Seward <jseward@acm.org>

   Please read the WARNING, DISCLAIMER and PATENTS sections in the 
   README file.

   This program is released under the terms of the license contained
   in the file LICENSE.
   ------------------------------------------------------------------ */


#ifndef _BZLIB_H
#define _BZLIB_H

#ifdef __cplusplus
extern "C" {
#endif

#define BZ_RUN               0
#define BZ_FLUSH             1
#define BZ_FINISH            2

#define BZ_OK                0
#define BZ_RUN_OK            1
#define BZ_FLUSH_OK          2
#define BZ_FINISH_OK         3
#define BZ_STREAM_END        4
#define BZ_SEQUENCE_ERROR    (-1)
#define BZ_PARAM_ERROR       (-2)
#define BZ_MEM_ERROR         (-3)
#define BZ_DATA_ERROR        (-4)
#define BZ_DATA_ERROR_MAGIC  (-5)
#define BZ_IO_ERROR          (-6)
#define BZ_UNEXPECTED_EOF    (-7)
#define BZ_OUTBUFF_FULL      (-8)
#define BZ_CONFIG_ERROR      (-9)

typedef 
   struct {
      char *next_in;
      unsigned int avail_in;
      unsigned int total_in_lo32;
      unsigned int total_in_hi32;

      char *next_out;
      unsigned int avail_out;
      unsigned int total_out_lo32;
      unsigned int total_out_hi32;

      void *state;

      void *(*bzalloc)(void *,int,int);
      void (*bzfree)(void *,void *);
      void *opaque;
   } 
   bz_stream;


#ifndef BZ_IMPORT
#define BZ_EXPORT
#endif

#ifndef BZ_NO_STDIO
/* Need a definitition for FILE */
#include <stdio.h>
#endif

#ifdef _WIN32
#   include <windows.h>
#   ifdef small
      /* windows.h define small to char */
#      undef small
#   endif
#   ifdef BZ_EXPORT
#   define BZ_API(func) WINAPI func
#   define BZ_EXTERN extern
#   else
   /* import windows dll dynamically */
#   define BZ_API(func) (WINAPI * func)
#   define BZ_EXTERN
#   endif
#else
#   define BZ_API(func) func
#   define BZ_EXTERN extern
#endif


/*-- Core (low-level) library functions --*/

BZ_EXTERN int BZ_API(BZ2_bzCompressInit) ( 
      bz_stream* strm, 
      int        blockSize100k, 
      int        verbosity, 
      int        workFactor 
   );

BZ_EXTERN int BZ_API(BZ2_bzCompress) ( 
      bz_stream* strm, 
      int action 
   );

BZ_EXTERN int BZ_API(BZ2_bzCompressEnd) ( 
      bz_stream* strm 
   );

BZ_EXTERN int BZ_API(BZ2_bzDecompressInit) ( 
      bz_stream *strm, 
      int       verbosity, 
      int       small
   );

BZ_EXTERN int BZ_API(BZ2_bzDecompress) ( 
      bz_stream* strm 
   );

BZ_EXTERN int BZ_API(BZ2_bzDecompressEnd) ( 
      bz_stream *strm 
   );



/*-- High(er) level library functions --*/

#ifndef BZ_NO_STDIO
#define BZ_MAX_UNUSED 5000

typedef void BZFILE;

BZ_EXTERN BZFILE* BZ_API(BZ2_bzReadOpen) ( 
      int*  bzerror,   
      FILE* f, 
      int   verbosity, 
      int   small,
      void* unused,    
      int   nUnused 
   );

BZ_EXTERN void BZ_API(BZ2_bzReadClose) ( 
      int*    bzerror, 
      BZFILE* b 
   );

BZ_EXTERN void BZ_API(BZ2_bzReadGetUnused) ( 
      int*    bzerror, 
      BZFILE* b, 
      void**  unused,  
      int*    nUnused 
   );

BZ_EXTERN int BZ_API(BZ2_bzRead) ( 
      int*    bzerror, 
      BZFILE* b, 
      void*   buf, 
      int     len 
   );

BZ_EXTERN BZFILE* BZ_API(BZ2_bzWriteOpen) ( 
      int*  bzerror,      
      FILE* f, 
      int   blockSize100k, 
      int   verbosity, 
      int   workFactor 
   );

BZ_EXTERN void BZ_API(BZ2_bzWrite) ( 
      int*    bzerror, 
      BZFILE* b, 
      void*   buf, 
      int     len 
   );

BZ_EXTERN void BZ_API(BZ2_bzWriteClose) ( 
      int*          bzerror, 
      BZFILE*       b, 
      int           abandon, 
      unsigned int* nbytes_in, 
      unsigned int* nbytes_out 
   );

BZ_EXTERN void BZ_API(BZ2_bzWriteClose64) ( 
      int*          bzerror, 
      BZFILE*       b, 
      int           abandon, 
      unsigned int* nbytes_in_lo32, 
      unsigned int* nbytes_in_hi32, 
      unsigned int* nbytes_out_lo32, 
      unsigned int* nbytes_out_hi32
   );
#endif


/*-- Utility functions --*/

BZ_EXTERN int BZ_API(BZ2_bzBuffToBuffCompress) ( 
      char*         dest, 
      unsigned int* destLen,
      char*         source, 
      unsigned int  sourceLen,
      int           blockSize100k, 
      int           verbosity, 
      int           workFactor 
   );

BZ_EXTERN int BZ_API(BZ2_bzBuffToBuffDecompress) ( 
      char*         dest, 
      unsigned int* destLen,
      char*         source, 
      unsigned int  sourceLen,
      int           small, 
      int           verbosity 
   );


/*--
   Code contributed by Yoshioka Tsuneo (tsuneo@rr.iij4u.or.jp)
   to support better zlib compatibility.
   This code is not _officially_ part of libbzip2 (yet);
   I haven't tested it, documented it, or considered the
   threading-safeness of it.
   If this code breaks, please contact both Yoshioka and me.
--*/

BZ_EXTERN const char * BZ_API(BZ2_bzlibVersion) (
      void
   );

#ifndef BZ_NO_STDIO
BZ_EXTERN BZFILE * BZ_API(BZ2_bzopen) (
      const char *path,
      const char *mode
   );

BZ_EXTERN BZFILE * BZ_API(BZ2_bzdopen) (
      int        fd,
      const char *mode
   );
         
BZ_EXTERN int BZ_API(BZ2_bzread) (
      BZFILE* b, 
      void* buf, 
      int len 
   );

BZ_EXTERN int BZ_API(BZ2_bzwrite) (
      BZFILE* b, 
      void*   buf, 
      int     len 
   );

BZ_EXTERN int BZ_API(BZ2_bzflush) (
      BZFILE* b
   );

BZ_EXTERN void BZ_API(BZ2_bzclose) (
      BZFILE* b
   );

BZ_EXTERN const char * BZ_API(BZ2_bzerror) (
      BZFILE *b, 
      int    *errnum
   );
#endif

#ifdef __cplusplus
}
#endif

#endif

/*-------------------------------------------------------------*/
/*--- end                                           bzlib.h ---*/
/*-------------------------------------------------------------*/
