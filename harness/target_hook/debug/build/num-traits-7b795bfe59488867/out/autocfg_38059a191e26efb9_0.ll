; ModuleID = 'autocfg_38059a191e26efb9_0.c998604f2ae589ed-cgu.0'
source_filename = "autocfg_38059a191e26efb9_0.c998604f2ae589ed-cgu.0"
target datalayout = "e-m:e-p270:32:32-p271:32:32-p272:64:64-i64:64-i128:128-f80:128-n8:16:32:64-S128"
target triple = "x86_64-unknown-linux-gnu"

!llvm.module.flags = !{!0, !1}
!llvm.ident = !{!2}

!0 = !{i32 8, !"PIC Level", i32 2}
!1 = !{i32 2, !"RtLibUseGOT", i32 1}
!2 = !{!"rustc version 1.95.0 (59807616e 2026-04-14)"}
