; ModuleID = 'autocfg_38059a191e26efb9_1.69b4cdddd6ca474-cgu.0'
source_filename = "autocfg_38059a191e26efb9_1.69b4cdddd6ca474-cgu.0"
target datalayout = "e-m:e-p270:32:32-p271:32:32-p272:64:64-i64:64-i128:128-f80:128-n8:16:32:64-S128"
target triple = "x86_64-unknown-linux-gnu"

@alloc_f93507f8ba4b5780b14b2c2584609be0 = private unnamed_addr constant [8 x i8] c"\00\00\00\00\00\00\F0?", align 8
@alloc_ef0a1f828f3393ef691f2705e817091c = private unnamed_addr constant [8 x i8] c"\00\00\00\00\00\00\00@", align 8

; autocfg_38059a191e26efb9_1::probe
; Function Attrs: nonlazybind uwtable
define void @_ZN26autocfg_38059a191e26efb9_15probe17h73afd4f691f62b39E() unnamed_addr #0 {
start:
; call core::f64::<impl f64>::total_cmp
  %_1 = call i8 @"_ZN4core3f6421_$LT$impl$u20$f64$GT$9total_cmp17h0d2e2900a14f0e52E"(ptr align 8 @alloc_f93507f8ba4b5780b14b2c2584609be0, ptr align 8 @alloc_ef0a1f828f3393ef691f2705e817091c) #3
  ret void
}

; core::f64::<impl f64>::total_cmp
; Function Attrs: inlinehint nonlazybind uwtable
define internal i8 @"_ZN4core3f6421_$LT$impl$u20$f64$GT$9total_cmp17h0d2e2900a14f0e52E"(ptr align 8 %self, ptr align 8 %other) unnamed_addr #1 {
start:
  %_6 = alloca [8 x i8], align 8
  %_3 = alloca [8 x i8], align 8
  %_5 = load double, ptr %self, align 8
  %_4 = bitcast double %_5 to i64
  store i64 %_4, ptr %_3, align 8
  %_8 = load double, ptr %other, align 8
  %_7 = bitcast double %_8 to i64
  store i64 %_7, ptr %_6, align 8
  %_13 = load i64, ptr %_3, align 8
  %_12 = ashr i64 %_13, 63
  %_10 = lshr i64 %_12, 1
  %0 = load i64, ptr %_3, align 8
  %1 = xor i64 %0, %_10
  store i64 %1, ptr %_3, align 8
  %_18 = load i64, ptr %_6, align 8
  %_17 = ashr i64 %_18, 63
  %_15 = lshr i64 %_17, 1
  %2 = load i64, ptr %_6, align 8
  %3 = xor i64 %2, %_15
  store i64 %3, ptr %_6, align 8
  %4 = load i64, ptr %_3, align 8
  %5 = load i64, ptr %_6, align 8
  %_0 = call i8 @llvm.scmp.i8.i64(i64 %4, i64 %5)
  ret i8 %_0
}

; Function Attrs: nocallback nocreateundeforpoison nofree nosync nounwind speculatable willreturn memory(none)
declare range(i8 -1, 2) i8 @llvm.scmp.i8.i64(i64, i64) #2

attributes #0 = { nonlazybind uwtable "probe-stack"="inline-asm" "target-cpu"="x86-64" }
attributes #1 = { inlinehint nonlazybind uwtable "probe-stack"="inline-asm" "target-cpu"="x86-64" }
attributes #2 = { nocallback nocreateundeforpoison nofree nosync nounwind speculatable willreturn memory(none) }
attributes #3 = { inlinehint }

!llvm.module.flags = !{!0, !1}
!llvm.ident = !{!2}

!0 = !{i32 8, !"PIC Level", i32 2}
!1 = !{i32 2, !"RtLibUseGOT", i32 1}
!2 = !{!"rustc version 1.95.0 (59807616e 2026-04-14)"}
