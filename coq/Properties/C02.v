(* Properties/C02.v — wire-format conformance. The documented format IS the structural encoder [enc]
   (little-endian fixed-width primitives, usize as u64, 64-bit length prefixes, one-byte option/result
   tags, fields in declaration order, discriminant = variant index in the declared width) plus the
   header of [save_plain]. Statements only. *)
From SF Require Import Bytes Schema Ty TyProofs Packed PackedProofs HarnessTy Container.

(* the serializer as implemented, with all its fast paths, writes exactly the documented bytes *)
Theorem C02_format : forall v t x b, wf_ty t = true -> empty_struct_zst t = true -> regions_ok v t = true ->
  wf_layout t = true -> no_mixed_enum t = true -> has_ty t x = true -> enc v t x = Ok b -> impl_enc v t x = Ok (somes b).
Proof. exact impl_enc_is_enc. Qed.

(* header: magic, library format version, data version, compression flag, optional schema, payload *)
Theorem C02_header : forall s v payload,
  save_plain (Some s) v payload = [115; 97; 118; 101; 102; 105; 108; 101; 0] ++ le 2 2 ++ le 4 v ++ [0] ++ ser 2 s ++ payload
  /\ save_plain None v payload = [115; 97; 118; 101; 102; 105; 108; 101; 0] ++ le 2 2 ++ le 4 v ++ [0] ++ payload.
Proof. intros. unfold save_plain, header, MAGIC, LIBVER. rewrite <- !app_assoc. split; reflexivity. Qed.

(* data written by any build that meets the format is readable by this reader *)
Theorem C02_forward : forall v t x b, has_ty t x = true -> writable v t x = true -> enc v t x = Ok b ->
  forall r, dec v t (b ++ r) = Ok (norm v t x, r).
Proof. exact dec_enc_roundtrip. Qed.

(* discriminant: the variant index, little endian, in the declared width; width by repr, else 1/2/4 by count *)
Theorem C02_discr_width : forall n,
  dwidth None n = (if (N.of_nat n <=? 256)%N then 1 else if (N.of_nat n <=? 65536)%N then 2 else 4)%nat
  /\ dwidth (Some 1%N) n = 1%nat /\ dwidth (Some 2%N) n = 2%nat /\ dwidth (Some 4%N) n = 4%nat.
Proof. intros. repeat split; reflexivity. Qed.

Theorem C02_discr_index : forall v repr l voffs vs idx xs b,
  enc v (TEnum repr l voffs vs) (VVar idx xs) = Ok b ->
  firstn (dwidth repr (length vs)) b = le (dwidth repr (length vs)) idx.
Proof.
  intros v repr l voffs vs idx xs b H. rewrite enc_TEnum, pickg_nth in H.
  destruct (nth_error vs (N.to_nat idx)) as [vd|]; [|discriminate H].
  destruct (in_range (vd_from vd) (vd_to vd) v); [|discriminate H].
  destruct (eflds v (enc v) (vd_fields vd) xs) as [bb| | |]; try discriminate H.
  cbn [bind] in H. inversion H; subst b.
  rewrite firstn_app, le_length, Nat.sub_diag, firstn_all2 by (rewrite le_length; apply Nat.le_refl).
  cbn. apply app_nil_r.
Qed.
