(* Properties/C10.v — ABI version tolerance. Statements only.
   Arguments and (since fix F1) return values travel in the format of the effective version e = min(i, j);
   what the receiver sees is therefore given by the evolution theorems: the sender writes version e (C18),
   the receiver reads version e (C03). *)
From SF Require Import Bytes Schema Ty TyProofs Version VersionProofs Abi AbiProofs.

Theorem C10_negotiate : forall own callee, effective_version own callee = N.min own callee.
Proof. reflexivity. Qed.

(* sender at version n >= e writes format e; receiver built at version e reads it: later fields omitted,
   AbiRemoved fields filled with their constructed value *)
Theorem C10_newer_sender : forall base es k n lk ln xs b, valid_history base es = true -> (k <= n)%nat ->
  has_ty (TStruct ln (annotated base es n)) (VRec xs) = true ->
  enc (N.of_nat k) (TStruct ln (annotated base es n)) (VRec xs) = Ok b ->
  forall r, dec (N.of_nat k) (TStruct lk (annotated base es k)) (b ++ r)
    = Ok (VRec (fill (N.of_nat k) (annotated base es k)
                  (map (fun p => norm (N.of_nat k) (fst p) (snd p)) (wire_written (N.of_nat k) (annotated base es n) xs))), r).
Proof. exact write_old. Qed.

(* sender at version e writes its own format; receiver at version j >= e reads it: retained fields unchanged,
   fields it knows but the sender lacks take their defaults *)
Theorem C10_newer_receiver : forall base es k j lk lj xs b, valid_history base es = true -> (k <= j)%nat ->
  has_ty (TStruct lk (annotated base es k)) (VRec xs) = true ->
  writable (N.of_nat k) (TStruct lk (annotated base es k)) (VRec xs) = true ->
  enc (N.of_nat k) (TStruct lk (annotated base es k)) (VRec xs) = Ok b ->
  forall r, dec (N.of_nat k) (TStruct lj (annotated base es j)) (b ++ r)
    = Ok (VRec (fill (N.of_nat k) (annotated base es j)
                  (map (fun p => norm (N.of_nat k) (fst p) (snd p)) (wire_written (N.of_nat k) (annotated base es k) xs))), r).
Proof. exact load_old. Qed.

(* methods that exist on one side only do not prevent connecting: they are recorded as missing *)
Theorem C10_missing_method : forall ev ce cle cn cln ms cm,
  analyze ev ce cle cn cln = AOk ms -> In cm ms -> cm_callee cm = None ->
  find_method (cm_name cm) (td_methods cln) = None.
Proof. exact analyze_missing_method. Qed.
