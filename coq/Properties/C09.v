(* Properties/C09.v — ABI calls are transparent (PARTIAL). Statements only.
   What is proved: the argument/return buffer holds exactly the bytes written, whatever the chunking and on either
   side of the 64-byte inline/spill switch; a value serialized at the effective version is read back unchanged
   (this is the codec round trip). What is validated, not proved: call trees, drops, panics (differential execution). *)
From SF Require Import Bytes Schema Ty TyProofs Abi AbiProofs.

Theorem C09_flex : forall chunks, flex_contents (fold_left flex_write chunks (FStack [])) = concat chunks.
Proof. exact flex_contents_concat. Qed.

Theorem C09_flex_spill : forall chunks,
  (match fold_left flex_write chunks (FStack []) with FSpill _ => true | FStack _ => false end = true)
  -> (FLEX < N.of_nat (length (concat chunks)))%N.
Proof. exact flex_spill_iff. Qed.

Theorem C09_flex_inline_bound : forall chunks d, fold_left flex_write chunks (FStack []) = FStack d ->
  (N.of_nat (length d) <= FLEX)%N.
Proof. exact flex_stack_bound. Qed.

(* a serialized argument / return value arrives as the value that was sent (same version on both sides) *)
Theorem C09_transmit : forall v t x b, has_ty t x = true -> writable v t x = true -> enc v t x = Ok b ->
  dec v t (b ++ []) = Ok (norm v t x, []).
Proof. intros. apply dec_enc_roundtrip; assumption. Qed.
