(* Properties/C09.v — ABI calls are transparent (PARTIAL). Statements only.
   What is proved: the argument/return buffer holds exactly the bytes written, whatever the chunking and on either
   side of the 64-byte inline/spill switch; a value serialized at the effective version is read back unchanged
   (this is the codec round trip). What is validated, not proved: call trees, drops, panics (differential execution). *)
From SF Require Import AbiAgree Bytes Schema Ty TyProofs Abi AbiProofs.

Theorem C09_flex : forall chunks, flex_contents (fold_left flex_write chunks (FStack [])) = concat chunks.
Proof. exact flex_contents_concat. Qed.

Theorem C09_flex_spill : forall chunks,
  (match fold_left flex_write chunks (FStack []) with FSpill _ => true | FStack _ => false end = true)
  -> (FLEX < N.of_nat (length (concat chunks)))%N.
Proof. exact flex_spill_iff. Qed.

Theorem C09_flex_inline_bound : forall chunks d, fold_left flex_write chunks (FStack []) = FStack d ->
  (N.of_nat (length d) <= FLEX)%N.
Proof. exact flex_stack_bound. Qed.

(* a serialized argument / return value arrives as the value that was sent (same version on both sides) *)
Theorem C09_transmit : forall v t x b, has_ty t x = true -> writable v t x = true -> enc v t x = Ok b ->
  dec v t (b ++ []) = Ok (norm v t x, []).
Proof. intros. apply dec_enc_roundtrip; assumption. Qed.

(* any number of methods (fix F5): an interface of any size connects; the only size limit is 64 arguments per method *)
Theorem C09_any_number_of_methods : forall ev ce cle cn cln,
  (forall m, In m (td_methods cn) -> index_of_method (m_name m) (td_methods cln) = None) ->
  analyze ev ce cle cn cln = AOk (map (fun m => CM (m_name m) None 0) (td_methods cn)).
Proof. exact analyze_any_number_of_methods. Qed.
