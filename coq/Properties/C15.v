(* Properties/C15.v — the ABI compatibility ledger. Statements only. *)
From SF Require Import Bytes Schema Abi AbiProofs.

(* entries are written once (by the first revision that knew the version) and never change *)
Theorem C15_ledger_inv : forall defs d v d' r k t, ledger_run d defs v = (d', r) ->
  ledger_get d k = Some t -> ledger_get d' k = Some t.
Proof. exact ledger_first_writer_wins. Qed.

(* a run succeeds iff every recorded version is backward compatible with the definition at that version *)
Theorem C15_accept_iff : forall defs d v,
  snd (ledger_run d defs v) = VOk <->
  (forall i def old, nth_error defs i = Some def -> ledger_get d (v + N.of_nat i) = Some old -> verify_compat def old false = VOk).
Proof. exact ledger_accept_iff. Qed.

(* an unchanged interface passes on every later run and the directory no longer changes *)
Theorem C15_idempotent : forall defs d v d', Forall selfcompat defs ->
  ledger_run d defs v = (d', VOk) -> ledger_run d' defs v = (d', VOk).
Proof. exact ledger_idempotent. Qed.
Theorem C15_selfcompat_sync : forall t,
  nodup_names (map (fun m : method => m_name m) (td_methods t)) = true ->
  forallb (fun m : method => negb (m_async m) && refl_ok false (m_ret m) && forallb (refl_ok false) (m_args m)) (td_methods t) = true ->
  selfcompat t.
Proof. exact selfcompat_sync. Qed.

(* breaking changes are errors; added methods are accepted *)
Theorem C15_removed_method : forall new old om rp, In om (td_methods old) ->
  find_method (m_name om) (td_methods new) = None -> verify_compat new old rp <> VOk.
Proof. exact verify_compat_removed_method. Qed.
Theorem C15_arg_count : forall new old om nm rp, In om (td_methods old) ->
  find_method (m_name om) (td_methods new) = Some nm -> length (m_args nm) <> length (m_args om) ->
  verify_compat new old rp <> VOk.
Proof. exact verify_compat_arg_count. Qed.
Theorem C15_added_methods : forall old extra rp,
  verify_compat old old rp = VOk ->
  (forall m, In m extra -> find_method (m_name m) (td_methods old) = None) ->
  verify_compat (TD (td_name old) (td_methods old ++ extra) (td_sync old) (td_send old)) old rp = VOk.
Proof. exact verify_compat_added_methods. Qed.

(* known finding K10: an async method never matches its stored form *)
Theorem C15_async_refuted :
  let t := TD [84] [Meth [102] SZeroSize RShared [] true] false false in
  verify_compat t (store_form t) false = VErr.
Proof. exact selfcompat_async_refuted. Qed.
