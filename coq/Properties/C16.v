(* Properties/C16.v — connections may be created and used from many threads at once. Statements only.
   The theorems quantify over every schedule (list of scheduler choices) of the lock-level model Locks.v. *)
From Coq Require Import String.
From SF Require Import Bytes Locks LocksProofs LocksAgree.
From SFX Require Import Extracted.
Open Scope N_scope.

(* no deadlock: in every reachable state either every thread has finished or some thread can take a step *)
Theorem C16_no_deadlock : forall negotiate resolve progs sched,
  deadlocked negotiate resolve (run negotiate resolve sched (init progs)) = false.
Proof. exact no_deadlock. Qed.

(* a lock is held by at most one thread *)
Theorem C16_mutual_exclusion : forall negotiate resolve progs sched l i j,
  let g := run negotiate resolve sched (init progs) in
  (exists thi, nth_error (g_threads g) (N.to_nat i) = Some thi /\ In l (t_held thi)) ->
  (exists thj, nth_error (g_threads g) (N.to_nat j) = Some thj /\ In l (t_held thj)) -> i = j.
Proof. exact mutual_exclusion. Qed.

(* every step makes progress: all operations complete after at most work(init) effective steps *)
Theorem C16_steps_decrease : forall negotiate resolve g i g',
  step negotiate resolve g i = Some g' -> (work g' < work g)%nat.
Proof. exact step_decreases. Qed.
Theorem C16_termination : forall negotiate resolve progs sched,
  (steps_taken negotiate resolve sched (init progs) <= work (init progs))%nat.
Proof. exact termination. Qed.

(* the same results as when performed one after another: when no negotiation panics, every completed operation's
   result is a function of the operation alone, under every interleaving *)
Theorem C16_results_schedule_independent : forall negotiate resolve progs sched,
  (forall k, negotiate k <> NPanic) ->
  let g := run negotiate resolve sched (init progs) in
  forall i o r, In (i, o, r) (g_log g) -> r = spec_result negotiate resolve o.
Proof. exact results_schedule_independent. Qed.

(* in general (including panicking negotiations, which poison the template cache for every later creation):
   the results are those of the sequential specification run in the order in which the operations took effect *)
Theorem C16_linearizable : forall negotiate resolve progs sched,
  let g := run negotiate resolve sched (init progs) in
  log_results g = seq_run negotiate resolve (SS false false [] []) (log_ops g).
Proof. exact linearizable. Qed.
Theorem C16_per_thread_results : forall negotiate resolve progs sched i th,
  let g := run negotiate resolve sched (init progs) in
  nth_error (g_threads g) (N.to_nat i) = Some th ->
  rev (t_results th) = map snd (filter (fun e => fst (fst e) =? i) (rev (g_log g))).
Proof. exact per_thread_results. Qed.

(* the lock order of the model, and of the source as extracted on this run, is acyclic and never re-acquires *)
Theorem C16_lock_order : acyclic [SEQ_GET_SYMBOL; SEQ_NEW_INTERNAL] = true /\
                         no_reacquire [SEQ_GET_SYMBOL; SEQ_NEW_INTERNAL] = true.
Proof. exact lock_order_acyclic. Qed.
Theorem C16_source_lock_order :
  x_seqs = [("get_symbol_for"%string, Some SEQ_GET_SYMBOL, false); ("new_internal"%string, Some SEQ_NEW_INTERNAL, false)]
  /\ acyclic x_lk_seqs = true /\ no_reacquire x_lk_seqs = true.
Proof. exact (conj x_lock_sequences_agree x_lock_order_acyclic). Qed.

(* the thread-safety contract the theorems above are used under: a connection is shareable between threads (Sync)
   only if the interface is Sync, sendable only if it is Send (as the source states it on this run) *)
Theorem C16_source_send_sync_bounds : x_conn_sync_requires = "Sync"%string /\ x_conn_send_requires = "Send"%string.
Proof. exact x_conn_bounds. Qed.
