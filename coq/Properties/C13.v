(* Properties/C13.v — Schema values persist exactly; comparison is reflexive and complete.
   Statements only: each theorem is closed by [exact] of a lemma proved in theories/. *)
From SF Require Import Bytes Schema SchemaProofs SchemaProofs3 ExtractedAgree.

(* any schema value survives write + read at library format 2 (and exactly its bytes are consumed) *)
Theorem C13_rt2 : forall s, wfs s = true -> forall r, de_top 2 (ser 2 s ++ r) = Ok (s, r).
Proof. exact de_ser_rt2. Qed.

(* ... and at format 1, for what format 1 can express *)
Theorem C13_rt1 : forall s, wfs s = true -> v1_expressible s = true ->
  forall r, de_top 1 (ser 1 s ++ r) = Ok (s, r).
Proof. exact de_ser_rt1. Qed.

(* format-0 sections decode to the schema minus memory-layout annotations *)
Theorem C13_v0 : forall s, wfs s = true -> v0_expressible s = true ->
  forall r, de_top 0 (ser0 s ++ r) = Ok (strip s, r).
Proof. exact de_ser0_strip. Qed.

(* comparing a schema with itself reports no difference *)
Theorem C13_refl : forall s rp, refl_ok rp s = true -> diff s s rp = DSame.
Proof. exact diff_refl. Qed.

(* completeness: whenever the wire shapes differ, a difference is reported *)
Theorem C13_complete : forall a b rp, data_frag a = true -> data_frag b = true ->
  shape a <> shape b -> diff a b rp <> DSame.
Proof. intros a b rp Ha Hb Hne Hd. apply Hne. exact (diff_same_shape a b rp Ha Hb Hd). Qed.

Theorem C13_shape_iff : forall a b rp, data_frag a = true -> data_frag b = true ->
  (diff a b rp = DSame <-> shape a = shape b).
Proof. intros a b rp Ha Hb. split; [apply diff_same_shape | apply shape_diff_same]; assumption. Qed.

(* the single edits the property lists, as corollaries of completeness *)
Theorem C13_prim_changed : forall p q rp, prim_tag p <> prim_tag q -> diff (SPrim p) (SPrim q) rp <> DSame.
Proof.
  intros p q rp H. apply C13_complete; try reflexivity. cbn. intros E. inversion E. contradiction.
Qed.

Theorem C13_field_added : forall n sz al fs f rp,
  data_frag (SStruct n sz al fs) = true -> data_frag (f_val f) = true ->
  diff (SStruct n sz al (fs ++ [f])) (SStruct n sz al fs) rp <> DSame
  /\ diff (SStruct n sz al fs) (SStruct n sz al (fs ++ [f])) rp <> DSame.
Proof.
  intros n sz al fs f rp Hs Hf.
  assert (Hs' : data_frag (SStruct n sz al (fs ++ [f])) = true).
  { cbn in *. rewrite forallb_app, Hs. cbn. now rewrite Hf. }
  assert (Hne : shape (SStruct n sz al (fs ++ [f])) <> shape (SStruct n sz al fs)).
  { cbn. intros E. inversion E as [E']. apply (f_equal (@List.length shp)) in E'.
    rewrite !map_length, app_length in E'. cbn in E'. lia. }
  split; apply C13_complete; auto.
Qed.

Theorem C13_array_len_changed : forall s c c' rp, data_frag s = true -> c <> c' ->
  diff (SArray s c) (SArray s c') rp <> DSame.
Proof.
  intros s c c' rp Hs Hc. apply C13_complete; auto. cbn. intros E. inversion E. contradiction.
Qed.

Lemma shape_not_option_self : forall s, shape s <> HOption (shape s).
Proof.
  intros s. generalize (shape s). intros h. induction h; intros E; try discriminate.
  inversion E as [E']. auto.
Qed.
Lemma shape_not_vector_self : forall s, shape s <> HVector (shape s).
Proof.
  intros s. generalize (shape s). intros h. induction h; intros E; try discriminate.
  inversion E as [E']. auto.
Qed.

Theorem C13_option_wrapped : forall s rp, data_frag s = true ->
  diff (SOption s) s rp <> DSame /\ diff s (SOption s) rp <> DSame.
Proof.
  intros s rp Hs. split; apply C13_complete; auto; cbn; intros E;
    [symmetry in E|]; exact (shape_not_option_self s E).
Qed.

Theorem C13_vector_wrapped : forall s l rp, data_frag s = true ->
  diff (SVector s l) s rp <> DSame /\ diff s (SVector s l) rp <> DSame.
Proof.
  intros s l rp Hs. split; apply C13_complete; auto; cbn; intros E;
    [symmetry in E|]; exact (shape_not_vector_self s E).
Qed.

Theorem C13_width_changed : forall n vs d d' r r' sz sz' al al' rp,
  data_frag (SEnum n vs d r sz al) = true -> d <> d' ->
  diff (SEnum n vs d r sz al) (SEnum n vs d' r' sz' al') rp <> DSame.
Proof.
  intros n vs d d' r r' sz sz' al al' rp Hs Hd. apply C13_complete; auto.
  cbn. intros E. inversion E. contradiction.
Qed.

(* ---- known findings: the faithful model does not satisfy the unrestricted statements ---- *)

(* K10s: format 1 stores neither receiver nor async flag *)
Definition k10_witness : schema :=
  STrait false (TD [84] [Meth [102] SZeroSize RMut [] false] false false).
Theorem C13_rt1_refuted :
  wfs k10_witness = true /\ de_top 1 (ser 1 k10_witness) <> Ok (k10_witness, []).
Proof. split; [vm_compute; reflexivity | vm_compute; discriminate]. Qed.

(* K7: Undefined differs from itself; a Future outside return position panics *)
Theorem C13_refl_refuted_undefined :
  diff SUndefined SUndefined false = DDiff
  /\ diff (SFuture (TD [84] [] false false) false false false)
          (SFuture (TD [84] [] false false) false false false) false = DPanic.
Proof. split; reflexivity. Qed.

(* since fix F17: a stored trait name with an unknown "+segment" is rejected with an error (it used to panic) *)
Theorem C13_trait_plus_rejected :
  de_top 2 ([15; 1] ++ enc_string [84; 43; 70; 111; 111] ++ enc_usize 0) = Err EGeneral.
Proof. vm_compute. reflexivity. Qed.

(* ... and, since that fix, the schema reader never panics: on ANY bytes, at any format version *)
Theorem C13_reader_no_panic : forall fv bs, de_top fv bs <> Panic.
Proof. exact de_top_no_panic. Qed.

(* the model's tag tables, gates and limits are those of /repo's current source *)
Theorem C13_tables_agree : schema_tables_agree_stmt.
Proof. exact schema_tables_agree. Qed.

Theorem C13_gates_agree : schema_gates_agree_stmt.
Proof. exact gates_agree. Qed.

(* non-vacuity: a non-trivial schema satisfies every hypothesis used above *)
Definition ex_schema : schema :=
  SStruct [97] (Some 16) (Some 8)
    [Fld [120] (SPrim Pu32) (Some 0);
     Fld [121] (SEnum [69] [Var [65] 0 []; Var [66] 1 [Fld [122] (SVector (SPrim (Pstring VL1)) VL2) None]] 1 true (Some 32) (Some 8)) (Some 8)].
Example C13_hypotheses_satisfiable :
  wfs ex_schema = true /\ v1_expressible ex_schema = true /\ v0_expressible ex_schema = true
  /\ refl_ok false ex_schema = true /\ data_frag ex_schema = true.
Proof. vm_compute. repeat split. Qed.
