(* Properties/C12.v — schemas are faithful. Statements only. *)
From SF Require Import Bytes Schema Ty TyProofs SchemaOf SchemaOfProofs.

(* a generic reader driven only by the reported schema parses the written bytes completely (the remainder is
   untouched) and recovers the value's structure: field count and order, primitive widths, sequence lengths,
   variant discriminants *)
Theorem C12_faithful : forall v t x b, faithful_class t = true -> has_ty t x = true -> enc v t x = Ok b ->
  forall r, sread (schema_of v t) (b ++ r) = Ok (tree_of v t x, r).
Proof. exact sread_faithful. Qed.

(* non-recursive types never yield recursion markers (every type of the universe is non-recursive) *)
Theorem C12_no_spurious_recursion : forall v t, no_recursion_marker (schema_of v t) = true.
Proof. exact schema_of_no_recursion. Qed.

(* known findings K4 and K14: the faithful model refutes the unrestricted statement *)
Theorem C12_refuted_result :
  has_ty (TResult (TInt U8) (TInt U16)) (VOk (VInt 5)) = true /\ enc 0 (TResult (TInt U8) (TInt U16)) (VOk (VInt 5)) = Ok [1; 5]
  /\ sread (schema_of 0 (TResult (TInt U8) (TInt U16))) [1; 5] = Err EGeneral.
Proof. exact sread_refuted_result. Qed.
Theorem C12_refuted_wide_enum :
  has_ty wide_enum (VVar 256 []) = true /\ enc 0 wide_enum (VVar 256 []) = Ok [0; 1]
  /\ sread (schema_of 0 wide_enum) [0; 1] <> Ok (tree_of 0 wide_enum (VVar 256 []), []).
Proof. exact sread_refuted_wide_enum. Qed.

(* non-vacuity *)
Definition ex_ty12 : ty :=
  TStruct (Lay 16 8 [0; 8] false)
    [FD (TVec (TOption (TInt I16))) 0 None FNormal VUnit;
     FD (TEnum (Some 2%N) (Lay 4 2 [] false) [[]; [2]] [VD 0 None []; VD 1 None [FD (TInt U16) 0 None FNormal VUnit]]) 0 None FNormal VUnit].
Example C12_hypotheses_satisfiable :
  faithful_class ex_ty12 = true
  /\ has_ty ex_ty12 (VRec [VSeq [VSome (VInt (-2)); VNone]; VVar 1 [VInt 9]]) = true
  /\ exists b, enc 1 ex_ty12 (VRec [VSeq [VSome (VInt (-2)); VNone]; VVar 1 [VInt 9]]) = Ok b.
Proof. repeat split; try (vm_compute; reflexivity). eexists. vm_compute. reflexivity. Qed.
