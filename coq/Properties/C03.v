(* Properties/C03.v — backward-compatible loading across schema evolution. Statements only. *)
From SF Require Import Bytes Ty TyProofs Version VersionProofs.

(* what is on the wire at version k does not depend on how far the program has evolved since *)
Theorem C03_wire_invariant : forall base es k j, valid_history base es = true -> (k <= j)%nat ->
  wire_tys (N.of_nat k) (annotated base es j) = wire_tys (N.of_nat k) (annotated base es k).
Proof. exact wire_invariant. Qed.

(* a reader whose field list expects the same wire types as the writer's obtains exactly the written values:
   removed fields are skipped without disturbing their neighbours, absent fields take their defaults *)
Theorem C03_fields_transfer : forall v fsW fsR xs b,
  map fst (wire_written v fsW xs) = wire_tys v fsR ->
  Forall (fun p => has_ty (fst p) (snd p) = true /\ writable v (fst p) (snd p) = true) (wire_written v fsW xs) ->
  eflds v (enc v) fsW xs = Ok b ->
  forall r, dflds v (dec v) fsR (b ++ r) = Ok (fill v fsR (map (fun p => norm v (fst p) (snd p)) (wire_written v fsW xs)), r).
Proof. exact fields_transfer. Qed.

(* data saved by the version-k program loads in the version-j program, for every valid history, every k <= j,
   every value: kept fields keep their saved values, removed ones vanish, added ones take their defaults *)
Theorem C03_load_old : forall base es k j lk lj xs b, valid_history base es = true -> (k <= j)%nat ->
  has_ty (TStruct lk (annotated base es k)) (VRec xs) = true ->
  writable (N.of_nat k) (TStruct lk (annotated base es k)) (VRec xs) = true ->
  enc (N.of_nat k) (TStruct lk (annotated base es k)) (VRec xs) = Ok b ->
  forall r, dec (N.of_nat k) (TStruct lj (annotated base es j)) (b ++ r)
    = Ok (VRec (fill (N.of_nat k) (annotated base es j)
                  (map (fun p => norm (N.of_nat k) (fst p) (snd p)) (wire_written (N.of_nat k) (annotated base es k) xs))), r).
Proof. exact load_old. Qed.

Theorem C03_history_example :
  let base := [FD (TInt U8) 0 None FNormal VUnit; FD TString 0 None FNormal VUnit] in
  let es := [EAdd 1 (TInt U32) (VInt 7); ERemove 0 true] in
  valid_history base es = true
  /\ (exists b, enc 0 (TStruct (Lay 0 0 [] false) (annotated base es 0)) (VRec [VInt 5; VStr [104]]) = Ok b
      /\ dec 0 (TStruct (Lay 0 0 [] false) (annotated base es 2)) b = Ok (VRec [VUnit; VInt 7; VStr [104]], [])).
Proof. exact history_example. Qed.
