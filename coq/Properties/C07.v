(* Properties/C07.v — truncated data is never accepted as different data. Statements only. *)
From SF Require Import Bytes Ty TyProofs.

(* every read is exact: success is stable under extension of the input *)
Theorem C07_extend : forall v t bs y r e, dec v t bs = Ok (y, r) -> dec v t (bs ++ e) = Ok (y, r ++ e).
Proof. exact dec_extend. Qed.

(* no strict prefix of a payload decodes: a cut at any byte is an error (or a panic-free failure),
   never a value *)
Theorem C07_payload_truncated : forall v t x b, has_ty t x = true -> writable v t x = true -> enc v t x = Ok b ->
  forall k, (k < length b)%nat -> forall y r, dec v t (firstn k b) <> Ok (y, r).
Proof. exact dec_truncated. Qed.

(* the reader always terminates with Ok / Err: it cannot run out of fuel on any input (for definitions
   whose sequence elements occupy at least one byte) *)
Theorem C07_total : forall v t bs, nonempty_elems v t = true -> dec v t bs <> OutOfFuel.
Proof. exact dec_no_outoffuel_weak. Qed.

(* ---- containers ---- *)
From SF Require Import Schema SchemaProofs HarnessTy Container ContainerProofs.

Theorem C07_noschema : forall cur v t x b, (v <= cur)%N -> (v < 4294967296)%N ->
  has_ty t x = true -> writable v t x = true -> enc v t x = Ok b ->
  forall k, (k < length (save_plain None v b))%nat -> forall y r,
  load_plain None cur t (firstn k (save_plain None v b)) <> Ok (y, r).
Proof. exact load_truncated_noschema. Qed.

Theorem C07_plain : forall (ms : N -> schema) cur v t x b, (v <= cur)%N -> (v < 4294967296)%N ->
  has_ty t x = true -> writable v t x = true -> enc v t x = Ok b ->
  wfs (ms v) = true -> refl_ok false (ms v) = true ->
  forall k, (k < length (save_plain (Some (ms v)) v b))%nat -> forall y r,
  load_plain (Some ms) cur t (firstn k (save_plain (Some (ms v)) v b)) <> Ok (y, r).
Proof. exact load_truncated_plain. Qed.

(* compressed: for any codec whose strict stream prefixes yield plaintext prefixes without a clean end,
   a truncated file is an error or (only trailing container bytes missing) the same value *)
Theorem C07_bzip2 : forall (compress : bytes -> bytes) (decompress : bytes -> bytes * bool),
  (forall p k, (k < length (compress p))%nat ->
     exists q rest, decompress (firstn k (compress p)) = (q, false) /\ p = q ++ rest) ->
  forall (ms : N -> schema) cur v t x b, (v <= cur)%N -> (v < 4294967296)%N ->
  has_ty t x = true -> writable v t x = true -> enc v t x = Ok b ->
  wfs (ms v) = true -> refl_ok false (ms v) = true ->
  forall k, (k < length (save_compressed compress (Some (ms v)) v b))%nat -> forall y r,
  load_compressed decompress (Some ms) cur t (firstn k (save_compressed compress (Some (ms v)) v b)) = Ok (y, r) ->
  y = norm v t x.
Proof. exact load_truncated_compressed. Qed.
