(* Properties/C05.v — schema and header gate. Statements only. *)
From SF Require Import Bytes Schema SchemaProofs SchemaProofs2 Ty TyProofs HarnessTy Container ContainerProofs.

(* the comparison that guards load: no difference reported iff the wire shapes agree
   (struct / field names and memory annotations are not significant, variant names are) *)
Theorem C05_diff_iff_shape : forall a b rp, data_frag a = true -> data_frag b = true ->
  (diff a b rp = DSame <-> shape a = shape b).
Proof. intros a b rp Ha Hb. split; [apply diff_same_shape | apply shape_diff_same]; assumption. Qed.

(* a file whose stored schema differs from the loading type's schema is rejected with a schema error,
   whatever the payload bytes are: the payload is not interpreted *)
Theorem C05_reject : forall (ms : N -> schema) cur v s t payload, (v <= cur)%N -> (v < 4294967296)%N ->
  wfs s = true -> diff (ms v) s false = DDiff ->
  load_plain (Some ms) cur t (save_plain (Some s) v payload) = Err ESchema.
Proof. exact load_schema_reject. Qed.

Theorem C05_reject_by_shape : forall (ms : N -> schema) cur v s t payload, (v <= cur)%N -> (v < 4294967296)%N ->
  wfs s = true -> data_frag (ms v) = true -> data_frag s = true -> shape (ms v) <> shape s ->
  load_plain (Some ms) cur t (save_plain (Some s) v payload) = Err ESchema.
Proof.
  intros ms cur v s t payload Hv Hv2 Hw Ha Hb Hne.
  destruct (diff (ms v) s false) eqn:D.
  - exfalso. apply Hne. exact (diff_same_shape _ _ _ Ha Hb D).
  - exact (load_schema_reject ms cur v s t payload Hv Hv2 Hw D).
  - exfalso. exact (diff_data_no_panic _ _ _ Ha Hb D).
Qed.

(* when the shapes agree, load goes on to the payload: accepted *)
Theorem C05_accept : forall (ms : N -> schema) cur v s t payload, (v <= cur)%N -> (v < 4294967296)%N ->
  wfs s = true -> data_frag (ms v) = true -> data_frag s = true -> shape (ms v) = shape s ->
  load_plain (Some ms) cur t (save_plain (Some s) v payload) = dec v t payload.
Proof.
  intros ms cur v s t payload Hv Hv2 Hw Ha Hb He.
  apply load_schema_accept; auto. apply shape_diff_same; assumption.
Qed.

(* the header gate *)
Theorem C05_bad_magic : forall ms cur t bs h r, take_exact 9 bs = Ok (h, r) -> h <> MAGIC ->
  load_plain ms cur t bs = Err EGeneral.
Proof. exact load_bad_magic. Qed.
Theorem C05_short_header : forall ms cur t bs, (length bs < 16)%nat -> exists e, load_plain ms cur t bs = Err e.
Proof. exact load_short_header. Qed.
Theorem C05_future_lib : forall ms cur t libver rest, (LIBVER < libver)%N -> (libver < 65536)%N ->
  load_plain ms cur t (MAGIC ++ le 2 libver ++ rest) = Err EGeneral.
Proof. exact load_future_lib. Qed.
Theorem C05_future_data : forall ms cur t libver filever rest, (libver <= LIBVER)%N -> (cur < filever)%N -> (filever < 4294967296)%N ->
  load_plain ms cur t (MAGIC ++ le 2 libver ++ le 4 filever ++ rest) = Err EWrongVersion.
Proof. exact load_future_data. Qed.
