(* Properties/C01.v — round-trip fidelity. Statements only. *)
From SF Require Import Bytes Ty TyProofs.

(* every well-typed value that may be written at version v has an encoding *)
Theorem C01_enc_total : forall v t x, has_ty t x = true -> writable v t x = true -> exists b, enc v t x = Ok b.
Proof. exact enc_total. Qed.

(* load(save(x)) returns x (absent / ignored fields take their defaults, [norm]) and consumes exactly
   the bytes that were written: whatever follows is left untouched *)
Theorem C01_roundtrip : forall v t x b, has_ty t x = true -> writable v t x = true ->
  enc v t x = Ok b -> forall r, dec v t (b ++ r) = Ok (norm v t x, r).
Proof. exact dec_enc_roundtrip. Qed.

(* the encoding is injective up to [norm]: two values with equal bytes load as equal values *)
Theorem C01_injective : forall v t x y b, has_ty t x = true -> writable v t x = true ->
  has_ty t y = true -> writable v t y = true -> enc v t x = Ok b -> enc v t y = Ok b -> norm v t x = norm v t y.
Proof.
  intros v t x y b Hx Wx Hy Wy Ex Ey.
  pose proof (dec_enc_roundtrip v t x b Hx Wx Ex []) as R1.
  pose proof (dec_enc_roundtrip v t y b Hy Wy Ey []) as R2.
  rewrite R1 in R2. inversion R2. reflexivity.
Qed.

(* what the code itself rejects: a Removed field that exists at the written version panics *)
Definition removed_present : ty :=
  TStruct (Lay 1 1 [0; 1] false) [FD (TInt U8) 0 None FNormal VUnit; FD (TInt U8) 0 (Some 3) FRemoved VUnit].
Theorem C01_unwritable_panics :
  writable 2 removed_present (VRec [VInt 1; VUnit]) = false /\ enc 2 removed_present (VRec [VInt 1; VUnit]) = Panic
  /\ writable 4 removed_present (VRec [VInt 1; VUnit]) = true.
Proof. repeat split; vm_compute; reflexivity. Qed.

(* non-vacuity: a nested value with a removed field, an added field with a default, an enum, floats *)
Definition ex_ty : ty :=
  TStruct (Lay 24 8 [0; 8; 8; 16] false)
    [FD (TInt U32) 0 None FNormal VUnit;
     FD (TInt U16) 0 (Some 1) FRemoved VUnit;
     FD (TVec (TEnum None (Lay 8 4 [] false) [[]; [4]] [VD 0 None []; VD 0 None [FD TF32 0 None FNormal VUnit]])) 0 None FNormal VUnit;
     FD (TOption TString) 2 None FNormal VNone].
Definition ex_val : val :=
  VRec [VInt 7; VUnit; VSeq [VVar 0 []; VVar 1 [VInt 2143289344]]; VSome (VStr [104; 105])].
Example C01_hypotheses_satisfiable :
  has_ty ex_ty ex_val = true /\ writable 2 ex_ty ex_val = true /\ writable 3 ex_ty ex_val = true
  /\ (exists b, enc 3 ex_ty ex_val = Ok b /\ dec 3 ex_ty (b ++ [9]) = Ok (ex_val, [9])).
Proof.
  repeat split; try (vm_compute; reflexivity).
  eexists. split; vm_compute; reflexivity.
Qed.

(* ---- containers ---- *)
From SF Require Import Schema SchemaProofs HarnessTy Container ContainerProofs.

(* at the current version of a definition without removed / ignored fields the value comes back unchanged *)
Theorem C01_identity : forall v t x, all_present v t = true -> has_ty t x = true -> norm v t x = x.
Proof. exact norm_id. Qed.

Theorem C01_container_noschema : forall cur v t x b r, (v <= cur)%N -> (v < 4294967296)%N ->
  has_ty t x = true -> writable v t x = true -> enc v t x = Ok b ->
  load_plain None cur t (save_plain None v b ++ r) = Ok (norm v t x, r).
Proof. exact load_save_noschema. Qed.

Theorem C01_container_plain : forall (ms : N -> schema) cur v t x b r, (v <= cur)%N -> (v < 4294967296)%N ->
  has_ty t x = true -> writable v t x = true -> enc v t x = Ok b ->
  wfs (ms v) = true -> refl_ok false (ms v) = true ->
  load_plain (Some ms) cur t (save_plain (Some (ms v)) v b ++ r) = Ok (norm v t x, r).
Proof. exact load_save_plain. Qed.

(* compressed container, for any codec with decompress (compress p) = (p, clean end) *)
Theorem C01_container_bzip2 : forall (compress : bytes -> bytes) (decompress : bytes -> bytes * bool),
  (forall p, decompress (compress p) = (p, true)) ->
  forall (ms : N -> schema) cur v t x b, (v <= cur)%N -> (v < 4294967296)%N ->
  has_ty t x = true -> writable v t x = true -> enc v t x = Ok b ->
  wfs (ms v) = true -> refl_ok false (ms v) = true ->
  load_compressed decompress (Some ms) cur t (save_compressed compress (Some (ms v)) v b) = Ok (norm v t x, []).
Proof. exact load_save_compressed. Qed.
