(* Properties/C18.v — writing an older version yields data the older definition reads. Statements only. *)
From SF Require Import Bytes Ty TyProofs Version VersionProofs.

Theorem C18_write_old : forall base es k n lk ln xs b, valid_history base es = true -> (k <= n)%nat ->
  has_ty (TStruct ln (annotated base es n)) (VRec xs) = true ->
  enc (N.of_nat k) (TStruct ln (annotated base es n)) (VRec xs) = Ok b ->
  forall r, dec (N.of_nat k) (TStruct lk (annotated base es k)) (b ++ r)
    = Ok (VRec (fill (N.of_nat k) (annotated base es k)
                  (map (fun p => norm (N.of_nat k) (fst p) (snd p)) (wire_written (N.of_nat k) (annotated base es n) xs))), r).
Proof. exact write_old. Qed.

(* removal by plain Removed<T> makes writing the old version panic, as designed (AbiRemoved is the supported way) *)
Theorem C18_removed_panics :
  let base := [FD (TInt U8) 0 None FNormal VUnit; FD (TInt U16) 0 None FNormal VUnit] in
  let es := [ERemove 1 false] in
  valid_history base es = true /\
  enc 0 (TStruct (Lay 1 1 [0;1] false) (annotated base es 1)) (VRec [VInt 3; VUnit]) = Panic.
Proof. exact write_old_removed_panics. Qed.

(* the packed fast path is never taken at a version whose wire layout differs from the memory layout:
   when a struct is declared packed at v, every live field is written at v and no removed one is *)
From SF Require Import Packed PackedProofs.
Theorem C18_min_safe : forall v l fs, packed v (TStruct l fs) = true -> wf_ty (TStruct l fs) = true ->
  forall f, In f fs -> (is_removed f = true -> present v f = false) /\ (is_removed f = false -> present v f = true).
Proof. exact packed_version_gate. Qed.
