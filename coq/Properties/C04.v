(* Properties/C04.v — the packed fast path is transparent and only taken for padding-free layouts.
   Statements only. Hypotheses: [wf_ty] (what the derive accepts / the documented evolution rules),
   [wf_layout] (what the compiler guarantees about the probed layout facts), [empty_struct_zst]
   (a field-less struct is zero-sized), [regions_ok] (tuples/arrays taking part in a deferred region are
   themselves tight at that version) and [no_mixed_enum] (excludes known finding K13). The correspondence
   check evaluates all of them on every generated definition with its real layout. *)
From SF Require Import Bytes Ty TyProofs Packed PackedProofs.

(* yes => no padding, fields in wire order, byte identity at that version *)
Theorem C04_packed_sound : forall v t x b, packed v t = true -> wf_ty t = true -> empty_struct_zst t = true ->
  wf_layout t = true -> no_mixed_enum t = true -> has_ty t x = true -> enc v t x = Ok b -> mem t x = Some (somes b).
Proof. exact packed_sound. Qed.

Theorem C04_image_size : forall v t x m, packed v t = true -> wf_layout t = true -> no_mixed_enum t = true ->
  has_ty t x = true -> mem t x = Some m -> length m = N.to_nat (size_of t).
Proof. exact mem_length_packed. Qed.

(* transparency: the serializer as implemented — whole-struct raw writes, deferred same-alignment regions,
   bulk copies of Vec / slice / array elements — writes exactly the field-by-field bytes *)
Theorem C04_transparent_write : forall v t x b, wf_ty t = true -> empty_struct_zst t = true -> regions_ok v t = true ->
  wf_layout t = true -> no_mixed_enum t = true -> has_ty t x = true -> enc v t x = Ok b -> impl_enc v t x = Ok (somes b).
Proof. exact impl_enc_is_enc. Qed.

(* ... hence reading them back field by field (or in bulk, which is the same bytes) returns the value *)
Theorem C04_transparent_read : forall v t x b m, wf_ty t = true -> empty_struct_zst t = true -> regions_ok v t = true ->
  wf_layout t = true -> no_mixed_enum t = true -> has_ty t x = true -> writable v t x = true ->
  enc v t x = Ok b -> impl_enc v t x = Ok m ->
  determinate m = Some b /\ forall r, dec v t (b ++ r) = Ok (norm v t x, r).
Proof.
  intros v t x b m Hw He Hr Hl Hn Ht Hwr Henc Himpl.
  rewrite (impl_enc_is_enc v t x b Hw He Hr Hl Hn Ht Henc) in Himpl. inversion Himpl; subst m. split.
  - clear. induction b as [|y b IH]; [reflexivity|]. cbn. unfold somes in IH. rewrite IH. reflexivity.
  - exact (dec_enc_roundtrip v t x b Ht Hwr Henc).
Qed.

(* the version gate (shared with C18): a packed struct writes every live field and no removed one *)
Theorem C04_version_gate : forall v l fs, packed v (TStruct l fs) = true -> wf_ty (TStruct l fs) = true ->
  forall f, In f fs -> (is_removed f = true -> present v f = false) /\ (is_removed f = false -> present v f = true).
Proof. exact packed_version_gate. Qed.

(* known finding K13: the faithful model does not satisfy soundness for a mixed enum *)
Theorem C04_packed_sound_refuted_mixed_enum :
  packed 0 mixed_enum = true /\ wf_layout mixed_enum = true /\ has_ty mixed_enum (VVar 0 []) = true
  /\ enc 0 mixed_enum (VVar 0 []) = Ok [0] /\ mem mixed_enum (VVar 0 []) = Some [Some 0; None]
  /\ impl_enc 0 (TVec mixed_enum) (VSeq [VVar 0 []]) = Ok (somes (enc_usize 1) ++ [Some 0; None]).
Proof. exact packed_sound_refuted_mixed_enum. Qed.

(* non-vacuity: a packed repr(C) struct with a removed field and a nested packed struct *)
Definition ex_packed : ty :=
  TStruct (Lay 8 4 [0; 2; 2; 4] false)
    [FD (TInt U16) 0 None FNormal VUnit;
     FD (TInt U64) 0 (Some 0) FRemoved VUnit;
     FD (TStruct (Lay 2 1 [0; 1] false) [FD (TInt U8) 0 None FNormal VUnit; FD TBool 0 None FNormal VUnit]) 0 None FNormal VUnit;
     FD (TInt U32) 1 None FNormal (VInt 0)].
Example C04_hypotheses_satisfiable :
  packed 1 ex_packed = true /\ packed 0 ex_packed = false /\ wf_ty ex_packed = true /\ empty_struct_zst ex_packed = true
  /\ wf_layout ex_packed = true /\ no_mixed_enum ex_packed = true /\ regions_ok 1 ex_packed = true
  /\ has_ty ex_packed (VRec [VInt 513; VUnit; VRec [VInt 7; VInt 1]; VInt 9]) = true.
Proof. vm_compute. repeat split. Qed.
