(* Properties/C11.v — by-reference passing only between provably identical layouts. Statements only. *)
From SF Require Import Bytes Schema Abi AbiLayout AbiProofs.

(* compatible => both schemas claim the IDENTICAL memory type (size, alignment, offsets, discriminant width,
   collection layout, recursively) and nothing in it is unknown *)
Theorem C11_sound : forall a b, layout_compatible a b = true -> exists m, mty_of a = Some m /\ mty_of b = Some m.
Proof. exact layout_compatible_sound. Qed.

Theorem C11_unknown_is_no : forall a b, mty_of a = None -> layout_compatible a b = false.
Proof. exact layout_unknown_is_no. Qed.

(* a set bit of the compatibility mask means arg_layout_compatible of that argument's native definitions *)
Theorem C11_mask : forall ce cle cn cln ev idx mask m k,
  args_mask ce cle cn cln ev idx mask = Ok m -> N.testbit m k = true -> N.testbit mask k = false ->
  (idx <= k)%N /\ exists i, k = (idx + N.of_nat i)%N /\
    arg_layout_compatible (nth i cn SUndefined) (nth i cln SUndefined) (nth i ce SUndefined) (nth i cle SUndefined) ev false = LYes.
Proof. exact args_mask_sound. Qed.

(* ... which for plain data arguments is layout_compatible of the native schemas *)
Theorem C11_by_ref_needs_layout : forall a_nat b_nat a_eff b_eff ev rp,
  (match a_nat with SFuture _ _ _ _ | SFnClosure _ _ | SBoxed _ | STrait _ _ => False | _ => True end) ->
  arg_layout_compatible a_nat b_nat a_eff b_eff ev rp = LYes -> layout_compatible a_nat b_nat = true.
Proof. exact plain_arg_by_ref_needs_layout. Qed.

(* since fix F16 (found by the thorough tier of C10): ... and only if each side's type is unchanged between its native
   and the negotiated version, i.e. the two byte-identical layouts also mean the same thing *)
Theorem C11_by_ref_needs_unchanged : forall a_nat b_nat a_eff b_eff ev rp,
  (match a_nat with SFuture _ _ _ _ | SFnClosure _ _ | SBoxed _ | STrait _ _ => False | _ => True end) ->
  arg_layout_compatible a_nat b_nat a_eff b_eff ev rp = LYes ->
  bytes_eqb (ser 2 a_nat) (ser 2 a_eff) = true /\ bytes_eqb (ser 2 b_nat) (ser 2 b_eff) = true.
Proof. exact plain_arg_by_ref_needs_unchanged. Qed.
