(* Properties/C08.v — I/O faults surface as errors; results independent of chunking. Statements only.
   The AEAD is abstract: [open_seal] and [seal_length] are premises, not axioms. *)
From SF Require Import Bytes Crypto CryptoProofs.

Section C08.
Variable key : Type.
Variable seal : key -> nonce -> bytes -> bytes.
Variable open : key -> nonce -> bytes -> option bytes.
Hypothesis open_seal : forall k n p, open k n (seal k n p) = Some p.
Hypothesis seal_length : forall k n p, length (seal k n p) = (length p + 16)%nat.

(* for ANY program of writes and flushes (every buffer size around the 100 000-byte boundary), the encrypted stream
   decrypts to exactly the bytes written *)
Theorem C08_crypto_stream_roundtrip : forall k n0 ops, (fst n0 < Bytes.U64)%N -> (snd n0 < U32M)%N ->
  decrypt_file key open k (honest_file key seal k n0 ops) = Ok (written ops)
  /\ snd (fst (run_writer key seal k n0 None ops)) = WOk /\ snd (run_writer key seal k n0 None ops) = WOk.
Proof. exact (writer_roundtrip key seal open open_seal seal_length). Qed.

(* write faults: for EVERY byte budget of the underlying writer, what it accepted is a prefix of the fault-free
   output; no fault => Ok; a fault => the error surfaces (or, when only Drop's implicit flush hit it, Drop panics as documented) *)
Theorem C08_write_fault : forall k n0 ops b,
  let '(out, r1, r2) := run_writer key seal k n0 (Some b) ops in
  out = firstn (N.to_nat (N.min b (N.of_nat (length (honest_file key seal k n0 ops))))) (honest_file key seal k n0 ops)
  /\ ((N.of_nat (length (honest_file key seal k n0 ops)) <= b)%N -> r1 = WOk /\ r2 = WOk)
  /\ ((b < N.of_nat (length (honest_file key seal k n0 ops)))%N -> (r1 = WErr /\ r2 = WOk) \/ (r1 = WOk /\ r2 = WPanic)).
Proof. exact (writer_fault_prefix key seal). Qed.

(* a save that ends with an explicit flush (save_encrypted_file): never a panic; Err iff the writer failed *)
Theorem C08_write_fault_flushed : forall k n0 ops b,
  let '(out, r1, r2) := run_writer key seal k n0 (Some b) (ops ++ [OpFlush]) in
  r2 = WOk /\ (r1 = WOk <-> (N.of_nat (length (honest_file key seal k n0 (ops ++ [OpFlush]))) <= b)%N) /\ (r1 = WOk \/ r1 = WErr).
Proof. exact (writer_fault_flushed key seal). Qed.

Theorem C08_drop_after_failed_flush_silent : forall k,
  run_writer key seal k (0, 0) (Some 13) [OpWrite [1; 2; 3]; OpFlush] = (nonce_bytes (0, 0) ++ [19], WErr, WOk).
Proof. exact (drop_after_failed_flush_silent key seal). Qed.
End C08.

(* ---- the reading side (CryptoIo.v): CryptoReader over an underlying reader that delivers its data in arbitrary
   chunks, returns Interrupted at arbitrary calls, and may fail at a byte offset ---- *)
From SF Require Import CryptoIo CryptoIoProofs.

(* results are independent of chunking: what a consumer issuing any sequence of read_exact requests obtains (every
   delivered byte string and the first error) is the same for every schedule of chunk sizes and interruptions *)
Theorem C08_chunking_independent : forall key open k file sched1 sched2 reqs,
  serve key open k (UR file sched1 None) reqs = serve key open k (UR file sched2 None) reqs.
Proof. exact serve_chunking_independent. Qed.

(* the loops terminate: no schedule exhausts the fuel of the model *)
Theorem C08_serve_total : forall key open k file sched reqs, ~ In IoFuel (serve key open k (UR file sched None) reqs).
Proof. exact serve_no_fuel. Qed.

(* an intact stream is served as the consecutive slices of what was written, under every schedule *)
Theorem C08_served_intact : forall key open k seal,
  (forall n c, open k n (seal k n c) = Some c) -> (forall n c, length (seal k n c) = (length c + 16)%nat) ->
  forall n0 cs reqs sched, (fst n0 < Bytes.U64)%N -> (snd n0 < U32M)%N -> chunks_ok cs ->
  serve key open k (UR (encrypt_chunks key seal k n0 cs) sched None) reqs = slices (concat cs) reqs.
Proof. exact serve_intact. Qed.

(* a read fault surfaces as an error: every request completed before it returns exactly what the fault-free run
   returns at that position, and the run ends there with an error (never different data, never a hang) *)
Theorem C08_read_fault : forall key open k file sched b reqs, (b < N.of_nat (length file))%N ->
  let out := serve key open k (UR file sched (Some b)) reqs in
  (forall x, In x out -> x <> IoFuel) /\
  (forall i bs, nth_error out i = Some (IoOk bs) -> nth_error (serve key open k (UR file sched None) reqs) i = Some (IoOk bs)).
Proof. exact fault_is_error. Qed.
