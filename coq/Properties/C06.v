(* Properties/C06.v — malformed input is handled safely (PARTIAL: the logical preconditions of memory safety and
   panic freedom, over the reader as implemented, on ALL byte strings). Statements only. *)
From SF Require Import Bytes Ty TyProofs Packed PackedProofs PackedDec PackedDecProofs.

(* with the checked size arithmetic (fix F7) the reader never panics, on any input, in any build mode *)
Theorem C06_no_panic : forall md v t bs, impl_dec md true v t bs <> Panic.
Proof. exact impl_dec_no_panic. Qed.

(* every value it returns is valid: no invalid bool / char / enum value is materialised (outside known class K1) *)
Theorem C06_valid : forall md v t bs x r, wfb bs -> wf_layout t = true -> enums_small t = true ->
  bulk_safe v t = true -> impl_dec md true v t bs = Ok (x, r) -> valid_val t x = true.
Proof. exact impl_dec_valid. Qed.

(* a bulk-read vector never claims more elements than the input could have encoded *)
Theorem C06_len : forall md v t bs l r, packed v t = true -> (0 < size_of t)%N ->
  impl_dec md true v (TVec t) bs = Ok (VSeq l, r) -> (N.of_nat (length l) * size_of t <= N.of_nat (length bs))%N.
Proof. exact bulk_vec_bounded. Qed.

(* it only ever consumes a prefix of its input *)
Theorem C06_suffix : forall md cm v t bs x r, impl_dec md cm v t bs = Ok (x, r) -> exists p, bs = p ++ r.
Proof. exact impl_dec_suffix. Qed.

(* the spec-level reader terminates with Ok or Err on every input (never out of fuel) *)
Theorem C06_total : forall v t bs, nonempty_elems v t = true -> dec v t bs <> OutOfFuel.
Proof. exact dec_no_outoffuel_weak. Qed.

(* known findings: K1 (bulk path materialises an invalid bool) and, before fix F7, the unchecked multiplication *)
Theorem C06_valid_refuted_bulk_bool :
  impl_dec Debug true 0 (TVec TBool) (enc_usize 2 ++ [7; 1]) = Ok (VSeq [VInt 7; VInt 1], [])
  /\ valid_val (TVec TBool) (VSeq [VInt 7; VInt 1]) = false
  /\ dec 0 (TVec TBool) (enc_usize 2 ++ [7; 1]) = Ok (VSeq [VInt 0; VInt 1], []).
Proof. exact impl_dec_bulk_bool_invalid. Qed.
Theorem C06_len_refuted_before_F7 :
  impl_dec Debug false 0 (TVec (TInt U32)) (enc_usize 4611686018427387905 ++ [1; 2; 3; 4]) = Panic
  /\ impl_dec Release false 0 (TVec (TInt U32)) (enc_usize 4611686018427387905 ++ [1; 2; 3; 4]) = Ok (VSeq [VInt 67305985], [])
  /\ bulk_claims (TInt U32) (enc_usize 4611686018427387905 ++ [1; 2; 3; 4]) = Some (4611686018427387905, 1)
  /\ impl_dec Debug true 0 (TVec (TInt U32)) (enc_usize 4611686018427387905 ++ [1; 2; 3; 4]) = Err ELayout
  /\ impl_dec Release true 0 (TVec (TInt U32)) (enc_usize 4611686018427387905 ++ [1; 2; 3; 4]) = Err ELayout.
Proof. exact impl_dec_unchecked_mul. Qed.

(* the schema section of a file is untrusted input too: since fix F17 its reader never panics, on any bytes *)
From SF Require Import Schema SchemaProofs3.
Theorem C06_schema_section_no_panic : forall fv bs, de_top fv bs <> Panic.
Proof. exact de_top_no_panic. Qed.
