(* Properties/C14.v — encrypted files load only when intact and with the right password. Statements only.
   AEAD security is an assumption, never a theorem: what is proved is that the framing adds no way around it.
   Premises: [open_seal], [seal_length]; for tampering, no-forgery (only the ciphertexts of this file open under
   its key) — the idealisation of AES-256-GCM authenticity; for the wrong key, that it opens none of them. *)
From SF Require Import Bytes Crypto CryptoProofs.

Section C14.
Variable key : Type.
Variable seal : key -> nonce -> bytes -> bytes.
Variable open : key -> nonce -> bytes -> option bytes.
Hypothesis open_seal : forall k n p, open k n (seal k n p) = Some p.
Hypothesis seal_length : forall k n p, length (seal k n p) = (length p + 16)%nat.

Theorem C14_intact : forall k n0 cs, (fst n0 < Bytes.U64)%N -> (snd n0 < U32M)%N -> chunks_ok cs ->
  decrypt_file key open k (encrypt_chunks key seal k n0 cs) = Ok (concat cs).
Proof. exact (decrypt_encrypt key seal open open_seal seal_length). Qed.

(* every same-length modification — of the nonce header, of a length field, of ciphertext or tag — is rejected *)
Theorem C14_tamper : forall k n0 cs, (fst n0 < Bytes.U64)%N -> (snd n0 < U32M)%N -> chunks_ok cs ->
  (N.of_nat (length cs) < Bytes.U64 * U32M)%N ->
  (forall n c p, open k n c = Some p -> In (n, c) (pairs key seal k n0 cs)) ->
  NoDup (map fst (pairs key seal k n0 cs)) ->
  forall f', length f' = length (encrypt_chunks key seal k n0 cs) -> f' <> encrypt_chunks key seal k n0 cs -> wfb f' ->
  exists e, decrypt_file key open k f' = Err e.
Proof. exact (tamper_detected key seal open open_seal seal_length). Qed.

(* truncation: an error, or the file was cut exactly at a frame boundary and the stream silently ends there
   (then the enclosed bzip2 / savefile reader is what notices the missing data) *)
Theorem C14_truncate : forall k n0 cs j, (fst n0 < Bytes.U64)%N -> (snd n0 < U32M)%N -> chunks_ok cs ->
  (j < length (encrypt_chunks key seal k n0 cs))%nat ->
  (exists e, decrypt_file key open k (firstn j (encrypt_chunks key seal k n0 cs)) = Err e)
  \/ (exists m, (m < length cs)%nat
        /\ firstn j (encrypt_chunks key seal k n0 cs) = encrypt_chunks key seal k n0 (firstn m cs)
        /\ decrypt_file key open k (firstn j (encrypt_chunks key seal k n0 cs)) = Ok (concat (firstn m cs))).
Proof. exact (truncated_file key seal open open_seal seal_length). Qed.

Theorem C14_wrong_password : forall k k' n0 cs, (fst n0 < Bytes.U64)%N -> (snd n0 < U32M)%N -> chunks_ok cs -> cs <> [] ->
  (forall n c, open k' n (seal k n c) = None) ->
  exists e, decrypt_file key open k' (encrypt_chunks key seal k n0 cs) = Err e.
Proof. exact (wrong_key_rejected key seal open seal_length). Qed.
End C14.
