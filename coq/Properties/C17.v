(* Properties/C17.v — introspection is self-consistent and navigation never panics. Statements only. *)
From Coq Require Import String.
From SF Require Import Bytes Schema Ty Introspect IntrospectProofs IntrospectOf IntrospectOfProofs IntrospectAgree.
Open Scope N_scope.

(* --- every result's flat index yields an element for exactly the indices below its reported total length --- *)
(* total_index is the index function of the pre-order listing of the frames (no usize underflow, no out-of-bounds) *)
Theorem C17_total_index_flatten : forall fs i, wf_frames fs = true ->
  total_index fs i = IOk (nth_error (flatten fs) (N.to_nat i)).
Proof. exact total_index_flatten. Qed.
Theorem C17_total_index_exact : forall fs i, wf_frames fs = true ->
  (i < total_len fs -> exists e, total_index fs i = IOk (Some e)) /\
  (total_len fs <= i -> total_index fs i = IOk None).
Proof. exact total_index_spec. Qed.

(* --- navigating with any command, from any path, on any tree, with any child limit --- *)
Theorem C17_results_wf : forall clc fuel path depth o cmd fs p',
  dive clc fuel path depth o cmd = (DOk fs, p') -> wf_frames fs = true.
Proof. exact dive_wf. Qed.
Theorem C17_no_panic : forall clc fuel path depth o cmd, fst (dive clc fuel path depth o cmd) <> DPanic.
Proof. exact dive_no_panic. Qed.
Theorem C17_fuel_suffices : forall clc fuel path depth o cmd, (depth_of o <= fuel)%nat ->
  fst (dive clc fuel path depth o cmd) <> DFuel.
Proof. exact dive_no_fuel. Qed.

(* --- any sequence of commands: every step is a well-formed result or an IntrospectionError, never a panic,
       and every result's total_index is exact --- *)
Theorem C17_sequences_safe : forall cmds st o,
  Forall (fun r => match r with DOk fs => wf_frames fs = true | DErr _ => True | _ => False end) (run_cmds st o cmds).
Proof. exact run_cmds_safe. Qed.
Theorem C17_sequences_total_index : forall cmds st o,
  Forall (fun r => match r with
                   | DOk fs => forall i, (i < total_len fs -> exists e, total_index fs i = IOk (Some e)) /\
                                         (total_len fs <= i -> total_index fs i = IOk None)
                   | DErr _ => True
                   | _ => False
                   end) (run_cmds st o cmds).
Proof. exact nav_total_index. Qed.

(* with no limit, an empty path and the Nothing command the result is one frame listing every child in index order *)
Theorem C17_first_frame : forall o,
  dive None (S (depth_of o)) [] 0 o NavNothing = (DOk [FR None (map_children o) false], []).
Proof. exact first_frame_unlimited. Qed.

(* --- the reported number of children equals the number that can be fetched --- *)
(* library impls: the rule table regenerated from the source on every run (IntrospectAgree.lib_impls) *)
Theorem C17_library_len : forall e, In e lib_impls ->
  forall n inner, reported (snd e) (snd (fst e)) n inner inner = served (snd (fst e)) n inner.
Proof. exact (table_consistent lib_impls x_introspect_table_ok). Qed.
(* the consistency condition on a rule pair is exact: any other pair disagrees for some container *)
Theorem C17_rule_exact : forall c l, entry_ok c l = false ->
  exists n inner, reported l c n inner inner <> served c n inner.
Proof. exact entry_ok_complete. Qed.
(* derived structs/enums and the modelled library containers: every node of the tree of a well-typed value *)
Theorem C17_model_len : forall t x, has_ty t x = true -> consistent (shape_of t x) = true.
Proof. exact shape_consistent. Qed.
Theorem C17_dump_len : forall t x d, has_ty t x = true -> agree_shape t x d = true ->
  consistent (erase_inode d) = true.
Proof. exact dump_consistent. Qed.
