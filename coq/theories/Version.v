(* Version.v — schema evolution histories of a struct (C03 / C18).
   A history is a base field list (version 0) plus one edit per later version:
   edit number i (1-based) is what the programmer did when bumping the version to i.
   [annotated base es j] is the field list, with all version attributes, that a program at
   version j carries. Definitions only. *)
From SF Require Import Bytes Ty.
Open Scope N_scope.

Inductive edit :=
| EAdd (pos : nat) (t : ty) (dflt : val)   (* a new field at position pos, #[savefile_versions="i.."], with a default *)
| ERemove (pos : nat) (abi : bool).        (* the field at pos becomes Removed<T> / AbiRemoved<T>, #[savefile_versions="..i-1"] *)

Fixpoint insert_at {A} (n : nat) (x : A) (l : list A) : list A :=
  match n, l with
  | O, _ => x :: l
  | S m, y :: r => y :: insert_at m x r
  | S _, [] => [x]
  end.

Fixpoint update_at {A} (n : nat) (f : A -> A) (l : list A) : list A :=
  match n, l with
  | O, y :: r => f y :: r
  | S m, y :: r => y :: update_at m f r
  | _, [] => []
  end.

Definition remove_field (ver : N) (abi : bool) (f : fdef) : fdef :=
  match fd_kind f, fd_to f with
  | FNormal, None => FD (fd_ty f) (fd_from f) (Some (ver - 1)) (if abi then FAbiRemoved else FRemoved) (fd_default f)
  | _, _ => f
  end.

Definition apply_edit (ver : N) (fs : list fdef) (e : edit) : list fdef :=
  match e with
  | EAdd pos t d => insert_at pos (FD t ver None FNormal d) fs
  | ERemove pos abi => update_at pos (remove_field ver abi) fs
  end.

Fixpoint annotated_from (ver : N) (fs : list fdef) (es : list edit) (upto : nat) : list fdef :=
  match upto, es with
  | S u, e :: r => annotated_from (ver + 1) (apply_edit ver fs e) r u
  | _, _ => fs
  end.
Definition annotated (base : list fdef) (es : list edit) (j : nat) : list fdef := annotated_from 1 base es j.

(* the base definition: plain fields present in every version *)
Definition base_ok (fs : list fdef) : bool :=
  forallb (fun f => full_range f && match fd_kind f with FNormal => true | _ => false end) fs.

(* what a field list puts on the wire at version v, in order: (type, value written) *)
Fixpoint wire_written (v : N) (fs : list fdef) (xs : list val) : list (ty * val) :=
  match fs, xs with
  | f :: rf, y :: ry =>
      (match fd_kind f with
       | FIgnored => []
       | FNormal => if present v f then [(fd_ty f, y)] else []
       | FRemoved => if present v f then [(fd_ty f, VUnit)] else []          (* cannot be written: enc panics *)
       | FAbiRemoved => if present v f then [(fd_ty f, fd_default f)] else []
       end) ++ wire_written v rf ry
  | _, _ => []
  end.

(* the types a field list expects on the wire at version v *)
Definition wire_tys (v : N) (fs : list fdef) : list ty :=
  flat_map (fun f => if negb (is_ignored f) && present v f then [fd_ty f] else []) fs.

(* reading: present fields consume the wire values in order (removed ones discard theirs),
   absent / ignored fields take their defaults *)
Fixpoint fill (v : N) (fs : list fdef) (ws : list val) : list val :=
  match fs with
  | [] => []
  | f :: rf =>
      match fd_kind f with
      | FIgnored => fd_default f :: fill v rf ws
      | FNormal => if present v f then match ws with w :: rw => w :: fill v rf rw | [] => [] end
                   else fd_default f :: fill v rf ws
      | FRemoved | FAbiRemoved =>
          if present v f then match ws with _ :: rw => VUnit :: fill v rf rw | [] => [] end
          else VUnit :: fill v rf ws
      end
  end.

(* a history is valid when every edit addresses an existing position (removals: a live field) *)
Fixpoint valid_from (ver : N) (fs : list fdef) (es : list edit) : bool :=
  match es with
  | [] => true
  | e :: r =>
      (match e with
       | EAdd pos _ _ => Nat.leb pos (length fs)
       | ERemove pos _ =>
           match nth_error fs pos with
           | Some f => match fd_kind f, fd_to f with FNormal, None => true | _, _ => false end
           | None => false
           end
       end) && valid_from (ver + 1) (apply_edit ver fs e) r
  end.
Definition valid_history (base : list fdef) (es : list edit) : bool := base_ok base && valid_from 1 base es.
