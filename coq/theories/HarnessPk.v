(* HarnessPk.v — comparison functions for the packed-path correspondence (C02 / C04). *)
From SF Require Import Bytes Ty Packed HarnessTy.
Open Scope N_scope.

(* a real byte string matches an image when every determinate byte agrees *)
Fixpoint img_matches (m : img) (b : bytes) : bool :=
  match m, b with
  | [], [] => true
  | Some x :: rm, y :: rb => (x =? y) && img_matches rm rb
  | None :: rm, _ :: rb => img_matches rm rb
  | _, _ => false
  end.

(* the implementation model predicts the real bytes (indeterminate bytes are wildcards) *)
Definition agree_impl (v : N) (t : ty) (x : val) (real : bytes) : bool :=
  match impl_enc v t x with
  | Ok m => img_matches m real
  | _ => false
  end.

(* on this case the implementation model equals the documented format *)
Definition impl_is_spec (v : N) (t : ty) (x : val) : bool :=
  match impl_enc v t x, enc v t x with
  | Ok m, Ok b => match determinate m with Some b' => bytes_eqb b b' | None => false end
  | _, _ => false
  end.

Definition spec_bytes (v : N) (t : ty) (x : val) (real : bytes) : bool :=
  match enc v t x with Ok b => bytes_eqb b real | _ => false end.
