(* ContainerProofs.v — proofs about the container layer (Container.v): header gate, schema
   gate, round trips and truncation for plain and compressed files. *)
From SF Require Import Bytes Schema SchemaProofs Ty TyProofs HarnessTy Container.
Open Scope N_scope.

(* ------------------------------------------------------------------ *)
(* A. norm is the identity on definitions with every field present *)

Fixpoint all_present (v : N) (t : ty) : bool :=
  let okf := fun f : fdef => match fd_kind f with FNormal => present v f && all_present v (fd_ty f) | _ => false end in
  match t with
  | TVec t | TSeq t | TOption t | TBox t | TCell t => all_present v t
  | TArray t _ => all_present v t
  | TResult a b => all_present v a && all_present v b
  | TTuple _ ts => forallb (all_present v) ts
  | TStruct _ fs => forallb okf fs
  | TEnum _ _ _ vs => forallb (fun vd : vdef => forallb okf (vd_fields vd)) vs
  | _ => true
  end.

Definition apf (v : N) (f : fdef) : bool :=
  match fd_kind f with FNormal => present v f && all_present v (fd_ty f) | _ => false end.

Lemma all_present_TResult v a b : all_present v (TResult a b) = all_present v a && all_present v b.
Proof. reflexivity. Qed.
Lemma all_present_TTuple v l ts : all_present v (TTuple l ts) = forallb (all_present v) ts.
Proof. reflexivity. Qed.
Lemma all_present_TStruct v l fs : all_present v (TStruct l fs) = forallb (apf v) fs.
Proof. reflexivity. Qed.
Lemma all_present_TEnum v repr l vo vs :
  all_present v (TEnum repr l vo vs) = forallb (fun vd : vdef => forallb (apf v) (vd_fields vd)) vs.
Proof. reflexivity. Qed.

Definition NID (v : N) (t : ty) : Prop :=
  forall x, all_present v t = true -> has_ty t x = true -> norm v t x = x.

Lemma map_id_on (f : val -> val) (P : val -> bool) l :
  (forall x, P x = true -> f x = x) -> forallb P l = true -> map f l = l.
Proof.
  intros Hf. induction l as [|a l IH]; cbn [forallb map]; intros H; [reflexivity|].
  apply andb_true_iff in H as [H1 H2]. rewrite Hf by exact H1. rewrite IH by exact H2. reflexivity.
Qed.

Lemma ntup_id v ts :
  Forall (NID v) ts -> forallb (all_present v) ts = true ->
  forall xs, htup has_ty ts xs = true -> ntup (norm v) ts xs = xs.
Proof.
  induction 1 as [|t ts Ht _ IH]; intros Ha [|y ry] Hh; cbn [htup forallb ntup] in *;
    try discriminate; try reflexivity.
  apply andb_true_iff in Ha as [Ha1 Ha2]. apply andb_true_iff in Hh as [Hh1 Hh2].
  rewrite (Ht y Ha1 Hh1), (IH Ha2 ry Hh2). reflexivity.
Qed.

Lemma nflds_id v fs :
  Pfs (NID v) fs -> forallb (apf v) fs = true ->
  forall xs, hflds has_ty fs xs = true -> nflds v (norm v) fs xs = xs.
Proof.
  induction 1 as [|f fs Hf _ IH]; intros Ha [|y ry] Hh; cbn [hflds forallb nflds] in *;
    try discriminate; try reflexivity.
  apply andb_true_iff in Ha as [Ha1 Ha2]. apply andb_true_iff in Hh as [Hh1 Hh2].
  unfold apf in Ha1. unfold hf, is_removed in Hh1. unfold nfield.
  destruct (fd_kind f); try discriminate.
  apply andb_true_iff in Ha1 as [Hp Ha1]. rewrite Hp.
  apply andb_true_iff in Hh1 as [Hh1 _].
  rewrite (Hf y Ha1 Hh1), (IH Ha2 ry Hh2). reflexivity.
Qed.

Lemma nid_all v t : NID v t.
Proof.
  induction t using ty_ind'; intros x Ha Hh.
  - destruct x; reflexivity.
  - destruct x; reflexivity.
  - destruct x; reflexivity.
  - destruct x; reflexivity.
  - destruct x; reflexivity.
  - destruct x; reflexivity.
  - destruct x; reflexivity.
  - (* TVec *)
    destruct x; try discriminate. rewrite has_ty_TVec in Hh.
    apply andb_true_iff in Hh as [_ Hh]. rewrite norm_TVec. f_equal.
    apply (map_id_on _ (has_ty t)); [|exact Hh]. intros y Hy. apply IHt; [exact Ha|exact Hy].
  - (* TSeq *)
    destruct x; try discriminate. rewrite has_ty_TSeq in Hh.
    apply andb_true_iff in Hh as [_ Hh]. rewrite norm_TSeq. f_equal.
    apply (map_id_on _ (has_ty t)); [|exact Hh]. intros y Hy. apply IHt; [exact Ha|exact Hy].
  - (* TArray *)
    destruct x; try discriminate. rewrite has_ty_TArray in Hh.
    apply andb_true_iff in Hh as [_ Hh]. rewrite norm_TArray. f_equal.
    apply (map_id_on _ (has_ty t)); [|exact Hh]. intros y Hy. apply IHt; [exact Ha|exact Hy].
  - (* TOption *)
    destruct x; try discriminate; [reflexivity|].
    rewrite norm_TOption_some. f_equal. apply IHt; [exact Ha|exact Hh].
  - (* TResult *)
    rewrite all_present_TResult in Ha. apply andb_true_iff in Ha as [Ha1 Ha2].
    destruct x; try discriminate.
    + rewrite norm_TResult_ok. f_equal. apply IHt1; [exact Ha1|exact Hh].
    + rewrite norm_TResult_err. f_equal. apply IHt2; [exact Ha2|exact Hh].
  - (* TBox *)
    rewrite norm_TBox. apply IHt; [exact Ha|exact Hh].
  - (* TCell *)
    rewrite norm_TCell. apply IHt; [exact Ha|exact Hh].
  - (* TTuple *)
    destruct x; try discriminate. rewrite has_ty_TTuple in Hh. rewrite all_present_TTuple in Ha.
    rewrite norm_TTuple. f_equal. apply ntup_id; assumption.
  - (* TStruct *)
    destruct x; try discriminate. rewrite has_ty_TStruct in Hh. rewrite all_present_TStruct in Ha.
    rewrite norm_TStruct. f_equal. apply nflds_id; assumption.
  - (* TEnum *)
    destruct x; try discriminate. rewrite has_ty_TEnum in Hh. rewrite all_present_TEnum in Ha.
    rewrite norm_TEnum. f_equal. rewrite pickg_nth in *.
    apply andb_true_iff in Hh as [_ Hh].
    destruct (nth_error vs (N.to_nat idx)) as [vd|] eqn:Hn; [|reflexivity].
    pose proof (nth_error_In _ _ Hn) as Hin.
    unfold Pvs in H. rewrite Forall_forall in H. rewrite forallb_forall in Ha.
    apply nflds_id; [apply H; exact Hin|apply Ha; exact Hin|exact Hh].
Qed.

Theorem norm_id : forall v t x, all_present v t = true -> has_ty t x = true -> norm v t x = x.
Proof. intros v t x. apply nid_all. Qed.

(* ------------------------------------------------------------------ *)
(* B. extension stability of the schema reader *)

Definition ext2 {A} (rd rd' : reader A) : Prop :=
  forall bs y r e, rd bs = Ok (y, r) -> rd' (bs ++ e) = Ok (y, r ++ e).

Create HintDb extdb.

Lemma x_take_exact k : ext2 (take_exact k) (take_exact k). Proof. exact (take_exact_ext k). Qed.
Lemma x_rd_le w : ext2 (rd_le w) (rd_le w). Proof. exact (rd_le_ext w). Qed.
Lemma x_rd_u8 : ext2 rd_u8 rd_u8. Proof. exact rd_u8_ext. Qed.
Lemma x_rd_usize : ext2 rd_usize rd_usize. Proof. exact rd_usize_ext. Qed.
Lemma x_rd_bool : ext2 rd_bool rd_bool. Proof. exact rd_bool_ext. Qed.
Lemma x_rd_string : ext2 rd_string rd_string. Proof. exact rd_string_ext. Qed.
#[local] Hint Resolve x_take_exact x_rd_le x_rd_u8 x_rd_usize x_rd_bool x_rd_string : extdb.
#[local] Hint Extern 1 (_ <= _)%nat => (rewrite ?app_length; lia) : extdb.

(* transport one reader step from the hypothesis to the goal *)
Ltac step e :=
  match goal with
  | H : bind (?rd ?bs) _ = Ok _ |- context [bind (?rd' (?bs ++ e)) _] =>
      let E := fresh "E" in
      let L := fresh "L" in
      assert (L : ext2 rd rd') by (eauto 6 with extdb);
      destruct (rd bs) as [[? ?]| | |] eqn:E; cbn [bind] in H; try discriminate H;
      rewrite (L _ _ _ e E); cbn [bind]; clear L
  end.

Ltac ext_auto e :=
  repeat first
  [ match goal with H : Ok _ = Ok _ |- _ => inversion H; subst; reflexivity end
  | match goal with
    | H : ?rd ?bs = Ok (?y, ?r) |- ?rd' (?bs ++ e) = Ok (?y, ?r ++ e) =>
        let L := fresh "L" in
        assert (L : ext2 rd rd') by (eauto 6 with extdb); exact (L _ _ _ e H)
    end
  | step e
  | match goal with
    | H : match ?x with _ => _ end = Ok _ |- _ =>
        destruct x; cbn [bind] in H |- *; try discriminate H
    end ].

Lemma sread_n_O {A} (rd : reader A) count bs :
  Schema.read_n rd O count bs = if count =? 0 then Ok ([], bs) else OutOfFuel.
Proof. reflexivity. Qed.

Lemma sread_n_ext2 {A} (rd rd' : reader A) f f' n :
  ext2 rd rd' -> (f <= f')%nat -> ext2 (Schema.read_n rd f n) (Schema.read_n rd' f' n).
Proof.
  intros Hrd. revert f' n. induction f as [|f IH]; intros f' n Hf bs xs r e H.
  - rewrite sread_n_O in H. destruct (n =? 0) eqn:En; [|discriminate].
    apply N.eqb_eq in En; subst n. inversion H; subst. apply SchemaProofs.read_n_0.
  - rewrite SchemaProofs.read_n_S in H. destruct (n =? 0) eqn:En.
    + apply N.eqb_eq in En; subst n. inversion H; subst. apply SchemaProofs.read_n_0.
    + destruct f' as [|f']; [lia|]. rewrite SchemaProofs.read_n_S, En.
      destruct (rd bs) as [[x r0]| | |] eqn:E1; try discriminate. cbn [bind] in H.
      destruct (Schema.read_n rd f (n - 1) r0) as [[xs0 r1]| | |] eqn:E2; try discriminate.
      cbn [bind] in H. inversion H; subst.
      rewrite (Hrd _ _ _ e E1). cbn [bind].
      rewrite (IH f' (n - 1) ltac:(lia) _ _ _ e E2). reflexivity.
Qed.
#[local] Hint Resolve sread_n_ext2 : extdb.

Lemma rd_vec_ext2 {A} (rd rd' : reader A) : ext2 rd rd' -> ext2 (rd_vec rd) (rd_vec rd').
Proof. intros Hrd bs y r e H. unfold rd_vec in *. ext_auto e. Qed.
#[local] Hint Resolve rd_vec_ext2 : extdb.

Lemma rd_gated_ext2 {A} g (d : A) (rd rd' : reader A) :
  ext2 rd rd' -> ext2 (rd_gated g d rd) (rd_gated g d rd').
Proof. intros Hrd bs y r e H. unfold rd_gated in *. destruct g; ext_auto e. Qed.
#[local] Hint Resolve rd_gated_ext2 : extdb.

Lemma x_rd_opt_usize : ext2 rd_opt_usize rd_opt_usize.
Proof. intros bs y r e H. unfold rd_opt_usize in *. ext_auto e. Qed.
#[local] Hint Resolve x_rd_opt_usize : extdb.

Lemma x_rd_vlayout : ext2 rd_vlayout rd_vlayout.
Proof. intros bs y r e H. unfold rd_vlayout in *. ext_auto e. Qed.
#[local] Hint Resolve x_rd_vlayout : extdb.

Lemma x_de_receiver : ext2 de_receiver de_receiver.
Proof. intros bs y r e H. unfold de_receiver in *. ext_auto e. Qed.
#[local] Hint Resolve x_de_receiver : extdb.

Lemma x_de_prim fv : ext2 (de_prim fv) (de_prim fv).
Proof. intros bs y r e H. unfold de_prim in *. ext_auto e. Qed.
#[local] Hint Resolve x_de_prim : extdb.

Lemma de_field_ext2 fv d d' : ext2 d d' -> ext2 (de_field fv d) (de_field fv d').
Proof. intros Hd bs y r e H. unfold de_field in *. ext_auto e. Qed.
#[local] Hint Resolve de_field_ext2 : extdb.

Lemma de_variant_ext2 fv d d' : ext2 d d' -> ext2 (de_variant fv d) (de_variant fv d').
Proof. intros Hd bs y r e H. unfold de_variant in *. ext_auto e. Qed.
#[local] Hint Resolve de_variant_ext2 : extdb.

Lemma de_method_ext2 fv d d' : ext2 d d' -> ext2 (de_method fv d) (de_method fv d').
Proof. intros Hd bs y r e H. unfold de_method in *. ext_auto e. Qed.
#[local] Hint Resolve de_method_ext2 : extdb.

Lemma de_td_ext2 fv d d' : ext2 d d' -> ext2 (de_td fv d) (de_td fv d').
Proof. intros Hd bs y r e H. unfold de_td in *. ext_auto e. Qed.
#[local] Hint Resolve de_td_ext2 : extdb.

Lemma de_ext2 fv : forall f f', (f <= f')%nat -> ext2 (de fv f) (de fv f').
Proof.
  induction f as [|f IH]; intros f' Hle bs y r e H.
  - discriminate H.
  - destruct f' as [|f']; [lia|].
    assert (IHd : ext2 (de fv f) (de fv f')) by (apply IH; lia).
    cbn [de] in H |- *. ext_auto e.
Qed.

Theorem de_top_extend : forall fv bs s r e, de_top fv bs = Ok (s, r) -> de_top fv (bs ++ e) = Ok (s, r ++ e).
Proof.
  intros fv bs s r e H. unfold de_top in *.
  apply (de_ext2 fv (S (length bs)) (S (length (bs ++ e)))); [rewrite app_length; lia|exact H].
Qed.

(* ------------------------------------------------------------------ *)
(* The header. *)

Lemma header_length v c : length (header v c) = 16%nat.
Proof. unfold header. rewrite !app_length, !le_length. reflexivity. Qed.

Lemma save_plain_some s v b : save_plain (Some s) v b = header v false ++ ser LIBVER s ++ b.
Proof. reflexivity. Qed.
Lemma save_plain_none v b : save_plain None v b = header v false ++ b.
Proof. reflexivity. Qed.
Lemma save_compressed_some (compress : bytes -> bytes) s v b :
  save_compressed compress (Some s) v b = header v true ++ compress (ser LIBVER s ++ b).
Proof. reflexivity. Qed.

Lemma load_header_hdr cur v c rest : v <= cur -> v < 4294967296 ->
  load_header cur (header v c ++ rest) = Ok (LIBVER, v, c, rest).
Proof.
  intros Hv Hb. unfold load_header, header. rewrite <- !app_assoc.
  rewrite take_exact_app by reflexivity. cbn [bind].
  rewrite bytes_eqb_refl. cbn [negb].
  rewrite rd_le_app by (unfold LIBVER; change (256 ^ N.of_nat 2) with 65536; lia). cbn [bind].
  change (LIBVER <? LIBVER) with false. cbn [bind].
  rewrite rd_le_app by (change (256 ^ N.of_nat 4) with 4294967296; exact Hb). cbn [bind].
  replace (cur <? v) with false by (symmetry; apply N.ltb_ge; exact Hv).
  cbn [app]. rewrite TyProofs.rd_u8_cons by (destruct c; lia). cbn [bind].
  destruct c; reflexivity.
Qed.

Lemma take_exact_res k bs :
  (exists a r, take_exact k bs = Ok (a, r) /\ length bs = (k + length r)%nat) \/ take_exact k bs = Err EEof.
Proof.
  destruct (take_exact k bs) as [[a r]|e| |] eqn:E.
  - left. exists a, r. split; [reflexivity|]. apply take_exact_len in E. exact E.
  - right. unfold take_exact in E. destruct (Nat.leb k (length bs)); [discriminate|].
    inversion E. reflexivity.
  - unfold take_exact in E. destruct (Nat.leb k (length bs)); discriminate.
  - unfold take_exact in E. destruct (Nat.leb k (length bs)); discriminate.
Qed.

Lemma rd_le_res w bs :
  (exists n r, rd_le w bs = Ok (n, r) /\ length bs = (w + length r)%nat) \/ rd_le w bs = Err EEof.
Proof.
  unfold rd_le. destruct (take_exact_res w bs) as [(a & r & E & L)|E]; rewrite E; cbn [bind].
  - left. exists (unle a), r. split; [reflexivity|exact L].
  - right. reflexivity.
Qed.

Lemma load_header_short cur bs : (length bs < 16)%nat -> exists e, load_header cur bs = Err e.
Proof.
  intros Hl. unfold load_header.
  destruct (take_exact_res 9 bs) as [(h & r1 & E1 & L1)|E1]; rewrite E1; cbn [bind]; [|eauto].
  destruct (negb (bytes_eqb h MAGIC)); [eauto|].
  destruct (rd_le_res 2 r1) as [(lv & r2 & E2 & L2)|E2]; rewrite E2; cbn [bind]; [|eauto].
  destruct (LIBVER <? lv); [eauto|].
  destruct (rd_le_res 4 r2) as [(fvr & r3 & E3 & L3)|E3]; rewrite E3; cbn [bind]; [|eauto].
  destruct (cur <? fvr); [eauto|].
  unfold rd_u8.
  destruct (rd_le_res 1 r3) as [(c & r4 & E4 & L4)|E4]; rewrite E4; cbn [bind]; [|eauto].
  exfalso. lia.
Qed.

Lemma load_header_ext cur : ext2 (load_header cur) (load_header cur).
Proof. intros bs y r e H. unfold load_header in *. ext_auto e. Qed.

Lemma load_body_ext ms libver filever t bs y r e :
  load_body ms libver filever t bs = Ok (y, r) ->
  load_body ms libver filever t (bs ++ e) = Ok (y, r ++ e).
Proof.
  unfold load_body. destruct ms as [ms|]; cbn [bind]; intros H.
  - destruct (de_top libver bs) as [[fs r']| | |] eqn:E; try discriminate H.
    rewrite (de_top_extend _ _ _ _ e E). cbn [bind] in *.
    destruct (diff (ms filever) fs false); try discriminate H. cbn [bind] in *.
    apply dec_extend. exact H.
  - apply dec_extend. exact H.
Qed.

Lemma load_plain_extend ms cur t bs y r e :
  load_plain ms cur t bs = Ok (y, r) -> load_plain ms cur t (bs ++ e) = Ok (y, r ++ e).
Proof.
  unfold load_plain. intros H.
  destruct (load_header cur bs) as [[[[lv fvr] c] r0]| | |] eqn:E; try discriminate H.
  rewrite (load_header_ext cur _ _ _ e E). cbn [bind] in *.
  destruct c; [discriminate H|]. apply load_body_ext. exact H.
Qed.

Lemma truncated_generic (ld : bytes -> res (val * bytes)) file z :
  (forall bs y r e, ld bs = Ok (y, r) -> ld (bs ++ e) = Ok (y, r ++ e)) ->
  ld file = Ok (z, []) ->
  forall k, (k < length file)%nat -> forall y r, ld (firstn k file) <> Ok (y, r).
Proof.
  intros Hext Hfull k Hk y r Hd.
  apply (Hext _ _ _ (skipn k file)) in Hd. rewrite firstn_skipn in Hd.
  rewrite Hfull in Hd. inversion Hd as [[Hy Hr]].
  symmetry in Hr. apply app_eq_nil in Hr as [_ Hs].
  apply (f_equal (@length _)) in Hs. rewrite skipn_length in Hs. cbn [length] in Hs. lia.
Qed.

Lemma load_body_rt (ms : N -> schema) v t x b r :
  has_ty t x = true -> writable v t x = true -> enc v t x = Ok b ->
  wfs (ms v) = true -> refl_ok false (ms v) = true ->
  load_body (Some ms) LIBVER v t (ser LIBVER (ms v) ++ b ++ r) = Ok (norm v t x, r).
Proof.
  intros Hh Hw He Hwf Hrf. unfold load_body, LIBVER.
  rewrite de_ser_rt2 by exact Hwf. cbn [bind].
  rewrite diff_refl by exact Hrf. cbn [bind].
  apply dec_enc_roundtrip; assumption.
Qed.

(* ------------------------------------------------------------------ *)
(* C. uncompressed containers *)

Theorem load_save_noschema : forall cur v t x b r, v <= cur -> v < 4294967296 ->
  has_ty t x = true -> writable v t x = true -> enc v t x = Ok b ->
  load_plain None cur t (save_plain None v b ++ r) = Ok (norm v t x, r).
Proof.
  intros cur v t x b r Hv Hb Hh Hw He.
  rewrite save_plain_none, <- app_assoc. unfold load_plain.
  rewrite load_header_hdr by assumption. cbn [bind]. unfold load_body. cbn [bind].
  apply dec_enc_roundtrip; assumption.
Qed.

Theorem load_save_plain : forall (ms : N -> schema) cur v t x b r, v <= cur -> v < 4294967296 ->
  has_ty t x = true -> writable v t x = true -> enc v t x = Ok b ->
  wfs (ms v) = true -> refl_ok false (ms v) = true ->
  load_plain (Some ms) cur t (save_plain (Some (ms v)) v b ++ r) = Ok (norm v t x, r).
Proof.
  intros ms cur v t x b r Hv Hb Hh Hw He Hwf Hrf.
  rewrite save_plain_some, <- !app_assoc. unfold load_plain.
  rewrite load_header_hdr by assumption. cbn [bind].
  apply load_body_rt; assumption.
Qed.

Theorem load_truncated_noschema : forall cur v t x b, v <= cur -> v < 4294967296 ->
  has_ty t x = true -> writable v t x = true -> enc v t x = Ok b ->
  forall k, (k < length (save_plain None v b))%nat -> forall y r,
  load_plain None cur t (firstn k (save_plain None v b)) <> Ok (y, r).
Proof.
  intros cur v t x b Hv Hb Hh Hw He.
  apply (truncated_generic (load_plain None cur t) _ (norm v t x)).
  - intros bs y r e. apply load_plain_extend.
  - pose proof (load_save_noschema cur v t x b [] Hv Hb Hh Hw He) as H.
    rewrite app_nil_r in H. exact H.
Qed.

Theorem load_truncated_plain : forall (ms : N -> schema) cur v t x b, v <= cur -> v < 4294967296 ->
  has_ty t x = true -> writable v t x = true -> enc v t x = Ok b ->
  wfs (ms v) = true -> refl_ok false (ms v) = true ->
  forall k, (k < length (save_plain (Some (ms v)) v b))%nat -> forall y r,
  load_plain (Some ms) cur t (firstn k (save_plain (Some (ms v)) v b)) <> Ok (y, r).
Proof.
  intros ms cur v t x b Hv Hb Hh Hw He Hwf Hrf.
  apply (truncated_generic (load_plain (Some ms) cur t) _ (norm v t x)).
  - intros bs y r e. apply load_plain_extend.
  - pose proof (load_save_plain ms cur v t x b [] Hv Hb Hh Hw He Hwf Hrf) as H.
    rewrite app_nil_r in H. exact H.
Qed.

(* ------------------------------------------------------------------ *)
(* D. the header gate *)

Theorem load_bad_magic : forall ms cur t bs h r, take_exact 9 bs = Ok (h, r) -> h <> MAGIC ->
  load_plain ms cur t bs = Err EGeneral.
Proof.
  intros ms cur t bs h r H Hne. unfold load_plain, load_header. rewrite H. cbn [bind].
  destruct (bytes_eqb h MAGIC) eqn:E; [apply bytes_eqb_eq in E; contradiction|].
  reflexivity.
Qed.

Theorem load_short_header : forall ms cur t bs, (length bs < 16)%nat -> exists e, load_plain ms cur t bs = Err e.
Proof.
  intros ms cur t bs Hl. destruct (load_header_short cur bs Hl) as [e He].
  exists e. unfold load_plain. rewrite He. reflexivity.
Qed.

Theorem load_future_lib : forall ms cur t libver rest, LIBVER < libver -> libver < 65536 ->
  load_plain ms cur t (MAGIC ++ le 2 libver ++ rest) = Err EGeneral.
Proof.
  intros ms cur t libver rest Hl Hb. unfold load_plain, load_header.
  rewrite take_exact_app by reflexivity. cbn [bind].
  rewrite bytes_eqb_refl. cbn [negb].
  rewrite rd_le_app by (change (256 ^ N.of_nat 2) with 65536; exact Hb). cbn [bind].
  replace (LIBVER <? libver) with true by (symmetry; apply N.ltb_lt; exact Hl).
  reflexivity.
Qed.

Theorem load_future_data : forall ms cur t libver filever rest, libver <= LIBVER -> cur < filever -> filever < 4294967296 ->
  load_plain ms cur t (MAGIC ++ le 2 libver ++ le 4 filever ++ rest) = Err EWrongVersion.
Proof.
  intros ms cur t libver filever rest Hl Hc Hb. unfold load_plain, load_header.
  rewrite take_exact_app by reflexivity. cbn [bind].
  rewrite bytes_eqb_refl. cbn [negb].
  rewrite rd_le_app by (unfold LIBVER in Hl; change (256 ^ N.of_nat 2) with 65536; lia). cbn [bind].
  replace (LIBVER <? libver) with false by (symmetry; apply N.ltb_ge; exact Hl).
  rewrite rd_le_app by (change (256 ^ N.of_nat 4) with 4294967296; exact Hb). cbn [bind].
  replace (cur <? filever) with true by (symmetry; apply N.ltb_lt; exact Hc).
  reflexivity.
Qed.

(* ------------------------------------------------------------------ *)
(* E. the schema gate *)

Theorem load_schema_reject : forall (ms : N -> schema) cur v s t payload, v <= cur -> v < 4294967296 ->
  wfs s = true -> diff (ms v) s false = DDiff ->
  load_plain (Some ms) cur t (save_plain (Some s) v payload) = Err ESchema.
Proof.
  intros ms cur v s t payload Hv Hb Hwf Hd.
  rewrite save_plain_some. unfold load_plain.
  rewrite load_header_hdr by assumption. cbn [bind]. unfold load_body, LIBVER.
  rewrite de_ser_rt2 by exact Hwf. cbn [bind]. rewrite Hd. reflexivity.
Qed.

Theorem load_schema_accept : forall (ms : N -> schema) cur v s t payload, v <= cur -> v < 4294967296 ->
  wfs s = true -> diff (ms v) s false = DSame ->
  load_plain (Some ms) cur t (save_plain (Some s) v payload) = dec v t payload.
Proof.
  intros ms cur v s t payload Hv Hb Hwf Hd.
  rewrite save_plain_some. unfold load_plain.
  rewrite load_header_hdr by assumption. cbn [bind]. unfold load_body, LIBVER.
  rewrite de_ser_rt2 by exact Hwf. cbn [bind]. rewrite Hd. reflexivity.
Qed.

(* ------------------------------------------------------------------ *)
(* F. compressed container over an abstract codec *)

Section CompressedProofs.
Variable compress : bytes -> bytes.
Variable decompress : bytes -> bytes * bool.
Hypothesis decompress_compress : forall p, decompress (compress p) = (p, true).
(* a strict prefix of a compressed stream yields a prefix of the plaintext and no clean end *)
Hypothesis decompress_prefix : forall p k, (k < length (compress p))%nat ->
  exists q rest, decompress (firstn k (compress p)) = (q, false) /\ p = q ++ rest.

Theorem load_save_compressed : forall (ms : N -> schema) cur v t x b, v <= cur -> v < 4294967296 ->
  has_ty t x = true -> writable v t x = true -> enc v t x = Ok b ->
  wfs (ms v) = true -> refl_ok false (ms v) = true ->
  load_compressed decompress (Some ms) cur t (save_compressed compress (Some (ms v)) v b) = Ok (norm v t x, []).
Proof.
  intros ms cur v t x b Hv Hb Hh Hw He Hwf Hrf.
  rewrite save_compressed_some. unfold load_compressed.
  rewrite load_header_hdr by assumption. cbn [bind].
  rewrite decompress_compress.
  pose proof (load_body_rt ms v t x b [] Hh Hw He Hwf Hrf) as Hrt. rewrite app_nil_r in Hrt.
  rewrite Hrt. reflexivity.
Qed.

(* a truncated compressed file is an error, or (only trailing container bytes missing) the same value; never another value *)
Theorem load_truncated_compressed : forall (ms : N -> schema) cur v t x b, v <= cur -> v < 4294967296 ->
  has_ty t x = true -> writable v t x = true -> enc v t x = Ok b ->
  wfs (ms v) = true -> refl_ok false (ms v) = true ->
  forall k, (k < length (save_compressed compress (Some (ms v)) v b))%nat -> forall y r,
  load_compressed decompress (Some ms) cur t (firstn k (save_compressed compress (Some (ms v)) v b)) = Ok (y, r) ->
  y = norm v t x.
Proof.
  intros ms cur v t x b Hv Hb Hh Hw He Hwf Hrf k Hk y r Hl.
  rewrite save_compressed_some in *.
  rewrite firstn_app, header_length in Hl. rewrite app_length, header_length in Hk.
  destruct (Nat.lt_ge_cases k 16) as [Hlt|Hge].
  - exfalso.
    destruct (load_header_short cur
                (firstn k (header v true) ++ firstn (k - 16) (compress (ser LIBVER (ms v) ++ b))))
      as [e0 He0].
    { rewrite app_length, !firstn_length, header_length. lia. }
    unfold load_compressed in Hl. rewrite He0 in Hl. discriminate Hl.
  - rewrite firstn_all2 in Hl by (rewrite header_length; lia).
    destruct (decompress_prefix (ser LIBVER (ms v) ++ b) (k - 16)) as (q & rest & Hq & Hp); [lia|].
    unfold load_compressed in Hl. rewrite load_header_hdr in Hl by assumption. cbn [bind] in Hl.
    rewrite Hq in Hl. cbn [bind] in Hl.
    destruct (load_body (Some ms) LIBVER v t q) as [[y' r']|e'| |] eqn:E.
    + inversion Hl; subst y' r'.
      apply (load_body_ext _ _ _ _ _ _ _ rest) in E. rewrite <- Hp in E.
      pose proof (load_body_rt ms v t x b [] Hh Hw He Hwf Hrf) as Hrt. rewrite app_nil_r in Hrt.
      rewrite Hrt in E. inversion E. reflexivity.
    + destruct e'; discriminate Hl.
    + discriminate Hl.
    + discriminate Hl.
Qed.
End CompressedProofs.

(* ------------------------------------------------------------------ *)
Print Assumptions norm_id.
Print Assumptions de_top_extend.
Print Assumptions load_save_noschema.
Print Assumptions load_save_plain.
Print Assumptions load_truncated_noschema.
Print Assumptions load_truncated_plain.
Print Assumptions load_bad_magic.
Print Assumptions load_short_header.
Print Assumptions load_future_lib.
Print Assumptions load_future_data.
Print Assumptions load_schema_reject.
Print Assumptions load_schema_accept.
Print Assumptions load_save_compressed.
Print Assumptions load_truncated_compressed.
