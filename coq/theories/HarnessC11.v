(* HarnessC11.v — oracle for C11 on real schemas. *)
From SF Require Import Bytes Schema HarnessC5 AbiLayout.
Open Scope N_scope.

Fixpoint mty_eqb (a b : mty) {struct a} : bool :=
  let feq := fix feq (l1 l2 : list (N * mty)) {struct l1} : bool :=
      match l1, l2 with
      | [], [] => true
      | (o1, m1) :: r1, (o2, m2) :: r2 => (o1 =? o2) && mty_eqb m1 m2 && feq r1 r2
      | _, _ => false
      end in
  match a, b with
  | MStruct s1 a1 f1, MStruct s2 a2 f2 => (s1 =? s2) && (a1 =? a2) && feq f1 f2
  | MEnum d1 s1 a1 v1, MEnum d2 s2 a2 v2 =>
      (d1 =? d2) && (s1 =? s2) && (a1 =? a2) &&
      (fix veq (l1 l2 : list (N * list (N * mty))) {struct l1} : bool :=
         match l1, l2 with
         | [], [] => true
         | (x1, f1) :: r1, (x2, f2) :: r2 => (x1 =? x2) && feq f1 f2 && veq r1 r2
         | _, _ => false
         end) v1 v2
  | MPrim t1 l1, MPrim t2 l2 => (t1 =? t2) && (l1 =? l2)
  | MVector e1 l1, MVector e2 l2 => mty_eqb e1 e2 && (l1 =? l2)
  | MArray c1 e1, MArray c2 e2 => (c1 =? c2) && mty_eqb e1 e2
  | MZero, MZero => true
  | MBoxed x, MBoxed y | MRef x, MRef y | MSlice x, MSlice y => mty_eqb x y
  | _, _ => false
  end.

(* declared compatible => both schemas claim the same, fully known memory type *)
Definition layout_oracle (a_hex b_hex : bytes) : bool :=
  match schema_of_hex a_hex, schema_of_hex b_hex with
  | Some a, Some b =>
      if layout_compatible a b
      then match mty_of a, mty_of b with Some m1, Some m2 => mty_eqb m1 m2 | _, _ => false end
      else true
  | _, _ => false
  end.
