(* CryptoIo.v — CryptoReader::new / CryptoReader::read (savefile/src/lib.rs 1703-1835) and std's read_exact as state
   machines over an underlying reader that delivers its data in arbitrary chunks, may return Interrupted, and may
   fail at a byte offset (the harness's ChunkReader). What a consumer obtains through read_exact calls.
   Definitions only. *)
From SF Require Import Bytes Crypto.
Open Scope N_scope.

(* ---------------- the underlying reader ---------------- *)
(* u_sched: one entry per read() call: 0 = this call returns Interrupted, c > 0 = at most c bytes are delivered;
   when exhausted every call delivers as much as asked. u_budget: bytes left before reads fail (None = never). *)
Record ur := UR { u_data : bytes; u_sched : list N; u_budget : option N }.

Inductive rres := RBytes (b : bytes) | RInterrupted | RFault.

Definition ur_read (u : ur) (want : N) : rres * ur :=
  let c := match u_sched u with [] => None | c :: _ => Some c end in
  let sched' := match u_sched u with [] => [] | _ :: r => r end in
  match c with
  | Some 0 => (RInterrupted, UR (u_data u) sched' (u_budget u))
  | _ =>
      match u_budget u with
      | Some 0 => (RFault, UR (u_data u) sched' (u_budget u))
      | _ =>
          let n0 := N.min want (N.of_nat (length (u_data u))) in
          let n1 := match c with Some c' => N.min n0 c' | None => n0 end in
          let n := match u_budget u with Some b => N.min n1 b | None => n1 end in
          (RBytes (firstn (N.to_nat n) (u_data u)),
           UR (skipn (N.to_nat n) (u_data u)) sched' (match u_budget u with Some b => Some (b - n) | None => None end))
      end
  end.

(* io::Error kinds that matter *)
Inductive ioerr := IoEof | IoOther.
Inductive io (A : Type) := IoOk (a : A) | IoErr (e : ioerr) | IoFuel.
Arguments IoOk {A} a. Arguments IoErr {A} e. Arguments IoFuel {A}.

(* std::io::Read::read_exact over the underlying reader: Interrupted is retried, Ok(0) is UnexpectedEof *)
Fixpoint ur_read_exact (fuel : nat) (u : ur) (want : N) (acc : bytes) : io bytes * ur :=
  if want =? 0 then (IoOk acc, u) else
  match fuel with
  | O => (IoFuel, u)
  | S f =>
      match ur_read u want with
      | (RInterrupted, u') => ur_read_exact f u' want acc
      | (RFault, u') => (IoErr IoOther, u')
      | (RBytes [], u') => (IoErr IoEof, u')
      | (RBytes b, u') => ur_read_exact f u' (want - N.of_nat (length b)) (acc ++ b)
      end
  end.
Definition exact_fuel (u : ur) (want : N) : nat := S (length (u_sched u) + N.to_nat want).

Section Reader.
Variable key : Type.
Variable open : key -> nonce -> bytes -> option bytes.
Variable k : key.

Record cr := CR { c_pend : bytes;          (* buf[offset..]: decrypted, not yet delivered *)
                  c_nonce : nonce;
                  c_under : ur }.

(* CryptoReader::new: the 12-byte nonce (u64 then u32, each through read_exact) *)
Definition cr_new (u : ur) : io cr :=
  match ur_read_exact (exact_fuel u 8) u 8 [] with
  | (IoOk a, u1) =>
      match ur_read_exact (exact_fuel u1 4) u1 4 [] with
      | (IoOk b, u2) => IoOk (CR [] (unle a, unle b) u2)
      | (IoErr e, _) => IoErr e
      | (IoFuel, _) => IoFuel
      end
  | (IoErr e, _) => IoErr e
  | (IoFuel, _) => IoFuel
  end.

(* the loop that accumulates the 8-byte chunk-size header across partial reads *)
Inductive hres := HHeader (h : bytes) | HCleanEof | HErr (e : ioerr) | HFuel.
Fixpoint read_header (fuel : nat) (u : ur) (got : bytes) : hres * ur :=
  match fuel with
  | O => (HFuel, u)
  | S f =>
      match ur_read u (8 - N.of_nat (length got)) with
      | (RInterrupted, u') => read_header f u' got                 (* since fix F10: retry in place *)
      | (RFault, u') => (HErr IoOther, u')
      | (RBytes [], u') => (match got with [] => HCleanEof | _ => HErr IoEof end, u')
      | (RBytes b, u') =>
          let got' := got ++ b in
          if N.of_nat (length got') =? 8 then (HHeader got', u') else read_header f u' got'
      end
  end.
Definition header_fuel (u : ur) : nat := S (length (u_sched u) + 8).

(* CryptoReader::read(buf) with buf.len() = want: Ok(bytes delivered) *)
Fixpoint cr_read (fuel : nat) (c : cr) (want : N) : io bytes * cr :=
  if want <=? N.of_nat (length (c_pend c))
  then (IoOk (firstn (N.to_nat want) (c_pend c)), CR (skipn (N.to_nat want) (c_pend c)) (c_nonce c) (c_under c))
  else
  match fuel with
  | O => (IoFuel, c)
  | S f =>
      match read_header (header_fuel (c_under c)) (c_under c) [] with
      | (HCleanEof, u') => (IoOk (c_pend c), CR [] (c_nonce c) u')          (* delivers what is left; [] = EOF *)
      | (HErr e, u') => (IoErr e, CR (c_pend c) (c_nonce c) u')
      | (HFuel, u') => (IoFuel, CR (c_pend c) (c_nonce c) u')
      | (HHeader h, u') =>
          let curlen := unle h in
          if BUFSIZE + TAGLEN <? curlen then (IoErr IoOther, CR (c_pend c) (c_nonce c) u') else
          match ur_read_exact (exact_fuel u' curlen) u' curlen [] with
          | (IoOk body, u'') =>
              let n1 := advance (c_nonce c) in
              match open k n1 body with
              | Some p => cr_read f (CR (c_pend c ++ p) n1 u'') want
              | None => (IoErr IoOther, CR (c_pend c) n1 u'')
              end
          | (IoErr e, u'') => (IoErr e, CR (c_pend c) (c_nonce c) u'')
          | (IoFuel, u'') => (IoFuel, CR (c_pend c) (c_nonce c) u'')
          end
      end
  end.

(* frames are at least 8 bytes of input each: enough fuel for any input *)
Definition cr_fuel (c : cr) : nat := S (length (u_data (c_under c))).

(* std read_exact over the CryptoReader (what Deserializer's reads are): Ok(0) before the buffer is full is
   UnexpectedEof. (CryptoReader::read never returns Interrupted itself.) *)
Fixpoint cr_read_exact (fuel : nat) (c : cr) (want : N) (acc : bytes) : io bytes * cr :=
  if want =? 0 then (IoOk acc, c) else
  match fuel with
  | O => (IoFuel, c)
  | S f =>
      match cr_read (cr_fuel c) c want with
      | (IoOk [], c') => (IoErr IoEof, c')
      | (IoOk b, c') => cr_read_exact f c' (want - N.of_nat (length b)) (acc ++ b)
      | (IoErr e, c') => (IoErr e, c')
      | (IoFuel, c') => (IoFuel, c')
      end
  end.

(* a consumer: a sequence of read_exact requests; stops at the first error *)
Fixpoint drain (c : cr) (reqs : list N) : list (io bytes) :=
  match reqs with
  | [] => []
  | n :: r =>
      match cr_read_exact (S (N.to_nat n)) c n [] with
      | (IoOk b, c') => IoOk b :: drain c' r
      | (other, _) => [other]
      end
  end.

(* opening a file through an underlying reader and serving a sequence of requests *)
Definition serve (u : ur) (reqs : list N) : list (io bytes) :=
  match cr_new u with
  | IoOk c => drain c reqs
  | IoErr e => [IoErr e]
  | IoFuel => [IoFuel]
  end.

(* specification for intact files: the consecutive slices of the plaintext *)
Fixpoint slices (plain : bytes) (reqs : list N) : list (io bytes) :=
  match reqs with
  | [] => []
  | n :: r =>
      if n <=? N.of_nat (length plain)
      then IoOk (firstn (N.to_nat n) plain) :: slices (skipn (N.to_nat n) plain) r
      else [IoErr IoEof]
  end.

End Reader.
