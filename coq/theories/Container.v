(* Container.v — save_impl / load_impl (savefile/src/lib.rs 2140-2203, 2380-2463): header,
   optional schema section, payload; the compressed variant over an abstract (de)compressor.
   Definitions only. *)
From SF Require Import Bytes Schema Ty HarnessTy.
Open Scope N_scope.

(* save(writer, version, data) with / without schema, uncompressed *)
Definition save_plain (with_schema : option schema) (v : N) (payload : bytes) : bytes :=
  header v false ++ match with_schema with Some s => ser LIBVER s | None => [] end ++ payload.

(* The header part of load_impl: returns (library format version, file version, compressed?, rest). *)
Definition load_header (cur_version : N) (bs : bytes) : res (N * N * bool * bytes) :=
  let* (head, r) := take_exact 9 bs in
  if negb (bytes_eqb head MAGIC) then Err EGeneral else
  let* (libver, r) := rd_le 2 r in
  if LIBVER <? libver then Err EGeneral else
  let* (filever, r) := rd_le 4 r in
  if cur_version <? filever then Err EWrongVersion else
  let* (comp, r) := rd_u8 r in
  Ok (libver, filever, negb (comp =? 0), r).

(* schema section + comparison + payload, on an (already decompressed, if need be) stream *)
Definition load_body (mem_schema : option (N -> schema)) (libver filever : N) (t : ty) (r : bytes) : res (val * bytes) :=
  let* r' :=
    (match mem_schema with
     | Some ms =>
         let* (fs, r') := de_top libver r in
         match diff (ms filever) fs false with
         | DSame => Ok r'
         | DDiff => Err ESchema
         | DPanic => Panic
         end
     | None => Ok r
     end) in
  dec filever t r'.

(* load / load_noschema on an uncompressed file *)
Definition load_plain (mem_schema : option (N -> schema)) (cur_version : N) (t : ty) (bs : bytes) : res (val * bytes) :=
  let* (hdr, r) := load_header cur_version bs in
  let '(libver, filever, compressed) := hdr in
  if compressed then Err EOther   (* handled by load_compressed *)
  else load_body mem_schema libver filever t r.

Section Compressed.
(* bzip2 as an abstract stream codec: [decompress] returns the plaintext recovered from a
   (possibly truncated) compressed stream and whether the stream ended cleanly. *)
Variable compress : bytes -> bytes.
Variable decompress : bytes -> bytes * bool.

Definition save_compressed (with_schema : option schema) (v : N) (payload : bytes) : bytes :=
  header v true ++ compress (match with_schema with Some s => ser LIBVER s | None => [] end ++ payload).

(* Reading through BzDecoder: a read past the recovered plaintext of a stream that did not end
   cleanly is an I/O error; modelled by decoding the recovered plaintext and mapping a
   shortfall to an error. *)
Definition load_compressed (mem_schema : option (N -> schema)) (cur_version : N) (t : ty) (bs : bytes) : res (val * bytes) :=
  let* (hdr, r) := load_header cur_version bs in
  let '(libver, filever, compressed) := hdr in
  if compressed then
    let '(plain, clean) := decompress r in
    match load_body mem_schema libver filever t plain with
    | Err EEof => if clean then Err EEof else Err EOther
    | other => other
    end
  else load_body mem_schema libver filever t r.

End Compressed.
