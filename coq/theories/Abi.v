(* Abi.v — savefile-abi decision logic: AbiTraitDefinition::verify_backward_compatible (savefile/src/lib.rs
   3544-3651), arg_layout_compatible and analyze_and_create (savefile-abi/src/lib.rs 1109-1354), version
   negotiation, the compatibility ledger verify_compatiblity (1815-1829), FlexBuffer (1000-1101).
   Definitions only. *)
From SF Require Import Bytes Schema.
Open Scope N_scope.

Inductive vres := VOk | VErr | VPanic.

Definition of_dres (d : dres) : vres := match d with DSame => VOk | DDiff => VErr | DPanic => VPanic end.
Definition vthen (a : vres) (b : vres) : vres := match a with VOk => b | _ => a end.

(* self = new (caller), old = callee *)
Definition verify_compat (new old : traitdef) (rp : bool) : vres :=
  if (if rp then (negb (td_sync old) && td_sync new) || (negb (td_send old) && td_send new)
      else (td_sync old && negb (td_sync new)) || (td_send old && negb (td_send new)))
  then VErr else
  (fix go (oms : list method) : vres :=
     match oms with
     | [] => VOk
     | om :: r =>
         vthen
           (match find_method (m_name om) (td_methods new) with
            | None => VErr                                            (* method removed *)
            | Some nm =>
                if negb (Bool.eqb (m_async nm) (m_async om)) then VErr else
                if negb (Nat.eqb (length (m_args nm)) (length (m_args om))) then VErr else
                vthen (of_dres (diff (m_ret nm) (m_ret om) rp))
                  ((fix goa (na oa : list schema) : vres :=
                      match na, oa with
                      | x :: ta, y :: tb => vthen (of_dres (diff x y rp)) (goa ta tb)
                      | _, _ => VOk
                      end) (m_args nm) (m_args om))
            end)
           (go r)
     end) (td_methods old).

(* arg_layout_compatible: Ok true / Ok false / Err / Panic *)
Inductive lres := LYes | LNo | LErr | LPanic.
Definition of_vres (v : vres) (yes : lres) : lres := match v with VOk => yes | VErr => LErr | VPanic => LPanic end.

Fixpoint arg_layout_compatible (a_nat b_nat a_eff b_eff : schema) (ev : N) (rp : bool) {struct a_nat} : lres :=
  match a_nat, b_nat with
  | SFuture _ _ _ _, SFuture _ _ _ _ =>
      match a_eff, b_eff with
      | SFuture ea sea sya una, SFuture eb seb syb unb =>
          if (sea && negb seb) || (sya && negb syb) || (una && negb unb) then LErr
          else of_vres (verify_compat ea eb rp) LYes
      | _, _ => LErr
      end
  | SFnClosure a1 _, SFnClosure b1 _ =>
      match a_eff, b_eff with
      | SFnClosure ea1 ea2, SFnClosure eb1 eb2 =>
          of_vres (verify_compat ea2 eb2 rp)
                  (if Bool.eqb a1 b1 && Bool.eqb a1 ea1 && Bool.eqb a1 eb1 then LYes else LNo)
      | _, _ => LErr
      end
  | SBoxed na, SBoxed nb =>
      match a_eff, b_eff with
      | SBoxed ea, SBoxed eb => arg_layout_compatible na nb ea eb ev rp
      | _, _ => LErr
      end
  | STrait sa _, STrait sb _ =>
      if negb (Bool.eqb sa sb) then LErr else
      match a_eff, b_eff with
      | STrait ea ta, STrait eb tb =>
          if negb (Bool.eqb ea eb) then LErr else of_vres (verify_compat ta tb rp) LYes
      | _, _ => LErr
      end
  (* since fix F16: by reference only if, in addition, each side's type is unchanged between its native and the
     effective version (Schema's PartialEq: equality of everything the format-2 serialization records) *)
  | a, b => if layout_compatible a b && bytes_eqb (ser 2 a) (ser 2 a_eff) && bytes_eqb (ser 2 b) (ser 2 b_eff) then LYes else LNo
  end.

(* one entry of the connection template *)
Record cmethod := CM { cm_name : bytes; cm_callee : option N; cm_mask : N }.

Inductive ares := AOk (ms : list cmethod) | AErr (e : err) | APanic.

Definition nth_schema (l : list schema) (i : nat) : schema := nth i l SUndefined.

(* verify_compatibility closure + mask accumulation over the arguments *)
Fixpoint args_mask (ce cle cn cln : list schema) (ev : N) (idx : N) (mask : N) : res N :=
  match ce, cle, cn, cln with
  | e1 :: re1, e2 :: re2, n1 :: rn1, n2 :: rn2 =>
      match diff e1 e2 false with
      | DDiff => Err ESchema
      | DPanic => Panic
      | DSame =>
          match arg_layout_compatible n1 n2 e1 e2 ev false with
          | LErr => Err ESchema
          | LPanic => Panic
          | LYes => args_mask re1 re2 rn1 rn2 ev (idx + 1) (N.lor mask (N.shiftl 1 idx))
          | LNo => args_mask re1 re2 rn1 rn2 ev (idx + 1) mask
          end
      end
  | _, _, _, _ => Ok mask
  end.

Definition index_of_method (name : bytes) (ms : list method) : option (N * method) :=
  (fix go (ms : list method) (i : N) : option (N * method) :=
     match ms with
     | [] => None
     | m :: r => if bytes_eqb (m_name m) name then Some (i, m) else go r (i + 1)
     end) ms 0.

Definition analyze (ev : N) (caller_eff callee_eff caller_nat callee_nat : traitdef) : ares :=
  (* since fix F5 there is no limit on the number of methods (the 64-argument limit is per method, below) *)
  (fix go (ms : list method) (acc : list cmethod) : ares :=
     match ms with
     | [] => AOk (rev acc)
     | cm :: r =>
         match index_of_method (m_name cm) (td_methods callee_nat) with
         | None => go r (CM (m_name cm) None 0 :: acc)
         | Some (cidx, cnm) =>
             match find_method (m_name cm) (td_methods callee_eff), find_method (m_name cm) (td_methods caller_eff) with
             | Some cle, Some ce =>
                 let n := length (m_args cm) in
                 if negb (Nat.eqb n (length (m_args cnm))) then AErr EGeneral else
                 if negb (Nat.eqb n (length (m_args ce))) then AErr EGeneral else
                 if negb (Nat.eqb n (length (m_args cle))) then AErr EGeneral else
                 if Nat.ltb 64 n then AErr EOther else
                 match diff (m_ret ce) (m_ret cle) true with
                 | DDiff => AErr ESchema
                 | DPanic => APanic
                 | DSame =>
                     match args_mask (m_args ce) (m_args cle) (m_args cm) (m_args cnm) ev 0 0 with
                     | Err e => AErr e
                     | Panic | OutOfFuel => APanic
                     | Ok mask =>
                         (* the return value goes through the same closure with index = None *)
                         match diff (m_ret ce) (m_ret cle) true with
                         | DDiff => AErr ESchema
                         | DPanic => APanic
                         | DSame =>
                             match arg_layout_compatible (m_ret cm) (m_ret cnm) (m_ret ce) (m_ret cle) ev true with
                             | LErr => AErr ESchema
                             | LPanic => APanic
                             | _ => go r (CM (m_name cm) (Some cidx) mask :: acc)
                             end
                         end
                     end
                 end
             | _, _ => AErr EGeneral
             end
         end
     end) (td_methods caller_nat) [].

Definition effective_version (own callee : N) : N := N.min own callee.

(* ---------------- the compatibility ledger ---------------- *)
(* directory: version -> stored definition (decoded); one interface name *)
Definition ledger := list (N * traitdef).
Definition ledger_get (d : ledger) (v : N) : option traitdef :=
  match find (fun p => fst p =? v) d with Some p => Some (snd p) | None => None end.

(* what is stored: the definition written at data version 1, i.e. without receiver / async flag *)
Definition store_form (t : traitdef) : traitdef :=
  TD (td_name t) (map (fun m : method => Meth (m_name m) (m_ret m) RShared (m_args m) false) (td_methods t)) (td_sync t) (td_send t).

(* verify_compatiblity for one revision whose definitions at versions 0..latest are [defs] *)
Fixpoint ledger_run (d : ledger) (defs : list traitdef) (v : N) : ledger * vres :=
  match defs with
  | [] => (d, VOk)
  | def :: r =>
      match ledger_get d v with
      | Some old =>
          match verify_compat def old false with
          | VOk => ledger_run d r (v + 1)
          | other => (d, other)
          end
      | None => ledger_run (d ++ [(v, store_form def)]) r (v + 1)
      end
  end.

(* a sequence of revisions *)
Fixpoint ledger_seq (d : ledger) (revs : list (list traitdef)) : ledger * list vres :=
  match revs with
  | [] => (d, [])
  | defs :: r =>
      let '(d1, res) := ledger_run d defs 0 in
      let '(d2, rest) := ledger_seq d1 r in
      (d2, res :: rest)
  end.

(* ---------------- FlexBuffer ---------------- *)
Definition FLEX : N := 64.
Inductive flex := FStack (data : bytes) | FSpill (data : bytes).
Definition flex_contents (f : flex) : bytes := match f with FStack d | FSpill d => d end.
Definition flex_write (f : flex) (buf : bytes) : flex :=
  match f with
  | FStack d => if N.of_nat (length d) + N.of_nat (length buf) <=? FLEX then FStack (d ++ buf) else FSpill (d ++ buf)
  | FSpill d => FSpill (d ++ buf)
  end.
