(* HarnessC5.v — cross-type loads and header corruption (C05). *)
From SF Require Import Bytes Schema Ty HarnessTy Container.
Open Scope N_scope.

Definition schema_of_hex (h : bytes) : option schema :=
  match de_top 2 h with Ok (s, []) => Some s | _ => None end.

Fixpoint shp_eqb (a b : shp) {struct a} : bool :=
  let list_eqb := fix list_eqb (l1 l2 : list shp) {struct l1} : bool :=
      match l1, l2 with
      | [], [] => true
      | x :: r1, y :: r2 => shp_eqb x y && list_eqb r1 r2
      | _, _ => false
      end in
  match a, b with
  | HStruct fa, HStruct fb => list_eqb fa fb
  | HEnum da va, HEnum db vb =>
      (da =? db) &&
      (fix veqb (l1 l2 : list (bytes * N * list shp)) {struct l1} : bool :=
         match l1, l2 with
         | [], [] => true
         | (n1, d1, f1) :: r1, (n2, d2, f2) :: r2 => bytes_eqb n1 n2 && (d1 =? d2) && list_eqb f1 f2 && veqb r1 r2
         | _, _ => false
         end) va vb
  | HPrim x, HPrim y => x =? y
  | HVector x, HVector y => shp_eqb x y
  | HArray c x, HArray d y => (c =? d) && shp_eqb x y
  | HOption x, HOption y => shp_eqb x y
  | HZero, HZero => true
  | HCustom x, HCustom y => bytes_eqb x y
  | HBoxed x, HBoxed y => shp_eqb x y
  | HSlice x, HSlice y => shp_eqb x y
  | HStr, HStr => true
  | HRef x, HRef y => shp_eqb x y
  | HRec x, HRec y => x =? y
  | HIoErr, HIoErr => true
  | HUninit, HUninit => true
  | HUtc, HUtc => true
  | HOther, HOther => true
  | _, _ => false
  end.

(* the model's load with the loading type's real schema, against the observation *)
Definition agree_xload (cur : N) (tB : ty) (sB_hex : bytes) (file : bytes) (o : obs_load) : bool :=
  match schema_of_hex sB_hex with
  | Some sB =>
      match load_plain (Some (fun _ : N => sB)) cur tB file, o with
      | Ok (y, r), OLoadOk c y' => val_eqb y y' && (c + N.of_nat (length r) =? N.of_nat (length file))
      | Err e, OLoadErr e' => err_tag2 e =? err_tag2 e'
      | Panic, OLoadPanic => true
      | _, _ => false
      end
  | None => false
  end.

(* the property on the implementation: rejected with a schema error iff the wire shapes differ *)
Definition is_schema_err (o : obs_load) : bool :=
  match o with OLoadErr ESchema => true | _ => false end.
Definition xload_oracle (sA_hex sB_hex : bytes) (o : obs_load) : bool :=
  match schema_of_hex sA_hex, schema_of_hex sB_hex with
  | Some sA, Some sB =>
      if shp_eqb (shape sA) (shape sB) then negb (is_schema_err o) else is_schema_err o
  | _, _ => false
  end.

(* when the load was accepted, the loaded value re-encodes (as the loading type) to the very payload *)
Definition xload_not_misread (tB : ty) (file : bytes) (o : obs_load) : bool :=
  match o with
  | OLoadOk c y =>
      match de_top 2 (skipn 16 file) with
      | Ok (_, payload) => match enc 0 tB y with Ok b => bytes_eqb b payload | _ => false end
      | _ => false
      end
  | _ => true
  end.

(* header corruption / arbitrary file bytes, schema-less load *)
Definition agree_load_noschema (cur : N) (t : ty) (file : bytes) (o : obs_load) : bool :=
  match load_plain None cur t file, o with
  | Ok (y, r), OLoadOk c y' => val_eqb y y' && (c + N.of_nat (length r) =? N.of_nat (length file))
  | Err e, OLoadErr e' => err_tag2 e =? err_tag2 e'
  | Panic, OLoadPanic => true
  | _, _ => false
  end.
