(* SchemaOf.v — the schema reported for a type and version (library WithSchema impls + the derive),
   and a generic reader driven only by a schema (C12, C05). Definitions only. *)
From SF Require Import Bytes Schema Ty.
Open Scope N_scope.

Definition prim_of_ity (k : ity) : prim :=
  match k with
  | U8 => Pu8 | I8 => Pi8 | U16 => Pu16 | I16 => Pi16 | U32 => Pu32 | I32 => Pi32
  | U64 | Usize => Pu64 | I64 | Isize => Pi64 | U128 => Pu128 | I128 => Pi128
  end.

Definition RESULT_NAME : bytes := [82; 101; 115; 117; 108; 116].
Definition OK_NAME : bytes := [79; 107].
Definition ERR_NAME : bytes := [69; 114; 114].

(* names of structs and fields are diagnostic only and are not modelled (empty); variant names are *)
Fixpoint schema_of (v : N) (t : ty) {struct t} : schema :=
  let fields_of := fix fields_of (known_offs : bool) (fs : list fdef) (offs : list N) {struct fs} : list field :=
      match fs with
      | [] => []
      | f :: rf =>
          let o := match offs with o :: _ => Some o | [] => None end in
          let ro := match offs with _ :: r => r | [] => [] end in
          (if negb (is_ignored f) && present v f
           then [Fld [] (schema_of v (fd_ty f))
                     (if known_offs then match fd_to f with Some _ => None | None => o end else None)]
           else []) ++ fields_of known_offs rf ro
      end in
  match t with
  | TInt k => SPrim (prim_of_ity k)
  | TBool => SPrim Pbool | TChar => SPrim Pchar | TF32 => SPrim Pf32 | TF64 => SPrim Pf64
  | TUnit => SZeroSize
  | TString => SPrim (Pstring VLUnknown)
  | TVec t' => SVector (schema_of v t') VLUnknown
  | TSeq t' => SVector (schema_of v t') VLUnknown
  | TArray t' n => SArray (schema_of v t') n
  | TOption t' => SOption (schema_of v t')
  | TResult a b =>
      SEnum RESULT_NAME [Var OK_NAME 0 [Fld [] (schema_of v a) None]; Var ERR_NAME 0 [Fld [] (schema_of v b) None]]
            1 false None None
  | TBox t' => schema_of v t'
  | TCell t' => schema_of v t'
  | TTuple l ts =>
      SStruct [] (Some (l_size l)) (Some (l_align l))
        ((fix go (ts : list ty) (offs : list N) {struct ts} : list field :=
            match ts with
            | [] => []
            | t' :: rt =>
                Fld [] (schema_of v t') (match offs with o :: _ => Some o | [] => None end)
                :: go rt (match offs with _ :: r => r | [] => [] end)
            end) ts (l_offs l))
  | TStruct l fs => SStruct [] (Some (l_size l)) (Some (l_align l)) (fields_of true fs (l_offs l))
  | TEnum repr l voffs vs =>
      SEnum []
        ((fix go (vs0 : list vdef) (vo : list (list N)) (idx : N) {struct vs0} : list variant :=
            match vs0 with
            | [] => []
            | vd :: rv =>
                (if in_range (vd_from vd) (vd_to vd) v
                 then [Var (vd_name vd) (idx mod 256)
                           (fields_of (match repr with Some _ => true | None => false end)
                                      (vd_fields vd) (match vo with o :: _ => o | [] => [] end))]
                 else [])
                ++ go rv (match vo with _ :: r => r | [] => [] end) (idx + 1)
            end) vs voffs 0)
        (N.of_nat (dwidth repr (length vs))) (l_reprc l) (Some (l_size l)) (Some (l_align l))
  end.

(* comparison of a real schema with the model's: diagnostic names and string/vector layouts erased *)
Fixpoint erase (s : schema) : schema :=
  let ef := fun f : field => Fld [] (erase (f_val f)) (f_off f) in
  match s with
  | SStruct _ sz al fs => SStruct [] sz al (map ef fs)
  | SEnum n vs ds r sz al =>
      SEnum [] (map (fun va : variant => Var (v_name va) (v_discr va) (map ef (v_fields va))) vs) ds r sz al
  | SPrim (Pstring _) => SPrim (Pstring VLUnknown)
  | SVector s' _ => SVector (erase s') VLUnknown
  | SArray s' c => SArray (erase s') c
  | SOption s' => SOption (erase s')
  | SBoxed s' => SBoxed (erase s')
  | SSlice s' => SSlice (erase s')
  | SReference s' => SReference (erase s')
  | other => other
  end.

Definition schema_agrees (real model : schema) : bool :=
  bytes_eqb (ser 2 (erase real)) (ser 2 (erase model)).

Fixpoint no_recursion_marker (s : schema) : bool :=
  let okf := fun f : field => no_recursion_marker (f_val f) in
  match s with
  | SStruct _ _ _ fs => forallb okf fs
  | SEnum _ vs _ _ _ _ => forallb (fun va : variant => forallb okf (v_fields va)) vs
  | SVector s' _ | SArray s' _ | SOption s' | SBoxed s' | SSlice s' | SReference s' => no_recursion_marker s'
  | SRecursion _ => false
  | _ => true
  end.

(* ------------------------------------------------------------------ *)
(* A generic reader driven only by a schema. *)

Inductive tree :=
| TRaw (b : bytes)            (* a fixed-width primitive, as its bytes *)
| TStrT (b : bytes)
| TSeqT (l : list tree)
| TNoneT
| TSomeT (x : tree)
| TRecT (l : list tree)
| TVarT (discr : N) (l : list tree)
| TZeroT.

Definition prim_width (p : prim) : option nat :=
  match p with
  | Pi8 | Pu8 | Pbool => Some 1 | Pi16 | Pu16 => Some 2 | Pi32 | Pu32 | Pf32 | Pcanary1 | Pchar => Some 4
  | Pi64 | Pu64 | Pf64 => Some 8 | Pi128 | Pu128 => Some 16 | Pstring _ => None
  end%nat.

Fixpoint sread (s : schema) {struct s} : reader tree :=
  let rfields := fix rfields (fs : list field) {struct fs} : reader (list tree) :=
      fun bs =>
      match fs with
      | [] => Ok ([], bs)
      | f :: rf => let* (x, r) := sread (f_val f) bs in let* (xs, r') := rfields rf r in Ok (x :: xs, r')
      end in
  match s with
  | SPrim p =>
      match prim_width p with
      | Some w => fun bs => let* (b, r) := take_exact w bs in Ok (TRaw b, r)
      | None => fun bs => let* (b, r) := rd_string bs in Ok (TStrT b, r)
      end
  | SZeroSize => fun bs => Ok (TZeroT, bs)
  | SStruct _ _ _ fs => fun bs => let* (xs, r) := rfields fs bs in Ok (TRecT xs, r)
  | SEnum _ vs ds _ _ _ => fun bs =>
      let* (d, r) := rd_le (N.to_nat ds) bs in
      (fix pick (vs0 : list variant) {struct vs0} : res (tree * bytes) :=
         match vs0 with
         | [] => Err EGeneral
         | va :: rv => if v_discr va =? d then let* (xs, r') := rfields (v_fields va) r in Ok (TVarT d xs, r')
                       else pick rv
         end) vs
  | SVector s' _ => fun bs =>
      let* (n, r) := rd_usize bs in
      let* (xs, r') := read_n (sread s') (seq_fuel n r) n r in Ok (TSeqT xs, r')
  | SArray s' c => fun bs => let* (xs, r') := read_n (sread s') (N.to_nat c) c bs in Ok (TSeqT xs, r')
  | SOption s' => fun bs =>
      let* (b, r) := rd_bool bs in
      if b then let* (x, r') := sread s' r in Ok (TSomeT x, r') else Ok (TNoneT, r)
  | SBoxed s' | SReference s' => sread s'
  | _ => fun _ => Err EOther
  end.

(* the structure a value has on the wire at version v *)
Fixpoint tree_of (v : N) (t : ty) (x : val) {struct t} : tree :=
  let tfields := fix tfields (fs : list fdef) (xs : list val) {struct fs} : list tree :=
      match fs, xs with
      | f :: rf, y :: ry =>
          (match fd_kind f with
           | FIgnored => []
           | FNormal => if present v f then [tree_of v (fd_ty f) y] else []
           | FRemoved => []
           | FAbiRemoved => if present v f then [tree_of v (fd_ty f) (fd_default f)] else []
           end) ++ tfields rf ry
      | _, _ => []
      end in
  match t, x with
  | TInt k, VInt z => TRaw (le (ity_bytes k) (twos (ity_bytes k) z))
  | TBool, VInt z => TRaw [if (z =? 0)%Z then 0 else 1]
  | TChar, VInt z => TRaw (le 4 (Z.to_N z))
  | TF32, VInt z => TRaw (le 4 (Z.to_N z))
  | TF64, VInt z => TRaw (le 8 (Z.to_N z))
  | TString, VStr b => TStrT b
  | TVec t', VSeq l | TSeq t', VSeq l | TArray t' _, VSeq l => TSeqT (map (tree_of v t') l)
  | TOption t', VNone => TNoneT
  | TOption t', VSome y => TSomeT (tree_of v t' y)
  | TBox t', y | TCell t', y => tree_of v t' y
  | TTuple _ ts, VRec xs =>
      TRecT ((fix go (ts : list ty) (xs : list val) {struct ts} : list tree :=
                match ts, xs with
                | t' :: rt, y :: ry => tree_of v t' y :: go rt ry
                | _, _ => []
                end) ts xs)
  | TStruct _ fs, VRec xs => TRecT (tfields fs xs)
  | TEnum _ _ _ vs, VVar idx xs =>
      TVarT idx ((fix pick (vs0 : list vdef) (i : nat) {struct vs0} : list tree :=
                    match vs0, i with
                    | vd :: _, O => tfields (vd_fields vd) xs
                    | _ :: rv, S j => pick rv j
                    | [], _ => []
                    end) vs (N.to_nat idx))
  | _, _ => TZeroT
  end.

(* Known classes where the schema is NOT faithful (each has a witness in Properties/C12.v):
   Result (both variants carry discriminant 0) and enums with more than 256 variants
   (Variant.discriminant is a u8). *)
Fixpoint faithful_class (t : ty) : bool :=
  let okf := fun f : fdef => faithful_class (fd_ty f) in
  match t with
  | TResult _ _ => false
  | TVec t' | TSeq t' | TOption t' | TBox t' | TCell t' | TArray t' _ => faithful_class t'
  | TTuple _ ts => forallb faithful_class ts
  | TStruct _ fs => forallb okf fs
  | TEnum _ _ _ vs => (N.of_nat (length vs) <=? 256) && forallb (fun vd : vdef => forallb okf (vd_fields vd)) vs
  | _ => true
  end.

(* decidable equality on trees for the correspondence *)
Fixpoint tree_eqb (a b : tree) {struct a} : bool :=
  let list_eqb := fix list_eqb (l1 l2 : list tree) {struct l1} : bool :=
      match l1, l2 with
      | [], [] => true
      | x :: r1, y :: r2 => tree_eqb x y && list_eqb r1 r2
      | _, _ => false
      end in
  match a, b with
  | TRaw x, TRaw y => bytes_eqb x y
  | TStrT x, TStrT y => bytes_eqb x y
  | TSeqT x, TSeqT y => list_eqb x y
  | TNoneT, TNoneT => true
  | TSomeT x, TSomeT y => tree_eqb x y
  | TRecT x, TRecT y => list_eqb x y
  | TVarT d x, TVarT e y => (d =? e) && list_eqb x y
  | TZeroT, TZeroT => true
  | _, _ => false
  end.
