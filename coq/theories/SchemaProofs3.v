(* SchemaProofs3.v — the schema reader model never panics.
   [de] (and hence [de_top]) returns Ok / Err / OutOfFuel on every input, for every
   format version and every fuel: the single [Panic] literal of the reader (in [de_td],
   for an empty result of name.split('+')) is unreachable because [split_plus] never
   returns the empty list. *)
From Coq Require Import Lia ZArith List Bool.
From SF Require Import Bytes Schema SchemaProofs.
Import ListNotations.
Open Scope N_scope.

(* ------------------------------------------------------------------ *)
(* 1. split('+') always yields at least one segment *)

Lemma split_plus_nonempty : forall cur s, split_plus cur s <> [].
Proof.
  intros cur s; revert cur.
  induction s as [|c r IH]; intros cur; cbn [split_plus].
  - discriminate.
  - destruct (c =? PLUS); [discriminate | apply IH].
Qed.

(* ------------------------------------------------------------------ *)
(* 2. no-panic for bind and the primitive readers *)

Lemma bind_np {A B} (r : res A) (f : A -> res B) :
  r <> Panic -> (forall x, f x <> Panic) -> bind r f <> Panic.
Proof. intros Hr Hf. destruct r; cbn [bind]; try discriminate; [apply Hf | exfalso; apply Hr; reflexivity]. Qed.

Lemma take_exact_np k bs : take_exact k bs <> Panic.
Proof. unfold take_exact. destruct (Nat.leb k (length bs)); discriminate. Qed.

Lemma rd_le_np w bs : rd_le w bs <> Panic.
Proof.
  unfold rd_le. apply bind_np; [apply take_exact_np | intros [a r]; discriminate].
Qed.

Lemma rd_u8_np bs : rd_u8 bs <> Panic.
Proof. apply rd_le_np. Qed.

Lemma rd_usize_np bs : rd_usize bs <> Panic.
Proof. apply rd_le_np. Qed.

(* structural driver: peel binds / ifs / matches, close leaves with the lemmas given
   by [np_leaf] (extended below as more readers are covered) *)
Ltac np_with leaf :=
  lazymatch goal with
  | |- Ok _ <> Panic => discriminate
  | |- Err _ <> Panic => discriminate
  | |- OutOfFuel <> Panic => discriminate
  | |- bind _ _ <> Panic => apply bind_np; [ np_with leaf | intros [? ?]; np_with leaf ]
  | |- (if ?c then _ else _) <> Panic => destruct c; np_with leaf
  | |- (match ?x with _ => _ end) <> Panic => destruct x; cbv beta iota; np_with leaf
  | |- forall _, _ => intro; np_with leaf
  | |- _ => leaf
  end.

Ltac leaf0 :=
  first [ apply take_exact_np | apply rd_u8_np | apply rd_usize_np | apply rd_le_np
        | match goal with H : _ |- _ => apply H end ].

Lemma rd_bool_np bs : rd_bool bs <> Panic.
Proof. unfold rd_bool. np_with leaf0. Qed.

Lemma rd_opt_usize_np bs : rd_opt_usize bs <> Panic.
Proof.
  unfold rd_opt_usize. apply bind_np; [apply rd_le_np || apply rd_bool_np | intros [t r]].
  destruct t; np_with leaf0.
Qed.

Lemma rd_string_np bs : rd_string bs <> Panic.
Proof. unfold rd_string. np_with leaf0. Qed.

Lemma rd_vlayout_np bs : rd_vlayout bs <> Panic.
Proof. unfold rd_vlayout. np_with leaf0. Qed.

Lemma rd_gated_np {A} gate (dflt : A) (rd : reader A) :
  (forall bs, rd bs <> Panic) -> forall bs, rd_gated gate dflt rd bs <> Panic.
Proof. intros H bs. unfold rd_gated. destruct gate; [apply H | discriminate]. Qed.

Lemma read_n_np {A} (rd : reader A) :
  (forall bs, rd bs <> Panic) -> forall fuel count bs, read_n rd fuel count bs <> Panic.
Proof.
  intros H. induction fuel as [|f IH]; intros count bs; cbn [read_n].
  - destruct (count =? 0); discriminate.
  - destruct (count =? 0); [discriminate|].
    apply bind_np; [apply H | intros [x r]].
    apply bind_np; [apply IH | intros [xs r']; discriminate].
Qed.

Lemma rd_vec_np {A} (rd : reader A) :
  (forall bs, rd bs <> Panic) -> forall bs, rd_vec rd bs <> Panic.
Proof.
  intros H bs. unfold rd_vec. apply bind_np; [apply rd_usize_np | intros [l r]].
  destruct (VEC_LIMIT <? l); [discriminate | apply read_n_np; exact H].
Qed.

Ltac leaf1 :=
  first [ apply rd_bool_np | apply rd_opt_usize_np | apply rd_string_np | apply rd_vlayout_np
        | apply rd_gated_np; np_with leaf1
        | apply read_n_np; np_with leaf1
        | apply rd_vec_np; np_with leaf1
        | leaf0 ].

(* ------------------------------------------------------------------ *)
(* the schema component readers *)

Section NP.
Variable fv : N.

Lemma de_prim_np bs : de_prim fv bs <> Panic.
Proof. unfold de_prim. np_with leaf1. Qed.

Lemma de_receiver_np bs : de_receiver bs <> Panic.
Proof. unfold de_receiver. np_with leaf1. Qed.

Section Sub.
Variable d : reader schema.
Hypothesis Hd : forall bs, d bs <> Panic.

Lemma de_field_np bs : de_field fv d bs <> Panic.
Proof. unfold de_field. np_with leaf1. Qed.

Lemma de_variant_np bs : de_variant fv d bs <> Panic.
Proof.
  unfold de_variant.
  np_with ltac:(first [ apply read_n_np; intro; apply de_field_np | leaf1 ]).
Qed.

Lemma de_method_np bs : de_method fv d bs <> Panic.
Proof.
  unfold de_method.
  np_with ltac:(first [ apply rd_gated_np; intro; apply de_receiver_np | leaf1 ]).
Qed.

Lemma de_td_np bs : de_td fv d bs <> Panic.
Proof.
  unfold de_td. apply bind_np; [apply rd_string_np | intros [ename r]].
  destruct (split_plus [] ename) as [|name segs] eqn:E.
  - exfalso. exact (split_plus_nonempty _ _ E).
  - np_with ltac:(first [ apply rd_vec_np; intro; apply de_method_np | leaf1 ]).
Qed.

End Sub.

Theorem de_no_panic_fv : forall fuel bs, de fv fuel bs <> Panic.
Proof.
  induction fuel as [|f IH]; intros bs.
  - cbn [de]. discriminate.
  - cbn [de].
    np_with ltac:(first
      [ apply de_prim_np
      | apply de_td_np; exact IH
      | apply read_n_np; intro; apply de_field_np; exact IH
      | apply read_n_np; intro; apply de_variant_np; exact IH
      | leaf1 ]).
Qed.

End NP.

(* [de]'s real signature is [de fv fuel bs] (format version first, it is a section variable) *)
Theorem de_no_panic : forall fuel fv bs, de fv fuel bs <> Panic.
Proof. intros fuel fv bs. apply de_no_panic_fv. Qed.

Theorem de_top_no_panic : forall fv bs, de_top fv bs <> Panic.
Proof. intros fv bs. unfold de_top. apply de_no_panic. Qed.

(* ------------------------------------------------------------------ *)
(* 4. Non-vacuity: the reader really runs on these inputs *)

Definition ex_trait : schema :=
  STrait true (TD [84] [Meth [102] (SPrim Pu32) RMut [SPrim Pu8; SVector SStr VL3] true] true false).

(* (a) a valid trait object schema, with a method, a +Sync suffix and trailing bytes *)
Example np_ex_a : de_top 2 (ser 2 ex_trait ++ [7; 7]) = Ok (ex_trait, [7; 7]).
Proof. vm_compute. reflexivity. Qed.

Example np_ex_a' :
  de_top 2 ([15; 0] ++ enc_string [84] ++ enc_usize 0) = Ok (STrait false (TD [84] [] false false), []).
Proof. vm_compute. reflexivity. Qed.

(* (b) trait name "T+Foo": an error (GeneralError since fix F17), not a panic *)
Example np_ex_b :
  de_top 2 ([15; 1] ++ enc_string [84; 43; 70; 111; 111] ++ enc_usize 0) = Err EGeneral.
Proof. vm_compute. reflexivity. Qed.

(* (c) trait name "+": segments ["", ""], the second is neither Sync nor Send *)
Example np_ex_c :
  de_top 2 ([15; 1] ++ enc_string [43] ++ enc_usize 0) = Err EGeneral.
Proof. vm_compute. reflexivity. Qed.

(* (d) empty input *)
Example np_ex_d : de_top 2 [] = Err EEof.
Proof. vm_compute. reflexivity. Qed.

(* (e) unknown tag *)
Example np_ex_e : de_top 2 [200] = Err EGeneral.
Proof. vm_compute. reflexivity. Qed.

(* the empty trait name splits into one (empty) segment, never zero *)
Example np_ex_split : split_plus [] [] = [[]] /\ split_plus [] [43] = [[]; []].
Proof. vm_compute. split; reflexivity. Qed.

Check split_plus_nonempty.
Check de_no_panic.
Check de_top_no_panic.
Print Assumptions de_no_panic.
Print Assumptions de_top_no_panic.
