(* IntrospectAgree.v — the rule table of the library's Introspect impls, regenerated from /repo's source on every
   run (coq/extracted/Extracted.v: x_introspect_impls, x_max_children), satisfies the consistency condition of
   IntrospectOf.entry_ok. If an impl's introspect_len or introspect_child changes shape, this stops compiling. *)
From Coq Require Import String.
From SF Require Import Bytes IntrospectOf.
From SFX Require Import Extracted.
Open Scope string_scope.
Open Scope N_scope.

Definition crule_of (p : string * N) : option crule :=
  let '(s, k) := p in
  if String.eqb s "CIndexed" then Some CIndexed else
  if String.eqb s "CPairs" then Some CPairs else
  if String.eqb s "CDelegate" then Some CDelegate else
  if String.eqb s "CNoChildren" then Some CNoChildren else
  if String.eqb s "CFixed" then Some (CFixed k) else None.

Definition lrule_of (p : string * N) : option lrule :=
  let '(s, k) := p in
  if String.eqb s "LLen" then Some LLen else
  if String.eqb s "LLen2" then Some LLen2 else
  if String.eqb s "LArrayN" then Some LArrayN else
  if String.eqb s "LDefault" then Some LDefault else
  if String.eqb s "LDelegate" then Some LDelegate else
  if String.eqb s "LConst" then Some (LConst k) else None.

Fixpoint conv (l : list (string * (string * N) * (string * N))) : option (list (string * crule * lrule)) :=
  match l with
  | [] => Some []
  | (n, c, r) :: rest =>
      match crule_of c, lrule_of r, conv rest with
      | Some c', Some r', Some rest' => Some ((n, c', r') :: rest')
      | _, _, _ => None
      end
  end.

Definition lib_impls : list (string * crule * lrule) :=
  match conv x_introspect_impls with Some l => l | None => [("unclassified", CIndexed, LDefault)] end.

Lemma x_introspect_all_classified : conv x_introspect_impls <> None.
Proof. vm_compute. discriminate. Qed.

Lemma x_introspect_table_ok : table_ok lib_impls = true.
Proof. vm_compute. reflexivity. Qed.

Lemma x_max_children_agrees : x_max_children = MAX_CHILDREN.
Proof. reflexivity. Qed.

(* the impls the rest of the model relies on by name are present with the expected rules *)
Definition has_rule (n : string) (c : crule) (l : lrule) : bool :=
  existsb (fun e => String.eqb (fst (fst e)) n && entry_ok (snd (fst e)) (snd e)
                    && match snd (fst e), c with
                       | CIndexed, CIndexed | CPairs, CPairs | CDelegate, CDelegate | CNoChildren, CNoChildren => true
                       | CFixed a, CFixed b => a =? b
                       | _, _ => false
                       end) lib_impls.

Lemma x_introspect_named_rules :
  has_rule "Vec<T>" CIndexed LLen && has_rule "[T; N]" CIndexed LArrayN && has_rule "Box<[T]>" CIndexed LLen
  && has_rule "Arc<[T]>" CIndexed LLen && has_rule "VecDeque<T>" CIndexed LLen
  && has_rule "Option<T>" CDelegate LDelegate && has_rule "Result<T, R>" CDelegate LDelegate
  && has_rule "Box<T>" CDelegate LDelegate && has_rule "HashMap<K, V, S>" CPairs LLen2
  && has_rule "BTreeMap<K, V>" CPairs LLen2 && has_rule "IndexMap<K, V, S>" CPairs LLen2
  && has_rule "(T1, T2)" (CFixed 2) LDefault && has_rule "(T1, T2, T3)" (CFixed 3) LDefault
  && has_rule "Removed<T>" CNoChildren LDefault && has_rule "String" CNoChildren LDefault = true.
Proof. vm_compute. reflexivity. Qed.
