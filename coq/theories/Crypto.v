(* Crypto.v — the encrypted container (savefile/src/lib.rs 1643-1929): nonce sequence, chunk framing,
   CryptoWriter (write / flush / drop with its [failed] flag) and CryptoReader as state machines over an
   abstract AEAD. Definitions only. *)
From SF Require Import Bytes.
Open Scope N_scope.

Definition BUFSIZE : N := 100000.
Definition TAGLEN : N := 16.
Definition U32M : N := 4294967296.

(* RandomNonceSequence: (data1 : u64, data2 : u32); advance: data2 += 1 (wrapping), carry into data1 *)
Definition nonce := (N * N)%type.
Definition advance (n : nonce) : nonce :=
  let d2 := (snd n + 1) mod U32M in
  (if d2 =? 0 then (fst n + 1) mod Bytes.U64 else fst n, d2).
Definition nonce_bytes (n : nonce) : bytes := le 8 (fst n) ++ le 4 (snd n).
Fixpoint advance_n (k : nat) (n : nonce) : nonce := match k with O => n | S k' => advance (advance_n k' n) end.

Section Aead.
(* AES-256-GCM as an abstract AEAD with empty associated data, keyed by SHA-256(password) *)
Variable key : Type.
Variable seal : key -> nonce -> bytes -> bytes.          (* ciphertext || 16-byte tag *)
Variable open : key -> nonce -> bytes -> option bytes.

(* ---------------- writer ---------------- *)

(* one frame: [u64 len][ciphertext || tag] *)
Definition frame (k : key) (n : nonce) (chunk : bytes) : bytes :=
  le 8 (N.of_nat (length chunk) + TAGLEN) ++ seal k n chunk.

(* split into chunks of at most BUFSIZE bytes (flush's loop); fuel = number of bytes *)
Fixpoint chunks (fuel : nat) (buf : bytes) : list bytes :=
  match fuel with
  | O => []
  | S f =>
      match buf with
      | [] => []
      | _ => firstn (N.to_nat BUFSIZE) buf :: chunks f (skipn (N.to_nat BUFSIZE) buf)
      end
  end.
Definition split_chunks (buf : bytes) : list bytes := chunks (length buf) buf.

(* frames of consecutive chunks, the nonce advanced before each *)
Fixpoint frames (k : key) (n : nonce) (cs : list bytes) : bytes * nonce :=
  match cs with
  | [] => ([], n)
  | c :: r => let n1 := advance n in
              let '(rest, n2) := frames k n1 r in (frame k n1 c ++ rest, n2)
  end.

(* Underlying writer: how many more bytes it accepts before failing; None = never fails.
   A write of m bytes to a writer with budget b < m accepts b bytes and then fails (write_all). *)
Record wstate := WS {
  w_buf : bytes;            (* CryptoWriter.buf *)
  w_failed : bool;          (* CryptoWriter.failed *)
  w_nonce : nonce;
  w_out : bytes;            (* what the underlying writer has accepted so far *)
  w_budget : option N       (* remaining capacity of the underlying writer *)
}.

Inductive wres := WOk | WErr | WPanic.

(* write_all of [data] to the underlying writer *)
Definition under_write (st : wstate) (data : bytes) : wstate * bool :=
  match w_budget st with
  | None => (WS (w_buf st) (w_failed st) (w_nonce st) (w_out st ++ data) None, true)
  | Some b =>
      if N.of_nat (length data) <=? b
      then (WS (w_buf st) (w_failed st) (w_nonce st) (w_out st ++ data) (Some (b - N.of_nat (length data))), true)
      else (WS (w_buf st) (w_failed st) (w_nonce st) (w_out st ++ firstn (N.to_nat b) data) (Some 0), false)
  end.

(* flush: failed := true; for each chunk: write len, seal, write body; buf.clear(); failed := false *)
Fixpoint flush_chunks (k : key) (st : wstate) (cs : list bytes) : wstate * bool :=
  match cs with
  | [] => (st, true)
  | c :: r =>
      let n1 := advance (w_nonce st) in
      let st1 := WS (w_buf st) (w_failed st) n1 (w_out st) (w_budget st) in
      let '(st2, ok1) := under_write st1 (le 8 (N.of_nat (length c) + TAGLEN)) in
      if negb ok1 then (st2, false) else
      let '(st3, ok2) := under_write st2 (seal k n1 c) in
      if negb ok2 then (st3, false) else flush_chunks k st3 r
  end.

Definition flush (k : key) (st : wstate) : wstate * wres :=
  let st0 := WS (w_buf st) true (w_nonce st) (w_out st) (w_budget st) in
  let '(st1, ok) := flush_chunks k st0 (split_chunks (w_buf st)) in
  if ok then (WS [] false (w_nonce st1) (w_out st1) (w_budget st1), WOk)
  else (st1, WErr).

Definition write (k : key) (st : wstate) (data : bytes) : wstate * wres :=
  if w_failed st then (st, WErr) else      (* since fix F6: an io::Error, not a panic *)
  let st1 := WS (w_buf st ++ data) false (w_nonce st) (w_out st) (w_budget st) in
  if BUFSIZE <? N.of_nat (length (w_buf st1)) then flush k st1 else (st1, WOk).

(* CryptoWriter::new writes the 12-byte nonce *)
Definition wnew (n0 : nonce) (budget : option N) : wstate * wres :=
  let '(st, ok) := under_write (WS [] false n0 [] budget) (nonce_bytes n0) in
  (st, if ok then WOk else WErr).

(* Drop: returns early when a flush has already failed (fix F6); otherwise flush().expect(..), which panics
   when this implicit flush fails (documented: call flush() yourself to handle the error) *)
Definition wdrop (k : key) (st : wstate) : wstate * wres :=
  if w_failed st then (st, WOk) else
  let '(st1, r) := flush k st in
  (st1, match r with WOk => WOk | _ => WPanic end).

Inductive wop := OpWrite (data : bytes) | OpFlush.

(* run a program of writes/flushes, then drop. The first Err aborts the program (the caller returns with `?`)
   and the writer is dropped. Result: (accepted bytes, result of the program, result of the drop). *)
Fixpoint run_ops (k : key) (st : wstate) (ops : list wop) : wstate * wres :=
  match ops with
  | [] => (st, WOk)
  | op :: r =>
      let '(st1, res) := match op with OpWrite d => write k st d | OpFlush => flush k st end in
      match res with
      | WOk => run_ops k st1 r
      | other => (st1, other)
      end
  end.

Definition run_writer (k : key) (n0 : nonce) (budget : option N) (ops : list wop) : bytes * wres * wres :=
  let '(st0, r0) := wnew n0 budget in
  match r0 with
  | WOk =>
      let '(st1, r1) := run_ops k st0 ops in
      let '(st2, r2) := wdrop k st1 in
      (w_out st2, r1, r2)
  | other => (w_out st0, other, WOk)
  end.

(* what a fault-free writer emits for a program: nonce header, then for every flush point the frames of the
   buffered bytes *)
Definition honest_file (k : key) (n0 : nonce) (ops : list wop) : bytes :=
  fst (fst (run_writer k n0 None ops)).

(* ---------------- reader ---------------- *)

(* decrypt every frame of a complete byte string (what a consumer reading to the end obtains);
   fuel = number of bytes *)
Fixpoint read_frames (fuel : nat) (k : key) (n : nonce) (bs : bytes) : res bytes :=
  match fuel with
  | O => match bs with [] => Ok [] | _ => OutOfFuel end
  | S f =>
      match bs with
      | [] => Ok []                                   (* clean EOF at a frame boundary *)
      | _ =>
          let* (len, r) := rd_le 8 bs in              (* a partial size header is UnexpectedEof *)
          if BUFSIZE + TAGLEN <? len then Err EOther else
          let* (body, r') := take_exact (N.to_nat len) r in
          let n1 := advance n in
          match open k n1 body with
          | None => Err EOther                        (* "Cryptography error" *)
          | Some p => let* rest := read_frames f k n1 r' in Ok (p ++ rest)
          end
      end
  end.

Definition decrypt_file (k : key) (file : bytes) : res bytes :=
  let* (nb, r) := take_exact 12 file in
  read_frames (length r) k (unle (firstn 8 nb), unle (skipn 8 nb)) r.

(* framing of an honest stream of chunks *)
Definition encrypt_chunks (k : key) (n0 : nonce) (cs : list bytes) : bytes :=
  nonce_bytes n0 ++ fst (frames k n0 cs).

End Aead.

(* chunk sizes only (no AEAD needed): what the correspondence check compares with the real file structure *)
Fixpoint chunk_sizes (fuel : nat) (n : N) : list N :=
  match fuel with
  | O => []
  | S f => if n =? 0 then [] else N.min n BUFSIZE :: chunk_sizes f (n - N.min n BUFSIZE)
  end.

(* buffered byte count after each op and emitted chunk sizes, for a fault-free writer *)
Fixpoint op_sizes (buffered : N) (ops : list (option N)) : list N :=
  match ops with
  | [] => chunk_sizes 64 buffered                                    (* drop flushes the rest *)
  | Some n :: r =>                                                    (* write of n bytes *)
      let b := buffered + n in
      if BUFSIZE <? b then chunk_sizes 64 b ++ op_sizes 0 r else op_sizes b r
  | None :: r => chunk_sizes 64 buffered ++ op_sizes 0 r              (* explicit flush *)
  end.
