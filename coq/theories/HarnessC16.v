(* HarnessC16.v — conformance of a lock event trace (the cfg-guarded log of savefile-abi's Guard::lock / Drop) with
   the lock programs of Locks.v, and comparison functions for C16. *)
From SF Require Import Bytes Locks.
Open Scope N_scope.

Inductive ev := ERequest | EAcquired | EReleased.

Definition is_lock_action (a : action) : bool := match a with AAcq _ | ARel _ => true | _ => false end.
Definition lock_actions (p : list action) : list action := filter is_lock_action p.

(* the function a thread enters is recognised by the first lock it requests *)
Definition entered (l : lk) : option (list action) :=
  match l with
  | LTemplates => Some (lock_actions (prog_of (OCreate 0)))
  | LEntry => Some (lock_actions (firstn 5 (prog_of (OLoad 0 0))))
  | LLibrary => None
  end.

Record tst := TS { ts_pending : option lk; ts_rest : list action }.
Record cst := CS { c_owner : list (lk * N); c_threads : list tst }.

Definition c_owner_of (c : cst) (l : lk) : option N :=
  match find (fun p => lk_eqb (fst p) l) (c_owner c) with Some p => Some (snd p) | None => None end.

Definition conf_step (c : cst) (e : N * lk * ev) : option cst :=
  let '(i, l, k) := e in
  match nth_error (c_threads c) (N.to_nat i) with
  | None => None
  | Some t =>
      let set := fun t' owners => Some (CS owners (set_nth (N.to_nat i) t' (c_threads c))) in
      match k with
      | ERequest =>
          match ts_pending t with
          | Some _ => None
          | None =>
              let rest := match ts_rest t with [] => entered l | r => Some r end in
              match rest with
              | Some ((AAcq l' :: _) as r) => if lk_eqb l l' then set (TS (Some l) r) (c_owner c) else None
              | _ => None
              end
          end
      | EAcquired =>
          match ts_pending t, ts_rest t, c_owner_of c l with
          | Some l', AAcq _ :: r, None => if lk_eqb l l' then set (TS None r) ((l, i) :: c_owner c) else None
          | _, _, _ => None
          end
      | EReleased =>
          match ts_pending t, ts_rest t, c_owner_of c l with
          | None, ARel l' :: r, Some j =>
              if lk_eqb l l' && (i =? j) then set (TS None r) (filter (fun p => negb (lk_eqb (fst p) l)) (c_owner c)) else None
          | _, _, _ => None
          end
      end
  end.

Fixpoint conf_run (c : cst) (tr : list (N * lk * ev)) : option cst :=
  match tr with
  | [] => Some c
  | e :: r => match conf_step c e with Some c' => conf_run c' r | None => None end
  end.

(* the whole trace is a valid interleaving of the model's lock programs, and ends with every lock released *)
Definition trace_conforms (nthreads : N) (tr : list (N * lk * ev)) : bool :=
  match conf_run (CS [] (repeat (TS None []) (N.to_nat nthreads))) tr with
  | Some c => match c_owner c with [] => forallb (fun t => match ts_pending t, ts_rest t with None, [] => true | _, _ => false end) (c_threads c) | _ => false end
  | None => false
  end.

Definition lk_of (n : N) : lk := match n with 0 => LEntry | 1 => LLibrary | _ => LTemplates end.
Definition ev_of (n : N) : ev := match n with 0 => ERequest | 1 => EAcquired | _ => EReleased end.
Definition mk_trace (l : list (N * N * N)) : list (N * lk * ev) :=
  map (fun p => (fst (fst p), lk_of (snd (fst p)), ev_of (snd p))) l.
