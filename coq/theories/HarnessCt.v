(* HarnessCt.v — per-cut correspondence for C07 and header corruption for C05. *)
From Coq Require Import String Ascii.
From SF Require Import Bytes Schema Ty HarnessTy Container.
Open Scope N_scope.

Inductive ckind := CBare | CPlain | CNoschema.

Definition err_letter (e : err) : N :=
  match e with
  | EEof => 101 | EGeneral => 103 | EUtf8 => 117 | EWrongVersion => 119 | EInvalidChar => 99
  | ESchema => 115 | ELayout => 108 | EOther => 111
  end.

(* the schema the loading program compares with is the one in the (intact) file: same type both sides *)
Definition file_schema (file : bytes) : option schema :=
  match de_top 2 (skipn 16 file) with Ok (s, _) => Some s | _ => None end.

Definition load_kind (k : ckind) (t : ty) (ms : option schema) (bs : bytes) : res (val * bytes) :=
  match k with
  | CBare => dec 0 t bs
  | CNoschema => load_plain None 0 t bs
  | CPlain => load_plain (option_map (fun s => fun _ : N => s) ms) 0 t bs
  end.

Definition cut_letter (k : ckind) (t : ty) (ms : option schema) (bs : bytes) : N :=
  match load_kind k t ms bs with
  | Ok _ => 83          (* 'S' or 'D': an accepted prefix; the model never accepts one, see agree_cuts *)
  | Err e => err_letter e
  | Panic => 80
  | OutOfFuel => 63
  end.

Fixpoint string_letters (s : string) : list N :=
  match s with EmptyString => [] | String a r => N_of_ascii a :: string_letters r end.

Fixpoint list_N_eqb (a b : list N) : bool :=
  match a, b with
  | [], [] => true
  | x :: a', y :: b' => (x =? y) && list_N_eqb a' b'
  | _, _ => false
  end.

Definition agree_cuts (k : ckind) (t : ty) (file : bytes) (classes : string) : bool :=
  let ms := match k with CPlain => file_schema file | _ => None end in
  list_N_eqb (map (fun n => cut_letter k t ms (firstn n file)) (seq 0 (length file))) (string_letters classes).
