(* AbiProofs.v — proofs about the savefile-abi decision logic of Abi.v:
   FlexBuffer, layout_compatible vs the claimed memory type (AbiLayout), the argument mask,
   analyze, verify_compat and the compatibility ledger. *)
From SF Require Import Bytes Schema SchemaProofs Abi AbiLayout.
Open Scope N_scope.

(* ------------------------------------------------------------------ *)
(* 1. FlexBuffer *)

Lemma flex_contents_write f buf : flex_contents (flex_write f buf) = flex_contents f ++ buf.
Proof.
  destruct f as [d|d]; cbn [flex_write flex_contents]; [|reflexivity].
  destruct (_ <=? _); reflexivity.
Qed.

Lemma flex_contents_fold chunks : forall f,
  flex_contents (fold_left flex_write chunks f) = flex_contents f ++ concat chunks.
Proof.
  induction chunks as [|c chunks IH]; intros f; cbn [fold_left concat].
  - rewrite app_nil_r. reflexivity.
  - rewrite IH, flex_contents_write, app_assoc. reflexivity.
Qed.

Theorem flex_contents_concat : forall chunks,
  flex_contents (fold_left flex_write chunks (FStack [])) = concat chunks.
Proof. intros chunks. rewrite flex_contents_fold. reflexivity. Qed.

Definition flex_inv (f : flex) : Prop :=
  match f with
  | FStack d => N.of_nat (length d) <= FLEX
  | FSpill d => FLEX < N.of_nat (length d)
  end.

Lemma flex_inv_write f buf : flex_inv f -> flex_inv (flex_write f buf).
Proof.
  destruct f as [d|d]; cbn [flex_write flex_inv]; intros H.
  - destruct (N.of_nat (length d) + N.of_nat (length buf) <=? FLEX) eqn:E; cbn [flex_inv];
      rewrite app_length, Nat2N.inj_add.
    + apply N.leb_le in E. exact E.
    + apply N.leb_gt in E. exact E.
  - rewrite app_length, Nat2N.inj_add. lia.
Qed.

Lemma flex_inv_fold chunks : forall f, flex_inv f -> flex_inv (fold_left flex_write chunks f).
Proof.
  induction chunks as [|c chunks IH]; intros f H; cbn [fold_left]; [exact H|].
  apply IH, flex_inv_write, H.
Qed.

Lemma flex_inv_init : flex_inv (FStack []).
Proof. cbn [flex_inv length]. unfold FLEX. lia. Qed.

Theorem flex_spill_iff : forall chunks,
  (match fold_left flex_write chunks (FStack []) with FSpill _ => true | FStack _ => false end = true)
  -> (FLEX < N.of_nat (length (concat chunks)))%N.
Proof.
  intros chunks H.
  pose proof (flex_inv_fold chunks _ flex_inv_init) as Hinv.
  pose proof (flex_contents_concat chunks) as Hc.
  destruct (fold_left flex_write chunks (FStack [])) as [d|d]; [discriminate H|].
  cbn [flex_contents] in Hc. cbn [flex_inv] in Hinv. rewrite <- Hc. exact Hinv.
Qed.

Theorem flex_stack_bound : forall chunks d, fold_left flex_write chunks (FStack []) = FStack d ->
  (N.of_nat (length d) <= FLEX)%N.
Proof.
  intros chunks d H.
  pose proof (flex_inv_fold chunks _ flex_inv_init) as Hinv.
  rewrite H in Hinv. exact Hinv.
Qed.

(* ------------------------------------------------------------------ *)
(* 5. verify_compat: standalone copies of the local fixpoints *)

Definition vargs (rp : bool) : list schema -> list schema -> vres :=
  fix goa (na oa : list schema) : vres :=
    match na, oa with
    | x :: ta, y :: tb => vthen (of_dres (diff x y rp)) (goa ta tb)
    | _, _ => VOk
    end.

Definition vmethod (rp : bool) (nms : list method) (om : method) : vres :=
  match find_method (m_name om) nms with
  | None => VErr
  | Some nm =>
      if negb (Bool.eqb (m_async nm) (m_async om)) then VErr else
      if negb (Nat.eqb (length (m_args nm)) (length (m_args om))) then VErr else
      vthen (of_dres (diff (m_ret nm) (m_ret om) rp)) (vargs rp (m_args nm) (m_args om))
  end.

Definition vmethods (rp : bool) (nms : list method) : list method -> vres :=
  fix go (oms : list method) : vres :=
    match oms with
    | [] => VOk
    | om :: r => vthen (vmethod rp nms om) (go r)
    end.

Definition vflags (new old : traitdef) (rp : bool) : bool :=
  if rp then (negb (td_sync old) && td_sync new) || (negb (td_send old) && td_send new)
  else (td_sync old && negb (td_sync new)) || (td_send old && negb (td_send new)).

Lemma verify_compat_eq new old rp :
  verify_compat new old rp =
  if vflags new old rp then VErr else vmethods rp (td_methods new) (td_methods old).
Proof. reflexivity. Qed.

Lemma vthen_ok a b : vthen a b = VOk <-> a = VOk /\ b = VOk.
Proof. destruct a; cbn [vthen]; split; try (intros [? ?]); try discriminate; auto. Qed.

Lemma vmethods_ok rp nms oms :
  vmethods rp nms oms = VOk <-> (forall om, In om oms -> vmethod rp nms om = VOk).
Proof.
  induction oms as [|om oms IH]; cbn [vmethods].
  - split; [intros _ om []|reflexivity].
  - rewrite vthen_ok, IH. split.
    + intros [H1 H2] om' [<-|Hin]; auto.
    + intros H. split; [apply H; left; reflexivity|]. intros om' Hin. apply H. right. exact Hin.
Qed.

Theorem verify_compat_removed_method : forall new old om rp, In om (td_methods old) ->
  find_method (m_name om) (td_methods new) = None -> verify_compat new old rp <> VOk.
Proof.
  intros new old om rp Hin Hf. rewrite verify_compat_eq.
  destruct (vflags new old rp); [discriminate|].
  intros H. rewrite vmethods_ok in H. specialize (H om Hin).
  unfold vmethod in H. rewrite Hf in H. discriminate H.
Qed.

Theorem verify_compat_arg_count : forall new old om nm rp, In om (td_methods old) ->
  find_method (m_name om) (td_methods new) = Some nm -> length (m_args nm) <> length (m_args om) ->
  verify_compat new old rp <> VOk.
Proof.
  intros new old om nm rp Hin Hf Hlen. rewrite verify_compat_eq.
  destruct (vflags new old rp); [discriminate|].
  intros H. rewrite vmethods_ok in H. specialize (H om Hin).
  unfold vmethod in H. rewrite Hf in H.
  destruct (negb (Bool.eqb (m_async nm) (m_async om))); [discriminate H|].
  apply Nat.eqb_neq in Hlen. rewrite Hlen in H. cbn [negb] in H. discriminate H.
Qed.

Lemma find_app_some {A} (p : A -> bool) l1 l2 x : find p l1 = Some x -> find p (l1 ++ l2) = Some x.
Proof.
  induction l1 as [|a l1 IH]; cbn [find app]; [discriminate|].
  destruct (p a); auto.
Qed.

Lemma find_method_in name ms m : find_method name ms = Some m -> In m ms /\ bytes_eqb (m_name m) name = true.
Proof. unfold find_method. intros H. apply find_some in H. exact H. Qed.

Theorem verify_compat_added_methods : forall old extra rp,
  verify_compat old old rp = VOk ->
  (forall m, In m extra -> find_method (m_name m) (td_methods old) = None) ->
  verify_compat (TD (td_name old) (td_methods old ++ extra) (td_sync old) (td_send old)) old rp = VOk.
Proof.
  intros old extra rp H _. rewrite verify_compat_eq in *.
  unfold vflags in *. cbn [td_sync td_send td_methods] in *.
  destruct (if rp then _ else _); [discriminate H|].
  rewrite vmethods_ok in *. intros om Hin. specialize (H om Hin).
  unfold vmethod in *.
  destruct (find_method (m_name om) (td_methods old)) as [nm|] eqn:E; [|discriminate H].
  unfold find_method in *. rewrite (find_app_some _ _ _ _ E). exact H.
Qed.

Theorem selfcompat_async_refuted :
  let t := TD [84] [Meth [102] SZeroSize RShared [] true] false false in
  verify_compat t (store_form t) false = VErr.
Proof. vm_compute. reflexivity. Qed.

Definition selfcompat (t : traitdef) : Prop := verify_compat t (store_form t) false = VOk.

Lemma vargs_refl rp aa : forallb (refl_ok rp) aa = true -> vargs rp aa aa = VOk.
Proof.
  induction aa as [|x aa IH]; intros Hr; [reflexivity|].
  cbn [forallb] in Hr. apply andb_true_iff in Hr as [Hx Haa].
  cbn [vargs]. rewrite (diff_refl x rp Hx). cbn [of_dres vthen]. apply IH, Haa.
Qed.

Theorem selfcompat_sync : forall t,
  nodup_names (map (fun m : method => m_name m) (td_methods t)) = true ->
  forallb (fun m : method => negb (m_async m) && refl_ok false (m_ret m) && forallb (refl_ok false) (m_args m)) (td_methods t) = true ->
  selfcompat t.
Proof.
  intros t Hnd Hall. unfold selfcompat. rewrite verify_compat_eq.
  unfold vflags, store_form. cbn [td_sync td_send td_methods].
  rewrite !andb_negb_r. cbn [orb].
  apply vmethods_ok. intros om Hin.
  apply in_map_iff in Hin as [m [<- Hin]].
  unfold vmethod. cbn [m_name m_async m_args m_ret].
  rewrite (find_method_nodup _ Hnd m Hin).
  rewrite forallb_forall in Hall. specialize (Hall m Hin).
  apply andb_true_iff in Hall as [Hall Hargs]. apply andb_true_iff in Hall as [Hasync Hret].
  apply negb_true_iff in Hasync. rewrite Hasync. cbn [Bool.eqb negb].
  rewrite Nat.eqb_refl. cbn [negb].
  rewrite (diff_refl _ _ Hret). cbn [of_dres vthen].
  apply vargs_refl, Hargs.
Qed.

(* ------------------------------------------------------------------ *)
(* 5. the ledger *)

Lemma ledger_get_app d e k :
  ledger_get (d ++ e) k = match ledger_get d k with Some t => Some t | None => ledger_get e k end.
Proof.
  unfold ledger_get. induction d as [|p d IH]; cbn [find app]; [reflexivity|].
  destruct (fst p =? k); [reflexivity|exact IH].
Qed.

Lemma ledger_get_single v t k : ledger_get [(v, t)] k = if v =? k then Some t else None.
Proof. unfold ledger_get. cbn [find fst snd]. destruct (v =? k); reflexivity. Qed.

Lemma ledger_get_snoc_other d v t k : v <> k -> ledger_get (d ++ [(v, t)]) k = ledger_get d k.
Proof.
  intros Hne. rewrite ledger_get_app, ledger_get_single.
  apply N.eqb_neq in Hne. rewrite Hne. destruct (ledger_get d k); reflexivity.
Qed.

Lemma ledger_get_snoc_new d v t : ledger_get d v = None -> ledger_get (d ++ [(v, t)]) v = Some t.
Proof.
  intros Hn. rewrite ledger_get_app, ledger_get_single, Hn, N.eqb_refl. reflexivity.
Qed.

Lemma ledger_get_snoc_keep d e k t : ledger_get d k = Some t -> ledger_get (d ++ e) k = Some t.
Proof. intros H. rewrite ledger_get_app, H. reflexivity. Qed.

Theorem ledger_first_writer_wins : forall defs d v d' r k t, ledger_run d defs v = (d', r) ->
  ledger_get d k = Some t -> ledger_get d' k = Some t.
Proof.
  induction defs as [|def defs IH]; intros d v d' r k t Hrun Hget; cbn [ledger_run] in Hrun.
  - inversion Hrun; subst. exact Hget.
  - destruct (ledger_get d v) as [old|] eqn:E.
    + destruct (verify_compat def old false).
      * eapply IH; eassumption.
      * inversion Hrun; subst. exact Hget.
      * inversion Hrun; subst. exact Hget.
    + eapply IH; [eassumption|]. apply ledger_get_snoc_keep. exact Hget.
Qed.

(* after a successful run every version of the revision is present and passes *)
Lemma ledger_run_ok_present : forall defs d v d', Forall selfcompat defs ->
  ledger_run d defs v = (d', VOk) ->
  forall i def, nth_error defs i = Some def ->
    exists old, ledger_get d' (v + N.of_nat i) = Some old /\ verify_compat def old false = VOk.
Proof.
  induction defs as [|def defs IH]; intros d v d' Hsc Hrun i def0 Hnth.
  - destruct i; discriminate Hnth.
  - inversion Hsc as [|? ? Hdef Hdefs]; subst. cbn [ledger_run] in Hrun.
    destruct (ledger_get d v) as [old|] eqn:E.
    + destruct (verify_compat def old false) eqn:Ev; try (inversion Hrun; fail).
      destruct i as [|i].
      * cbn [nth_error] in Hnth. inversion Hnth; subst def0.
        exists old. split; [|exact Ev].
        replace (v + N.of_nat 0) with v by lia.
        eapply ledger_first_writer_wins; eassumption.
      * cbn [nth_error] in Hnth.
        replace (v + N.of_nat (S i)) with (v + 1 + N.of_nat i) by lia.
        eapply IH; eassumption.
    + destruct i as [|i].
      * cbn [nth_error] in Hnth. inversion Hnth; subst def0.
        exists (store_form def). split; [|exact Hdef].
        replace (v + N.of_nat 0) with v by lia.
        eapply ledger_first_writer_wins; [eassumption|].
        apply ledger_get_snoc_new. exact E.
      * cbn [nth_error] in Hnth.
        replace (v + N.of_nat (S i)) with (v + 1 + N.of_nat i) by lia.
        eapply IH; eassumption.
Qed.

Lemma ledger_run_all_present : forall defs d v,
  (forall i def, nth_error defs i = Some def ->
     exists old, ledger_get d (v + N.of_nat i) = Some old /\ verify_compat def old false = VOk) ->
  ledger_run d defs v = (d, VOk).
Proof.
  induction defs as [|def defs IH]; intros d v H; cbn [ledger_run]; [reflexivity|].
  destruct (H 0%nat def eq_refl) as [old [Hg Hv]].
  replace (v + N.of_nat 0) with v in Hg by lia.
  rewrite Hg, Hv. apply IH. intros i def0 Hnth.
  replace (v + 1 + N.of_nat i) with (v + N.of_nat (S i)) by lia.
  apply H. exact Hnth.
Qed.

Theorem ledger_idempotent : forall defs d v d', Forall selfcompat defs ->
  ledger_run d defs v = (d', VOk) -> ledger_run d' defs v = (d', VOk).
Proof.
  intros defs d v d' Hsc Hrun. apply ledger_run_all_present.
  eapply ledger_run_ok_present; eassumption.
Qed.

Theorem ledger_accept_iff : forall defs d v,
  snd (ledger_run d defs v) = VOk <->
  (forall i def old, nth_error defs i = Some def -> ledger_get d (v + N.of_nat i) = Some old -> verify_compat def old false = VOk).
Proof.
  induction defs as [|def defs IH]; intros d v; cbn [ledger_run].
  - split; [|reflexivity]. intros _ i def old Hnth. destruct i; discriminate Hnth.
  - destruct (ledger_get d v) as [old|] eqn:E.
    + destruct (verify_compat def old false) eqn:Ev.
      * rewrite IH. split.
        -- intros H i def0 old0 Hnth Hg. destruct i as [|i].
           ++ cbn [nth_error] in Hnth. inversion Hnth; subst def0.
              replace (v + N.of_nat 0) with v in Hg by lia.
              rewrite E in Hg. inversion Hg; subst old0. exact Ev.
           ++ cbn [nth_error] in Hnth. apply (H i); [exact Hnth|].
              replace (v + 1 + N.of_nat i) with (v + N.of_nat (S i)) by lia. exact Hg.
        -- intros H i def0 old0 Hnth Hg. apply (H (S i)); [exact Hnth|].
           replace (v + N.of_nat (S i)) with (v + 1 + N.of_nat i) by lia. exact Hg.
      * cbn [snd]. split; [discriminate|]. intros H.
        rewrite <- Ev. apply (H 0%nat); [reflexivity|].
        replace (v + N.of_nat 0) with v by lia. exact E.
      * cbn [snd]. split; [discriminate|]. intros H.
        rewrite <- Ev. apply (H 0%nat); [reflexivity|].
        replace (v + N.of_nat 0) with v by lia. exact E.
    + rewrite IH. split.
      * intros H i def0 old0 Hnth Hg. destruct i as [|i].
        -- replace (v + N.of_nat 0) with v in Hg by lia. rewrite E in Hg. discriminate Hg.
        -- cbn [nth_error] in Hnth. apply (H i); [exact Hnth|].
           rewrite ledger_get_snoc_other by lia.
           replace (v + 1 + N.of_nat i) with (v + N.of_nat (S i)) by lia. exact Hg.
      * intros H i def0 old0 Hnth Hg. apply (H (S i)); [exact Hnth|].
        rewrite ledger_get_snoc_other in Hg by lia.
        replace (v + N.of_nat (S i)) with (v + 1 + N.of_nat i) by lia. exact Hg.
Qed.

(* ------------------------------------------------------------------ *)
(* 3. the argument mask *)

Lemma testbit_shiftl_1 idx k : N.testbit (N.shiftl 1 idx) k = (k =? idx).
Proof.
  rewrite N.shiftl_1_l, N.pow2_bits_eqb. apply N.eqb_sym.
Qed.

Theorem args_mask_sound : forall ce cle cn cln ev idx mask m k,
  args_mask ce cle cn cln ev idx mask = Ok m -> N.testbit m k = true -> N.testbit mask k = false ->
  (idx <= k)%N /\ exists i, k = (idx + N.of_nat i)%N /\
    arg_layout_compatible (nth i cn SUndefined) (nth i cln SUndefined) (nth i ce SUndefined) (nth i cle SUndefined) ev false = LYes.
Proof.
  induction ce as [|e1 ce IH]; intros cle cn cln ev idx mask m k Hrun Hm Hmask.
  - cbn [args_mask] in Hrun. inversion Hrun; subst. rewrite Hm in Hmask. discriminate Hmask.
  - destruct cle as [|e2 cle]; [cbn [args_mask] in Hrun; inversion Hrun; subst; rewrite Hm in Hmask; discriminate Hmask|].
    destruct cn as [|n1 cn]; [cbn [args_mask] in Hrun; inversion Hrun; subst; rewrite Hm in Hmask; discriminate Hmask|].
    destruct cln as [|n2 cln]; [cbn [args_mask] in Hrun; inversion Hrun; subst; rewrite Hm in Hmask; discriminate Hmask|].
    cbn [args_mask] in Hrun.
    destruct (diff e1 e2 false); try discriminate Hrun.
    destruct (arg_layout_compatible n1 n2 e1 e2 ev false) eqn:Ea; try discriminate Hrun.
    + destruct (N.testbit (N.lor mask (N.shiftl 1 idx)) k) eqn:Eb.
      * rewrite N.lor_spec, Hmask, testbit_shiftl_1 in Eb. cbn [orb] in Eb.
        apply N.eqb_eq in Eb. subst k. split; [lia|].
        exists 0%nat. split; [lia|]. cbn [nth]. exact Ea.
      * destruct (IH _ _ _ _ _ _ _ _ Hrun Hm Eb) as [Hle [i [Hk Hi]]].
        split; [lia|]. exists (S i). split; [lia|]. cbn [nth]. exact Hi.
    + destruct (IH _ _ _ _ _ _ _ _ Hrun Hm Hmask) as [Hle [i [Hk Hi]]].
      split; [lia|]. exists (S i). split; [lia|]. cbn [nth]. exact Hi.
Qed.

Theorem plain_arg_by_ref_needs_layout : forall a_nat b_nat a_eff b_eff ev rp,
  (match a_nat with SFuture _ _ _ _ | SFnClosure _ _ | SBoxed _ | STrait _ _ => False | _ => True end) ->
  arg_layout_compatible a_nat b_nat a_eff b_eff ev rp = LYes -> layout_compatible a_nat b_nat = true.
Proof.
  intros a_nat b_nat a_eff b_eff ev rp Hplain H.
  destruct a_nat; try contradiction; destruct b_nat; cbn [arg_layout_compatible] in H;
    match type of H with
    | (if (?c && _ && _) then _ else _) = _ => destruct c; [reflexivity|cbn [andb] in H; discriminate H]
    end.
Qed.

(* since fix F16: ... and only if each side's type is unchanged between its native and the effective version *)
Theorem plain_arg_by_ref_needs_unchanged : forall a_nat b_nat a_eff b_eff ev rp,
  (match a_nat with SFuture _ _ _ _ | SFnClosure _ _ | SBoxed _ | STrait _ _ => False | _ => True end) ->
  arg_layout_compatible a_nat b_nat a_eff b_eff ev rp = LYes ->
  bytes_eqb (ser 2 a_nat) (ser 2 a_eff) = true /\ bytes_eqb (ser 2 b_nat) (ser 2 b_eff) = true.
Proof.
  intros a_nat b_nat a_eff b_eff ev rp Hplain H.
  destruct a_nat; try contradiction; destruct b_nat; cbn [arg_layout_compatible] in H;
    match type of H with
    | (if (?c && ?d && ?e) then _ else _) = _ =>
        destruct c; [|cbn [andb] in H; discriminate H];
        destruct d; [|cbn [andb] in H; discriminate H];
        destruct e; [split; reflexivity|cbn [andb] in H; discriminate H]
    end.
Qed.

(* ------------------------------------------------------------------ *)
(* 4. analyze *)

Definition analyze_go (ev : N) (caller_eff callee_eff callee_nat : traitdef) : list method -> list cmethod -> ares :=
  fix go (ms : list method) (acc : list cmethod) : ares :=
     match ms with
     | [] => AOk (rev acc)
     | cm :: r =>
         match index_of_method (m_name cm) (td_methods callee_nat) with
         | None => go r (CM (m_name cm) None 0 :: acc)
         | Some (cidx, cnm) =>
             match find_method (m_name cm) (td_methods callee_eff), find_method (m_name cm) (td_methods caller_eff) with
             | Some cle, Some ce =>
                 let n := length (m_args cm) in
                 if negb (Nat.eqb n (length (m_args cnm))) then AErr EGeneral else
                 if negb (Nat.eqb n (length (m_args ce))) then AErr EGeneral else
                 if negb (Nat.eqb n (length (m_args cle))) then AErr EGeneral else
                 if Nat.ltb 64 n then AErr EOther else
                 match diff (m_ret ce) (m_ret cle) true with
                 | DDiff => AErr ESchema
                 | DPanic => APanic
                 | DSame =>
                     match args_mask (m_args ce) (m_args cle) (m_args cm) (m_args cnm) ev 0 0 with
                     | Err e => AErr e
                     | Panic | OutOfFuel => APanic
                     | Ok mask =>
                         match diff (m_ret ce) (m_ret cle) true with
                         | DDiff => AErr ESchema
                         | DPanic => APanic
                         | DSame =>
                             match arg_layout_compatible (m_ret cm) (m_ret cnm) (m_ret ce) (m_ret cle) ev true with
                             | LErr => AErr ESchema
                             | LPanic => APanic
                             | _ => go r (CM (m_name cm) (Some cidx) mask :: acc)
                             end
                         end
                     end
                 end
             | _, _ => AErr EGeneral
             end
         end
     end.

Lemma analyze_eq ev ce cle cn cln :
  analyze ev ce cle cn cln =
  analyze_go ev ce cle cln (td_methods cn) [].
Proof. reflexivity. Qed.

Definition index_go (name : bytes) : list method -> N -> option (N * method) :=
  fix go (ms : list method) (i : N) : option (N * method) :=
     match ms with
     | [] => None
     | m :: r => if bytes_eqb (m_name m) name then Some (i, m) else go r (i + 1)
     end.

Lemma index_go_none name ms : forall i, index_go name ms i = None -> find_method name ms = None.
Proof.
  unfold find_method. induction ms as [|m ms IH]; intros i H; cbn [find]; [reflexivity|].
  cbn [index_go] in H. destruct (bytes_eqb (m_name m) name); [discriminate H|].
  eapply IH. exact H.
Qed.

Lemma index_of_method_none name ms : index_of_method name ms = None -> find_method name ms = None.
Proof. intros H. apply (index_go_none name ms 0). exact H. Qed.

Lemma analyze_go_inv ev ce cle cln (P : cmethod -> Prop) :
  (forall name, index_of_method name (td_methods cln) = None -> P (CM name None 0)) ->
  (forall name i mask, P (CM name (Some i) mask)) ->
  forall ms acc res, analyze_go ev ce cle cln ms acc = AOk res ->
  (forall c, In c acc -> P c) -> forall c, In c res -> P c.
Proof.
  intros Hnone Hsome. induction ms as [|cm ms IH]; intros acc res Hrun Hacc c Hin.
  - cbn [analyze_go] in Hrun. inversion Hrun; subst. apply Hacc. apply in_rev. exact Hin.
  - cbn [analyze_go] in Hrun.
    destruct (index_of_method (m_name cm) (td_methods cln)) as [[cidx cnm]|] eqn:Ei.
    + destruct (find_method (m_name cm) (td_methods cle)) as [mcle|]; [|discriminate Hrun].
      destruct (find_method (m_name cm) (td_methods ce)) as [mce|]; [|discriminate Hrun].
      cbv zeta in Hrun.
      destruct (negb (Nat.eqb (length (m_args cm)) (length (m_args cnm)))); [discriminate Hrun|].
      destruct (negb (Nat.eqb (length (m_args cm)) (length (m_args mce)))); [discriminate Hrun|].
      destruct (negb (Nat.eqb (length (m_args cm)) (length (m_args mcle)))); [discriminate Hrun|].
      destruct (Nat.ltb 64 (length (m_args cm))); [discriminate Hrun|].
      destruct (diff (m_ret mce) (m_ret mcle) true); try discriminate Hrun.
      destruct (args_mask (m_args mce) (m_args mcle) (m_args cm) (m_args cnm) ev 0 0) as [mask| | |];
        try discriminate Hrun.
      destruct (arg_layout_compatible (m_ret cm) (m_ret cnm) (m_ret mce) (m_ret mcle) ev true);
        try discriminate Hrun;
        (eapply IH; [exact Hrun| |exact Hin]; intros c0 [<-|Hc0]; [apply Hsome|apply Hacc, Hc0]).
    + eapply IH; [exact Hrun| |exact Hin]. intros c0 [<-|Hc0]; [apply Hnone, Ei|apply Hacc, Hc0].
Qed.

Theorem analyze_missing_method : forall ev ce cle cn cln ms cm,
  analyze ev ce cle cn cln = AOk ms -> In cm ms -> cm_callee cm = None ->
  find_method (cm_name cm) (td_methods cln) = None.
Proof.
  intros ev ce cle cn cln ms cm Hrun Hin. rewrite analyze_eq in Hrun.
  apply (analyze_go_inv ev ce cle cln
           (fun c => cm_callee c = None -> find_method (cm_name c) (td_methods cln) = None))
    with (ms := td_methods cn) (acc := []) (res := ms); try assumption.
  - intros name Hi _. cbn [cm_name]. apply index_of_method_none, Hi.
  - intros name i mask H. discriminate H.
  - intros c [].
Qed.

(* ------------------------------------------------------------------ *)
(* 2. layout_compatible vs the claimed memory type *)

Definition lfields : list field -> list field -> bool :=
  fix go (fa fb : list field) : bool :=
    match fa, fb with
    | x :: ta, y :: tb =>
        match f_off x, f_off y with
        | Some oa, Some ob => (oa =? ob) && layout_compatible (f_val x) (f_val y) && go ta tb
        | _, _ => false
        end
    | _, _ => true
    end.

Definition lvariants : list variant -> list variant -> bool :=
  fix gov (va vb : list variant) : bool :=
    match va, vb with
    | x :: ta, y :: tb =>
        (v_discr x =? v_discr y) && Nat.eqb (length (v_fields x)) (length (v_fields y))
        && lfields (v_fields x) (v_fields y) && gov ta tb
    | _, _ => true
    end.

Lemma lc_struct n1 sza ala fa n2 szb alb fb :
  layout_compatible (SStruct n1 sza ala fa) (SStruct n2 szb alb fb) =
  Nat.eqb (length fa) (length fb)
  && is_some ala && is_some sza && opt_eqb ala alb && opt_eqb sza szb && lfields fa fb.
Proof. reflexivity. Qed.

Lemma lc_enum n1 va dsa ra sza ala n2 vb dsb rb szb alb :
  layout_compatible (SEnum n1 va dsa ra sza ala) (SEnum n2 vb dsb rb szb alb) =
  ra && rb && is_some ala && is_some sza && opt_eqb ala alb && opt_eqb sza szb
  && (dsa =? dsb) && Nat.eqb (length va) (length vb) && lvariants va vb.
Proof. reflexivity. Qed.

Definition mfield (f : field) : option (N * mty) :=
  match f_off f, mty_of (f_val f) with
  | Some o, Some m => Some (o, m)
  | _, _ => None
  end.
Definition mvariant (va : variant) : option (N * list (N * mty)) :=
  match all_some_m (map mfield (v_fields va)) with
  | Some l => Some (v_discr va, l)
  | None => None
  end.

Lemma mty_struct n sz al fs :
  mty_of (SStruct n (Some sz) (Some al) fs) =
  match all_some_m (map mfield fs) with Some l => Some (MStruct sz al l) | None => None end.
Proof. reflexivity. Qed.

Lemma mty_enum n vs ds sz al :
  mty_of (SEnum n vs ds true (Some sz) (Some al)) =
  match all_some_m (map mvariant vs) with Some l => Some (MEnum ds sz al l) | None => None end.
Proof. reflexivity. Qed.

Definition LS (a : schema) : Prop :=
  forall b, layout_compatible a b = true -> exists m, mty_of a = Some m /\ mty_of b = Some m.

Lemma lfields_sound fa : Pfields LS fa -> forall fb, length fa = length fb -> lfields fa fb = true ->
  exists l, all_some_m (map mfield fa) = Some l /\ all_some_m (map mfield fb) = Some l.
Proof.
  unfold Pfields. induction fa as [|x fa IH]; intros HP fb Hlen H.
  - destruct fb; [|discriminate Hlen]. exists []. split; reflexivity.
  - destruct fb as [|y fb]; [discriminate Hlen|].
    inversion HP as [|? ? Hx Hfa]; subst.
    cbn [lfields] in H.
    destruct (f_off x) as [oa|] eqn:Eoa; [|discriminate H].
    destruct (f_off y) as [ob|] eqn:Eob; [|discriminate H].
    apply andb_true_iff in H as [H Hgo]. apply andb_true_iff in H as [Ho Hv].
    apply N.eqb_eq in Ho. subst ob.
    destruct (Hx _ Hv) as [m [Hma Hmb]].
    cbn [length] in Hlen. injection Hlen as Hlen.
    destruct (IH Hfa fb Hlen Hgo) as [l [Hla Hlb]].
    exists ((oa, m) :: l). cbn [map all_some_m]. unfold mfield at 1 3.
    rewrite Eoa, Eob, Hma, Hmb, Hla, Hlb. split; reflexivity.
Qed.

Lemma lvariants_sound va : Pvariants LS va -> forall vb, length va = length vb -> lvariants va vb = true ->
  exists l, all_some_m (map mvariant va) = Some l /\ all_some_m (map mvariant vb) = Some l.
Proof.
  unfold Pvariants. induction va as [|x va IH]; intros HP vb Hlen H.
  - destruct vb; [|discriminate Hlen]. exists []. split; reflexivity.
  - destruct vb as [|y vb]; [discriminate Hlen|].
    inversion HP as [|? ? Hx Hva]; subst.
    cbn [lvariants] in H.
    apply andb_true_iff in H as [H Hgo]. apply andb_true_iff in H as [H Hf].
    apply andb_true_iff in H as [Hd Hl].
    apply N.eqb_eq in Hd. apply Nat.eqb_eq in Hl.
    destruct (lfields_sound _ Hx _ Hl Hf) as [lf [Hfa Hfb]].
    cbn [length] in Hlen. injection Hlen as Hlen.
    destruct (IH Hva vb Hlen Hgo) as [l [Hla Hlb]].
    exists ((v_discr x, lf) :: l). cbn [map all_some_m]. unfold mvariant at 1 3.
    rewrite Hfa, Hfb, Hla, Hlb, Hd. split; reflexivity.
Qed.

Lemma opt_eqb_some a b : is_some a = true -> opt_eqb a b = true -> exists x, a = Some x /\ b = Some x.
Proof.
  destruct a as [x|]; [|discriminate]. destruct b as [y|]; [|discriminate].
  cbn [opt_eqb]. intros _ H. apply N.eqb_eq in H. subst y. exists x. split; reflexivity.
Qed.

Lemma vlayout_eqb_tag a b : vlayout_eqb a b = true -> vlayout_tag a = vlayout_tag b.
Proof. unfold vlayout_eqb. apply N.eqb_eq. Qed.

Lemma prim_lc_sound pa pb : prim_layout_compatible pa pb = true ->
  exists m, mty_of (SPrim pa) = Some m /\ mty_of (SPrim pb) = Some m.
Proof.
  intros H.
  destruct pa as [| | | | | | | |la| | | | | | |]; destruct pb as [| | | | | | | |lb| | | | | | |];
    try (vm_compute in H; discriminate H);
    try (eexists; split; reflexivity).
  cbn [prim_layout_compatible] in H.
  apply andb_true_iff in H as [H He]. apply andb_true_iff in H as [Ha Hb].
  apply negb_true_iff in Ha, Hb. apply vlayout_eqb_tag in He.
  cbn [mty_of]. rewrite Ha, Hb, He. eexists; split; reflexivity.
Qed.

Lemma ls_all : forall a, LS a.
Proof.
  induction a as
    [name size align fields H | name variants dsize repr size align H | p | s l IHs | s c IHs
    | s IHs | | | c | s IHs | s IHs | | s IHs | m d H | m d H | d | | d send sync unpin H | | ]
    using schema_ind'; unfold LS; intros b Hlc; destruct b; try discriminate Hlc.
  - rewrite lc_struct in Hlc.
    apply andb_true_iff in Hlc as [Hlc Hf]. apply andb_true_iff in Hlc as [Hlc Hsz].
    apply andb_true_iff in Hlc as [Hlc Hal]. apply andb_true_iff in Hlc as [Hlc Hssz].
    apply andb_true_iff in Hlc as [Hlen Hsal]. apply Nat.eqb_eq in Hlen.
    destruct (opt_eqb_some _ _ Hsal Hal) as [al [-> ->]].
    destruct (opt_eqb_some _ _ Hssz Hsz) as [sz [-> ->]].
    destruct (lfields_sound _ H _ Hlen Hf) as [l [Hla Hlb]].
    rewrite !mty_struct, Hla, Hlb. eexists; split; reflexivity.
  - rewrite lc_enum in Hlc.
    apply andb_true_iff in Hlc as [Hlc Hv]. apply andb_true_iff in Hlc as [Hlc Hlen].
    apply andb_true_iff in Hlc as [Hlc Hds]. apply andb_true_iff in Hlc as [Hlc Hsz].
    apply andb_true_iff in Hlc as [Hlc Hal]. apply andb_true_iff in Hlc as [Hlc Hssz].
    apply andb_true_iff in Hlc as [Hlc Hsal]. apply andb_true_iff in Hlc as [Hra Hrb].
    subst. apply Nat.eqb_eq in Hlen. apply N.eqb_eq in Hds. subst.
    destruct (opt_eqb_some _ _ Hsal Hal) as [al [-> ->]].
    destruct (opt_eqb_some _ _ Hssz Hsz) as [sz [-> ->]].
    destruct (lvariants_sound _ H _ Hlen Hv) as [l [Hla Hlb]].
    rewrite !mty_enum, Hla, Hlb. eexists; split; reflexivity.
  - apply prim_lc_sound. exact Hlc.
  - cbn [layout_compatible] in Hlc.
    apply andb_true_iff in Hlc as [Hlc He]. apply andb_true_iff in Hlc as [Hlc Hb].
    apply andb_true_iff in Hlc as [Hlc Ha].
    apply negb_true_iff in Ha, Hb. apply vlayout_eqb_tag in He.
    destruct (IHs _ Hlc) as [m [Hma Hmb]].
    cbn [mty_of]. rewrite Ha, Hb, Hma, Hmb, He. eexists; split; reflexivity.
  - cbn [layout_compatible] in Hlc. apply andb_true_iff in Hlc as [Hc Hlc].
    apply N.eqb_eq in Hc. subst. destruct (IHs _ Hlc) as [m [Hma Hmb]].
    cbn [mty_of]. rewrite Hma, Hmb. eexists; split; reflexivity.
  - eexists; split; reflexivity.
  - cbn [layout_compatible] in Hlc. destruct (IHs _ Hlc) as [m [Hma Hmb]].
    cbn [mty_of]. rewrite Hma, Hmb. eexists; split; reflexivity.
  - cbn [layout_compatible] in Hlc. destruct (IHs _ Hlc) as [m [Hma Hmb]].
    cbn [mty_of]. rewrite Hma, Hmb. eexists; split; reflexivity.
  - cbn [layout_compatible] in Hlc. destruct (IHs _ Hlc) as [m [Hma Hmb]].
    cbn [mty_of]. rewrite Hma, Hmb. eexists; split; reflexivity.
Qed.

Theorem layout_compatible_sound : forall a b, layout_compatible a b = true ->
  exists m, mty_of a = Some m /\ mty_of b = Some m.
Proof. intros a b. apply ls_all. Qed.

Theorem layout_unknown_is_no : forall a b, mty_of a = None -> layout_compatible a b = false.
Proof.
  intros a b Hn. destruct (layout_compatible a b) eqn:E; [|reflexivity].
  destruct (layout_compatible_sound a b E) as [m [Hm _]]. rewrite Hn in Hm. discriminate Hm.
Qed.

(* ------------------------------------------------------------------ *)
Print Assumptions flex_contents_concat.
Print Assumptions flex_spill_iff.
Print Assumptions flex_stack_bound.
Print Assumptions layout_compatible_sound.
Print Assumptions layout_unknown_is_no.
Print Assumptions args_mask_sound.
Print Assumptions plain_arg_by_ref_needs_layout.
Print Assumptions analyze_missing_method.
Print Assumptions ledger_first_writer_wins.
Print Assumptions ledger_idempotent.
Print Assumptions ledger_accept_iff.
Print Assumptions verify_compat_removed_method.
Print Assumptions verify_compat_arg_count.
Print Assumptions verify_compat_added_methods.
Print Assumptions selfcompat_async_refuted.
Print Assumptions selfcompat_sync.
