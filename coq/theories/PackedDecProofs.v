(* PackedDecProofs.v — facts about the reader *as implemented* ([impl_dec] of PackedDec.v). *)
From SF Require Import Bytes Ty TyProofs Packed PackedProofs PackedDec.
Open Scope N_scope.

(* ------------------------------------------------------------------ *)
(* 1. closed witnesses of the known findings *)

Theorem impl_dec_bulk_bool_invalid :
  impl_dec Debug true 0 (TVec TBool) (enc_usize 2 ++ [7; 1]) = Ok (VSeq [VInt 7; VInt 1], [])
  /\ valid_val (TVec TBool) (VSeq [VInt 7; VInt 1]) = false
  /\ dec 0 (TVec TBool) (enc_usize 2 ++ [7; 1]) = Ok (VSeq [VInt 0; VInt 1], []).
Proof. repeat split; vm_compute; reflexivity. Qed.

Theorem impl_dec_unchecked_mul :
  impl_dec Debug false 0 (TVec (TInt U32)) (enc_usize 4611686018427387905 ++ [1; 2; 3; 4]) = Panic
  /\ impl_dec Release false 0 (TVec (TInt U32)) (enc_usize 4611686018427387905 ++ [1; 2; 3; 4]) = Ok (VSeq [VInt 67305985], [])
  /\ bulk_claims (TInt U32) (enc_usize 4611686018427387905 ++ [1; 2; 3; 4]) = Some (4611686018427387905, 1)
  /\ impl_dec Debug true 0 (TVec (TInt U32)) (enc_usize 4611686018427387905 ++ [1; 2; 3; 4]) = Err ELayout
  /\ impl_dec Release true 0 (TVec (TInt U32)) (enc_usize 4611686018427387905 ++ [1; 2; 3; 4]) = Err ELayout.
Proof. repeat split; vm_compute; reflexivity. Qed.

(* ------------------------------------------------------------------ *)
(* Unfolding equations of [impl_dec]: its local fixpoints are the standalone [dflds], [dtup], [pickg]
   of TyProofs.v instantiated with [impl_dec]. *)

Lemma idec_TInt md cm v k : impl_dec md cm v (TInt k) = dec v (TInt k). Proof. reflexivity. Qed.
Lemma idec_TBool md cm v : impl_dec md cm v TBool = dec v TBool. Proof. reflexivity. Qed.
Lemma idec_TChar md cm v : impl_dec md cm v TChar = dec v TChar. Proof. reflexivity. Qed.
Lemma idec_TF32 md cm v : impl_dec md cm v TF32 = dec v TF32. Proof. reflexivity. Qed.
Lemma idec_TF64 md cm v : impl_dec md cm v TF64 = dec v TF64. Proof. reflexivity. Qed.
Lemma idec_TUnit md cm v : impl_dec md cm v TUnit = dec v TUnit. Proof. reflexivity. Qed.
Lemma idec_TString md cm v : impl_dec md cm v TString = dec v TString. Proof. reflexivity. Qed.
Lemma idec_TVec md cm v t bs :
  impl_dec md cm v (TVec t) bs =
  if packed v t then bulk_vec md cm t bs
  else
    let* (n, r) := rd_usize bs in
    if SEQ_LIMIT <? n then Err EGeneral else
    let* (xs, r') := read_n (impl_dec md cm v t) (seq_fuel n r) n r in Ok (VSeq xs, r').
Proof. reflexivity. Qed.
Lemma idec_TSeq md cm v t bs :
  impl_dec md cm v (TSeq t) bs =
  let* (n, r) := rd_usize bs in
  let* (xs, r') := read_n (impl_dec md cm v t) (seq_fuel n r) n r in Ok (VSeq xs, r').
Proof. reflexivity. Qed.
Lemma idec_TArray md cm v t n bs :
  impl_dec md cm v (TArray t n) bs =
  if n =? 0 then Ok (VSeq [], bs) else
  if packed v t then
    if N.of_nat (length bs) <? size_of t * n then Err EEof else
    let* (raw, r') := take_exact (N.to_nat (size_of t * n)) bs in
    Ok (VSeq (chunks_of t (N.to_nat n) raw), r')
  else
    let* (xs, r') := read_n (impl_dec md cm v t) (N.to_nat n) n bs in Ok (VSeq xs, r').
Proof. reflexivity. Qed.
Lemma idec_TOption md cm v t bs :
  impl_dec md cm v (TOption t) bs =
  let* (b, r) := rd_bool bs in
  if b then let* (y, r') := impl_dec md cm v t r in Ok (VSome y, r') else Ok (VNone, r).
Proof. reflexivity. Qed.
Lemma idec_TResult md cm v a b bs :
  impl_dec md cm v (TResult a b) bs =
  let* (tag, r) := rd_bool bs in
  if tag then let* (y, r') := impl_dec md cm v a r in Ok (VOk y, r')
  else let* (y, r') := impl_dec md cm v b r in Ok (VErr y, r').
Proof. reflexivity. Qed.
Lemma idec_TBox md cm v t : impl_dec md cm v (TBox t) = impl_dec md cm v t. Proof. reflexivity. Qed.
Lemma idec_TCell md cm v t : impl_dec md cm v (TCell t) = impl_dec md cm v t. Proof. reflexivity. Qed.
Lemma idec_TTuple md cm v l ts bs :
  impl_dec md cm v (TTuple l ts) bs = let* (ys, r) := dtup (impl_dec md cm v) ts bs in Ok (VRec ys, r).
Proof. reflexivity. Qed.
Lemma idec_TStruct md cm v l fs bs :
  impl_dec md cm v (TStruct l fs) bs = let* (ys, r) := dflds v (impl_dec md cm v) fs bs in Ok (VRec ys, r).
Proof. reflexivity. Qed.
Lemma idec_TEnum md cm v repr l vo vs bs :
  impl_dec md cm v (TEnum repr l vo vs) bs =
  let* (idx, r) := rd_le (dwidth repr (length vs)) bs in
  if N.of_nat (length vs) <=? idx then Err EGeneral else
  pickg (fun vd => let* (ys, r') := dflds v (impl_dec md cm v) (vd_fields vd) r in Ok (VVar idx ys, r'))
        (Err EGeneral) vs (N.to_nat idx).
Proof. reflexivity. Qed.

(* ------------------------------------------------------------------ *)
(* 5. what a successful read returns as rest is a suffix of its input *)

Definition suf (r bs : bytes) : Prop := exists p, bs = p ++ r.

Lemma suf_refl bs : suf bs bs.
Proof. exists []. reflexivity. Qed.

Lemma suf_trans a b c : suf a b -> suf b c -> suf a c.
Proof. intros [p ->] [q ->]. exists (q ++ p). apply app_assoc. Qed.

Definition SUF {A} (rd : reader A) : Prop := forall bs x r, rd bs = Ok (x, r) -> suf r bs.

(* one step through a [bind] *)
Ltac suf_step H lem :=
  match type of H with
  | bind (?rd ?bs) _ = Ok _ =>
      let E := fresh "E" in
      destruct (rd bs) as [[? ?]| | |] eqn:E; cbn [bind] in H; try discriminate H;
      apply lem in E
  end.
Ltac suf_if H :=
  match type of H with
  | (if ?c then _ else _) = Ok _ => destruct c eqn:?; try discriminate H
  end.
Ltac suf_done H := inversion H; subst; eauto using suf_refl, suf_trans.

Lemma take_exact_suf k : SUF (take_exact k).
Proof. intros bs x r H. apply take_exact_ok in H as [-> _]. exists x. reflexivity. Qed.

Lemma rd_le_suf w : SUF (rd_le w).
Proof. intros bs x r H. unfold rd_le in H. suf_step H (take_exact_suf w). suf_done H. Qed.

Lemma rd_bool_suf : SUF rd_bool.
Proof. intros bs x r H. unfold rd_bool, rd_u8 in H. suf_step H (rd_le_suf 1). suf_done H. Qed.

Lemma rd_string_suf : SUF rd_string.
Proof.
  intros bs x r H. unfold rd_string, rd_usize in H. suf_step H (rd_le_suf 8). suf_if H.
  match type of H with bind (take_exact ?k ?l) _ = _ => suf_step H (take_exact_suf k) end.
  suf_if H. suf_done H.
Qed.

Lemma read_n_suf {A} (rd : reader A) : SUF rd -> forall f n, SUF (read_n rd f n).
Proof.
  intros Hrd. induction f as [|f IH]; intros n bs xs r H.
  - rewrite read_n_O in H. destruct (n =? 0); [|discriminate]. suf_done H.
  - rewrite read_n_S in H. destruct (n =? 0); [suf_done H|].
    suf_step H Hrd. suf_step H (IH (n - 1)). suf_done H.
Qed.

Lemma dtup_suf (D : ty -> reader val) ts : Forall (fun t => SUF (D t)) ts -> SUF (dtup D ts).
Proof.
  induction 1 as [|t ts Ht _ IH]; intros bs ys r Hd; cbn [dtup] in Hd.
  - suf_done Hd.
  - suf_step Hd Ht. suf_step Hd IH. suf_done Hd.
Qed.

Lemma dfield_suf v (D : ty -> reader val) f : SUF (D (fd_ty f)) -> SUF (dfield v D f).
Proof.
  intros Hf bs y r H. unfold dfield in H.
  destruct (fd_kind f); destruct (present v f);
    try (suf_done H); try (apply Hf in H; exact H);
    suf_step H Hf; suf_done H.
Qed.

Lemma dflds_suf v (D : ty -> reader val) fs : Pfs (fun t => SUF (D t)) fs -> SUF (dflds v D fs).
Proof.
  induction 1 as [|f fs Hf _ IH]; intros bs ys r Hd; cbn [dflds] in Hd.
  - suf_done Hd.
  - suf_step Hd (dfield_suf v D f Hf). suf_step Hd IH. suf_done Hd.
Qed.

Lemma bulk_vec_suf md cm t : SUF (bulk_vec md cm t).
Proof.
  intros bs x r H. unfold bulk_vec, rd_usize in H. suf_step H (rd_le_suf 8).
  suf_if H; [suf_done H|]. suf_if H.
  destruct md; destruct (Bytes.U64 <=? size_of t * n); try discriminate H;
    (suf_if H; suf_if H; [suf_done H|]; suf_if H;
     match type of H with bind (take_exact ?k ?l) _ = _ => suf_step H (take_exact_suf k) end;
     suf_done H).
Qed.

Lemma impl_dec_suf md cm v t : SUF (impl_dec md cm v t).
Proof.
  induction t using ty_ind'; intros bs y r Hd.
  - rewrite idec_TInt, dec_TInt in Hd. suf_step Hd (rd_le_suf (ity_bytes k)). suf_done Hd.
  - rewrite idec_TBool, dec_TBool in Hd. suf_step Hd (rd_le_suf 1). suf_done Hd.
  - rewrite idec_TChar, dec_TChar in Hd. suf_step Hd (rd_le_suf 4). suf_if Hd. suf_done Hd.
  - rewrite idec_TF32, dec_TF32 in Hd. suf_step Hd (rd_le_suf 4). suf_done Hd.
  - rewrite idec_TF64, dec_TF64 in Hd. suf_step Hd (rd_le_suf 8). suf_done Hd.
  - rewrite idec_TUnit, dec_TUnit in Hd. suf_done Hd.
  - rewrite idec_TString, dec_TString in Hd. suf_step Hd rd_string_suf. suf_done Hd.
  - rewrite idec_TVec in Hd. suf_if Hd; [apply bulk_vec_suf in Hd; exact Hd|].
    suf_step Hd (rd_le_suf 8). suf_if Hd.
    match type of Hd with bind (read_n ?rd ?f ?n ?l) _ = _ => suf_step Hd (read_n_suf rd IHt f n) end.
    suf_done Hd.
  - rewrite idec_TSeq in Hd. suf_step Hd (rd_le_suf 8).
    match type of Hd with bind (read_n ?rd ?f ?n ?l) _ = _ => suf_step Hd (read_n_suf rd IHt f n) end.
    suf_done Hd.
  - rewrite idec_TArray in Hd. suf_if Hd; [suf_done Hd|]. suf_if Hd.
    + suf_if Hd.
      match type of Hd with bind (take_exact ?k ?l) _ = _ => suf_step Hd (take_exact_suf k) end.
      suf_done Hd.
    + match type of Hd with bind (read_n ?rd ?f ?n ?l) _ = _ => suf_step Hd (read_n_suf rd IHt f n) end.
      suf_done Hd.
  - rewrite idec_TOption in Hd. suf_step Hd rd_bool_suf. suf_if Hd.
    + suf_step Hd IHt. suf_done Hd.
    + suf_done Hd.
  - rewrite idec_TResult in Hd. suf_step Hd rd_bool_suf. suf_if Hd.
    + suf_step Hd IHt1. suf_done Hd.
    + suf_step Hd IHt2. suf_done Hd.
  - rewrite idec_TBox in Hd. apply IHt in Hd. exact Hd.
  - rewrite idec_TCell in Hd. apply IHt in Hd. exact Hd.
  - rewrite idec_TTuple in Hd. suf_step Hd (dtup_suf (impl_dec md cm v) ts H). suf_done Hd.
  - rewrite idec_TStruct in Hd. suf_step Hd (dflds_suf v (impl_dec md cm v) fs H). suf_done Hd.
  - rewrite idec_TEnum in Hd. suf_step Hd (rd_le_suf (dwidth repr (length vs))). suf_if Hd.
    rewrite pickg_nth in Hd.
    match type of Hd with match nth_error vs ?i with _ => _ end = _ =>
      destruct (nth_error vs i) as [vd|] eqn:Hn; [|discriminate] end.
    unfold Pvs in H. rewrite Forall_forall in H.
    suf_step Hd (dflds_suf v (impl_dec md cm v) (vd_fields vd) (H vd (nth_error_In _ _ Hn))).
    suf_done Hd.
Qed.

Theorem impl_dec_suffix : forall md cm v t bs x r, impl_dec md cm v t bs = Ok (x, r) -> exists p, bs = p ++ r.
Proof. intros md cm v t bs x r H. exact (impl_dec_suf md cm v t bs x r H). Qed.

(* ------------------------------------------------------------------ *)
(* 2. with checked multiplication the implemented reader never panics *)

Lemma bind_np {A B} (r : res A) (k : A -> res B) :
  r <> Panic -> (forall a, r = Ok a -> k a <> Panic) -> bind r k <> Panic.
Proof. intros H1 H2. destruct r; cbn [bind]; try congruence. apply H2; reflexivity. Qed.

Lemma take_exact_np k bs : take_exact k bs <> Panic.
Proof. unfold take_exact. destruct (Nat.leb k (length bs)); discriminate. Qed.

Lemma rd_le_np w bs : rd_le w bs <> Panic.
Proof. unfold rd_le. apply bind_np; [apply take_exact_np|]. intros [a r] _. discriminate. Qed.

Lemma rd_bool_np bs : rd_bool bs <> Panic.
Proof. unfold rd_bool. apply bind_np; [apply rd_le_np|]. intros [a r] _. discriminate. Qed.

Lemma rd_string_np bs : rd_string bs <> Panic.
Proof.
  unfold rd_string. apply bind_np; [apply rd_le_np|]. intros [n r] _. cbv beta iota.
  destruct (STRING_LIMIT <? n); [discriminate|].
  apply bind_np; [apply take_exact_np|]. intros [s r'] _. cbv beta iota.
  destruct (utf8_valid s); discriminate.
Qed.

Lemma read_n_np {A} (rd : reader A) :
  (forall bs, rd bs <> Panic) -> forall f n bs, read_n rd f n bs <> Panic.
Proof.
  intros Hrd. induction f as [|f IH]; intros n bs.
  - rewrite read_n_O. destruct (n =? 0); discriminate.
  - rewrite read_n_S. destruct (n =? 0); [discriminate|].
    apply bind_np; [apply Hrd|]. intros [x r] _. cbv beta iota.
    apply bind_np; [apply IH|]. intros [xs r'] _. discriminate.
Qed.

Lemma dtup_np (D : ty -> reader val) ts :
  Forall (fun t => forall bs, D t bs <> Panic) ts -> forall bs, dtup D ts bs <> Panic.
Proof.
  induction 1 as [|t ts Ht _ IH]; intros bs; cbn [dtup]; [discriminate|].
  apply bind_np; [apply Ht|]. intros [y r] _. cbv beta iota.
  apply bind_np; [apply IH|]. intros [ys r'] _. discriminate.
Qed.

Lemma dfield_np v (D : ty -> reader val) f :
  (forall bs, D (fd_ty f) bs <> Panic) -> forall bs, dfield v D f bs <> Panic.
Proof.
  intros Hf bs. unfold dfield.
  destruct (fd_kind f); destruct (present v f); try discriminate; try apply Hf;
    (apply bind_np; [apply Hf|]; intros [y r] _; discriminate).
Qed.

Lemma dflds_np v (D : ty -> reader val) fs :
  Pfs (fun t => forall bs, D t bs <> Panic) fs -> forall bs, dflds v D fs bs <> Panic.
Proof.
  induction 1 as [|f fs Hf _ IH]; intros bs; cbn [dflds]; [discriminate|].
  apply bind_np; [apply (dfield_np v D f Hf)|]. intros [y r] _. cbv beta iota.
  apply bind_np; [apply IH|]. intros [ys r'] _. discriminate.
Qed.

Lemma bulk_vec_np md t bs : bulk_vec md true t bs <> Panic.
Proof.
  unfold bulk_vec. apply bind_np; [apply rd_le_np|]. intros [n r] _. cbv beta iota.
  destruct (n =? 0); [discriminate|]. cbn [andb].
  destruct (Bytes.U64 <=? size_of t * n); [discriminate|].
  assert (G : (if ISIZE_MAX <? (size_of t * n) mod Bytes.U64 then Err ELayout
      else if size_of t =? 0 then Ok (VSeq (repeat (unmem t []) (N.to_nat (N.min n 1000000))), r)
      else if N.of_nat (length r) <? (size_of t * n) mod Bytes.U64 then Err EEof
      else let* (raw, r') := take_exact (N.to_nat ((size_of t * n) mod Bytes.U64)) r in
           Ok (VSeq (chunks_of t (N.to_nat ((size_of t * n) mod Bytes.U64 / size_of t)) raw), r'))
      <> Panic).
  { destruct (ISIZE_MAX <? _); [discriminate|]. destruct (size_of t =? 0); [discriminate|].
    destruct (N.of_nat (length r) <? _); [discriminate|].
    apply bind_np; [apply take_exact_np|]. intros [raw r'] _. discriminate. }
  destruct md; exact G.
Qed.

Lemma impl_dec_np md v t : forall bs, impl_dec md true v t bs <> Panic.
Proof.
  induction t using ty_ind'; intros bs.
  - rewrite idec_TInt, dec_TInt. apply bind_np; [apply rd_le_np|]. intros [n r] _. discriminate.
  - rewrite idec_TBool, dec_TBool. apply bind_np; [apply rd_le_np|]. intros [n r] _. discriminate.
  - rewrite idec_TChar, dec_TChar. apply bind_np; [apply rd_le_np|]. intros [n r] _. cbv beta iota.
    destruct (char_ok (Z.of_N n)); discriminate.
  - rewrite idec_TF32, dec_TF32. apply bind_np; [apply rd_le_np|]. intros [n r] _. discriminate.
  - rewrite idec_TF64, dec_TF64. apply bind_np; [apply rd_le_np|]. intros [n r] _. discriminate.
  - rewrite idec_TUnit, dec_TUnit. discriminate.
  - rewrite idec_TString, dec_TString. apply bind_np; [apply rd_string_np|]. intros [n r] _. discriminate.
  - rewrite idec_TVec. destruct (packed v t); [apply bulk_vec_np|].
    apply bind_np; [apply rd_le_np|]. intros [n r] _. cbv beta iota.
    destruct (SEQ_LIMIT <? n); [discriminate|].
    apply bind_np; [apply read_n_np; exact IHt|]. intros [xs r'] _. discriminate.
  - rewrite idec_TSeq. apply bind_np; [apply rd_le_np|]. intros [n r] _. cbv beta iota.
    apply bind_np; [apply read_n_np; exact IHt|]. intros [xs r'] _. discriminate.
  - rewrite idec_TArray. destruct (n =? 0); [discriminate|]. destruct (packed v t).
    + destruct (N.of_nat (length bs) <? size_of t * n); [discriminate|].
      apply bind_np; [apply take_exact_np|]. intros [raw r'] _. discriminate.
    + apply bind_np; [apply read_n_np; exact IHt|]. intros [xs r'] _. discriminate.
  - rewrite idec_TOption. apply bind_np; [apply rd_bool_np|]. intros [b r] _. cbv beta iota.
    destruct b; [|discriminate].
    apply bind_np; [apply IHt|]. intros [y r'] _. discriminate.
  - rewrite idec_TResult. apply bind_np; [apply rd_bool_np|]. intros [b0 r] _. cbv beta iota.
    destruct b0.
    + apply bind_np; [apply IHt1|]. intros [y r'] _. discriminate.
    + apply bind_np; [apply IHt2|]. intros [y r'] _. discriminate.
  - rewrite idec_TBox. apply IHt.
  - rewrite idec_TCell. apply IHt.
  - rewrite idec_TTuple. apply bind_np; [apply (dtup_np _ ts H)|]. intros [ys r] _. discriminate.
  - rewrite idec_TStruct. apply bind_np; [apply (dflds_np v _ fs H)|]. intros [ys r] _. discriminate.
  - rewrite idec_TEnum. apply bind_np; [apply rd_le_np|]. intros [idx r] _. cbv beta iota.
    destruct (N.of_nat (length vs) <=? idx); [discriminate|].
    rewrite pickg_nth. destruct (nth_error vs (N.to_nat idx)) as [vd|] eqn:Hn; [|discriminate].
    pose proof (nth_error_In _ _ Hn) as Hin.
    unfold Pvs in H. rewrite Forall_forall in H.
    apply bind_np; [apply (dflds_np v _ (vd_fields vd) (H vd Hin))|].
    intros [ys r'] _. discriminate.
Qed.

Theorem impl_dec_no_panic : forall md v t bs, impl_dec md true v t bs <> Panic.
Proof. intros md v t bs. apply impl_dec_np. Qed.

(* ------------------------------------------------------------------ *)
(* 4. a bulk-read vector never claims more elements than the input could have encoded *)

Lemma chunks_of_length t k : forall m, length (chunks_of t k m) = k.
Proof. induction k as [|k IH]; intros m; cbn [chunks_of length]; [reflexivity|]. now rewrite IH. Qed.

(* what a successful checked bulk read looks like *)
Lemma bulk_vec_ok md t bs x r :
  bulk_vec md true t bs = Ok (x, r) ->
  exists n r0, rd_usize bs = Ok (n, r0) /\
    (n = 0 /\ x = VSeq [] /\ r = r0
     \/ n <> 0 /\ size_of t * n < Bytes.U64 /\
        (size_of t = 0 /\ x = VSeq (repeat (unmem t []) (N.to_nat (N.min n 1000000))) /\ r = r0
         \/ size_of t <> 0 /\ size_of t * n <= N.of_nat (length r0) /\
            exists raw, take_exact (N.to_nat (size_of t * n)) r0 = Ok (raw, r) /\
                        x = VSeq (chunks_of t (N.to_nat n) raw))).
Proof.
  unfold bulk_vec. intros H.
  destruct (rd_usize bs) as [[n r0]| | |] eqn:E; cbn [bind] in H; try discriminate H.
  exists n, r0. split; [reflexivity|].
  destruct (n =? 0) eqn:En.
  - apply N.eqb_eq in En. inversion H; subst. left. auto.
  - apply N.eqb_neq in En. right. split; [exact En|]. cbn [andb] in H.
    destruct (Bytes.U64 <=? size_of t * n) eqn:Eo; [discriminate H|].
    apply N.leb_gt in Eo. split; [exact Eo|].
    rewrite (N.mod_small _ _ Eo) in H.
    assert (H' : (if ISIZE_MAX <? size_of t * n then Err ELayout
      else if size_of t =? 0 then Ok (VSeq (repeat (unmem t []) (N.to_nat (N.min n 1000000))), r0)
      else if N.of_nat (length r0) <? size_of t * n then Err EEof
      else let* (raw, r') := take_exact (N.to_nat (size_of t * n)) r0 in
           Ok (VSeq (chunks_of t (N.to_nat (size_of t * n / size_of t)) raw), r')) = Ok (x, r))
      by (destruct md; exact H).
    clear H. destruct (ISIZE_MAX <? size_of t * n); [discriminate H'|].
    destruct (size_of t =? 0) eqn:Es.
    + apply N.eqb_eq in Es. inversion H'; subst. left. auto.
    + apply N.eqb_neq in Es. right. split; [exact Es|].
      destruct (N.of_nat (length r0) <? size_of t * n) eqn:El; [discriminate H'|].
      apply N.ltb_ge in El. split; [exact El|].
      destruct (take_exact (N.to_nat (size_of t * n)) r0) as [[raw r']| | |] eqn:Et; cbn [bind] in H'; try discriminate H'.
      inversion H'; subst. exists raw. split; [reflexivity|].
      rewrite N.mul_comm, N.div_mul by exact Es. reflexivity.
Qed.

Theorem bulk_vec_bounded : forall md v t bs l r, packed v t = true -> (0 < size_of t)%N ->
  impl_dec md true v (TVec t) bs = Ok (VSeq l, r) ->
  (N.of_nat (length l) * size_of t <= N.of_nat (length bs))%N.
Proof.
  intros md v t bs l r Hp Hs H. rewrite idec_TVec, Hp in H.
  apply bulk_vec_ok in H as (n & r0 & Hn & H).
  apply rd_le_len in Hn.
  destruct H as [(_ & Hx & _)|(_ & _ & [(Hz & _)|(_ & Hle & raw & _ & Hx)])].
  - inversion Hx; subst. cbn [length]. lia.
  - lia.
  - inversion Hx; subst. rewrite chunks_of_length. lia.
Qed.

(* ------------------------------------------------------------------ *)
(* 3. validity of every returned value *)

(* -- induction on values, reflexivity of [val_eqb] -- *)
Section ValInd.
Variable P : val -> Prop.
Hypothesis H_int : forall z, P (VInt z).
Hypothesis H_str : forall b, P (VStr b).
Hypothesis H_seq : forall l, Forall P l -> P (VSeq l).
Hypothesis H_none : P VNone.
Hypothesis H_some : forall x, P x -> P (VSome x).
Hypothesis H_ok : forall x, P x -> P (VOk x).
Hypothesis H_err : forall x, P x -> P (VErr x).
Hypothesis H_rec : forall l, Forall P l -> P (VRec l).
Hypothesis H_var : forall i l, Forall P l -> P (VVar i l).
Hypothesis H_unit : P VUnit.
Fixpoint val_ind' (x : val) : P x :=
  let lind := fix go (l : list val) : Forall P l :=
     match l return Forall P l with
     | [] => Forall_nil _
     | a :: r => @Forall_cons _ P a r (val_ind' a) (go r)
     end in
  match x return P x with
  | VInt z => H_int z
  | VStr b => H_str b
  | VSeq l => H_seq l (lind l)
  | VNone => H_none
  | VSome y => H_some y (val_ind' y)
  | VOk y => H_ok y (val_ind' y)
  | VErr y => H_err y (val_ind' y)
  | VRec l => H_rec l (lind l)
  | VVar i l => H_var i l (lind l)
  | VUnit => H_unit
  end.
End ValInd.

Section LEqb.
Variable E : val -> val -> bool.
Fixpoint leqb (l1 l2 : list val) {struct l1} : bool :=
  match l1, l2 with
  | [], [] => true
  | x :: r1, y :: r2 => E x y && leqb r1 r2
  | _, _ => false
  end.
End LEqb.

Lemma val_eqb_VSeq x y : val_eqb (VSeq x) (VSeq y) = leqb val_eqb x y. Proof. reflexivity. Qed.
Lemma val_eqb_VRec x y : val_eqb (VRec x) (VRec y) = leqb val_eqb x y. Proof. reflexivity. Qed.
Lemma val_eqb_VVar i j x y : val_eqb (VVar i x) (VVar j y) = (i =? j) && leqb val_eqb x y. Proof. reflexivity. Qed.

Lemma leqb_refl (E : val -> val -> bool) l : Forall (fun x => E x x = true) l -> leqb E l l = true.
Proof. induction 1 as [|x l Hx _ IH]; cbn [leqb]; [reflexivity|]. now rewrite Hx, IH. Qed.

Lemma val_eqb_refl x : val_eqb x x = true.
Proof.
  induction x using val_ind'.
  - apply Z.eqb_refl.
  - apply bytes_eqb_eq. reflexivity.
  - rewrite val_eqb_VSeq. apply leqb_refl. assumption.
  - reflexivity.
  - exact IHx.
  - exact IHx.
  - exact IHx.
  - rewrite val_eqb_VRec. apply leqb_refl. assumption.
  - rewrite val_eqb_VVar, N.eqb_refl. apply leqb_refl. assumption.
  - reflexivity.
Qed.

(* -- standalone copy of the local [fields_ok] of [valid_val]; its tuple [go] is [htup], its [pick] is [pickg] -- *)
Section VMirror.
Variable V : ty -> val -> bool.
Definition vfield (f : fdef) (y : val) : bool :=
  if is_removed f then match y with VUnit => true | _ => false end
  else if is_ignored f then true
  else V (fd_ty f) y || val_eqb y (fd_default f).
Fixpoint vflds (fs : list fdef) (xs : list val) {struct fs} : bool :=
  match fs, xs with
  | [], [] => true
  | f :: rf, y :: ry => vfield f y && vflds rf ry
  | _, _ => false
  end.
End VMirror.

Lemma vv_TInt k z : valid_val (TInt k) (VInt z) = ((int_lo k <=? z) && (z <? int_hi k))%Z.
Proof. reflexivity. Qed.
Lemma vv_TBool z : valid_val TBool (VInt z) = ((z =? 0) || (z =? 1))%Z.
Proof. reflexivity. Qed.
Lemma vv_TChar z : valid_val TChar (VInt z) = char_ok z.
Proof. reflexivity. Qed.
Lemma vv_TF32 z : valid_val TF32 (VInt z) = ((0 <=? z) && (z <? 4294967296))%Z.
Proof. reflexivity. Qed.
Lemma vv_TF64 z : valid_val TF64 (VInt z) = ((0 <=? z) && (z <? 18446744073709551616))%Z.
Proof. reflexivity. Qed.
Lemma vv_TString b : valid_val TString (VStr b) = utf8_valid b.
Proof. reflexivity. Qed.
Lemma vv_TVec t l : valid_val (TVec t) (VSeq l) = forallb (valid_val t) l.
Proof. reflexivity. Qed.
Lemma vv_TSeq t l : valid_val (TSeq t) (VSeq l) = forallb (valid_val t) l.
Proof. reflexivity. Qed.
Lemma vv_TArray t n l : valid_val (TArray t n) (VSeq l) = (N.of_nat (length l) =? n) && forallb (valid_val t) l.
Proof. reflexivity. Qed.
Lemma vv_TOption_some t y : valid_val (TOption t) (VSome y) = valid_val t y.
Proof. reflexivity. Qed.
Lemma vv_TResult_ok a b y : valid_val (TResult a b) (VOk y) = valid_val a y.
Proof. reflexivity. Qed.
Lemma vv_TResult_err a b y : valid_val (TResult a b) (VErr y) = valid_val b y.
Proof. reflexivity. Qed.
Lemma vv_TBox t y : valid_val (TBox t) y = valid_val t y.
Proof. reflexivity. Qed.
Lemma vv_TCell t y : valid_val (TCell t) y = valid_val t y.
Proof. reflexivity. Qed.
Lemma vv_TTuple l ts xs : valid_val (TTuple l ts) (VRec xs) = htup valid_val ts xs.
Proof. reflexivity. Qed.
Lemma vv_TStruct l fs xs : valid_val (TStruct l fs) (VRec xs) = vflds valid_val fs xs.
Proof. reflexivity. Qed.
Lemma vv_TEnum repr l vo vs idx xs :
  valid_val (TEnum repr l vo vs) (VVar idx xs) =
  (idx <? N.of_nat (length vs))
  && pickg (fun vd => vflds valid_val (vd_fields vd) xs) false vs (N.to_nat (N.min idx 70000)).
Proof. reflexivity. Qed.

(* -- standalone copies of the local fixpoints of [unmem] -- *)
Section UnMirror.
Variable U : ty -> bytes -> val.
Variable m : bytes.
Fixpoint unflds (fs : list fdef) (offs : list N) {struct fs} : list val :=
  match fs, offs with
  | f :: rf, o :: ro =>
      (if is_removed f then VUnit else U (fd_ty f) (bslice m o (size_of (fd_ty f)))) :: unflds rf ro
  | _, _ => []
  end.
Fixpoint untup (ts : list ty) (offs : list N) {struct ts} : list val :=
  match ts, offs with
  | t' :: rt, o :: ro => U t' (bslice m o (size_of t')) :: untup rt ro
  | _, _ => []
  end.
Section Chunks.
Variable t' : ty.
Fixpoint unchunks (k : nat) (off : N) : list val :=
  match k with
  | O => []
  | S k' => U t' (bslice m off (size_of t')) :: unchunks k' (off + size_of t')
  end.
End Chunks.
End UnMirror.

Lemma unmem_TInt k m :
  unmem (TInt k) m = VInt (untwos (ity_signed k) (ity_bytes k) (unle (firstn (ity_bytes k) m))).
Proof. reflexivity. Qed.
Lemma unmem_TF32 m : unmem TF32 m = VInt (Z.of_N (unle (firstn 4 m))). Proof. reflexivity. Qed.
Lemma unmem_TF64 m : unmem TF64 m = VInt (Z.of_N (unle (firstn 8 m))). Proof. reflexivity. Qed.
Lemma unmem_TUnit m : unmem TUnit m = VUnit. Proof. reflexivity. Qed.
Lemma unmem_TArray t n m : unmem (TArray t n) m = VSeq (unchunks unmem m t (N.to_nat n) 0).
Proof. reflexivity. Qed.
Lemma unmem_TCell t m : unmem (TCell t) m = unmem t m. Proof. reflexivity. Qed.
Lemma unmem_TTuple l ts m : unmem (TTuple l ts) m = VRec (untup unmem m ts (l_offs l)).
Proof. reflexivity. Qed.
Lemma unmem_TStruct l fs m : unmem (TStruct l fs) m = VRec (unflds unmem m fs (l_offs l)).
Proof. reflexivity. Qed.

Lemma has_niche_TArray t n : has_niche (TArray t n) = has_niche t. Proof. reflexivity. Qed.
Lemma has_niche_TCell t : has_niche (TCell t) = has_niche t. Proof. reflexivity. Qed.
Lemma has_niche_TTuple l ts : has_niche (TTuple l ts) = existsb has_niche ts. Proof. reflexivity. Qed.
Lemma has_niche_TStruct l fs :
  has_niche (TStruct l fs) = existsb (fun f : fdef => negb (is_removed f) && has_niche (fd_ty f)) fs.
Proof. reflexivity. Qed.

(* -- integer ranges -- *)
Lemma wfb_firstn k m : wfb m -> wfb (firstn k m).
Proof. intros H. rewrite <- (firstn_skipn k m) in H. apply wfb_app in H. tauto. Qed.
Lemma wfb_skipn k m : wfb m -> wfb (skipn k m).
Proof. intros H. rewrite <- (firstn_skipn k m) in H. apply wfb_app in H. tauto. Qed.
Lemma wfb_bslice m o s : wfb m -> wfb (bslice m o s).
Proof. intros H. unfold bslice. apply wfb_firstn, wfb_skipn, H. Qed.

Lemma unle_firstn_bound w m : wfb m -> unle (firstn w m) < 256 ^ N.of_nat w.
Proof.
  intros H. pose proof (unle_bound _ (wfb_firstn w m H)) as Hb. pose proof (firstn_le_length w m) as Hl.
  assert (256 ^ N.of_nat (length (firstn w m)) <= 256 ^ N.of_nat w) by (apply N.pow_le_mono_r; lia). lia.
Qed.

Lemma untwos_range k n : n < 256 ^ N.of_nat (ity_bytes k) ->
  ((int_lo k <=? untwos (ity_signed k) (ity_bytes k) n) && (untwos (ity_signed k) (ity_bytes k) n <? int_hi k))%Z = true.
Proof.
  intros Hn. apply N2Z.inj_lt in Hn. change (Z.of_N (256 ^ N.of_nat (ity_bytes k))) with (pow256 (ity_bytes k)) in Hn.
  apply andb_true_iff. rewrite Z.leb_le, Z.ltb_lt.
  unfold int_lo, int_hi, untwos.
  destruct k; cbn [ity_signed ity_bytes andb] in *;
    rewrite ?pow256_1, ?pow256_2, ?pow256_4, ?pow256_8, ?pow256_16 in *;
    try (rewrite Z.geb_leb;
         match goal with |- context [Z.leb ?a ?b] => destruct (Z.leb_spec a b) end);
    Z.to_euclidean_division_equations; lia.
Qed.

Lemma f32_range n : n < 256 ^ N.of_nat 4 -> ((0 <=? Z.of_N n) && (Z.of_N n <? 4294967296))%Z = true.
Proof.
  change (256 ^ N.of_nat 4) with 4294967296. intros H.
  apply andb_true_iff. rewrite Z.leb_le, Z.ltb_lt. lia.
Qed.
Lemma f64_range n : n < 256 ^ N.of_nat 8 -> ((0 <=? Z.of_N n) && (Z.of_N n <? 18446744073709551616))%Z = true.
Proof.
  change (256 ^ N.of_nat 8) with 18446744073709551616. intros H.
  apply andb_true_iff. rewrite Z.leb_le, Z.ltb_lt. lia.
Qed.

(* -- reinterpreting well-formed bytes as a packed type without niche gives a valid value -- *)
Definition UNM (v : N) (t : ty) : Prop :=
  forall m, wfb m -> packed v t = true -> has_niche t = false -> wf_layout t = true ->
  valid_val t (unmem t m) = true.

Lemma unchunks_length (U : ty -> bytes -> val) m t k : forall off, length (unchunks U m t k off) = k.
Proof. induction k as [|k IH]; intros off; cbn [unchunks length]; [reflexivity|]. now rewrite IH. Qed.

Lemma unchunks_valid v t m k :
  UNM v t -> wfb m -> packed v t = true -> has_niche t = false -> wf_layout t = true ->
  forall off, forallb (valid_val t) (unchunks unmem m t k off) = true.
Proof.
  intros IH Hw Hp Hn Hl. induction k as [|k IHk]; intros off; cbn [unchunks forallb]; [reflexivity|].
  rewrite IH by (try apply wfb_bslice; assumption). cbn [andb]. apply IHk.
Qed.

Lemma untup_valid v m ts :
  Forall (UNM v) ts -> wfb m ->
  forallb (packed v) ts = true -> existsb has_niche ts = false -> forallb wf_layout ts = true ->
  forall offs, length offs = length ts -> htup valid_val ts (untup unmem m ts offs) = true.
Proof.
  intros HF Hw. induction HF as [|t ts Ht _ IH]; intros Hp Hn Hl offs Hlen.
  - destruct offs; [reflexivity|discriminate].
  - destruct offs as [|o ro]; [discriminate|]. cbn [length] in Hlen.
    cbn [forallb existsb] in *. apply andb_true_iff in Hp as [Hp1 Hp2].
    apply orb_false_iff in Hn as [Hn1 Hn2]. apply andb_true_iff in Hl as [Hl1 Hl2].
    cbn [untup htup]. rewrite Ht by (try apply wfb_bslice; assumption). cbn [andb].
    apply IH; try assumption. lia.
Qed.

Lemma unflds_valid v m fs :
  Pfs (UNM v) fs -> wfb m ->
  forallb (sfield_pk v) fs = true ->
  existsb (fun f : fdef => negb (is_removed f) && has_niche (fd_ty f)) fs = false ->
  forallb (fun f : fdef => wf_layout (fd_ty f)) fs = true ->
  forall offs, length offs = length fs -> vflds valid_val fs (unflds unmem m fs offs) = true.
Proof.
  intros HF Hw. induction HF as [|f fs Hf _ IH]; intros Hp Hn Hl offs Hlen.
  - destruct offs; [reflexivity|discriminate].
  - destruct offs as [|o ro]; [discriminate|]. cbn [length] in Hlen.
    cbn [forallb existsb] in *. apply andb_true_iff in Hp as [Hp1 Hp2].
    apply orb_false_iff in Hn as [Hn1 Hn2]. apply andb_true_iff in Hl as [Hl1 Hl2].
    cbn [unflds vflds]. rewrite IH by (try assumption; lia). rewrite andb_true_r.
    unfold vfield, sfield_pk in *. destruct (is_removed f); [reflexivity|].
    cbn [andb negb orb] in Hp1, Hn1.
    destruct (is_ignored f); [reflexivity|].
    rewrite Hf by (try apply wfb_bslice; assumption). reflexivity.
Qed.

Lemma unm_all v t : UNM v t.
Proof.
  induction t using ty_ind'; intros m Hw Hp Hn Hl; try discriminate Hp; try discriminate Hn.
  - rewrite unmem_TInt, vv_TInt. apply untwos_range. apply unle_firstn_bound. exact Hw.
  - rewrite unmem_TF32, vv_TF32. apply f32_range. apply unle_firstn_bound. exact Hw.
  - rewrite unmem_TF64, vv_TF64. apply f64_range. apply unle_firstn_bound. exact Hw.
  - reflexivity.
  - rewrite unmem_TArray, vv_TArray. rewrite packed_TArray in Hp. rewrite has_niche_TArray in Hn.
    change (wf_layout (TArray t n)) with (wf_layout t) in Hl.
    rewrite unchunks_length, N2Nat.id, N.eqb_refl. cbn [andb].
    apply (unchunks_valid v); assumption.
  - rewrite unmem_TCell, vv_TCell. rewrite packed_TCell in Hp. rewrite has_niche_TCell in Hn.
    change (wf_layout (TCell t)) with (wf_layout t) in Hl. apply IHt; assumption.
  - rewrite unmem_TTuple, vv_TTuple. rewrite has_niche_TTuple in Hn. rewrite wf_layout_TTuple in Hl.
    apply andb_true_iff in Hl as [Hl Hr]. apply andb_true_iff in Hl as [Hl Hlen].
    destruct (tuple_packed_tile v l ts Hp Hlen Hr) as [Hps _].
    apply Nat.eqb_eq in Hlen. apply (untup_valid v); assumption.
  - rewrite unmem_TStruct, vv_TStruct. rewrite has_niche_TStruct in Hn. rewrite wf_layout_TStruct in Hl.
    apply andb_true_iff in Hl as [Hl Hr]. apply andb_true_iff in Hl as [Hl Hlen].
    rewrite packed_TStruct in Hp. apply andb_true_iff in Hp as [_ Hps].
    apply Nat.eqb_eq in Hlen. apply (unflds_valid v); assumption.
Qed.

Lemma chunks_of_valid v t k :
  packed v t = true -> has_niche t = false -> wf_layout t = true ->
  forall m, wfb m -> forallb (valid_val t) (chunks_of t k m) = true.
Proof.
  intros Hp Hn Hl. induction k as [|k IH]; intros m Hw; cbn [chunks_of forallb]; [reflexivity|].
  rewrite (unm_all v t) by (try apply wfb_firstn; assumption). cbn [andb].
  apply IH. apply wfb_skipn. exact Hw.
Qed.

Lemma forallb_repeat {A} (p : A -> bool) x k : p x = true -> forallb p (repeat x k) = true.
Proof. intros H. induction k as [|k IH]; cbn [repeat forallb]; [reflexivity|]. now rewrite H, IH. Qed.

(* -- the extra premise of [impl_dec_valid]: [valid_val] looks a variant up at index [min idx 70000], the reader
      at [idx]; the two agree when no enum has more than 70001 variants (see [impl_dec_valid_counterexample]) -- *)
Fixpoint enums_small (t : ty) : bool :=
  let okf := fun f : fdef => enums_small (fd_ty f) in
  match t with
  | TVec t | TSeq t | TOption t | TBox t | TCell t | TArray t _ => enums_small t
  | TResult a b => enums_small a && enums_small b
  | TTuple _ ts => forallb enums_small ts
  | TStruct _ fs => forallb okf fs
  | TEnum _ _ _ vs => (N.of_nat (length vs) <=? 70001) && forallb (fun vd : vdef => forallb okf (vd_fields vd)) vs
  | _ => true
  end.

Lemma es_TResult a b : enums_small (TResult a b) = enums_small a && enums_small b. Proof. reflexivity. Qed.
Lemma es_TTuple l ts : enums_small (TTuple l ts) = forallb enums_small ts. Proof. reflexivity. Qed.
Lemma es_TStruct l fs : enums_small (TStruct l fs) = forallb (fun f : fdef => enums_small (fd_ty f)) fs.
Proof. reflexivity. Qed.
Lemma es_TEnum repr l vo vs :
  enums_small (TEnum repr l vo vs) =
  (N.of_nat (length vs) <=? 70001)
  && forallb (fun vd : vdef => forallb (fun f : fdef => enums_small (fd_ty f)) (vd_fields vd)) vs.
Proof. reflexivity. Qed.

Lemma bs_TVec v t : bulk_safe v (TVec t) = bulk_safe v t && negb (packed v t && has_niche t).
Proof. reflexivity. Qed.
Lemma bs_TArray v t n : bulk_safe v (TArray t n) = bulk_safe v t && negb (packed v t && has_niche t).
Proof. reflexivity. Qed.
Lemma bs_TResult v a b : bulk_safe v (TResult a b) = bulk_safe v a && bulk_safe v b. Proof. reflexivity. Qed.
Lemma bs_TTuple v l ts : bulk_safe v (TTuple l ts) = forallb (bulk_safe v) ts. Proof. reflexivity. Qed.
Lemma bs_TStruct v l fs : bulk_safe v (TStruct l fs) = forallb (fun f : fdef => bulk_safe v (fd_ty f)) fs.
Proof. reflexivity. Qed.
Lemma bs_TEnum v repr l vo vs :
  bulk_safe v (TEnum repr l vo vs) =
  forallb (fun vd : vdef => forallb (fun f : fdef => bulk_safe v (fd_ty f)) (vd_fields vd)) vs.
Proof. reflexivity. Qed.

Lemma wl_TResult a b : wf_layout (TResult a b) = wf_layout a && wf_layout b. Proof. reflexivity. Qed.

Definition VAL (md : mode) (v : N) (t : ty) : Prop :=
  forall bs x r, wfb bs -> wf_layout t = true -> enums_small t = true -> bulk_safe v t = true ->
  impl_dec md true v t bs = Ok (x, r) -> valid_val t x = true.

Lemma suf_wfb r bs : suf r bs -> wfb bs -> wfb r.
Proof. intros [p ->] H. apply wfb_app in H. tauto. Qed.

Lemma rd_le_bound w bs n r : wfb bs -> rd_le w bs = Ok (n, r) -> n < 256 ^ N.of_nat w.
Proof.
  intros Hw H. unfold rd_le in H.
  destruct (take_exact w bs) as [[a r0]| | |] eqn:E; cbn [bind] in H; try discriminate H.
  inversion H; subst. apply take_exact_ok in E as [-> <-]. apply wfb_app in Hw as [Ha Hr].
  apply unle_bound; exact Ha.
Qed.

Lemma rd_string_valid bs s r : rd_string bs = Ok (s, r) -> utf8_valid s = true.
Proof.
  unfold rd_string. intros H.
  destruct (rd_usize bs) as [[n r0]| | |]; cbn [bind] in H; try discriminate H.
  destruct (STRING_LIMIT <? n); [discriminate H|].
  destruct (take_exact (N.to_nat n) r0) as [[s0 r1]| | |]; cbn [bind] in H; try discriminate H.
  destruct (utf8_valid s0) eqn:E; [|discriminate H]. inversion H; subst. exact E.
Qed.

Ltac vstep H :=
  match type of H with
  | bind (?rd ?bs) _ = Ok _ =>
      let E := fresh "E" in
      destruct (rd bs) as [[? ?]| | |] eqn:E; cbn [bind] in H; try discriminate H
  end.

Lemma read_n_valid (rd : reader val) (V : val -> bool) :
  SUF rd -> (forall bs x r, wfb bs -> rd bs = Ok (x, r) -> V x = true) ->
  forall f n bs xs r, wfb bs -> read_n rd f n bs = Ok (xs, r) ->
  forallb V xs = true /\ N.of_nat (length xs) = n.
Proof.
  intros Hs Hrd. induction f as [|f IH]; intros n bs xs r Hw H.
  - rewrite read_n_O in H. destruct (n =? 0) eqn:En; [|discriminate]. apply N.eqb_eq in En.
    inversion H; subst. split; reflexivity.
  - rewrite read_n_S in H. destruct (n =? 0) eqn:En.
    + apply N.eqb_eq in En. inversion H; subst. split; reflexivity.
    + apply N.eqb_neq in En. vstep H. vstep H. inversion H; subst.
      pose proof (suf_wfb _ _ (Hs _ _ _ E) Hw) as Hw0.
      apply (Hrd _ _ _ Hw) in E. apply (IH _ _ _ _ Hw0) in E0 as [Hv Hl].
      cbn [forallb length]. rewrite E, Hv. split; [reflexivity|lia].
Qed.

Lemma dtup_valid md v ts :
  Forall (VAL md v) ts ->
  forallb wf_layout ts = true -> forallb enums_small ts = true -> forallb (bulk_safe v) ts = true ->
  forall bs ys r, wfb bs -> dtup (impl_dec md true v) ts bs = Ok (ys, r) -> htup valid_val ts ys = true.
Proof.
  induction 1 as [|t ts Ht _ IH]; intros Hl He Hb bs ys r Hw Hd; cbn [dtup] in Hd.
  - inversion Hd; subst. reflexivity.
  - cbn [forallb] in Hl, He, Hb. apply andb_true_iff in Hl as [Hl1 Hl2].
    apply andb_true_iff in He as [He1 He2]. apply andb_true_iff in Hb as [Hb1 Hb2].
    vstep Hd. vstep Hd. inversion Hd; subst.
    pose proof (suf_wfb _ _ (impl_dec_suf _ _ _ _ _ _ _ E) Hw) as Hw0.
    cbn [htup]. rewrite (Ht _ _ _ Hw Hl1 He1 Hb1 E). cbn [andb].
    apply (IH Hl2 He2 Hb2 _ _ _ Hw0 E0).
Qed.

Lemma dfield_valid md v f :
  VAL md v (fd_ty f) ->
  wf_layout (fd_ty f) = true -> enums_small (fd_ty f) = true -> bulk_safe v (fd_ty f) = true ->
  forall bs y r, wfb bs -> dfield v (impl_dec md true v) f bs = Ok (y, r) -> vfield valid_val f y = true.
Proof.
  intros Hf Hl He Hb bs y r Hw H. unfold dfield in H. unfold vfield, is_removed, is_ignored.
  destruct (fd_kind f); destruct (present v f).
  - rewrite (Hf _ _ _ Hw Hl He Hb H). reflexivity.
  - inversion H; subst. rewrite val_eqb_refl. apply orb_true_r.
  - vstep H. inversion H; subst. reflexivity.
  - inversion H; subst. reflexivity.
  - vstep H. inversion H; subst. reflexivity.
  - inversion H; subst. reflexivity.
  - reflexivity.
  - reflexivity.
Qed.

Lemma dflds_valid md v fs :
  Pfs (VAL md v) fs ->
  forallb (fun f : fdef => wf_layout (fd_ty f)) fs = true ->
  forallb (fun f : fdef => enums_small (fd_ty f)) fs = true ->
  forallb (fun f : fdef => bulk_safe v (fd_ty f)) fs = true ->
  forall bs ys r, wfb bs -> dflds v (impl_dec md true v) fs bs = Ok (ys, r) -> vflds valid_val fs ys = true.
Proof.
  induction 1 as [|f fs Hf _ IH]; intros Hl He Hb bs ys r Hw Hd; cbn [dflds] in Hd.
  - inversion Hd; subst. reflexivity.
  - cbn [forallb] in Hl, He, Hb. apply andb_true_iff in Hl as [Hl1 Hl2].
    apply andb_true_iff in He as [He1 He2]. apply andb_true_iff in Hb as [Hb1 Hb2].
    vstep Hd. vstep Hd. inversion Hd; subst.
    pose proof (suf_wfb _ _ (dfield_suf v _ f (impl_dec_suf _ _ _ _) _ _ _ E) Hw) as Hw0.
    cbn [vflds]. rewrite (dfield_valid md v f Hf Hl1 He1 Hb1 _ _ _ Hw E). cbn [andb].
    apply (IH Hl2 He2 Hb2 _ _ _ Hw0 E0).
Qed.

Lemma bulk_niche v t : negb (packed v t && has_niche t) = true -> packed v t = true -> has_niche t = false.
Proof. intros H Hp. rewrite Hp in H. cbn [andb] in H. destruct (has_niche t); [discriminate|reflexivity]. Qed.

Lemma val_all md v t : VAL md v t.
Proof.
  induction t using ty_ind'; intros bs x r Hw Hl He Hb Hd.
  - rewrite idec_TInt, dec_TInt in Hd. vstep Hd. inversion Hd; subst.
    rewrite vv_TInt. apply untwos_range. apply (rd_le_bound _ _ _ _ Hw E).
  - rewrite idec_TBool, dec_TBool in Hd. vstep Hd. inversion Hd; subst.
    rewrite vv_TBool. destruct (n =? 1); reflexivity.
  - rewrite idec_TChar, dec_TChar in Hd. vstep Hd.
    destruct (char_ok (Z.of_N n)) eqn:Ec; [|discriminate Hd]. inversion Hd; subst.
    rewrite vv_TChar. exact Ec.
  - rewrite idec_TF32, dec_TF32 in Hd. vstep Hd. inversion Hd; subst.
    rewrite vv_TF32. apply f32_range. apply (rd_le_bound _ _ _ _ Hw E).
  - rewrite idec_TF64, dec_TF64 in Hd. vstep Hd. inversion Hd; subst.
    rewrite vv_TF64. apply f64_range. apply (rd_le_bound _ _ _ _ Hw E).
  - rewrite idec_TUnit, dec_TUnit in Hd. inversion Hd; subst. reflexivity.
  - rewrite idec_TString, dec_TString in Hd. vstep Hd. inversion Hd; subst.
    rewrite vv_TString. apply (rd_string_valid _ _ _ E).
  - (* TVec *)
    change (wf_layout (TVec t)) with (wf_layout t) in Hl. change (enums_small (TVec t)) with (enums_small t) in He.
    rewrite bs_TVec in Hb. apply andb_true_iff in Hb as [Hb Hbn].
    rewrite idec_TVec in Hd. pose proof (bulk_niche v t Hbn) as Hn. destruct (packed v t) eqn:Hp.
    + specialize (Hn eq_refl).
      apply bulk_vec_ok in Hd as (n & r0 & Hn0 & Hd).
      pose proof (suf_wfb _ _ (rd_le_suf 8 _ _ _ Hn0) Hw) as Hw0.
      destruct Hd as [(_ & Hx & _)|(_ & _ & [(_ & Hx & _)|(_ & _ & raw & Ht & Hx)])]; subst x; rewrite vv_TVec.
      * reflexivity.
      * apply forallb_repeat. apply (unm_all v t); try assumption. constructor.
      * apply take_exact_ok in Ht as [-> _]. apply wfb_app in Hw0 as [Hraw _].
        apply (chunks_of_valid v); assumption.
    + vstep Hd. destruct (SEQ_LIMIT <? n); [discriminate Hd|]. vstep Hd. inversion Hd; subst.
      pose proof (suf_wfb _ _ (rd_le_suf 8 _ _ _ E) Hw) as Hw0.
      rewrite vv_TVec.
      refine (proj1 (read_n_valid _ (valid_val t) (impl_dec_suf _ _ _ _) _ _ _ _ _ _ Hw0 E0)).
      intros bs0 x0 r0 Hw1 H1. apply (IHt _ _ _ Hw1 Hl He Hb H1).
  - (* TSeq *)
    change (wf_layout (TSeq t)) with (wf_layout t) in Hl. change (enums_small (TSeq t)) with (enums_small t) in He.
    change (bulk_safe v (TSeq t)) with (bulk_safe v t) in Hb.
    rewrite idec_TSeq in Hd. vstep Hd. vstep Hd. inversion Hd; subst.
    pose proof (suf_wfb _ _ (rd_le_suf 8 _ _ _ E) Hw) as Hw0.
    rewrite vv_TSeq.
    refine (proj1 (read_n_valid _ (valid_val t) (impl_dec_suf _ _ _ _) _ _ _ _ _ _ Hw0 E0)).
    intros bs0 x0 r0 Hw1 H1. apply (IHt _ _ _ Hw1 Hl He Hb H1).
  - (* TArray *)
    change (wf_layout (TArray t n)) with (wf_layout t) in Hl.
    change (enums_small (TArray t n)) with (enums_small t) in He.
    rewrite bs_TArray in Hb. apply andb_true_iff in Hb as [Hb Hbn].
    rewrite idec_TArray in Hd. destruct (n =? 0) eqn:En.
    + apply N.eqb_eq in En. inversion Hd; subst. reflexivity.
    + pose proof (bulk_niche v t Hbn) as Hn. destruct (packed v t) eqn:Hp.
      * specialize (Hn eq_refl).
        destruct (N.of_nat (length bs) <? size_of t * n); [discriminate Hd|]. vstep Hd. inversion Hd; subst.
        apply take_exact_ok in E as [-> _]. apply wfb_app in Hw as [Hraw _].
        rewrite vv_TArray, chunks_of_length, N2Nat.id, N.eqb_refl. cbn [andb].
        apply (chunks_of_valid v); assumption.
      * vstep Hd. inversion Hd; subst. rewrite vv_TArray.
        assert (G : forallb (valid_val t) l = true /\ N.of_nat (length l) = n).
        { refine (read_n_valid _ (valid_val t) (impl_dec_suf _ _ _ _) _ _ _ _ _ _ Hw E).
          intros bs0 x0 r0 Hw1 H1. apply (IHt _ _ _ Hw1 Hl He Hb H1). }
        destruct G as [G1 G2]. rewrite G1, G2, N.eqb_refl. reflexivity.
  - (* TOption *)
    change (wf_layout (TOption t)) with (wf_layout t) in Hl.
    change (enums_small (TOption t)) with (enums_small t) in He.
    change (bulk_safe v (TOption t)) with (bulk_safe v t) in Hb.
    rewrite idec_TOption in Hd. vstep Hd.
    pose proof (suf_wfb _ _ (rd_bool_suf _ _ _ E) Hw) as Hw0.
    match type of Hd with (if ?c then _ else _) = _ => destruct c end.
    + vstep Hd. inversion Hd; subst. rewrite vv_TOption_some. apply (IHt _ _ _ Hw0 Hl He Hb E0).
    + inversion Hd; subst. reflexivity.
  - (* TResult *)
    rewrite wl_TResult in Hl. rewrite es_TResult in He. rewrite bs_TResult in Hb.
    apply andb_true_iff in Hl as [Hl1 Hl2]. apply andb_true_iff in He as [He1 He2].
    apply andb_true_iff in Hb as [Hb1 Hb2].
    rewrite idec_TResult in Hd. vstep Hd.
    pose proof (suf_wfb _ _ (rd_bool_suf _ _ _ E) Hw) as Hw0.
    match type of Hd with (if ?c then _ else _) = _ => destruct c end.
    + vstep Hd. inversion Hd; subst. rewrite vv_TResult_ok. apply (IHt1 _ _ _ Hw0 Hl1 He1 Hb1 E0).
    + vstep Hd. inversion Hd; subst. rewrite vv_TResult_err. apply (IHt2 _ _ _ Hw0 Hl2 He2 Hb2 E0).
  - (* TBox *)
    rewrite idec_TBox in Hd. rewrite vv_TBox. apply (IHt _ _ _ Hw Hl He Hb Hd).
  - (* TCell *)
    rewrite idec_TCell in Hd. rewrite vv_TCell. apply (IHt _ _ _ Hw Hl He Hb Hd).
  - (* TTuple *)
    rewrite wf_layout_TTuple in Hl. apply andb_true_iff in Hl as [Hl _]. apply andb_true_iff in Hl as [Hl _].
    rewrite es_TTuple in He. rewrite bs_TTuple in Hb.
    rewrite idec_TTuple in Hd. vstep Hd. inversion Hd; subst. rewrite vv_TTuple.
    apply (dtup_valid md v ts H Hl He Hb _ _ _ Hw E).
  - (* TStruct *)
    rewrite wf_layout_TStruct in Hl. apply andb_true_iff in Hl as [Hl _]. apply andb_true_iff in Hl as [Hl _].
    rewrite es_TStruct in He. rewrite bs_TStruct in Hb.
    rewrite idec_TStruct in Hd. vstep Hd. inversion Hd; subst. rewrite vv_TStruct.
    apply (dflds_valid md v fs H Hl He Hb _ _ _ Hw E).
  - (* TEnum *)
    rewrite wf_layout_TEnum in Hl. apply andb_true_iff in Hl as [Hl _]. apply andb_true_iff in Hl as [Hl _].
    rewrite es_TEnum in He. apply andb_true_iff in He as [Hsm He]. apply N.leb_le in Hsm.
    rewrite bs_TEnum in Hb.
    rewrite idec_TEnum in Hd. vstep Hd.
    pose proof (suf_wfb _ _ (rd_le_suf _ _ _ _ E) Hw) as Hw0.
    destruct (N.of_nat (length vs) <=? n) eqn:Ei; [discriminate Hd|]. apply N.leb_gt in Ei.
    rewrite pickg_nth in Hd.
    destruct (nth_error vs (N.to_nat n)) as [vd|] eqn:Hn; [|discriminate Hd].
    pose proof (nth_error_In _ _ Hn) as Hin.
    unfold Pvs in H. rewrite Forall_forall in H. rewrite forallb_forall in Hl, He, Hb.
    vstep Hd. inversion Hd; subst.
    rewrite vv_TEnum. replace (n <? N.of_nat (length vs)) with true by (symmetry; apply N.ltb_lt; exact Ei).
    cbn [andb]. rewrite N.min_l by lia. rewrite pickg_nth, Hn.
    apply (dflds_valid md v (vd_fields vd) (H vd Hin) (Hl vd Hin) (He vd Hin) (Hb vd Hin) _ _ _ Hw0 E0).
Qed.

(* [impl_dec_valid] as first stated (without [enums_small]) is false: an enum with more than 70001 variants *)
Definition big_enum : ty :=
  TEnum None (Lay 1 1 [] false) (repeat [] (N.to_nat 70001) ++ [[0]])
    (repeat (VD 0 None []) (N.to_nat 70001) ++ [VD 0 None [FD (TInt U8) 0 None FNormal VUnit]]).

Lemma impl_dec_valid_counterexample :
  wfb (le 4 70001 ++ [5]) /\ wf_layout big_enum = true /\ bulk_safe 0 big_enum = true /\ wf_ty big_enum = true
  /\ impl_dec Debug true 0 big_enum (le 4 70001 ++ [5]) = Ok (VVar 70001 [VInt 5], [])
  /\ valid_val big_enum (VVar 70001 [VInt 5]) = false
  /\ enums_small big_enum = false.
Proof.
  split; [apply wfbb_wfb; vm_compute; reflexivity|].
  repeat split; vm_compute; reflexivity.
Qed.

Lemma impl_dec_valid_unrestricted_false :
  ~ (forall md v t bs x r, wfb bs -> wf_layout t = true -> bulk_safe v t = true ->
     impl_dec md true v t bs = Ok (x, r) -> valid_val t x = true).
Proof.
  intros H. destruct impl_dec_valid_counterexample as (Hw & Hl & Hb & _ & Hd & Hv & _).
  rewrite (H _ _ _ _ _ _ Hw Hl Hb Hd) in Hv. discriminate.
Qed.

Theorem impl_dec_valid : forall md v t bs x r, wfb bs -> wf_layout t = true -> enums_small t = true ->
  bulk_safe v t = true -> impl_dec md true v t bs = Ok (x, r) -> valid_val t x = true.
Proof. intros md v t bs x r Hw Hl He Hb Hd. exact (val_all md v t bs x r Hw Hl He Hb Hd). Qed.

(* ------------------------------------------------------------------ *)
Print Assumptions impl_dec_bulk_bool_invalid.
Print Assumptions impl_dec_unchecked_mul.
Print Assumptions impl_dec_no_panic.
Print Assumptions impl_dec_valid.
Print Assumptions impl_dec_valid_counterexample.
Print Assumptions impl_dec_valid_unrestricted_false.
Print Assumptions bulk_vec_bounded.
Print Assumptions impl_dec_suffix.
