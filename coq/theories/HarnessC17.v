(* HarnessC17.v — comparison functions for C17: Introspector command sequences and total_index sweeps. *)
From SF Require Import Bytes Introspect.
Open Scope N_scope.

Definition elem_eqb (a b : elem) : bool :=
  (e_depth a =? e_depth b) && bytes_eqb (e_key a) (e_key b) && (e_dis a =? e_dis b)
  && bytes_eqb (e_value a) (e_value b) && Bool.eqb (e_has_children a) (e_has_children b)
  && Bool.eqb (e_selected a) (e_selected b).

Fixpoint list_eqb {A} (f : A -> A -> bool) (a b : list A) : bool :=
  match a, b with
  | [], [] => true
  | x :: a', y :: b' => f x y && list_eqb f a' b'
  | _, _ => false
  end.

Definition optN_eqb (a b : option N) : bool :=
  match a, b with Some x, Some y => x =? y | None, None => true | _, _ => false end.

Definition frame_eqb (a b : frame) : bool :=
  optN_eqb (f_selected a) (f_selected b) && list_eqb elem_eqb (f_keyvals a) (f_keyvals b)
  && Bool.eqb (f_limit a) (f_limit b).

(* one total_index observation *)
Inductive tobs := TSome (e : elem) | TNone | TPanic.
Definition tobs_of (r : ires (option elem)) : tobs :=
  match r with IOk (Some e) => TSome e | IOk None => TNone | IPanic => TPanic end.
Definition tobs_eqb (a b : tobs) : bool :=
  match a, b with
  | TSome x, TSome y => elem_eqb x y
  | TNone, TNone | TPanic, TPanic => true
  | _, _ => false
  end.

Definition ierr_eqb (a b : ierr) : bool :=
  match a, b with
  | BadDepth, BadDepth | UnknownKey, UnknownKey | NoChildren, NoChildren
  | IndexOutOfRange, IndexOutOfRange | AlreadyAtTop, AlreadyAtTop => true
  | _, _ => false
  end.

(* one command's observation: path length afterwards (num_frames), and the result *)
Inductive nobs :=
| XOk (pathlen total : N) (frames : list frame) (ti : list tobs)
| XErr (pathlen : N) (e : ierr)
| XPanic.

Definition EXTRA : list N := [18446744073709551615; 9223372036854775807].

Definition ti_indices (total : N) : list N :=
  map N.of_nat (seq 0 (N.to_nat total + 3)) ++ EXTRA.

(* the model's observations for a command sequence; stops after a panic like the harness *)
Fixpoint nav_obs (st : istate) (o : inode) (cmds : list navcmd) : list nobs :=
  match cmds with
  | [] => []
  | c :: r =>
      let '(res, st') := do_introspect st o c in
      match res with
      | DOk fs => XOk (len (is_path st')) (total_len fs) fs (map (fun i => tobs_of (total_index fs i)) (ti_indices (total_len fs)))
                  :: nav_obs st' o r
      | DErr e => XErr (len (is_path st')) e :: nav_obs st' o r
      | DPanic | DFuel => [XPanic]
      end
  end.

Definition nobs_eqb (a b : nobs) : bool :=
  match a, b with
  | XOk p t fs ti, XOk p' t' fs' ti' => (p =? p') && (t =? t') && list_eqb frame_eqb fs fs' && list_eqb tobs_eqb ti ti'
  | XErr p e, XErr p' e' => (p =? p') && ierr_eqb e e'
  | XPanic, XPanic => true
  | _, _ => false
  end.

Definition check_nav (o : inode) (clc : option N) (cmds : list navcmd) (observed : list nobs) : bool :=
  list_eqb nobs_eqb (nav_obs (IS [] clc) o cmds) observed.

(* the property itself on the observation: no panic; total_index yields an element exactly below total_len *)
Definition ti_ok (total : N) (ti : list tobs) : bool :=
  list_eqb Bool.eqb
    (map (fun t => match t with TSome _ => true | _ => false end) ti)
    (map (fun i => i <? total) (ti_indices total))
  && forallb (fun t => match t with TPanic => false | _ => true end) ti.
