(* Introspect.v — Introspector::dive / do_introspect and IntrospectionResult::total_index
   (savefile/src/lib.rs 8872-8910, 8959-9150) over an abstract introspectable tree.
   Panic models the unwrap()s and the usize underflows of the code. Definitions only. *)
From SF Require Import Bytes.
Open Scope N_scope.

(* an introspectable object: its value string, the length it REPORTS, and the children it actually serves by index *)
Inductive inode := INode (value : bytes) (reported_len : N) (children : list (bytes * inode)).
Definition i_value (o : inode) : bytes := match o with INode v _ _ => v end.
Definition i_len (o : inode) : N := match o with INode _ l _ => l end.
Definition i_children (o : inode) : list (bytes * inode) := match o with INode _ _ c => c end.

Record pathel := PE { pe_key : bytes; pe_dis : N; pe_max : option N }.   (* max_children: None = usize::MAX *)

Inductive navcmd :=
| Expand (depth : N) (key : bytes) (dis : N)
| SelectNth (depth : N) (index : N)
| NavNothing
| NavUp.

Record elem := EL { e_depth : N; e_key : bytes; e_dis : N; e_value : bytes; e_has_children : bool; e_selected : bool }.
Record frame := FR { f_selected : option N; f_keyvals : list elem; f_limit : bool }.

Inductive ierr := BadDepth | UnknownKey | NoChildren | IndexOutOfRange | AlreadyAtTop.
Inductive ires (A : Type) := IOk (a : A) | IPanic.
Arguments IOk {A} a. Arguments IPanic {A}.

Definition len {A} (l : list A) : N := N.of_nat (length l).

(* number of earlier children with the same key *)
Fixpoint count_key (k : bytes) (l : list (bytes * inode)) : N :=
  match l with
  | [] => 0
  | (k', _) :: r => (if bytes_eqb k k' then 1 else 0) + count_key k r
  end.

Definition limit_of (cur : option pathel) (child_load_count : option N) : option N :=
  match cur with Some p => pe_max p | None => child_load_count end.
Definition reached (index : N) (lim : option N) : bool :=
  match lim with Some m => m <=? index | None => false end.

Definition has_children (o : inode) : bool := match i_children o with [] => false | _ => true end.

Inductive dres := DOk (fs : list frame) | DErr (e : ierr) | DPanic | DFuel.

(* the end of dive: after the loop over the children *)
Definition finish (expanded_here : bool) (sel : option N) (index : N) (path : list pathel)
           (selected : option N) (kvs : list elem) (sub : list frame) (limit : bool) : dres * list pathel :=
  match sel with
  | Some _ => (DErr (if index =? 0 then NoChildren else IndexOutOfRange), path)
  | None =>
      if expanded_here && (match selected with None => true | Some _ => false end)
      then match path with
           | [] => (DPanic, path)                                  (* self.path.pop().unwrap() *)
           | _ => (DErr UnknownKey, removelast path)
           end
      else (DOk (FR selected (rev kvs) limit :: sub), path)
  end.

Section Dive.
Variable clc : option N.     (* child_load_count; None = usize::MAX *)

(* State threaded through the loop over the children of one object: the path, the pending SelectNth index,
   the current path element, the selection made so far, the rows pushed (reversed), the sub result, and whether
   the navigation command is still there to be taken. [done]: children already visited (disambiguation). *)
Fixpoint dive (fuel : nat) (path : list pathel) (depth : N) (o : inode) (cmd : navcmd)
  : dres * list pathel :=
  match fuel with
  | O => (DFuel, path)
  | S fuel' =>
    let bad := match cmd with Expand d _ _ => len path <? d | _ => false end in
    if bad then (DErr BadDepth, path) else
    let path1 :=
        match cmd with
        | Expand d k dis => if depth =? d then firstn (N.to_nat depth) path ++ [PE k dis clc] else path
        | _ => path
        end in
    let expanded_here := match cmd with Expand d _ _ => depth =? d | _ => false end in
    let sel0 := match cmd with SelectNth d i => if depth =? d then Some i else None | _ => None end in
    let cur0 := nth_error path1 (N.to_nat depth) in
    (fix loop (todo done : list (bytes * inode)) (index : N) (path : list pathel) (sel : option N)
              (cur : option pathel) (selected : option N) (kvs : list elem) (sub : list frame)
              (cmd_left : bool) {struct todo} : dres * list pathel :=
       match todo with
       | [] => finish expanded_here sel index path selected kvs sub false
       | (key, child) :: rest =>
           let dis := count_key key done in
           let hc := has_children child in
           let hit := match sel with Some s => index =? s | None => false end in
           let path2 := if hit then path ++ [PE key dis clc] else path in
           let sel2 := if hit then None else sel in
           let cur2 := if hit then Some (PE key dis clc) else cur in
           let matches := match cur2, selected with
                          | Some p, None => bytes_eqb (pe_key p) key && (pe_dis p =? dis)
                          | _, _ => false
                          end in
           let kv := EL depth key dis (i_value child) hc matches in
           let step := fun (path3 : list pathel) (selected3 : option N) (sub3 : list frame) (cmd3 : bool) =>
               if reached (index + 1) (limit_of cur2 clc)
               then finish expanded_here sel2 (index + 1) path3 selected3 (kv :: kvs) sub3 true
               else loop rest (done ++ [(key, child)]) (index + 1) path3 sel2 cur2 selected3 (kv :: kvs) sub3 cmd3 in
           if matches then
             if hc then
               if cmd_left then
                 match dive fuel' path2 (depth + 1) child cmd with
                 | (DOk subres, path3) => step path3 (Some index) subres false
                 | other => other
                 end
               else (DPanic, path2)                                (* navigation_command.take().unwrap() *)
             else step path2 (Some index) sub cmd_left
           else step path2 selected sub cmd_left
       end) (i_children o) [] 0 path1 sel0 cur0 None [] [] true
  end.

End Dive.

Record istate := IS { is_path : list pathel; is_clc : option N }.

Fixpoint depth_of (o : inode) : nat :=
  match o with INode _ _ cs => S (fold_right (fun p acc => Nat.max (depth_of (snd p)) acc) O cs) end.

Definition total_len (frames : list frame) : N := fold_right (fun f acc => len (f_keyvals f) + acc) 0 frames.

(* do_introspect: Up pops the path first (AlreadyAtTop when empty). The path keeps whatever mutations were made
   before an error was returned. *)
Definition do_introspect (st : istate) (o : inode) (cmd : navcmd) : dres * istate :=
  let pre := match cmd with
             | NavUp => match is_path st with [] => None | _ => Some (removelast (is_path st)) end
             | _ => Some (is_path st)
             end in
  match pre with
  | None => (DErr AlreadyAtTop, st)
  | Some p => let '(r, p') := dive (is_clc st) (S (depth_of o)) p 0 o cmd in (r, IS p' (is_clc st))
  end.

(* a sequence of commands against one object *)
Fixpoint run_cmds (st : istate) (o : inode) (cmds : list navcmd) : list dres :=
  match cmds with
  | [] => []
  | c :: r => let '(res, st') := do_introspect st o c in res :: run_cmds st' o r
  end.

(* total_index with usize arithmetic: a subtraction below zero is a panic (debug) *)
Definition usub (a b : N) : option N := if b <=? a then Some (a - b) else None.

Fixpoint total_index_impl (frames : list frame) (index : N) (cur : N) : ires (option elem * N) :=
  match frames with
  | [] => IOk (None, cur)
  | fr :: rest =>
      let after := fun (cur : N) (offset : N) =>
          match usub index cur with
          | None => IPanic
          | Some d =>
              if d + offset <? len (f_keyvals fr)
              then IOk (nth_error (f_keyvals fr) (N.to_nat (d + offset)), cur)
              else match usub (len (f_keyvals fr)) offset with
                   | None => IPanic
                   | Some k => IOk (None, cur + k)
                   end
          end in
      match f_selected fr with
      | Some s =>
          if index <=? cur + s then
            match usub index cur with
            | None => IPanic
            | Some d => match nth_error (f_keyvals fr) (N.to_nat d) with
                        | Some e => IOk (Some e, cur)
                        | None => IPanic                      (* index out of bounds *)
                        end
            end
          else
            match total_index_impl rest index (cur + s + 1) with
            | IOk (Some e, c) => IOk (Some e, c)
            | IOk (None, c) => after c (s + 1)
            | other => other
            end
      | None => after cur 0
      end
  end.

Definition total_index (frames : list frame) (index : N) : ires (option elem) :=
  match total_index_impl frames index 0 with
  | IOk (r, _) => IOk r
  | IPanic => IPanic
  end.

(* the flat pre-order listing that total_index is meant to index *)
Fixpoint flatten (frames : list frame) : list elem :=
  match frames with
  | [] => []
  | fr :: rest =>
      match f_selected fr with
      | Some s => firstn (S (N.to_nat s)) (f_keyvals fr) ++ flatten rest ++ skipn (S (N.to_nat s)) (f_keyvals fr)
      | None => f_keyvals fr
      end
  end.

(* well-formed results: a selection is in range, and only the last frame may lack one *)
Fixpoint wf_frames (frames : list frame) : bool :=
  match frames with
  | [] => true
  | fr :: rest =>
      match f_selected fr with
      | Some s => (s <? len (f_keyvals fr))
      | None => match rest with [] => true | _ => false end
      end && wf_frames rest
  end.
