(* SchemaOfProofs.v — proofs about the schema reported for a type ([schema_of]) and the
   schema-driven reader ([sread]) of SchemaOf.v. *)
From SF Require Import Bytes Schema Ty TyProofs SchemaOf.
Open Scope N_scope.

(* ------------------------------------------------------------------ *)
(* Standalone copies of the local fixpoints of SchemaOf.v. *)

Section Mirror2.
Variable v : N.
Variable SO : ty -> schema.
Variable R : schema -> reader tree.
Variable T : ty -> val -> tree.

Fixpoint fields_of (known_offs : bool) (fs : list fdef) (offs : list N) {struct fs} : list field :=
  match fs with
  | [] => []
  | f :: rf =>
      (if negb (is_ignored f) && present v f
       then [Fld [] (SO (fd_ty f))
                 (if known_offs
                  then match fd_to f with
                       | Some _ => None
                       | None => match offs with o :: _ => Some o | [] => None end
                       end
                  else None)]
       else []) ++ fields_of known_offs rf (match offs with _ :: r => r | [] => [] end)
  end.

Fixpoint tupf (ts : list ty) (offs : list N) {struct ts} : list field :=
  match ts with
  | [] => []
  | t' :: rt =>
      Fld [] (SO t') (match offs with o :: _ => Some o | [] => None end)
      :: tupf rt (match offs with _ :: r => r | [] => [] end)
  end.

Section VGo.
Variable known : bool.
Fixpoint vgo (vs0 : list vdef) (vo : list (list N)) (idx : N) {struct vs0} : list variant :=
  match vs0 with
  | [] => []
  | vd :: rv =>
      (if in_range (vd_from vd) (vd_to vd) v
       then [Var (vd_name vd) (idx mod 256)
                 (fields_of known (vd_fields vd) (match vo with o :: _ => o | [] => [] end))]
       else [])
      ++ vgo rv (match vo with _ :: r => r | [] => [] end) (idx + 1)
  end.
End VGo.

(* sread *)
Fixpoint rfields (fs : list field) {struct fs} : reader (list tree) :=
  fun bs =>
  match fs with
  | [] => Ok ([], bs)
  | f :: rf => let* (x, r) := R (f_val f) bs in let* (xs, r') := rfields rf r in Ok (x :: xs, r')
  end.

Section SPick.
Variable d : N.
Variable r : bytes.
Fixpoint spick (vs0 : list variant) {struct vs0} : res (tree * bytes) :=
  match vs0 with
  | [] => Err EGeneral
  | va :: rv => if v_discr va =? d then let* (xs, r') := rfields (v_fields va) r in Ok (TVarT d xs, r')
                else spick rv
  end.
End SPick.

(* tree_of *)
Definition tfield (f : fdef) (y : val) : list tree :=
  match fd_kind f with
  | FIgnored => []
  | FNormal => if present v f then [T (fd_ty f) y] else []
  | FRemoved => []
  | FAbiRemoved => if present v f then [T (fd_ty f) (fd_default f)] else []
  end.

Fixpoint tflds (fs : list fdef) (xs : list val) {struct fs} : list tree :=
  match fs, xs with
  | f :: rf, y :: ry => tfield f y ++ tflds rf ry
  | _, _ => []
  end.

Fixpoint ttup (ts : list ty) (xs : list val) {struct ts} : list tree :=
  match ts, xs with
  | t' :: rt, y :: ry => T t' y :: ttup rt ry
  | _, _ => []
  end.
End Mirror2.

(* ------------------------------------------------------------------ *)
(* Unfolding equations. *)

Definition kn (repr : option N) : bool := match repr with Some _ => true | None => false end.

Lemma schema_of_TInt v k : schema_of v (TInt k) = SPrim (prim_of_ity k).
Proof. reflexivity. Qed.
Lemma schema_of_TVec v t : schema_of v (TVec t) = SVector (schema_of v t) VLUnknown.
Proof. reflexivity. Qed.
Lemma schema_of_TSeq v t : schema_of v (TSeq t) = SVector (schema_of v t) VLUnknown.
Proof. reflexivity. Qed.
Lemma schema_of_TArray v t n : schema_of v (TArray t n) = SArray (schema_of v t) n.
Proof. reflexivity. Qed.
Lemma schema_of_TOption v t : schema_of v (TOption t) = SOption (schema_of v t).
Proof. reflexivity. Qed.
Lemma schema_of_TResult v a b :
  schema_of v (TResult a b) =
  SEnum RESULT_NAME [Var OK_NAME 0 [Fld [] (schema_of v a) None]; Var ERR_NAME 0 [Fld [] (schema_of v b) None]]
        1 false None None.
Proof. reflexivity. Qed.
Lemma schema_of_TBox v t : schema_of v (TBox t) = schema_of v t.
Proof. reflexivity. Qed.
Lemma schema_of_TCell v t : schema_of v (TCell t) = schema_of v t.
Proof. reflexivity. Qed.
Lemma schema_of_TTuple v l ts :
  schema_of v (TTuple l ts) =
  SStruct [] (Some (l_size l)) (Some (l_align l)) (tupf (schema_of v) ts (l_offs l)).
Proof. reflexivity. Qed.
Lemma schema_of_TStruct v l fs :
  schema_of v (TStruct l fs) =
  SStruct [] (Some (l_size l)) (Some (l_align l)) (fields_of v (schema_of v) true fs (l_offs l)).
Proof. reflexivity. Qed.
Lemma schema_of_TEnum v repr l vo vs :
  schema_of v (TEnum repr l vo vs) =
  SEnum [] (vgo v (schema_of v) (kn repr) vs vo 0)
        (N.of_nat (dwidth repr (length vs))) (l_reprc l) (Some (l_size l)) (Some (l_align l)).
Proof. reflexivity. Qed.

Lemma nrm_SStruct n sz al fs :
  no_recursion_marker (SStruct n sz al fs) = forallb (fun f : field => no_recursion_marker (f_val f)) fs.
Proof. reflexivity. Qed.
Lemma nrm_SEnum n vs ds rp sz al :
  no_recursion_marker (SEnum n vs ds rp sz al) =
  forallb (fun va : variant => forallb (fun f : field => no_recursion_marker (f_val f)) (v_fields va)) vs.
Proof. reflexivity. Qed.

Lemma sread_SPrim p :
  sread (SPrim p) =
  match prim_width p with
  | Some w => fun bs => let* (b, r) := take_exact w bs in Ok (TRaw b, r)
  | None => fun bs => let* (b, r) := rd_string bs in Ok (TStrT b, r)
  end.
Proof. reflexivity. Qed.
Lemma sread_SStruct n sz al fs bs :
  sread (SStruct n sz al fs) bs = let* (xs, r) := rfields sread fs bs in Ok (TRecT xs, r).
Proof. reflexivity. Qed.
Lemma sread_SEnum n vs ds rp sz al bs :
  sread (SEnum n vs ds rp sz al) bs =
  let* (d, r) := rd_le (N.to_nat ds) bs in spick sread d r vs.
Proof. reflexivity. Qed.
Lemma sread_SVector s l bs :
  sread (SVector s l) bs =
  let* (n, r) := rd_usize bs in
  let* (xs, r') := read_n (sread s) (seq_fuel n r) n r in Ok (TSeqT xs, r').
Proof. reflexivity. Qed.
Lemma sread_SArray s c bs :
  sread (SArray s c) bs = let* (xs, r') := read_n (sread s) (N.to_nat c) c bs in Ok (TSeqT xs, r').
Proof. reflexivity. Qed.
Lemma sread_SOption s bs :
  sread (SOption s) bs =
  let* (b, r) := rd_bool bs in
  if b then let* (x, r') := sread s r in Ok (TSomeT x, r') else Ok (TNoneT, r).
Proof. reflexivity. Qed.

Lemma tree_of_TVec v t l : tree_of v (TVec t) (VSeq l) = TSeqT (map (tree_of v t) l).
Proof. reflexivity. Qed.
Lemma tree_of_TSeq v t l : tree_of v (TSeq t) (VSeq l) = TSeqT (map (tree_of v t) l).
Proof. reflexivity. Qed.
Lemma tree_of_TArray v t n l : tree_of v (TArray t n) (VSeq l) = TSeqT (map (tree_of v t) l).
Proof. reflexivity. Qed.
Lemma tree_of_TOption_some v t y : tree_of v (TOption t) (VSome y) = TSomeT (tree_of v t y).
Proof. reflexivity. Qed.
Lemma tree_of_TBox v t y : tree_of v (TBox t) y = tree_of v t y.
Proof. reflexivity. Qed.
Lemma tree_of_TCell v t y : tree_of v (TCell t) y = tree_of v t y.
Proof. reflexivity. Qed.
Lemma tree_of_TTuple v l ts xs : tree_of v (TTuple l ts) (VRec xs) = TRecT (ttup (tree_of v) ts xs).
Proof. reflexivity. Qed.
Lemma tree_of_TStruct v l fs xs : tree_of v (TStruct l fs) (VRec xs) = TRecT (tflds v (tree_of v) fs xs).
Proof. reflexivity. Qed.
Lemma tree_of_TEnum v repr l vo vs idx xs :
  tree_of v (TEnum repr l vo vs) (VVar idx xs) =
  TVarT idx (pickg (fun vd => tflds v (tree_of v) (vd_fields vd) xs) [] vs (N.to_nat idx)).
Proof. reflexivity. Qed.

Lemma faithful_TTuple l ts : faithful_class (TTuple l ts) = forallb faithful_class ts.
Proof. reflexivity. Qed.
Lemma faithful_TStruct l fs :
  faithful_class (TStruct l fs) = forallb (fun f : fdef => faithful_class (fd_ty f)) fs.
Proof. reflexivity. Qed.
Lemma faithful_TEnum repr l vo vs :
  faithful_class (TEnum repr l vo vs) =
  (N.of_nat (length vs) <=? 256)
  && forallb (fun vd : vdef => forallb (fun f : fdef => faithful_class (fd_ty f)) (vd_fields vd)) vs.
Proof. reflexivity. Qed.

(* ------------------------------------------------------------------ *)
(* 2. No recursion markers. *)

Definition NR (v : N) (t : ty) : Prop := no_recursion_marker (schema_of v t) = true.

Lemma nr_fields v known fs :
  Pfs (NR v) fs -> forall offs,
  forallb (fun f : field => no_recursion_marker (f_val f)) (fields_of v (schema_of v) known fs offs) = true.
Proof.
  induction 1 as [|f fs Hf _ IH]; intros offs; cbn [fields_of]; [reflexivity|].
  rewrite forallb_app, IH, andb_true_r.
  destruct (negb (is_ignored f) && present v f); [|reflexivity].
  cbn [forallb f_val]. rewrite Hf. reflexivity.
Qed.

Lemma nr_tup v ts :
  Forall (NR v) ts -> forall offs,
  forallb (fun f : field => no_recursion_marker (f_val f)) (tupf (schema_of v) ts offs) = true.
Proof.
  induction 1 as [|t ts Ht _ IH]; intros offs; cbn [tupf]; [reflexivity|].
  cbn [forallb f_val]. rewrite Ht, IH. reflexivity.
Qed.

Lemma nr_variants v known vs :
  Pvs (NR v) vs -> forall vo k,
  forallb (fun va : variant => forallb (fun f : field => no_recursion_marker (f_val f)) (v_fields va))
          (vgo v (schema_of v) known vs vo k) = true.
Proof.
  induction 1 as [|vd vs Hvd _ IH]; intros vo k; cbn [vgo]; [reflexivity|].
  rewrite forallb_app, IH, andb_true_r.
  destruct (in_range (vd_from vd) (vd_to vd) v); [|reflexivity].
  cbn [forallb v_fields]. rewrite nr_fields by exact Hvd. reflexivity.
Qed.

Theorem schema_of_no_recursion : forall v t, no_recursion_marker (schema_of v t) = true.
Proof.
  intros v t. change (NR v t). induction t using ty_ind'; unfold NR in *; try reflexivity.
  - rewrite schema_of_TVec. exact IHt.
  - rewrite schema_of_TSeq. exact IHt.
  - rewrite schema_of_TArray. exact IHt.
  - rewrite schema_of_TOption. exact IHt.
  - rewrite schema_of_TResult, nrm_SEnum. cbn [forallb v_fields f_val]. rewrite IHt1, IHt2. reflexivity.
  - rewrite schema_of_TBox. exact IHt.
  - rewrite schema_of_TCell. exact IHt.
  - rewrite schema_of_TTuple, nrm_SStruct. apply nr_tup. exact H.
  - rewrite schema_of_TStruct, nrm_SStruct. apply nr_fields. exact H.
  - rewrite schema_of_TEnum, nrm_SEnum. apply nr_variants. exact H.
Qed.

(* ------------------------------------------------------------------ *)
(* 1. Faithfulness. *)

Definition FP (v : N) (t : ty) : Prop :=
  faithful_class t = true ->
  forall x b, has_ty t x = true -> enc v t x = Ok b ->
  forall r, sread (schema_of v t) (b ++ r) = Ok (tree_of v t x, r).

Lemma Ok_inj {A} (a b : A) : Ok a = Ok b -> a = b.
Proof. intros H; inversion H; reflexivity. Qed.

Lemma sread_prim_fixed p w a r :
  prim_width p = Some w -> length a = w -> sread (SPrim p) (a ++ r) = Ok (TRaw a, r).
Proof.
  intros Hp Hl. rewrite sread_SPrim, Hp. rewrite take_exact_app by exact Hl. reflexivity.
Qed.

Lemma prim_width_ity k : prim_width (prim_of_ity k) = Some (ity_bytes k).
Proof. destruct k; reflexivity. Qed.

Lemma concat_sread (E : val -> res bytes) (D : reader tree) (g : val -> tree) l :
  (forall x, In x l -> forall b, E x = Ok b -> forall r, D (b ++ r) = Ok (g x, r)) ->
  forall body, concat_res (map E l) = Ok body ->
  forall fuel r, (length l <= fuel)%nat ->
  read_n D fuel (N.of_nat (length l)) (body ++ r) = Ok (map g l, r).
Proof.
  induction l as [|x l IH]; intros HD body Hb fuel r Hf.
  - cbn [map concat_res] in Hb. inversion Hb; subst. apply read_n_0.
  - cbn [map concat_res] in Hb.
    apply bind_ok in Hb as (a & Ha & Hb). apply bind_ok in Hb as (b' & Hb' & Hb).
    inversion Hb; subst body.
    destruct fuel as [|fuel]; [cbn [length] in Hf; lia|].
    rewrite read_n_S.
    replace (N.of_nat (length (x :: l)) =? 0) with false
      by (symmetry; apply N.eqb_neq; cbn [length]; lia).
    rewrite <- app_assoc, (HD x (or_introl eq_refl) a Ha). cbn [bind].
    replace (N.of_nat (length (x :: l)) - 1) with (N.of_nat (length l)) by (cbn [length]; lia).
    rewrite (IH (fun y Hy => HD y (or_intror Hy)) b' Hb') by (cbn [length] in Hf; lia).
    reflexivity.
Qed.

Lemma FP_elems v t l :
  FP v t -> faithful_class t = true -> forallb (has_ty t) l = true ->
  forall x, In x l -> forall b, enc v t x = Ok b ->
  forall r, sread (schema_of v t) (b ++ r) = Ok (tree_of v t x, r).
Proof.
  intros IH Hf Hh x Hx b Hb r. rewrite forallb_forall in Hh. apply IH; auto.
Qed.

Lemma tup_faithful v ts :
  Forall (FP v) ts -> forallb faithful_class ts = true ->
  forall xs offs b, htup has_ty ts xs = true -> etup (enc v) ts xs = Ok b ->
  forall r, rfields sread (tupf (schema_of v) ts offs) (b ++ r) = Ok (ttup (tree_of v) ts xs, r).
Proof.
  induction 1 as [|t ts Ht _ IH]; intros Hf [|y ry] offs b Hh He r;
    cbn [htup etup forallb] in Hh, He, Hf; try discriminate.
  - inversion He; subst. reflexivity.
  - apply andb_true_iff in Hh as [Hh1 Hh2]. apply andb_true_iff in Hf as [Hf1 Hf2].
    apply bind_ok in He as (a & Ha & He). apply bind_ok in He as (b' & Hb' & He).
    inversion He; subst b.
    cbn [tupf rfields ttup f_val]. rewrite <- app_assoc, (Ht Hf1 y a Hh1 Ha). cbn [bind].
    rewrite (IH Hf2 ry _ b' Hh2 Hb'). reflexivity.
Qed.

Lemma fields_faithful v known fs :
  Pfs (FP v) fs -> forallb (fun f : fdef => faithful_class (fd_ty f)) fs = true ->
  forall xs offs b, hflds has_ty fs xs = true -> eflds v (enc v) fs xs = Ok b ->
  forall r, rfields sread (fields_of v (schema_of v) known fs offs) (b ++ r)
            = Ok (tflds v (tree_of v) fs xs, r).
Proof.
  induction 1 as [|f fs Hf0 _ IH]; intros Hf [|y ry] offs b Hh He r;
    cbn [hflds eflds forallb] in Hh, He, Hf; try discriminate.
  - inversion He; subst. reflexivity.
  - apply andb_true_iff in Hh as [Hh1 Hh2]. apply andb_true_iff in Hf as [Hf1 Hf2].
    apply bind_ok in He as (a & Ha & He). apply bind_ok in He as (b' & Hb' & He).
    inversion He; subst b.
    specialize (IH Hf2 ry (match offs with _ :: r => r | [] => [] end) b' Hh2 Hb').
    cbn [fields_of tflds].
    unfold hf, efield, tfield, is_removed, is_ignored in *.
    destruct (fd_kind f); destruct (present v f); cbn [negb andb app] in *; try discriminate;
      try (inversion Ha; subst a; cbn [app]; apply IH);
      apply andb_true_iff in Hh1 as [Hh1 Hh1'];
      cbn [rfields f_val]; rewrite <- app_assoc.
    + rewrite (Hf0 Hf1 y a Hh1 Ha). cbn [bind]. rewrite IH. reflexivity.
    + rewrite (Hf0 Hf1 _ a Hh1' Ha). cbn [bind]. rewrite IH. reflexivity.
Qed.

Lemma spick_vgo v known r : forall vs vo k i vd d,
  nth_error vs i = Some vd -> in_range (vd_from vd) (vd_to vd) v = true ->
  k + N.of_nat (length vs) <= 256 -> d = k + N.of_nat i ->
  exists offs,
    spick sread d r (vgo v (schema_of v) known vs vo k) =
    let* (xs, r') := rfields sread (fields_of v (schema_of v) known (vd_fields vd) offs) r in
    Ok (TVarT d xs, r').
Proof.
  induction vs as [|vd0 rv IH]; intros vo k i vd d Hn Hp Hk Hd.
  - destruct i; discriminate.
  - cbn [vgo]. cbn [length] in Hk. destruct i as [|j]; cbn [nth_error] in Hn.
    + inversion Hn; subst vd0. rewrite Hp. cbn [app spick v_discr v_fields].
      replace (k mod 256 =? d) with true
        by (symmetry; apply N.eqb_eq; rewrite N.mod_small; lia).
      eexists. reflexivity.
    + destruct (in_range (vd_from vd0) (vd_to vd0) v); cbn [app spick v_discr].
      * replace (k mod 256 =? d) with false
          by (symmetry; apply N.eqb_neq; rewrite N.mod_small; lia).
        apply (IH _ (k + 1) j vd d); auto; lia.
      * apply (IH _ (k + 1) j vd d); auto; lia.
Qed.

Lemma faithful_all v t : FP v t.
Proof.
  induction t using ty_ind'; intros Hf x b Hh He r.
  - (* TInt *)
    destruct x; try discriminate. rewrite enc_TInt in He. apply Ok_inj in He; subst b.
    rewrite schema_of_TInt. apply (sread_prim_fixed _ (ity_bytes k)); [apply prim_width_ity|apply le_length].
  - (* TBool *)
    destruct x; try discriminate. rewrite enc_TBool in He. apply Ok_inj in He; subst b. reflexivity.
  - (* TChar *)
    destruct x; try discriminate. rewrite enc_TChar in He. apply Ok_inj in He; subst b.
    apply (sread_prim_fixed Pchar 4%nat); reflexivity.
  - (* TF32 *)
    destruct x; try discriminate. rewrite enc_TF32 in He. apply Ok_inj in He; subst b.
    apply (sread_prim_fixed Pf32 4%nat); reflexivity.
  - (* TF64 *)
    destruct x; try discriminate. rewrite enc_TF64 in He. apply Ok_inj in He; subst b.
    apply (sread_prim_fixed Pf64 8%nat); reflexivity.
  - (* TUnit *)
    destruct x; try discriminate. rewrite enc_TUnit in He. apply Ok_inj in He; subst b. reflexivity.
  - (* TString *)
    destruct x; try discriminate. rewrite has_ty_TString in Hh.
    apply andb_true_iff in Hh as [Hh H3]. apply andb_true_iff in Hh as [H1 H2].
    rewrite enc_TString in He. apply Ok_inj in He; subst b.
    change (schema_of v TString) with (SPrim (Pstring VLUnknown)). rewrite sread_SPrim.
    cbn [prim_width].
    rewrite rd_string_app by (split; [apply N.leb_le; exact H1|exact H2]). reflexivity.
  - (* TVec *)
    destruct x; try discriminate. rewrite has_ty_TVec in Hh.
    apply andb_true_iff in Hh as [H1 H2]. apply N.leb_le in H1.
    rewrite enc_TVec in He. apply bind_ok in He as (body & Hbody & He). apply Ok_inj in He; subst b.
    rewrite schema_of_TVec, sread_SVector, <- app_assoc.
    rewrite rd_usize_app by (unfold SEQ_LIMIT, Bytes.U64 in *; lia). cbn [bind].
    rewrite (concat_sread _ _ _ _ (FP_elems v t l IHt Hf H2) body Hbody)
      by (unfold seq_fuel; rewrite N.min_l by exact H1; lia).
    cbn [bind]. rewrite tree_of_TVec. reflexivity.
  - (* TSeq *)
    destruct x; try discriminate. rewrite has_ty_TSeq in Hh.
    apply andb_true_iff in Hh as [H1 H2]. apply N.leb_le in H1.
    rewrite enc_TSeq in He. apply bind_ok in He as (body & Hbody & He). apply Ok_inj in He; subst b.
    rewrite schema_of_TSeq, sread_SVector, <- app_assoc.
    rewrite rd_usize_app by (unfold SEQ_LIMIT, Bytes.U64 in *; lia). cbn [bind].
    rewrite (concat_sread _ _ _ _ (FP_elems v t l IHt Hf H2) body Hbody)
      by (unfold seq_fuel; rewrite N.min_l by exact H1; lia).
    cbn [bind]. rewrite tree_of_TSeq. reflexivity.
  - (* TArray *)
    destruct x; try discriminate. rewrite has_ty_TArray in Hh.
    apply andb_true_iff in Hh as [H1 H2]. apply N.eqb_eq in H1.
    rewrite enc_TArray in He.
    rewrite schema_of_TArray, sread_SArray. rewrite <- H1.
    rewrite (concat_sread _ _ _ _ (FP_elems v t l IHt Hf H2) b He) by lia.
    cbn [bind]. rewrite tree_of_TArray. reflexivity.
  - (* TOption *)
    rewrite schema_of_TOption, sread_SOption.
    destruct x; try discriminate.
    + rewrite enc_TOption_none in He. apply Ok_inj in He; subst b.
      cbn [app]. rewrite rd_bool_cons by lia. reflexivity.
    + rewrite has_ty_TOption_some in Hh. rewrite enc_TOption_some in He.
      apply bind_ok in He as (b0 & Hb0 & He). apply Ok_inj in He; subst b.
      cbn [app]. rewrite rd_bool_cons by lia. cbn [bind].
      change (1 =? 1) with true. cbv iota.
      rewrite (IHt Hf x b0 Hh Hb0). cbn [bind]. rewrite tree_of_TOption_some. reflexivity.
  - (* TResult *)
    discriminate Hf.
  - (* TBox *)
    rewrite has_ty_TBox in Hh. rewrite enc_TBox in He.
    rewrite schema_of_TBox, tree_of_TBox. apply IHt; assumption.
  - (* TCell *)
    rewrite has_ty_TCell in Hh. rewrite enc_TCell in He.
    rewrite schema_of_TCell, tree_of_TCell. apply IHt; assumption.
  - (* TTuple *)
    destruct x; try discriminate. rewrite has_ty_TTuple in Hh. rewrite enc_TTuple in He.
    rewrite faithful_TTuple in Hf.
    rewrite schema_of_TTuple, sread_SStruct, (tup_faithful v ts H Hf l0 _ b Hh He).
    cbn [bind]. rewrite tree_of_TTuple. reflexivity.
  - (* TStruct *)
    destruct x; try discriminate. rewrite has_ty_TStruct in Hh. rewrite enc_TStruct in He.
    rewrite faithful_TStruct in Hf.
    rewrite schema_of_TStruct, sread_SStruct, (fields_faithful v true fs H Hf l0 _ b Hh He).
    cbn [bind]. rewrite tree_of_TStruct. reflexivity.
  - (* TEnum *)
    destruct x; try discriminate. rewrite has_ty_TEnum in Hh. rewrite enc_TEnum in He.
    rewrite faithful_TEnum in Hf. rewrite tree_of_TEnum. rewrite pickg_nth in *.
    apply andb_true_iff in Hh as [Hidx Hh]. apply N.ltb_lt in Hidx.
    apply andb_true_iff in Hf as [Hlen Hf]. apply N.leb_le in Hlen.
    destruct (nth_error vs (N.to_nat idx)) as [vd|] eqn:Hn; [|discriminate].
    destruct (in_range (vd_from vd) (vd_to vd) v) eqn:Hp; [|discriminate].
    apply bind_ok in He as (bf & Hbf & He). apply Ok_inj in He; subst b.
    pose proof (nth_error_In _ _ Hn) as Hin.
    unfold Pvs in H. rewrite Forall_forall in H. rewrite forallb_forall in Hf.
    rewrite schema_of_TEnum, sread_SEnum, Nat2N.id, <- app_assoc.
    rewrite rd_le_app by exact Hidx. cbn [bind].
    destruct (spick_vgo v (kn repr) (bf ++ r) vs vo 0 (N.to_nat idx) vd idx Hn Hp)
      as (offs & Hs); [lia|lia|].
    rewrite Hs, (fields_faithful v (kn repr) (vd_fields vd) (H vd Hin) (Hf vd Hin) l0 offs bf Hh Hbf).
    reflexivity.
Qed.

Theorem sread_faithful : forall v t x b,
  faithful_class t = true -> has_ty t x = true -> enc v t x = Ok b ->
  forall r, sread (schema_of v t) (b ++ r) = Ok (tree_of v t x, r).
Proof. intros v t x b Hf Hh He r. apply (faithful_all v t Hf x b Hh He r). Qed.

(* ------------------------------------------------------------------ *)
(* 3. The two known classes are real. *)

Theorem sread_refuted_result :
  has_ty (TResult (TInt U8) (TInt U16)) (VOk (VInt 5)) = true
  /\ enc 0 (TResult (TInt U8) (TInt U16)) (VOk (VInt 5)) = Ok [1; 5]
  /\ sread (schema_of 0 (TResult (TInt U8) (TInt U16))) [1; 5] = Err EGeneral.
Proof. split; [|split]; vm_compute; reflexivity. Qed.

Definition wide_enum : ty := TEnum None (Lay 2 2 [] false) (repeat [] 257) (repeat (VD 0 None []) 257).

Theorem sread_refuted_wide_enum :
  has_ty wide_enum (VVar 256 []) = true /\ enc 0 wide_enum (VVar 256 []) = Ok [0; 1]
  /\ sread (schema_of 0 wide_enum) [0; 1] <> Ok (tree_of 0 wide_enum (VVar 256 []), []).
Proof. split; [|split]; vm_compute; [reflexivity|reflexivity|discriminate]. Qed.

Print Assumptions sread_faithful.
Print Assumptions schema_of_no_recursion.
Print Assumptions sread_refuted_result.
Print Assumptions sread_refuted_wide_enum.
