(* AbiLayout.v — the memory type a schema claims (all recorded layout facts, names erased).
   [mty_of s = None] when anything below the root is unknown or of a kind whose memory layout the schema
   does not pin down. Definitions only. *)
From SF Require Import Bytes Schema.
Open Scope N_scope.

Inductive mty :=
| MStruct (size align : N) (fields : list (N * mty))
| MEnum (dsize size align : N) (variants : list (N * list (N * mty)))
| MPrim (tag : N) (layout : N)          (* layout only meaningful for strings *)
| MVector (elem : mty) (layout : N)
| MArray (count : N) (elem : mty)
| MZero
| MBoxed (inner : mty)
| MRef (inner : mty)
| MSlice (inner : mty).

Fixpoint all_some_m {A} (l : list (option A)) : option (list A) :=
  match l with
  | [] => Some []
  | None :: _ => None
  | Some a :: r => match all_some_m r with Some b => Some (a :: b) | None => None end
  end.

Fixpoint mty_of (s : schema) {struct s} : option mty :=
  let mfield := fun f : field =>
      match f_off f, mty_of (f_val f) with
      | Some o, Some m => Some (o, m)
      | _, _ => None
      end in
  match s with
  | SStruct _ (Some sz) (Some al) fs =>
      match all_some_m (map mfield fs) with Some l => Some (MStruct sz al l) | None => None end
  | SEnum _ vs ds true (Some sz) (Some al) =>
      match all_some_m (map (fun va : variant =>
                               match all_some_m (map mfield (v_fields va)) with
                               | Some l => Some (v_discr va, l)
                               | None => None
                               end) vs) with
      | Some l => Some (MEnum ds sz al l)
      | None => None
      end
  | SPrim (Pstring l) => if vlayout_eqb l VLUnknown then None else Some (MPrim 9 (vlayout_tag l))
  | SPrim p => Some (MPrim (prim_tag p) 0)
  | SVector e l =>
      if vlayout_eqb l VLUnknown then None else
      match mty_of e with Some m => Some (MVector m (vlayout_tag l)) | None => None end
  | SArray e c => match mty_of e with Some m => Some (MArray c m) | None => None end
  | SZeroSize => Some MZero
  | SBoxed e => match mty_of e with Some m => Some (MBoxed m) | None => None end
  | SReference e => match mty_of e with Some m => Some (MRef m) | None => None end
  | SSlice e => match mty_of e with Some m => Some (MSlice m) | None => None end
  | _ => None
  end.
