(* IntrospectOf.v — what the library's and the derive's Introspect impls report and serve (C17, first sentence):
   (1) the rule table of the library impls, as classified by the translator from the source of each
       `impl Introspect for X` block (vp/extract.py): how children are served and how the length is reported;
   (2) the shape (reported length, children) of the introspection tree of a value of the modelled type universe.
   Definitions only. *)
From Coq Require Import String.
From SF Require Import Bytes Schema Ty Introspect.
Open Scope N_scope.

Definition MAX_CHILDREN : N := 10000.

(* how introspect_child serves children: n = self.len() of the container, inner = children of the delegate *)
Inductive crule :=
| CIndexed            (* index < self.len() -> the index-th element *)
| CPairs              (* index / 2 -th entry: key at even, value at odd indices *)
| CDelegate           (* forwards to the contained value *)
| CNoChildren
| CFixed (k : N).     (* exactly the indices 0..k-1 *)

Inductive lrule :=
| LLen                (* self.len() *)
| LLen2               (* self.len() * 2 *)
| LArrayN             (* the const generic N of [T; N] (= self.len()) *)
| LDefault            (* trait default: count children, give up at MAX_CHILDREN *)
| LDelegate
| LConst (k : N).

Definition served (c : crule) (n inner : N) : N :=
  match c with CIndexed => n | CPairs => 2 * n | CDelegate => inner | CNoChildren => 0 | CFixed k => k end.

Definition reported (l : lrule) (c : crule) (n inner_reported inner_served : N) : N :=
  match l with
  | LLen | LArrayN => n
  | LLen2 => 2 * n
  | LDefault => N.min (served c n inner_served) MAX_CHILDREN
  | LDelegate => inner_reported
  | LConst k => k
  end.

(* the rule pairs under which the reported length equals the served children for every container size *)
Definition entry_ok (c : crule) (l : lrule) : bool :=
  match c, l with
  | CIndexed, (LLen | LArrayN) => true
  | CPairs, LLen2 => true
  | CDelegate, LDelegate => true
  | CNoChildren, LDefault => true
  | CNoChildren, LConst k => k =? 0
  | CFixed k, LDefault => k <=? MAX_CHILDREN
  | CFixed k, LConst k' => k =? k'
  | _, _ => false
  end.

Definition table_ok (tbl : list (string * crule * lrule)) : bool :=
  forallb (fun e => entry_ok (snd (fst e)) (snd e)) tbl.

(* ------------------------------------------------------------------ *)
(* shape of the introspection tree of a value: reported length and the children actually served *)
Inductive ishape := ISh (rep : N) (children : list ishape).

Fixpoint erase_inode (o : inode) : ishape :=
  match o with INode _ l cs => ISh l (map (fun p => erase_inode (snd p)) cs) end.

Fixpoint consistent (s : ishape) : bool :=
  match s with ISh r cs => (r =? len cs) && forallb consistent cs end.

Definition sh_rep (s : ishape) : N := match s with ISh r _ => r end.
Definition sh_children (s : ishape) : list ishape := match s with ISh _ c => c end.

Fixpoint shape_of (t : ty) (x : val) {struct t} : ishape :=
  let fields := fix fields (fs : list fdef) (xs : list val) {struct fs} : list ishape :=
      match fs, xs with
      | f :: rf, y :: ry =>
          (if is_removed f then ISh 0 [] else shape_of (fd_ty f) y) :: fields rf ry      (* Removed<T>: no children *)
      | _, _ => []
      end in
  match t, x with
  | TVec t', VSeq l | TSeq t', VSeq l => ISh (len l) (map (shape_of t') l)               (* self.len() *)
  | TArray t' n, VSeq l => ISh n (map (shape_of t') l)                                   (* N *)
  | TOption t', VSome y => shape_of t' y                                                 (* delegates *)
  | TResult a _, VOk y => shape_of a y
  | TResult _ b, VErr y => shape_of b y
  | TBox t', y => shape_of t' y
  | TTuple _ ts, VRec xs =>
      ISh (len ts)                                                                       (* default: counts *)
          ((fix go (ts : list ty) (xs : list val) {struct ts} : list ishape :=
              match ts, xs with
              | t' :: rt, y :: ry => shape_of t' y :: go rt ry
              | _, _ => []
              end) ts xs)
  | TStruct _ fs, VRec xs => ISh (len fs) (fields fs xs)                                 (* derive: field_count *)
  | TEnum _ _ _ vs, VVar idx xs =>
      (fix pick (vs0 : list vdef) (i : nat) {struct vs0} : ishape :=
         match vs0, i with
         | vd :: _, O => ISh (len (vd_fields vd)) (fields (vd_fields vd) xs)             (* derive: num_fields *)
         | _ :: rv, S j => pick rv j
         | [], _ => ISh 0 []
         end) vs (N.to_nat idx)
  | _, _ => ISh 0 []                                                                      (* primitives, String, (), None *)
  end.

(* Cell<T> has no Introspect impl *)
Fixpoint introspectable (t : ty) : bool :=
  let okf := fun f : fdef => introspectable (fd_ty f) in
  match t with
  | TCell _ => false
  | TVec t' | TSeq t' | TOption t' | TBox t' | TArray t' _ => introspectable t'
  | TResult a b => introspectable a && introspectable b
  | TTuple _ ts => forallb introspectable ts
  | TStruct _ fs => forallb okf fs
  | TEnum _ _ _ vs => forallb (fun vd : vdef => forallb okf (vd_fields vd)) vs
  | _ => true
  end.

Fixpoint ishape_eqb (a b : ishape) {struct a} : bool :=
  match a, b with
  | ISh r cs, ISh r' cs' =>
      (r =? r') && (fix go (l1 l2 : list ishape) {struct l1} : bool :=
                      match l1, l2 with
                      | [], [] => true
                      | x :: r1, y :: r2 => ishape_eqb x y && go r1 r2
                      | _, _ => false
                      end) cs cs'
  end.

(* correspondence: the dumped tree of the real value against the model's shape *)
Definition agree_shape (t : ty) (x : val) (dump : inode) : bool :=
  ishape_eqb (erase_inode dump) (shape_of t x).
