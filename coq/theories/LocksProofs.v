(* LocksProofs.v — proofs about the lock model of Locks.v: reachability invariant, mutual exclusion,
   deadlock freedom, termination measure, linearizability against the sequential specification,
   schedule independence of results, per-thread results, lock-order analysis, non-vacuity examples. *)
From Coq Require Import Lia ZArith List Bool.
From SF Require Import Bytes Locks.
Import ListNotations.
Open Scope N_scope.

Local Arguments lookup_t : simpl never.
Local Arguments lookup_e : simpl never.
Local Arguments owner_of : simpl never.
Local Arguments poisoned : simpl never.
Local Arguments release_all : simpl never.

(* ------------------------------------------------------------------ *)
(* list helpers                                                        *)
(* ------------------------------------------------------------------ *)

Lemma nth_error_set_nth_eq {A} (l : list A) n x y :
  nth_error l n = Some y -> nth_error (set_nth n x l) n = Some x.
Proof.
  revert n; induction l as [|a l IH]; intros [|n] H; cbn in *; try discriminate; auto.
Qed.

Lemma nth_error_set_nth_same {A} (l : list A) n x y :
  nth_error (set_nth n x l) n = Some y -> y = x.
Proof.
  revert n; induction l as [|a l IH]; intros [|n] H; cbn in *; try discriminate; eauto.
  congruence.
Qed.

Lemma nth_error_set_nth_neq {A} (l : list A) n m x :
  n <> m -> nth_error (set_nth n x l) m = nth_error l m.
Proof.
  revert n m; induction l as [|a l IH]; intros [|n] [|m] H; cbn; auto; try congruence.
Qed.

Lemma length_set_nth {A} (l : list A) n x : length (set_nth n x l) = length l.
Proof. revert n; induction l as [|a l IH]; intros [|n]; cbn; auto. Qed.

Lemma nth_set_cases (ths : list thread) i j th th' :
  nth_error ths (N.to_nat i) = Some th ->
  nth_error (set_nth (N.to_nat i) th' ths) (N.to_nat j)
  = if i =? j then Some th' else nth_error ths (N.to_nat j).
Proof.
  intros H. destruct (N.eqb_spec i j) as [->|Hne].
  - eapply nth_error_set_nth_eq; eauto.
  - apply nth_error_set_nth_neq. intros E; apply Hne, N2Nat.inj, E.
Qed.

Lemma filter_all_false {A} (f : A -> bool) l : (forall x, In x l -> f x = false) -> filter f l = [].
Proof.
  induction l as [|a l IH]; intros H; cbn; auto.
  rewrite (H a (or_introl eq_refl)). apply IH. intros x Hx; apply H; right; exact Hx.
Qed.

Lemma NoDup_map_filter {A B} (f : A -> B) (p : A -> bool) l :
  NoDup (map f l) -> NoDup (map f (filter p l)).
Proof.
  induction l as [|a l IH]; cbn; intros H; auto.
  inversion H as [|x xs Hnin Hnd]; subst.
  destruct (p a); cbn; auto. constructor; auto.
  intros Hin. apply Hnin. apply in_map_iff in Hin. destruct Hin as [y [E Hy]].
  apply filter_In in Hy. apply in_map_iff. exists y; tauto.
Qed.

Lemma NoDup_fst_inj {A B} (l : list (A * B)) a x y :
  NoDup (map fst l) -> In (a, x) l -> In (a, y) l -> x = y.
Proof.
  induction l as [|[a' b'] l IH]; cbn; intros Hnd H1 H2; [contradiction|].
  inversion Hnd as [|? ? Hnin Hnd']; subst.
  destruct H1 as [H1|H1], H2 as [H2|H2].
  - congruence.
  - inversion H1; subst. exfalso; apply Hnin. apply in_map_iff. exists (a, y); auto.
  - inversion H2; subst. exfalso; apply Hnin. apply in_map_iff. exists (a, x); auto.
  - eauto.
Qed.

Lemma filter_rev' {A} (f : A -> bool) l : filter f (rev l) = rev (filter f l).
Proof.
  induction l as [|a l IH]; cbn; auto.
  rewrite filter_app, IH. cbn. destruct (f a); cbn; auto. rewrite app_nil_r; auto.
Qed.

Lemma forallb_false_ex {A} (f : A -> bool) l :
  forallb f l = false -> exists n x, nth_error l n = Some x /\ f x = false.
Proof.
  induction l as [|a l IH]; cbn; [discriminate|].
  destruct (f a) eqn:E; cbn.
  - intros H. destruct (IH H) as [n [x [H1 H2]]]. exists (S n), x; auto.
  - intros _. exists O, a; auto.
Qed.

(* ------------------------------------------------------------------ *)
(* locks                                                               *)
(* ------------------------------------------------------------------ *)

Lemma lk_eqb_spec a b : reflect (a = b) (lk_eqb a b).
Proof. destruct a, b; cbn; constructor; congruence. Qed.

Lemma existsb_lk_In a l : existsb (lk_eqb a) l = true <-> In a l.
Proof.
  rewrite existsb_exists. split.
  - intros [x [Hx E]]. destruct (lk_eqb_spec a x); [subst; auto|discriminate].
  - intros H; exists a; split; auto. destruct (lk_eqb_spec a a); congruence.
Qed.

Lemma existsb_lk_notIn a l : existsb (lk_eqb a) l = false <-> ~ In a l.
Proof.
  rewrite <- existsb_lk_In. destruct (existsb (lk_eqb a) l); split; congruence.
Qed.

Lemma In_release_all X ow l (j : N) : In (l, j) (release_all X ow) <-> In (l, j) ow /\ ~ In l X.
Proof.
  unfold release_all. rewrite filter_In. cbn [fst]. rewrite negb_true_iff, existsb_lk_notIn. tauto.
Qed.

Lemma poisoned_In g l : poisoned g l = true <-> In l (g_poison g).
Proof. unfold poisoned. apply existsb_lk_In. Qed.

Lemma owner_of_None_notin g l : owner_of g l = None -> forall j, ~ In (l, j) (g_owner g).
Proof.
  unfold owner_of. destruct (find _ _) eqn:E; [discriminate|]. intros _ j Hin.
  pose proof (find_none _ _ E _ Hin) as H. cbn in H.
  destruct (lk_eqb_spec l l); congruence.
Qed.

Lemma owner_of_Some_In g l j : owner_of g l = Some j -> In (l, j) (g_owner g).
Proof.
  unfold owner_of. destruct (find _ _) as [[l' j']|] eqn:E; [|discriminate]. intros H; inversion H; subst.
  apply find_some in E. destruct E as [Hin E]. cbn in E.
  destruct (lk_eqb_spec l' l); [subst; auto|discriminate].
Qed.

Lemma notin_owner_of_None g l : (forall j, ~ In (l, j) (g_owner g)) -> owner_of g l = None.
Proof.
  intros H. destruct (owner_of g l) eqn:E; auto. apply owner_of_Some_In in E. exfalso; eapply H; eauto.
Qed.

(* ------------------------------------------------------------------ *)
(* ownership bookkeeping under thread updates                          *)
(* ------------------------------------------------------------------ *)

Definition own_ok (ow : list (lk * N)) (ths : list thread) : Prop :=
  forall l j, In (l, j) ow <-> exists th, nth_error ths (N.to_nat j) = Some th /\ In l (t_held th).

Lemma own_ok_same ow ths i th th' :
  own_ok ow ths -> nth_error ths (N.to_nat i) = Some th -> t_held th' = t_held th ->
  own_ok ow (set_nth (N.to_nat i) th' ths).
Proof.
  intros H Hn Hh l j. rewrite (H l j), (nth_set_cases _ _ j _ th' Hn).
  destruct (N.eqb_spec i j) as [->|Hne]; [|tauto].
  split; intros [x [E Hin]].
  - exists th'. split; auto. rewrite Hh. congruence.
  - exists th. split; auto. inversion E; subst. rewrite <- Hh; auto.
Qed.

Lemma own_ok_acq ow ths i th th' l0 :
  own_ok ow ths -> nth_error ths (N.to_nat i) = Some th -> t_held th' = l0 :: t_held th ->
  own_ok ((l0, i) :: ow) (set_nth (N.to_nat i) th' ths).
Proof.
  intros H Hn Hh l j. cbn [In]. rewrite (H l j), (nth_set_cases _ _ j _ th' Hn).
  destruct (N.eqb_spec i j) as [->|Hne].
  - split.
    + intros [E|[x [E Hin]]]; exists th'; split; auto; rewrite Hh.
      * inversion E; left; auto.
      * right. congruence.
    + intros [x [E Hin]]. inversion E; subst x. rewrite Hh in Hin. destruct Hin as [->|Hin]; auto.
      right. exists th; auto.
  - split; [intros [E|HH]; auto; inversion E; congruence | auto].
Qed.

Lemma own_ok_release ow ths i th th' X :
  own_ok ow ths -> NoDup (map fst ow) -> nth_error ths (N.to_nat i) = Some th ->
  incl X (t_held th) ->
  t_held th' = filter (fun x => negb (existsb (lk_eqb x) X)) (t_held th) ->
  own_ok (release_all X ow) (set_nth (N.to_nat i) th' ths).
Proof.
  intros H Hnd Hn Hinc Hh l j. rewrite In_release_all, (nth_set_cases _ _ j _ th' Hn).
  destruct (N.eqb_spec i j) as [->|Hne].
  - split.
    + intros [Hin HX]. apply H in Hin. destruct Hin as [x [E Hin]].
      exists th'. split; auto. rewrite Hh. apply filter_In. split; [congruence|].
      apply negb_true_iff, existsb_lk_notIn; auto.
    + intros [x [E Hin]]. inversion E; subst x. rewrite Hh in Hin. apply filter_In in Hin.
      destruct Hin as [Hin HX]. apply negb_true_iff, existsb_lk_notIn in HX. split; auto.
      apply H. exists th; auto.
  - rewrite (H l j). split; [tauto|]. intros [x [E Hin]]. split; [eauto|].
    intros HX. apply Hne. eapply NoDup_fst_inj; eauto.
    + apply H. exists th; split; eauto.
    + apply H. exists x; eauto.
Qed.

Lemma filter_notin_self (X : list lk) : filter (fun x => negb (existsb (lk_eqb x) X)) X = [].
Proof.
  apply filter_all_false. intros x Hx. apply negb_false_iff, existsb_lk_In, Hx.
Qed.

(* ------------------------------------------------------------------ *)
(* the work measure                                                    *)
(* ------------------------------------------------------------------ *)

Definition ops_work (ops : list op) : nat := fold_right (fun o n => (1 + length (prog_of o) + n)%nat) O ops.
Definition tw (th : thread) : nat := (length (t_cur th) + ops_work (t_ops th))%nat.
Definition work (g : gstate) : nat := fold_right (fun th n => (tw th + n)%nat) O (g_threads g).

Lemma sum_set_nth_lt ths n th th' :
  nth_error ths n = Some th -> (tw th' < tw th)%nat ->
  (fold_right (fun th n => (tw th + n)%nat) O (set_nth n th' ths)
   < fold_right (fun th n => (tw th + n)%nat) O ths)%nat.
Proof.
  revert n; induction ths as [|a l IH]; intros [|n] H Hlt; cbn in *; try discriminate.
  - inversion H; subst. lia.
  - specialize (IH _ H Hlt). lia.
Qed.

Ltac destruct_inner_match :=
  match goal with
  | |- context [match ?x with _ => _ end] =>
      lazymatch x with
      | context [match _ with _ => _ end] => fail
      | _ => destruct x
      end
  end.

Section Proofs.
Variable negotiate : N -> nres.
Variable resolve : N -> N -> option N.

Local Notation stepNR := (step negotiate resolve).
Local Notation runNR := (run negotiate resolve).

(* ------------------------------------------------------------------ *)
(* program positions                                                   *)
(* ------------------------------------------------------------------ *)

Inductive pos : thread -> Prop :=
| P_idle o ops e rs : pos (TH [] o ops [] e rs)
| P_C0 k ops e rs :
    pos (TH [AAcq LTemplates; ACritCreate (Some k); ARel LTemplates] (Some (OCreate k)) ops [] e rs)
| P_C1 k ops e rs :
    pos (TH [ACritCreate (Some k); ARel LTemplates] (Some (OCreate k)) ops [LTemplates] e rs)
| P_C2 o ops e rs :
    pos (TH [ARel LTemplates] (Some o) ops [LTemplates] e rs)
| P_L0 f t ops e rs :
    pos (TH [AAcq LEntry; AAcq LLibrary; ACritEntry f t; ARel LLibrary; ARel LEntry;
             AAcq LTemplates; ACritCreate None; ARel LTemplates] (Some (OLoad f t)) ops [] e rs)
| P_L1 f t ops e rs :
    pos (TH [AAcq LLibrary; ACritEntry f t; ARel LLibrary; ARel LEntry;
             AAcq LTemplates; ACritCreate None; ARel LTemplates] (Some (OLoad f t)) ops [LEntry] e rs)
| P_L2 f t ops e rs :
    pos (TH [ACritEntry f t; ARel LLibrary; ARel LEntry;
             AAcq LTemplates; ACritCreate None; ARel LTemplates] (Some (OLoad f t)) ops [LLibrary; LEntry] e rs)
| P_L3 f t k ops rs : resolve f t = Some k ->
    pos (TH [ARel LLibrary; ARel LEntry; AAcq LTemplates; ACritCreate None; ARel LTemplates]
            (Some (OLoad f t)) ops [LLibrary; LEntry] (Some k) rs)
| P_L4 f t k ops rs : resolve f t = Some k ->
    pos (TH [ARel LEntry; AAcq LTemplates; ACritCreate None; ARel LTemplates]
            (Some (OLoad f t)) ops [LEntry] (Some k) rs)
| P_L5 f t k ops rs : resolve f t = Some k ->
    pos (TH [AAcq LTemplates; ACritCreate None; ARel LTemplates]
            (Some (OLoad f t)) ops [] (Some k) rs)
| P_L6 f t k ops rs : resolve f t = Some k ->
    pos (TH [ACritCreate None; ARel LTemplates]
            (Some (OLoad f t)) ops [LTemplates] (Some k) rs).

Record Inv (g : gstate) : Prop := {
  inv_pos : forall n th, nth_error (g_threads g) n = Some th -> pos th;
  inv_own : own_ok (g_owner g) (g_threads g);
  inv_nodup : NoDup (map fst (g_owner g));
  inv_poison : forall l, In l (g_poison g) -> l = LTemplates /\ forall j, ~ In (l, j) (g_owner g);
  inv_tmpl : forall k t, In (k, t) (g_templates g) -> negotiate k = NOk t;
  inv_ent : forall f t k, In (f, t, k) (g_entries g) -> resolve f t = Some k
}.

Lemma pos_set ths n th' :
  (forall j th, nth_error ths j = Some th -> pos th) -> pos th' ->
  forall j th, nth_error (set_nth n th' ths) j = Some th -> pos th.
Proof.
  intros H Hp j th Hj. destruct (Nat.eq_dec n j) as [->|Hne].
  - apply nth_error_set_nth_same in Hj. subst; auto.
  - rewrite nth_error_set_nth_neq in Hj by auto. eauto.
Qed.

Lemma inv_upd_same g i th th' em :
  Inv g -> nth_error (g_threads g) (N.to_nat i) = Some th -> pos th' -> t_held th' = t_held th ->
  (forall f t k, In (f, t, k) em -> resolve f t = Some k) ->
  Inv (upd g i th' (g_owner g) em).
Proof.
  intros HI Hn Hp Hh Hem. destruct HI. unfold upd. constructor; cbn; auto.
  - apply pos_set; auto.
  - eapply own_ok_same; eauto.
Qed.

Lemma inv_upd_acq g i th th' l0 :
  Inv g -> nth_error (g_threads g) (N.to_nat i) = Some th -> pos th' ->
  owner_of g l0 = None -> poisoned g l0 = false -> t_held th' = l0 :: t_held th ->
  Inv (upd g i th' ((l0, i) :: g_owner g) (g_entries g)).
Proof.
  intros HI Hn Hp Ho Hpo Hh. destruct HI. unfold upd. constructor; cbn [g_threads g_owner g_poison g_templates g_entries]; auto.
  - apply pos_set; auto.
  - eapply own_ok_acq; eauto.
  - cbn. constructor; auto. intros Hin. apply in_map_iff in Hin. destruct Hin as [[l j] [E Hin]]. cbn in E; subst.
    eapply owner_of_None_notin; eauto.
  - intros l Hl. destruct (inv_poison0 l Hl) as [E Hno]. split; auto. intros j [Hj|Hj]; [|eapply Hno; eauto].
    inversion Hj; subst. apply poisoned_In in Hl. congruence.
Qed.

Lemma inv_upd_rel g i th th' X :
  Inv g -> nth_error (g_threads g) (N.to_nat i) = Some th -> pos th' ->
  incl X (t_held th) ->
  t_held th' = filter (fun x => negb (existsb (lk_eqb x) X)) (t_held th) ->
  Inv (upd g i th' (release_all X (g_owner g)) (g_entries g)).
Proof.
  intros HI Hn Hp Hinc Hh. destruct HI. unfold upd. constructor; cbn [g_threads g_owner g_poison g_templates g_entries]; auto.
  - apply pos_set; auto.
  - eapply own_ok_release; eauto.
  - apply NoDup_map_filter; auto.
  - intros l Hl. destruct (inv_poison0 l Hl) as [E Hno]. split; auto. intros j Hj.
    apply In_release_all in Hj. eapply Hno; apply Hj.
Qed.

Lemma inv_abort g i th o r p :
  Inv g -> nth_error (g_threads g) (N.to_nat i) = Some th ->
  (p = true -> forall l, In l (t_held th) -> l = LTemplates) ->
  Inv (abort_op g i th o r p).
Proof.
  intros HI Hn Hp. destruct HI. unfold abort_op. constructor; cbn [g_threads g_owner g_poison g_templates g_entries]; auto.
  - apply pos_set; auto. constructor.
  - eapply own_ok_release; eauto.
    + apply incl_refl.
    + cbn. symmetry. apply filter_notin_self.
  - apply NoDup_map_filter; auto.
  - intros l Hl.
    assert (Hcase : In l (t_held th) /\ p = true \/ In l (g_poison g)).
    { destruct p; auto. apply in_app_or in Hl. tauto. }
    destruct Hcase as [[Hin Ep]|Hin].
    + split; auto. intros j Hj. apply In_release_all in Hj. tauto.
    + destruct (inv_poison0 l Hin) as [E Hno]. split; auto. intros j Hj.
      apply In_release_all in Hj. eapply Hno; apply Hj.
Qed.

Lemma inv_end g i th o r rest tm :
  Inv g -> nth_error (g_threads g) (N.to_nat i) = Some th ->
  pos (TH rest (t_op th) (t_ops th) (t_held th) (t_entry th) (r :: t_results th)) ->
  (forall k t, In (k, t) tm -> negotiate k = NOk t) ->
  Inv (end_op g i th o r rest tm).
Proof.
  intros HI Hn Hp Htm. destruct HI. unfold end_op. constructor; cbn [g_threads g_owner g_poison g_templates g_entries]; auto.
  - apply pos_set; auto.
  - eapply own_ok_same; eauto.
Qed.

Lemma lookup_t_In k m t : lookup_t k m = Some t -> In (k, t) m.
Proof.
  unfold lookup_t. destruct (find _ _) as [[k' t']|] eqn:E; [|discriminate]. intros H; inversion H; subst.
  apply find_some in E. destruct E as [Hin E]. cbn in E. apply N.eqb_eq in E. subst; auto.
Qed.

Lemma lookup_e_In f t m k : lookup_e f t m = Some k -> In (f, t, k) m.
Proof.
  unfold lookup_e. destruct (find _ _) as [[[f' t'] k']|] eqn:E; [|discriminate]. intros H; inversion H; subst.
  apply find_some in E. destruct E as [Hin E]. cbn in E. apply andb_true_iff in E. destruct E as [E1 E2].
  apply N.eqb_eq in E1, E2. subst; auto.
Qed.

Lemma init_Inv progs : Inv (init progs).
Proof.
  constructor; cbn; try contradiction; try constructor.
  - intros n th H. apply nth_error_In in H. apply in_map_iff in H. destruct H as [ops [<- _]]. constructor.
  - contradiction.
  - intros [th [H Hin]]. apply nth_error_In in H. apply in_map_iff in H. destruct H as [ops [<- _]]. cbn in Hin. contradiction.
Qed.

Ltac inv_side HI :=
  cbn; try reflexivity; try (constructor; eassumption); try apply incl_refl;
  try (apply (inv_ent _ HI)); try (apply (inv_tmpl _ HI)).

Lemma step_Inv g i g' : Inv g -> stepNR g i = Some g' -> Inv g'.
Proof.
  intros HI. unfold step.
  destruct (nth_error (g_threads g) (N.to_nat i)) as [th|] eqn:Hn; [|discriminate].
  pose proof (inv_pos _ HI _ _ Hn) as Hp.
  inversion Hp; subst th; cbn [t_cur t_op t_ops t_held t_entry t_results].
  - (* idle *)
    destruct ops as [|o' r]; [discriminate|]. intros E; injection E as <-.
    eapply (inv_upd_same g i _ _ _ HI Hn); inv_side HI. destruct o'; constructor.
  - (* C0 *)
    destruct (owner_of g LTemplates) eqn:Ho; [discriminate|].
    destruct (poisoned g LTemplates) eqn:Hpo; intros E; injection E as <-.
    + eapply (inv_abort g i _ _ _ _ HI Hn). cbn. contradiction.
    + eapply (inv_upd_acq g i _ _ _ HI Hn); inv_side HI; auto.
  - (* C1 *)
    destruct (lookup_t k (g_templates g)) eqn:Hl; [|destruct (negotiate k) eqn:Hk]; intros E; injection E as <-.
    + eapply (inv_end g i _ _ _ _ _ HI Hn); inv_side HI.
    + eapply (inv_end g i _ _ _ _ _ HI Hn); inv_side HI.
      intros kk tt [E|Hin]; [inversion E; subst; auto|apply (inv_tmpl _ HI); auto].
    + eapply (inv_end g i _ _ _ _ _ HI Hn); inv_side HI.
    + eapply (inv_abort g i _ _ _ _ HI Hn). cbn. intros _ l [<-|[]]; auto.
  - (* C2 / L7 *)
    intros E; injection E as <-.
    eapply (inv_upd_rel g i _ _ [LTemplates] HI Hn); inv_side HI.
  - (* L0 *)
    destruct (owner_of g LEntry) eqn:Ho; [discriminate|].
    destruct (poisoned g LEntry) eqn:Hpo; intros E; injection E as <-.
    + eapply (inv_abort g i _ _ _ _ HI Hn). cbn. contradiction.
    + eapply (inv_upd_acq g i _ _ _ HI Hn); inv_side HI; auto.
  - (* L1 *)
    destruct (owner_of g LLibrary) eqn:Ho; [discriminate|].
    destruct (poisoned g LLibrary) eqn:Hpo; intros E; injection E as <-.
    + apply poisoned_In in Hpo. apply (inv_poison _ HI) in Hpo. destruct Hpo; discriminate.
    + eapply (inv_upd_acq g i _ _ _ HI Hn); inv_side HI; auto.
  - (* L2 *)
    destruct (lookup_e f t (g_entries g)) eqn:Hl; [|destruct (resolve f t) eqn:Hr]; intros E; injection E as <-.
    + eapply (inv_upd_same g i _ _ _ HI Hn); inv_side HI.
      constructor. apply (inv_ent _ HI). apply lookup_e_In; auto.
    + eapply (inv_upd_same g i _ _ _ HI Hn); inv_side HI.
      intros ff tt kk [E|Hin]; [inversion E; subst; auto|apply (inv_ent _ HI); auto].
    + eapply (inv_abort g i _ _ _ _ HI Hn). discriminate.
  - (* L3 *)
    intros E; injection E as <-.
    eapply (inv_upd_rel g i _ _ [LLibrary] HI Hn); inv_side HI.
    intros x [<-|[]]; cbn; auto.
  - (* L4 *)
    intros E; injection E as <-.
    eapply (inv_upd_rel g i _ _ [LEntry] HI Hn); inv_side HI.
  - (* L5 *)
    destruct (owner_of g LTemplates) eqn:Ho; [discriminate|].
    destruct (poisoned g LTemplates) eqn:Hpo; intros E; injection E as <-.
    + eapply (inv_abort g i _ _ _ _ HI Hn). cbn. contradiction.
    + eapply (inv_upd_acq g i _ _ _ HI Hn); inv_side HI; auto.
  - (* L6 *)
    destruct (lookup_t k (g_templates g)) eqn:Hl; [|destruct (negotiate k) eqn:Hk]; intros E; injection E as <-.
    + eapply (inv_end g i _ _ _ _ _ HI Hn); inv_side HI.
    + eapply (inv_end g i _ _ _ _ _ HI Hn); inv_side HI.
      intros kk tt [E|Hin]; [inversion E; subst; auto|apply (inv_tmpl _ HI); auto].
    + eapply (inv_end g i _ _ _ _ _ HI Hn); inv_side HI.
    + eapply (inv_abort g i _ _ _ _ HI Hn). cbn. intros _ l [<-|[]]; auto.
Qed.

Lemma run_Inv sched g : Inv g -> Inv (runNR sched g).
Proof.
  revert g; induction sched as [|i r IH]; intros g HI; cbn; auto.
  destruct (stepNR g i) eqn:E; auto. apply IH. eapply step_Inv; eauto.
Qed.

(* a generic principle for further invariants over reachable states *)
Lemma run_invariant (P : gstate -> Prop) :
  (forall g i g', Inv g -> P g -> stepNR g i = Some g' -> P g') ->
  forall sched g, Inv g -> P g -> P (runNR sched g).
Proof.
  intros Hstep. induction sched as [|i r IH]; intros g HI HP; cbn; auto.
  destruct (stepNR g i) eqn:E; auto. apply IH; [eapply step_Inv; eauto|eapply Hstep; eauto].
Qed.

(* ------------------------------------------------------------------ *)
(* 1. the invariant holds in every reachable state                     *)
(* ------------------------------------------------------------------ *)

Definition reachable (progs : list (list op)) (g : gstate) : Prop :=
  exists sched, g = runNR sched (init progs).

Theorem inv_reachable_s progs sched : Inv (runNR sched (init progs)).
Proof. apply run_Inv, init_Inv. Qed.

Lemma reachable_Inv progs g : reachable progs g -> Inv g.
Proof. intros [sched ->]. apply inv_reachable_s. Qed.

(* ------------------------------------------------------------------ *)
(* 3. mutual exclusion; entry locks never poisoned                     *)
(* ------------------------------------------------------------------ *)

Lemma mutual_exclusion_inv g l i j :
  Inv g ->
  (exists thi, nth_error (g_threads g) (N.to_nat i) = Some thi /\ In l (t_held thi)) ->
  (exists thj, nth_error (g_threads g) (N.to_nat j) = Some thj /\ In l (t_held thj)) -> i = j.
Proof.
  intros HI Hi Hj.
  pose proof (proj2 (inv_own _ HI l i) Hi) as H1.
  pose proof (proj2 (inv_own _ HI l j) Hj) as H2.
  eapply NoDup_fst_inj; eauto using inv_nodup.
Qed.

Lemma entry_locks_never_poisoned_inv g :
  Inv g -> poisoned g LEntry = false /\ poisoned g LLibrary = false.
Proof.
  intros HI. split.
  - destruct (poisoned g LEntry) eqn:E; auto. apply poisoned_In, (inv_poison _ HI) in E. destruct E; discriminate.
  - destruct (poisoned g LLibrary) eqn:E; auto. apply poisoned_In, (inv_poison _ HI) in E. destruct E; discriminate.
Qed.

(* a held lock is not poisoned *)
Lemma held_not_poisoned g i th l :
  Inv g -> nth_error (g_threads g) (N.to_nat i) = Some th -> In l (t_held th) -> poisoned g l = false.
Proof.
  intros HI Hn Hin. destruct (poisoned g l) eqn:E; auto.
  apply poisoned_In, (inv_poison _ HI) in E. destruct E as [_ Hno].
  exfalso. apply (Hno i). apply (inv_own _ HI). eauto.
Qed.

(* ------------------------------------------------------------------ *)
(* 4. termination measure                                              *)
(* ------------------------------------------------------------------ *)

Lemma step_decreases g i g' : stepNR g i = Some g' -> (work g' < work g)%nat.
Proof.
  unfold step. destruct (nth_error (g_threads g) (N.to_nat i)) as [th|] eqn:Hn; [|discriminate].
  destruct (t_cur th) as [|a rest] eqn:Hc.
  - destruct (t_ops th) as [|o r] eqn:Hops; [discriminate|]. intros E; injection E as <-.
    unfold work, upd; cbn [g_threads]. eapply sum_set_nth_lt; eauto.
    unfold tw; cbn [t_cur t_ops]. rewrite Hc, Hops. unfold ops_work; cbn [fold_right length]. lia.
  - destruct (t_op th) as [o|]; [|discriminate].
    assert (Hgen : forall th', t_ops th' = t_ops th -> (length (t_cur th') <= length rest)%nat ->
              (fold_right (fun th n => (tw th + n)%nat) O (set_nth (N.to_nat i) th' (g_threads g)) < work g)%nat).
    { intros th' H1 H2. eapply sum_set_nth_lt; eauto. unfold tw. rewrite H1, Hc. cbn [length]. lia. }
    destruct a;
      repeat (destruct_inner_match; cbv beta iota);
      intros E; try discriminate; injection E as <-;
      unfold work at 1, upd, abort_op, end_op; cbn [g_threads]; apply Hgen; cbn; auto; lia.
Qed.

Fixpoint steps_taken (sched : list N) (g : gstate) : nat :=
  match sched with
  | [] => O
  | i :: r => match stepNR g i with Some g' => S (steps_taken r g') | None => steps_taken r g end
  end.

Lemma steps_bounded sched g : (steps_taken sched g + work (runNR sched g) <= work g)%nat.
Proof.
  revert g; induction sched as [|i r IH]; intros g; cbn; [lia|].
  destruct (stepNR g i) as [g'|] eqn:E; [|apply IH].
  pose proof (step_decreases _ _ _ E). specialize (IH g'). lia.
Qed.

(* whatever the schedule, the number of effective steps is bounded by the initial work *)
Theorem termination_s progs sched : (steps_taken sched (init progs) <= work (init progs))%nat.
Proof. pose proof (steps_bounded sched (init progs)). lia. Qed.

(* ------------------------------------------------------------------ *)
(* 2. deadlock freedom                                                 *)
(* ------------------------------------------------------------------ *)

Lemma pos_holder th l :
  pos th -> In l (t_held th) ->
  exists a rest o, t_cur th = a :: rest /\ t_op th = Some o /\
                   forall l', a = AAcq l' -> l = LEntry /\ l' = LLibrary.
Proof.
  intros Hp; inversion Hp; subst; cbn; intros Hin; try contradiction;
    do 3 eexists; (split; [reflexivity|split; [reflexivity|]]); intros l' E; try discriminate.
  inversion E; subst. destruct Hin as [<-|[]]. auto.
Qed.

Lemma pos_next th a rest : pos th -> t_cur th = a :: rest -> exists o, t_op th = Some o.
Proof. intros Hp; inversion Hp; subst; cbn; intros E; try discriminate; eauto. Qed.

Lemma enabled_if g i th a rest o :
  nth_error (g_threads g) (N.to_nat i) = Some th -> t_cur th = a :: rest -> t_op th = Some o ->
  (forall l, a = AAcq l -> owner_of g l = None) -> enabled negotiate resolve g i = true.
Proof.
  intros Hn Hc Ho Ha. unfold enabled, step. rewrite Hn, Hc, Ho.
  destruct a.
  - rewrite (Ha l eq_refl). destruct (poisoned g l); reflexivity.
  - reflexivity.
  - repeat (destruct_inner_match; cbv beta iota); reflexivity.
  - repeat (destruct_inner_match; cbv beta iota); reflexivity.
Qed.

Lemma in_indices g i th : nth_error (g_threads g) (N.to_nat i) = Some th -> In i (indices g).
Proof.
  intros H. unfold indices. apply in_map_iff. exists (N.to_nat i). split; [apply N2Nat.id|].
  apply in_seq. split; [lia|]. cbn. apply nth_error_Some. congruence.
Qed.

Lemma no_deadlock_inv g : Inv g -> deadlocked negotiate resolve g = false.
Proof.
  intros HI. unfold deadlocked. destruct (all_finished g) eqn:Haf; cbn [negb andb]; auto.
  apply negb_false_iff, existsb_exists.
  unfold all_finished in Haf. apply forallb_false_ex in Haf. destruct Haf as [n [th [Hn Hf]]].
  assert (key : forall j thj l, nth_error (g_threads g) (N.to_nat j) = Some thj -> In l (t_held thj) ->
                 (l = LEntry -> owner_of g LLibrary = None) ->
                 exists x, In x (indices g) /\ enabled negotiate resolve g x = true).
  { intros j thj l Hj Hin Hl.
    destruct (pos_holder thj l (inv_pos _ HI _ _ Hj) Hin) as [a [rest [o [Hc [Ho Ha]]]]].
    exists j. split; [eapply in_indices; eauto|]. eapply enabled_if; eauto.
    intros l' E. destruct (Ha l' E) as [-> ->]. auto. }
  destruct (owner_of g LLibrary) as [j|] eqn:HoL.
  { apply owner_of_Some_In in HoL. apply (inv_own _ HI) in HoL. destruct HoL as [thj [Hj Hin]].
    eapply key; eauto. discriminate. }
  destruct (owner_of g LTemplates) as [j|] eqn:HoT.
  { apply owner_of_Some_In in HoT. apply (inv_own _ HI) in HoT. destruct HoT as [thj [Hj Hin]].
    eapply key; eauto. }
  destruct (owner_of g LEntry) as [j|] eqn:HoE.
  { apply owner_of_Some_In in HoE. apply (inv_own _ HI) in HoE. destruct HoE as [thj [Hj Hin]].
    eapply key; eauto. }
  exists (N.of_nat n). rewrite <- (Nat2N.id n) in Hn. split; [eapply in_indices; eauto|].
  destruct (t_cur th) as [|a rest] eqn:Hc.
  - unfold finished in Hf. rewrite Hc in Hf. destruct (t_ops th) eqn:Hops; [discriminate|].
    unfold enabled, step. rewrite Hn, Hc, Hops. reflexivity.
  - destruct (pos_next th a rest (inv_pos _ HI _ _ Hn) Hc) as [o Ho].
    eapply enabled_if; eauto. intros l _. destruct l; auto.
Qed.

(* ------------------------------------------------------------------ *)
(* the observable effect of one step                                   *)
(* ------------------------------------------------------------------ *)

(* what the critical section of new_internal does to (templates-lock poisoned?, templates) for key k *)
Definition create_sem (pT : bool) (tm : list (N * N)) (k : N) : bool * list (N * N) * ores :=
  if pT then (true, tm, RPanic) else
  match lookup_t k tm with
  | Some t => (false, tm, ROk t)
  | None =>
      match negotiate k with
      | NOk t => (false, (k, t) :: tm, ROk t)
      | NErr e => (false, tm, RErr e)
      | NPanic => (true, tm, RPanic)
      end
  end.

Definition key_of (o : op) (k : N) : Prop :=
  o = OCreate k \/ exists f t, o = OLoad f t /\ resolve f t = Some k.

Definition silent_step (g g' : gstate) (th th' : thread) : Prop :=
  g_log g' = g_log g /\ g_templates g' = g_templates g /\ g_poison g' = g_poison g /\
  t_results th' = t_results th.

Definition logging_step (g g' : gstate) (i : N) (th th' : thread) (o : op) (r : ores) : Prop :=
  g_log g' = (i, o, r) :: g_log g /\ t_results th' = r :: t_results th /\
  ((exists f t, o = OLoad f t /\ resolve f t = None /\ r = RErr 0 /\
                g_templates g' = g_templates g /\ g_poison g' = g_poison g)
   \/ (exists k, key_of o k /\
                 (poisoned g' LTemplates, g_templates g', r)
                 = create_sem (poisoned g LTemplates) (g_templates g) k)).

Ltac pois := unfold poisoned, abort_op, end_op; cbn [g_poison g_templates t_held app existsb lk_eqb orb].

Lemma step_effect g i g' :
  Inv g -> stepNR g i = Some g' ->
  exists th th', nth_error (g_threads g) (N.to_nat i) = Some th /\
                 g_threads g' = set_nth (N.to_nat i) th' (g_threads g) /\
                 (silent_step g g' th th' \/ exists o r, logging_step g g' i th th' o r).
Proof.
  intros HI. unfold step.
  destruct (nth_error (g_threads g) (N.to_nat i)) as [th|] eqn:Hn; [|discriminate].
  pose proof (inv_pos _ HI _ _ Hn) as Hp.
  assert (HnoT : In LTemplates (t_held th) -> poisoned g LTemplates = false).
  { intros Hin. eapply held_not_poisoned; eauto. }
  inversion Hp; subst th; cbn [t_cur t_op t_ops t_held t_entry t_results] in *.
  - destruct ops as [|o' r]; [discriminate|]. intros E; injection E as <-.
    do 2 eexists; split; [reflexivity|split; [reflexivity|]]. left; repeat split; reflexivity.
  - (* C0 *)
    destruct (owner_of g LTemplates) eqn:Ho; [discriminate|].
    destruct (poisoned g LTemplates) eqn:Hpo; intros E; injection E as <-;
      (do 2 eexists; split; [reflexivity|split; [reflexivity|]]).
    + right. do 2 eexists. split; [reflexivity|split; [reflexivity|]]. right. exists k. split; [left; reflexivity|].
      unfold create_sem. pois. fold (poisoned g LTemplates). rewrite Hpo. reflexivity.
    + left; repeat split; reflexivity.
  - (* C1 *)
    specialize (HnoT (or_introl eq_refl)).
    destruct (lookup_t k (g_templates g)) eqn:Hl; [|destruct (negotiate k) eqn:Hk]; intros E; injection E as <-;
      (do 2 eexists; split; [reflexivity|split; [reflexivity|]]); right;
      (do 2 eexists; split; [reflexivity|split; [reflexivity|]]); right; exists k; (split; [left; reflexivity|]);
      unfold create_sem; rewrite HnoT, Hl, ?Hk; pois; try (fold (poisoned g LTemplates); rewrite HnoT); reflexivity.
  - (* C2 *)
    intros E; injection E as <-.
    do 2 eexists; split; [reflexivity|split; [reflexivity|]]. left; repeat split; reflexivity.
  - (* L0 *)
    destruct (owner_of g LEntry) eqn:Ho; [discriminate|].
    destruct (poisoned g LEntry) eqn:Hpo.
    { apply poisoned_In, (inv_poison _ HI) in Hpo. destruct Hpo; discriminate. }
    intros E; injection E as <-.
    do 2 eexists; split; [reflexivity|split; [reflexivity|]]. left; repeat split; reflexivity.
  - (* L1 *)
    destruct (owner_of g LLibrary) eqn:Ho; [discriminate|].
    destruct (poisoned g LLibrary) eqn:Hpo.
    { apply poisoned_In, (inv_poison _ HI) in Hpo. destruct Hpo; discriminate. }
    intros E; injection E as <-.
    do 2 eexists; split; [reflexivity|split; [reflexivity|]]. left; repeat split; reflexivity.
  - (* L2 *)
    destruct (lookup_e f t (g_entries g)) eqn:Hl; [|destruct (resolve f t) eqn:Hr]; intros E; injection E as <-;
      (do 2 eexists; split; [reflexivity|split; [reflexivity|]]).
    + left; repeat split; reflexivity.
    + left; repeat split; reflexivity.
    + right. do 2 eexists. split; [reflexivity|split; [reflexivity|]]. left.
      exists f, t. repeat split; auto.
  - intros E; injection E as <-.
    do 2 eexists; split; [reflexivity|split; [reflexivity|]]. left; repeat split; reflexivity.
  - intros E; injection E as <-.
    do 2 eexists; split; [reflexivity|split; [reflexivity|]]. left; repeat split; reflexivity.
  - (* L5 *)
    destruct (owner_of g LTemplates) eqn:Ho; [discriminate|].
    destruct (poisoned g LTemplates) eqn:Hpo; intros E; injection E as <-;
      (do 2 eexists; split; [reflexivity|split; [reflexivity|]]).
    + right. do 2 eexists. split; [reflexivity|split; [reflexivity|]]. right. exists k.
      split; [right; exists f, t; auto|].
      unfold create_sem. pois. fold (poisoned g LTemplates). rewrite Hpo. reflexivity.
    + left; repeat split; reflexivity.
  - (* L6 *)
    specialize (HnoT (or_introl eq_refl)).
    destruct (lookup_t k (g_templates g)) eqn:Hl; [|destruct (negotiate k) eqn:Hk]; intros E; injection E as <-;
      (do 2 eexists; split; [reflexivity|split; [reflexivity|]]); right;
      (do 2 eexists; split; [reflexivity|split; [reflexivity|]]); right; exists k;
      (split; [right; exists f, t; auto|]);
      unfold create_sem; rewrite HnoT, Hl, ?Hk; pois; try (fold (poisoned g LTemplates); rewrite HnoT); reflexivity.
Qed.

(* ------------------------------------------------------------------ *)
(* 5. linearizability                                                  *)
(* ------------------------------------------------------------------ *)

Local Notation seq_opNR := (seq_op negotiate resolve).
Local Notation seq_runNR := (seq_run negotiate resolve).

Definition seq_state (s : sstate) (ops : list op) : sstate :=
  fold_left (fun s o => fst (seq_opNR s o)) ops s.

Lemma seq_state_app s ops o : seq_state s (ops ++ [o]) = fst (seq_opNR (seq_state s ops) o).
Proof. unfold seq_state. rewrite fold_left_app. reflexivity. Qed.

Lemma seq_run_app s ops o :
  seq_runNR s (ops ++ [o]) = seq_runNR s ops ++ [snd (seq_opNR (seq_state s ops) o)].
Proof.
  revert s; induction ops as [|a l IH]; intros s.
  - cbn [app seq_run seq_state fold_left]. destruct (seq_opNR s o); reflexivity.
  - cbn [app seq_run]. unfold seq_state; cbn [fold_left]. fold (seq_state (fst (seq_opNR s a)) l).
    destruct (seq_opNR s a) as [s' res] eqn:E. cbn [fst]. rewrite IH. reflexivity.
Qed.

Definition ent_ok (em : list (N * N * N)) : Prop := forall f t k, In (f, t, k) em -> resolve f t = Some k.

(* the simulation relation: the sequential state agrees with the caches on what results depend on *)
Definition sim (g : gstate) (s : sstate) : Prop :=
  s_templates s = g_templates g /\ s_poisonT s = poisoned g LTemplates /\ s_poisonE s = false /\
  ent_ok (s_entries s).

Lemma seq_create_sem s k pT' tm' r :
  create_sem (s_poisonT s) (s_templates s) k = (pT', tm', r) ->
  seq_create negotiate s k = (SS pT' (s_poisonE s) tm' (s_entries s), r).
Proof.
  destruct s as [pT pE tm em]. unfold create_sem, seq_create. cbn [s_poisonT s_poisonE s_templates s_entries].
  destruct pT; [intros E; inversion E; reflexivity|].
  destruct (lookup_t k tm); [intros E; inversion E; reflexivity|].
  destruct (negotiate k); intros E; inversion E; reflexivity.
Qed.

Lemma seq_op_key s o k pT' tm' r :
  s_poisonE s = false -> ent_ok (s_entries s) -> key_of o k ->
  create_sem (s_poisonT s) (s_templates s) k = (pT', tm', r) ->
  exists s', seq_opNR s o = (s', r) /\ s_poisonT s' = pT' /\ s_templates s' = tm' /\
             s_poisonE s' = false /\ ent_ok (s_entries s').
Proof.
  intros HpE Hent [->|[f [t [-> Hr]]]] Hc.
  - eexists. split; [cbn [seq_op]; apply seq_create_sem; eauto|]. cbn. rewrite HpE. auto.
  - unfold seq_op. rewrite HpE.
    destruct (lookup_e f t (s_entries s)) as [k'|] eqn:Hl.
    + apply lookup_e_In, Hent in Hl. assert (k' = k) by congruence. subst k'.
      eexists. split; [apply seq_create_sem; eauto|]. cbn. rewrite HpE. auto.
    + rewrite Hr. eexists. split; [apply seq_create_sem; cbn; eauto|]. cbn. repeat split; auto.
      intros ff tt kk [E|Hin]; [inversion E; subst; auto|auto].
Qed.

Lemma seq_op_loadfail s f t :
  s_poisonE s = false -> ent_ok (s_entries s) -> resolve f t = None ->
  seq_opNR s (OLoad f t) = (s, RErr 0).
Proof.
  intros HpE Hent Hr. unfold seq_op. rewrite HpE.
  destruct (lookup_e f t (s_entries s)) as [k'|] eqn:Hl.
  - apply lookup_e_In, Hent in Hl. congruence.
  - rewrite Hr. reflexivity.
Qed.

Definition s0 : sstate := SS false false [] [].

Definition lin (g : gstate) : Prop :=
  sim g (seq_state s0 (log_ops g)) /\ log_results g = seq_runNR s0 (log_ops g).

Lemma lin_step g i g' : Inv g -> lin g -> stepNR g i = Some g' -> lin g'.
Proof.
  intros HI [Hsim Hres] Hs.
  destruct (step_effect g i g' HI Hs) as [th [th' [Hn [Hths [Hsil|[o [r Hlog]]]]]]].
  - destruct Hsil as [Hl [Ht [Hp _]]]. unfold lin, log_ops, log_results, sim, poisoned in *.
    rewrite Hl, Ht, Hp. auto.
  - destruct Hlog as [Hl [_ Hsem]].
    assert (Hops : log_ops g' = log_ops g ++ [o]).
    { unfold log_ops. rewrite Hl. cbn [rev]. rewrite map_app. reflexivity. }
    assert (Hrs : log_results g' = log_results g ++ [r]).
    { unfold log_results. rewrite Hl. cbn [rev]. rewrite map_app. reflexivity. }
    unfold lin. rewrite Hops, Hrs, seq_state_app, seq_run_app, Hres.
    set (s := seq_state s0 (log_ops g)) in *.
    destruct Hsim as [Stm [SpT [SpE Sent]]].
    destruct Hsem as [[f [t [-> [Hr [-> [Htm Hpo]]]]]]|[k [Hk Hc]]].
    + rewrite (seq_op_loadfail s f t SpE Sent Hr). cbn [fst snd]. split; auto.
      unfold sim, poisoned. rewrite Htm, Hpo. repeat split; auto.
    + rewrite <- Stm, <- SpT in Hc. symmetry in Hc.
      destruct (seq_op_key s o k _ _ _ SpE Sent Hk Hc) as [s' [E [H1 [H2 [H3 H4]]]]].
      rewrite E. cbn [fst snd]. split; auto. repeat split; auto.
Qed.

Lemma lin_init progs : lin (init progs).
Proof. unfold lin, sim. cbn. repeat split; auto. intros f t k []. Qed.

Theorem linearizable_s progs sched :
  let g := runNR sched (init progs) in
  log_results g = seq_runNR s0 (log_ops g).
Proof.
  cbv zeta. apply (run_invariant lin lin_step sched (init progs) (init_Inv progs) (lin_init progs)).
Qed.

(* ------------------------------------------------------------------ *)
(* 6. results do not depend on the schedule                            *)
(* ------------------------------------------------------------------ *)

Definition of_key (k : N) : ores :=
  match negotiate k with NOk t => ROk t | NErr e => RErr e | NPanic => RPanic end.

Lemma create_sem_spec tm k pT' tm' r :
  (forall k t, In (k, t) tm -> negotiate k = NOk t) -> negotiate k <> NPanic ->
  (pT', tm', r) = create_sem false tm k -> pT' = false /\ r = of_key k.
Proof.
  intros Htm Hnp. unfold create_sem, of_key.
  destruct (lookup_t k tm) eqn:Hl.
  - apply lookup_t_In, Htm in Hl. rewrite Hl. intros E; inversion E; auto.
  - destruct (negotiate k); intros E; inversion E; auto. congruence.
Qed.

Lemma spec_result_key o k : key_of o k -> spec_result negotiate resolve o = of_key k.
Proof. intros [->|[f [t [-> Hr]]]]; unfold spec_result, of_key; [|rewrite Hr]; reflexivity. Qed.

Definition indep (g : gstate) : Prop :=
  poisoned g LTemplates = false /\
  forall i o r, In (i, o, r) (g_log g) -> r = spec_result negotiate resolve o.

Lemma indep_step : (forall k, negotiate k <> NPanic) ->
  forall g i g', Inv g -> indep g -> stepNR g i = Some g' -> indep g'.
Proof.
  intros Hnp g i g' HI [HpT Hlg] Hs.
  destruct (step_effect g i g' HI Hs) as [th [th' [Hn [Hths [Hsil|[o [r Hlog]]]]]]].
  - destruct Hsil as [Hl [Ht [Hp _]]]. unfold indep, poisoned in *. rewrite Hl, Hp. auto.
  - destruct Hlog as [Hl [_ Hsem]]. unfold indep. rewrite Hl.
    destruct Hsem as [[f [t [-> [Hr [-> [Htm Hpo]]]]]]|[k [Hk Hc]]].
    + split; [unfold poisoned in *; rewrite Hpo; auto|].
      intros j o r [E|Hin]; [inversion E; subst|eauto].
      unfold spec_result. rewrite Hr. reflexivity.
    + rewrite HpT in Hc. apply create_sem_spec in Hc; auto; [|apply (inv_tmpl _ HI)].
      destruct Hc as [-> ->]. split; auto.
      intros j o' r' [E|Hin]; [inversion E; subst|eauto].
      symmetry. apply spec_result_key; auto.
Qed.

Theorem results_schedule_independent_s progs sched :
  (forall k, negotiate k <> NPanic) ->
  let g := runNR sched (init progs) in
  forall i o r, In (i, o, r) (g_log g) -> r = spec_result negotiate resolve o.
Proof.
  intros Hnp. cbv zeta.
  apply (run_invariant indep (indep_step Hnp) sched (init progs) (init_Inv progs)).
  split; [reflexivity|]. cbn. contradiction.
Qed.

(* ------------------------------------------------------------------ *)
(* 7. a thread's results are its log entries, in order                 *)
(* ------------------------------------------------------------------ *)

Definition own_log (g : gstate) : Prop :=
  forall j th, nth_error (g_threads g) (N.to_nat j) = Some th ->
               t_results th = map snd (filter (fun e => fst (fst e) =? j) (g_log g)).

Lemma own_log_step g i g' : Inv g -> own_log g -> stepNR g i = Some g' -> own_log g'.
Proof.
  intros HI HQ Hs.
  destruct (step_effect g i g' HI Hs) as [th [th' [Hn [Hths [Hsil|[o [r Hlog]]]]]]].
  - destruct Hsil as [Hl [_ [_ Hr]]]. intros j thj. rewrite Hths, Hl, (nth_set_cases _ _ j _ th' Hn).
    destruct (N.eqb_spec i j) as [->|Hne]; [|apply HQ].
    intros E; inversion E; subst thj. rewrite Hr. apply HQ; auto.
  - destruct Hlog as [Hl [Hr _]]. intros j thj. rewrite Hths, Hl, (nth_set_cases _ _ j _ th' Hn).
    cbn [filter fst]. destruct (N.eqb_spec i j) as [->|Hne]; [|apply HQ].
    intros E; inversion E; subst thj. rewrite Hr. cbn [map snd]. f_equal. apply HQ; auto.
Qed.

Theorem per_thread_results_s progs sched i th :
  let g := runNR sched (init progs) in
  nth_error (g_threads g) (N.to_nat i) = Some th ->
  rev (t_results th) = map snd (filter (fun e => fst (fst e) =? i) (rev (g_log g))).
Proof.
  cbv zeta. intros Hn. rewrite filter_rev', map_rev. f_equal. revert i th Hn.
  apply (run_invariant own_log own_log_step sched (init progs) (init_Inv progs)).
  intros j th H. cbn in H. apply nth_error_In, in_map_iff in H. destruct H as [ops [<- _]]. reflexivity.
Qed.

End Proofs.

(* ================================================================== *)
(* the theorems, with negotiate / resolve quantified explicitly        *)
(* ================================================================== *)

(* 1 *)
Theorem inv_reachable : forall negotiate resolve progs sched,
  Inv negotiate resolve (run negotiate resolve sched (init progs)).
Proof. exact inv_reachable_s. Qed.

(* 2 *)
Theorem no_deadlock : forall negotiate resolve progs sched,
  deadlocked negotiate resolve (run negotiate resolve sched (init progs)) = false.
Proof. intros. apply no_deadlock_inv, inv_reachable. Qed.

(* 3 *)
Theorem mutual_exclusion : forall negotiate resolve progs sched l i j,
  let g := run negotiate resolve sched (init progs) in
  (exists thi, nth_error (g_threads g) (N.to_nat i) = Some thi /\ In l (t_held thi)) ->
  (exists thj, nth_error (g_threads g) (N.to_nat j) = Some thj /\ In l (t_held thj)) -> i = j.
Proof. intros n r progs sched l i j g. apply (mutual_exclusion_inv n r), inv_reachable. Qed.

Theorem entry_locks_never_poisoned : forall negotiate resolve progs sched,
  let g := run negotiate resolve sched (init progs) in
  poisoned g LEntry = false /\ poisoned g LLibrary = false.
Proof. intros n r progs sched g. apply (entry_locks_never_poisoned_inv n r), inv_reachable. Qed.

(* 4: step_decreases (above) : forall negotiate resolve g i g',
        step negotiate resolve g i = Some g' -> (work g' < work g)%nat *)
Theorem termination : forall negotiate resolve progs sched,
  (steps_taken negotiate resolve sched (init progs) <= work (init progs))%nat.
Proof. exact termination_s. Qed.

(* 5 *)
Theorem linearizable : forall negotiate resolve progs sched,
  let g := run negotiate resolve sched (init progs) in
  log_results g = seq_run negotiate resolve (SS false false [] []) (log_ops g).
Proof. exact linearizable_s. Qed.

(* 6 *)
Theorem results_schedule_independent : forall negotiate resolve progs sched,
  (forall k, negotiate k <> NPanic) ->
  let g := run negotiate resolve sched (init progs) in
  forall i o r, In (i, o, r) (g_log g) -> r = spec_result negotiate resolve o.
Proof. exact results_schedule_independent_s. Qed.

(* 7 *)
Theorem per_thread_results : forall negotiate resolve progs sched i th,
  let g := run negotiate resolve sched (init progs) in
  nth_error (g_threads g) (N.to_nat i) = Some th ->
  rev (t_results th) = map snd (filter (fun e => fst (fst e) =? i) (rev (g_log g))).
Proof. exact per_thread_results_s. Qed.

(* ------------------------------------------------------------------ *)
(* 8. lock order                                                       *)
(* ------------------------------------------------------------------ *)

Lemma lock_order_acyclic :
  acyclic [SEQ_GET_SYMBOL; SEQ_NEW_INTERNAL] = true /\ no_reacquire [SEQ_GET_SYMBOL; SEQ_NEW_INTERNAL] = true.
Proof. vm_compute. split; reflexivity. Qed.

(* if one function took [LLibrary; LEntry] while another takes [LEntry; LLibrary] the order graph has a cycle *)
Definition SEQ_SWAPPED : list (list lk) := [[LEntry; LLibrary]; [LLibrary; LEntry]].
Example swapped_order_deadlocks : acyclic SEQ_SWAPPED = false.
Proof. vm_compute. reflexivity. Qed.
Example swapped_order_deadlocks' : acyclic [[LEntry; LLibrary]; [LLibrary; LEntry]] = false.
Proof. vm_compute. reflexivity. Qed.
Example reacquire_detected : no_reacquire [[LTemplates; LTemplates]] = false.
Proof. vm_compute. reflexivity. Qed.

(* ------------------------------------------------------------------ *)
(* 9. non-vacuity                                                      *)
(* ------------------------------------------------------------------ *)

Definition ex_neg (k : N) : nres := if k =? 7 then NPanic else if k =? 5 then NErr 1 else NOk (k * 10).
Definition ex_res (f t : N) : option N := if f =? 9 then None else Some (f + t).
Definition ex_progs : list (list op) :=
  [[OCreate 1; OLoad 2 3]; [OCreate 1; OCreate 5]; [OLoad 2 3; OLoad 9 1]].
Definition ex_rr : list N := flat_map (fun _ => [0; 1; 2]) (seq 0 40).
Definition ex_skew : list N := repeat 2 7 ++ repeat 1 3 ++ repeat 0 30 ++ repeat 2 30 ++ repeat 1 30 ++ repeat 0 30.
Definition ex_run := run ex_neg ex_res.

Example ex_rr_finished : all_finished (ex_run ex_rr (init ex_progs)) = true.
Proof. vm_compute. reflexivity. Qed.
Example ex_skew_finished : all_finished (ex_run ex_skew (init ex_progs)) = true.
Proof. vm_compute. reflexivity. Qed.
Example ex_rr_results :
  map t_results (g_threads (ex_run ex_rr (init ex_progs)))
  = [[RErr 1; ROk 10]; [RErr 1; ROk 10]; [RErr 0; RErr 1]].
Proof. vm_compute. reflexivity. Qed.
Example ex_same_results :
  map t_results (g_threads (ex_run ex_rr (init ex_progs)))
  = map t_results (g_threads (ex_run ex_skew (init ex_progs))).
Proof. vm_compute. reflexivity. Qed.
(* the two schedules do interleave the operations differently *)
Example ex_logs_differ :
  log_ops (ex_run ex_rr (init ex_progs)) <> log_ops (ex_run ex_skew (init ex_progs)).
Proof. vm_compute. discriminate. Qed.
Example ex_rr_lin :
  let g := ex_run ex_rr (init ex_progs) in
  log_results g = seq_run ex_neg ex_res (SS false false [] []) (log_ops g) /\ length (g_log g) = 6%nat.
Proof. vm_compute. split; reflexivity. Qed.

(* thread 0 holds the templates lock; thread 1 is blocked on it while thread 0 is enabled *)
Example ex_blocked :
  let g := ex_run [0; 0; 1] (init ex_progs) in
  step ex_neg ex_res g 1 = None /\ enabled ex_neg ex_res g 0 = true /\
  owner_of g LTemplates = Some 0 /\ all_finished g = false /\ deadlocked ex_neg ex_res g = false.
Proof. vm_compute. repeat split; reflexivity. Qed.

(* thread 2 holds LEntry+LLibrary; thread 0's later OLoad would block on LEntry *)
Example ex_blocked_entry :
  let g := ex_run ([2; 2; 2] ++ repeat 0 6) (init ex_progs) in
  g_owner g = [(LLibrary, 2); (LEntry, 2)] /\ step ex_neg ex_res g 0 = None /\ enabled ex_neg ex_res g 2 = true.
Proof. vm_compute. repeat split; reflexivity. Qed.

(* an OLoad whose two parts are separated by another thread's complete OCreate of the same key:
   the log (linearization) order is [OCreate 6; OLoad 2 4] and the equation holds *)
Definition ex_progs_split : list (list op) := [[OLoad 2 4]; [OCreate 6]].
Example ex_split :
  let g := ex_run (repeat 0 6 ++ repeat 1 5 ++ repeat 0 5) (init ex_progs_split) in
  all_finished g = true /\ log_ops g = [OCreate 6; OLoad 2 4] /\ log_results g = [ROk 60; ROk 60] /\
  g_entries g = [(2, 4, 6)] /\ g_templates g = [(6, 60)] /\
  log_results g = seq_run ex_neg ex_res (SS false false [] []) (log_ops g).
Proof. vm_compute. repeat split; reflexivity. Qed.

(* key 7 panics inside the critical section: the templates lock is poisoned, every later create panics,
   the entry locks stay clean, and the linearizability equation still holds *)
Definition ex_progs_poison : list (list op) := [[OCreate 1; OCreate 7; OCreate 1]; [OLoad 2 4; OCreate 1; OLoad 9 9]].
Example ex_poison :
  let g := ex_run (repeat 0 9 ++ repeat 1 40 ++ repeat 0 10) (init ex_progs_poison) in
  all_finished g = true /\ g_poison g = [LTemplates] /\
  map t_results (g_threads g) = [[RPanic; RPanic; ROk 10]; [RErr 0; RPanic; RPanic]] /\
  log_ops g = [OCreate 1; OCreate 7; OCreate 1; OLoad 2 4; OCreate 1; OLoad 9 9] /\
  log_results g = seq_run ex_neg ex_res (SS false false [] []) (log_ops g).
Proof. vm_compute. repeat split; reflexivity. Qed.
Example ex_poison_rr :
  let g := ex_run ex_rr (init ex_progs_poison) in
  all_finished g = true /\ poisoned g LTemplates = true /\ poisoned g LEntry = false /\
  log_results g = seq_run ex_neg ex_res (SS false false [] []) (log_ops g).
Proof. vm_compute. repeat split; reflexivity. Qed.

Print Assumptions inv_reachable.
Print Assumptions no_deadlock.
Print Assumptions mutual_exclusion.
Print Assumptions entry_locks_never_poisoned.
Print Assumptions step_decreases.
Print Assumptions termination.
Print Assumptions linearizable.
Print Assumptions results_schedule_independent.
Print Assumptions per_thread_results.
