(* Bytes.v — byte strings, little-endian integers, the reader outcome type.
   Everything here is executable; bytes are [N] with the side condition [< 256]
   carried by [wfb]. *)
From Coq Require Export List NArith ZArith Lia Bool.
Export ListNotations.
Open Scope N_scope.

Arguments N.add : simpl never.
Arguments N.sub : simpl never.
Arguments N.mul : simpl never.
Arguments N.div : simpl never.
Arguments N.modulo : simpl never.
Arguments N.pow : simpl never.
Arguments N.eqb : simpl never.
Arguments N.ltb : simpl never.
Arguments N.leb : simpl never.

Definition bytes := list N.

(* lia with div/mod by constants *)
Ltac divmod_lia := zify; Z.to_euclidean_division_equations; lia.

Definition wfb (bs : bytes) : Prop := Forall (fun b => b < 256) bs.
Definition wfbb (bs : bytes) : bool := forallb (fun b => b <? 256) bs.

Lemma wfbb_wfb bs : wfbb bs = true <-> wfb bs.
Proof.
  unfold wfbb, wfb. rewrite forallb_forall, Forall_forall.
  split; intros H x Hx; specialize (H x Hx); [apply N.ltb_lt in H|apply N.ltb_lt]; exact H.
Qed.

Lemma wfb_app a b : wfb (a ++ b) <-> wfb a /\ wfb b.
Proof. unfold wfb. apply Forall_app. Qed.

(* ---------- little endian ---------- *)

Fixpoint le (w : nat) (n : N) : bytes :=
  match w with
  | O => []
  | S w' => (n mod 256) :: le w' (n / 256)
  end.

Fixpoint unle (bs : bytes) : N :=
  match bs with
  | [] => 0
  | b :: r => b + 256 * unle r
  end.

Lemma le_length w n : length (le w n) = w.
Proof. revert n; induction w as [|w IH]; intros n; cbn [le length]; [reflexivity|now rewrite IH]. Qed.

Lemma le_wfb w n : wfb (le w n).
Proof.
  revert n; induction w as [|w IH]; intros n; cbn [le]; constructor.
  - apply N.mod_lt. lia.
  - apply IH.
Qed.

Lemma unle_le w n : n < 256 ^ (N.of_nat w) -> unle (le w n) = n.
Proof.
  revert n; induction w as [|w IH]; intros n Hn.
  - cbn [le unle]. change (N.of_nat 0) with 0 in Hn. rewrite N.pow_0_r in Hn. lia.
  - cbn [le unle]. rewrite IH.
    + pose proof (N.div_mod n 256 ltac:(lia)). lia.
    + rewrite Nat2N.inj_succ, N.pow_succ_r' in Hn.
      apply N.div_lt_upper_bound; lia.
Qed.

Lemma unle_bound bs : wfb bs -> unle bs < 256 ^ (N.of_nat (length bs)).
Proof.
  induction bs as [|b r IH]; intros H.
  - cbn. lia.
  - inversion H as [|? ? Hb Hr]; subst. specialize (IH Hr).
    cbn [unle length]. rewrite Nat2N.inj_succ, N.pow_succ_r'. lia.
Qed.

Lemma le_unle bs : wfb bs -> le (length bs) (unle bs) = bs.
Proof.
  induction bs as [|b r IH]; intros H; [reflexivity|].
  inversion H as [|? ? Hb Hr]; subst. cbn [length le unle].
  replace ((b + 256 * unle r) mod 256) with b by (revert Hb; generalize (unle r); intros; divmod_lia).
  replace ((b + 256 * unle r) / 256) with (unle r) by (revert Hb; generalize (unle r); intros; divmod_lia).
  f_equal. apply IH; exact Hr.
Qed.

Lemma le_inj w a b : a < 256 ^ N.of_nat w -> b < 256 ^ N.of_nat w -> le w a = le w b -> a = b.
Proof. intros Ha Hb H. rewrite <- (unle_le w a Ha), <- (unle_le w b Hb), H. reflexivity. Qed.

(* ---------- outcomes ---------- *)

Inductive err :=
| EEof            (* UnexpectedEof from read_exact *)
| EGeneral        (* SavefileError::GeneralError: bad tag, too large, … *)
| EUtf8           (* InvalidUtf8 *)
| EWrongVersion
| EInvalidChar
| ESchema         (* IncompatibleSchema *)
| ELayout         (* MemoryAllocationLayoutError *)
| EOther.

Inductive res (A : Type) :=
| Ok (a : A)
| Err (e : err)
| Panic
| OutOfFuel.
Arguments Ok {A} a.
Arguments Err {A} e.
Arguments Panic {A}.
Arguments OutOfFuel {A}.

Definition bind {A B} (r : res A) (f : A -> res B) : res B :=
  match r with
  | Ok a => f a
  | Err e => Err e
  | Panic => Panic
  | OutOfFuel => OutOfFuel
  end.
Notation "'let*' x ':=' r 'in' k" := (bind r (fun x => k)) (at level 200, x pattern, right associativity).

Definition reader (A : Type) := bytes -> res (A * bytes).

(* read_exact of k bytes *)
Definition take_exact (k : nat) : reader bytes :=
  fun bs => if Nat.leb k (length bs) then Ok (firstn k bs, skipn k bs) else Err EEof.

Lemma take_exact_app k a r : length a = k -> take_exact k (a ++ r) = Ok (a, r).
Proof.
  intros <-. unfold take_exact. rewrite app_length.
  replace (Nat.leb (length a) (length a + length r)) with true by (symmetry; apply Nat.leb_le; lia).
  rewrite firstn_app, skipn_app, Nat.sub_diag, firstn_all, skipn_all. cbn. now rewrite app_nil_r.
Qed.

Lemma take_exact_ok k bs a r : take_exact k bs = Ok (a, r) -> bs = a ++ r /\ length a = k.
Proof.
  unfold take_exact. destruct (Nat.leb k (length bs)) eqn:E; [|discriminate].
  intros H; inversion H; subst. apply Nat.leb_le in E. split.
  - symmetry; apply firstn_skipn.
  - apply firstn_length_le; exact E.
Qed.

Definition rd_le (w : nat) : reader N :=
  fun bs => let* (a, r) := take_exact w bs in Ok (unle a, r).

Lemma rd_le_app w n r : n < 256 ^ N.of_nat w -> rd_le w (le w n ++ r) = Ok (n, r).
Proof.
  intros Hn. unfold rd_le. rewrite take_exact_app by apply le_length.
  cbn [bind]. now rewrite unle_le.
Qed.

Definition rd_u8 : reader N := rd_le 1.
Definition rd_usize : reader N := rd_le 8.
(* read_bool: byte == 1 *)
Definition rd_bool : reader bool :=
  fun bs => let* (b, r) := rd_u8 bs in Ok (b =? 1, r).

Definition enc_bool (b : bool) : bytes := [if b then 1 else 0].
Definition enc_usize (n : N) : bytes := le 8 n.
Definition enc_u8 (n : N) : bytes := le 1 n.

Lemma rd_bool_app b r : rd_bool (enc_bool b ++ r) = Ok (b, r).
Proof. destruct b; reflexivity. Qed.

Lemma rd_u8_app n r : n < 256 -> rd_u8 (enc_u8 n ++ r) = Ok (n, r).
Proof. intros H. unfold rd_u8, enc_u8. apply rd_le_app. cbn. lia. Qed.

Definition U64 : N := 18446744073709551616.

Lemma pow_256_8 : 256 ^ N.of_nat 8 = U64.
Proof. reflexivity. Qed.

Lemma rd_usize_app n r : n < U64 -> rd_usize (enc_usize n ++ r) = Ok (n, r).
Proof. intros H. unfold rd_usize, enc_usize. apply rd_le_app. rewrite pow_256_8. exact H. Qed.

(* Option<usize>: bool tag then value *)
Definition enc_opt_usize (o : option N) : bytes :=
  match o with
  | Some n => enc_bool true ++ enc_usize n
  | None => enc_bool false
  end.
Definition rd_opt_usize : reader (option N) :=
  fun bs => let* (t, r) := rd_bool bs in
            if t then let* (n, r') := rd_usize r in Ok (Some n, r') else Ok (None, r).

Definition wf_opt_usize (o : option N) : Prop :=
  match o with Some n => n < U64 | None => True end.

Lemma rd_opt_usize_app o r : wf_opt_usize o -> rd_opt_usize (enc_opt_usize o ++ r) = Ok (o, r).
Proof.
  destruct o as [n|]; intros H; unfold rd_opt_usize, enc_opt_usize.
  - rewrite <- app_assoc, rd_bool_app. cbn [bind]. rewrite rd_usize_app by exact H. reflexivity.
  - rewrite rd_bool_app. reflexivity.
Qed.

(* ---------- UTF-8 validation as Rust's String::from_utf8 does it ---------- *)

Definition cont (b : N) : bool := (128 <=? b) && (b <=? 191).

Fixpoint utf8_valid_fuel (fuel : nat) (bs : bytes) : bool :=
  match fuel with
  | O => match bs with [] => true | _ => false end
  | S f =>
    match bs with
    | [] => true
    | b0 :: r =>
      if b0 <? 128 then utf8_valid_fuel f r
      else if (194 <=? b0) && (b0 <=? 223) then
        match r with b1 :: r' => cont b1 && utf8_valid_fuel f r' | _ => false end
      else if b0 =? 224 then
        match r with b1 :: b2 :: r' => (160 <=? b1) && (b1 <=? 191) && cont b2 && utf8_valid_fuel f r' | _ => false end
      else if ((225 <=? b0) && (b0 <=? 236)) || (b0 =? 238) || (b0 =? 239) then
        match r with b1 :: b2 :: r' => cont b1 && cont b2 && utf8_valid_fuel f r' | _ => false end
      else if b0 =? 237 then
        match r with b1 :: b2 :: r' => (128 <=? b1) && (b1 <=? 159) && cont b2 && utf8_valid_fuel f r' | _ => false end
      else if b0 =? 240 then
        match r with b1 :: b2 :: b3 :: r' => (144 <=? b1) && (b1 <=? 191) && cont b2 && cont b3 && utf8_valid_fuel f r' | _ => false end
      else if (241 <=? b0) && (b0 <=? 243) then
        match r with b1 :: b2 :: b3 :: r' => cont b1 && cont b2 && cont b3 && utf8_valid_fuel f r' | _ => false end
      else if b0 =? 244 then
        match r with b1 :: b2 :: b3 :: r' => (128 <=? b1) && (b1 <=? 143) && cont b2 && cont b3 && utf8_valid_fuel f r' | _ => false end
      else false
    end
  end.
Definition utf8_valid (bs : bytes) : bool := utf8_valid_fuel (length bs) bs.

(* Strings: 64-bit length, then the bytes; the reader enforces the size sanity limit
   (feature size_sanity_checks: l > 1_000_000 is an error) and UTF-8 validity. *)
Definition STRING_LIMIT : N := 1000000.

Definition enc_string (s : bytes) : bytes := enc_usize (N.of_nat (length s)) ++ s.

Definition rd_string : reader bytes :=
  fun bs =>
    let* (l, r) := rd_usize bs in
    if STRING_LIMIT <? l then Err EGeneral else
    let* (s, r') := take_exact (N.to_nat l) r in
    if utf8_valid s then Ok (s, r') else Err EUtf8.

Definition wf_string (s : bytes) : Prop :=
  N.of_nat (length s) <= STRING_LIMIT /\ utf8_valid s = true.

Lemma rd_string_app s r : wf_string s -> rd_string (enc_string s ++ r) = Ok (s, r).
Proof.
  intros [Hl Hu]. unfold rd_string, enc_string. rewrite <- app_assoc.
  rewrite rd_usize_app by (unfold STRING_LIMIT, U64 in *; lia). cbn [bind].
  replace (STRING_LIMIT <? N.of_nat (length s)) with false by (symmetry; apply N.ltb_ge; exact Hl).
  rewrite Nat2N.id, take_exact_app by reflexivity. cbn [bind]. now rewrite Hu.
Qed.

(* hex decoding for observations coming from the harness *)
Definition hexval (c : N) : N :=
  if (48 <=? c) && (c <=? 57) then c - 48
  else if (97 <=? c) && (c <=? 102) then c - 87
  else 0.

From Coq Require Import String Ascii.
Fixpoint unhex (s : string) : bytes :=
  match s with
  | String a (String b r) => (16 * hexval (N_of_ascii a) + hexval (N_of_ascii b)) :: unhex r
  | _ => []
  end.

Fixpoint bytes_eqb (a b : bytes) : bool :=
  match a, b with
  | [], [] => true
  | x :: a', y :: b' => (x =? y) && bytes_eqb a' b'
  | _, _ => false
  end.

Lemma bytes_eqb_eq a b : bytes_eqb a b = true <-> a = b.
Proof.
  revert b; induction a as [|x a IH]; intros [|y b]; cbn [bytes_eqb]; split; intros H; try reflexivity; try discriminate.
  - apply andb_prop in H as [H1 H2]. apply N.eqb_eq in H1. apply IH in H2. now subst.
  - inversion H; subst. rewrite N.eqb_refl. cbn. now apply IH.
Qed.
