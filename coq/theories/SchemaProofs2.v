(* SchemaProofs2.v — diff_schema never panics on the data fragment. *)
From SF Require Import Bytes Schema SchemaProofs.

Definition NP (a : schema) : Prop :=
  forall b rp, data_frag a = true -> data_frag b = true -> diff a b rp <> DPanic.

Lemma dthen_np a b : a <> DPanic -> b <> DPanic -> dthen a b <> DPanic.
Proof. destruct a; cbn [dthen]; auto. Qed.

Lemma dfields_go_np fa :
  Pfields NP fa -> forall fb, forallb dff fa = true -> forallb dff fb = true -> dfields_go fa fb <> DPanic.
Proof.
  unfold Pfields. induction fa as [|x fa IH]; intros HP fb Ha Hb; destruct fb as [|y fb];
    cbn [dfields_go]; try discriminate.
  inversion HP as [|? ? Hx Hfa]; subst.
  cbn [forallb] in Ha, Hb. apply andb_true_iff in Ha as [Hax Ha]. apply andb_true_iff in Hb as [Hby Hb].
  apply dthen_np.
  - exact (Hx (f_val y) false Hax Hby).
  - apply IH; assumption.
Qed.

Lemma dfields_np fa fb :
  Pfields NP fa -> forallb dff fa = true -> forallb dff fb = true -> dfields fa fb <> DPanic.
Proof.
  intros HP Ha Hb. unfold dfields.
  destruct (negb (Nat.eqb (length fa) (length fb))); [discriminate|].
  apply dfields_go_np; assumption.
Qed.

Lemma dvariants_go_np va :
  Pvariants NP va -> forall vb, forallb dfv va = true -> forallb dfv vb = true -> dvariants_go va vb <> DPanic.
Proof.
  unfold Pvariants. induction va as [|x va IH]; intros HP vb Ha Hb; destruct vb as [|y vb];
    cbn [dvariants_go]; try discriminate.
  inversion HP as [|? ? Hx Hva]; subst.
  cbn [forallb] in Ha, Hb. apply andb_true_iff in Ha as [Hax Ha]. apply andb_true_iff in Hb as [Hby Hb].
  destruct (negb (bytes_eqb (v_name x) (v_name y))); [discriminate|].
  destruct (negb (v_discr x =? v_discr y)); [discriminate|].
  apply dthen_np.
  - apply dfields_np; assumption.
  - apply IH; assumption.
Qed.

Lemma np_all : forall a, NP a.
Proof.
  induction a as
    [name size align fields IHf | name variants dsize repr size align IHv | p | s l IHs | s c IHs
    | s IHs | | | c | s IHs | s IHs | | s IHs | m d IHd | m d IHd | d | | d send sync unpin IHd | | ]
    using schema_ind'; unfold NP; intros b rp Ha Hb;
  destruct b as
    [n2 sz2 al2 fb | n2 vb ds2 rp2 sz2 al2 | pb | sb lb | sb cb | sb | | | cb | sb | sb | | sb
    | mb db | mb db | db | | db se2 sy2 un2 | | ];
  try discriminate Ha; try discriminate Hb; try (cbn; discriminate).
  - rewrite diff_struct. rewrite data_frag_struct in Ha, Hb. apply dfields_np; assumption.
  - rewrite diff_enum. rewrite data_frag_enum in Ha, Hb.
    destruct (negb (Nat.eqb (length variants) (length vb))); [discriminate|].
    destruct (negb (dsize =? ds2)); [discriminate|].
    apply dvariants_go_np; assumption.
  - change (diff_prim p pb <> DPanic). rewrite diff_prim_tag. destruct (prim_tag p =? prim_tag pb); discriminate.
  - exact (IHs sb false Ha Hb).
  - change (diff (SArray s c) (SArray sb cb) rp) with (if negb (c =? cb) then DDiff else diff s sb false).
    destruct (negb (c =? cb)); [discriminate|]. exact (IHs sb false Ha Hb).
  - exact (IHs sb false Ha Hb).
  - change (diff (SCustom c) (SCustom cb) rp) with (if bytes_eqb c cb then DSame else DDiff).
    destruct (bytes_eqb c cb); discriminate.
  - exact (IHs sb rp Ha Hb).
  - exact (IHs sb rp Ha Hb).
  - exact (IHs sb rp Ha Hb).
  - change (diff (SRecursion d) (SRecursion db) rp) with (if d =? db then DSame else DDiff).
    destruct (d =? db); discriminate.
Qed.

Theorem diff_data_no_panic : forall a b rp, data_frag a = true -> data_frag b = true -> diff a b rp <> DPanic.
Proof. intros a b rp. exact (np_all a b rp). Qed.
