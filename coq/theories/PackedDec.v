(* PackedDec.v — the reader *as implemented*: single values field by field, but Vec / Box<[T]> / Arc<[T]> /
   arrays of packed element types by reading size_of * n raw bytes and reinterpreting them (no validation of
   bool / char / enum bit patterns), with the size arithmetic of the bulk Vec reader. ArrayVec is modelled as a
   separate top-level function. Definitions only. *)
From SF Require Import Bytes Ty Packed.
Open Scope N_scope.

Definition bslice (m : bytes) (off len : N) : bytes := firstn (N.to_nat len) (skipn (N.to_nat off) m).

(* reinterpret [size_of t] bytes as a value of a packed type, WITHOUT validation *)
Fixpoint unmem (t : ty) (m : bytes) {struct t} : val :=
  let un_fields := fix un_fields (fs : list fdef) (offs : list N) {struct fs} : list val :=
      match fs, offs with
      | f :: rf, o :: ro =>
          (if is_removed f then VUnit else unmem (fd_ty f) (bslice m o (size_of (fd_ty f)))) :: un_fields rf ro
      | _, _ => []
      end in
  match t with
  | TInt k => VInt (untwos (ity_signed k) (ity_bytes k) (unle (firstn (ity_bytes k) m)))
  | TBool => VInt (Z.of_N (unle (firstn 1 m)))           (* any byte: 2..255 are invalid bools *)
  | TChar => VInt (Z.of_N (unle (firstn 4 m)))           (* any u32: surrogates / > 0x10FFFF are invalid chars *)
  | TF32 => VInt (Z.of_N (unle (firstn 4 m)))
  | TF64 => VInt (Z.of_N (unle (firstn 8 m)))
  | TUnit => VUnit
  | TArray t' n =>
      VSeq ((fix chunks (k : nat) (off : N) : list val :=
               match k with
               | O => []
               | S k' => unmem t' (bslice m off (size_of t')) :: chunks k' (off + size_of t')
               end) (N.to_nat n) 0)
  | TCell t' => unmem t' m
  | TTuple l ts =>
      VRec ((fix go (ts : list ty) (offs : list N) {struct ts} : list val :=
               match ts, offs with
               | t' :: rt, o :: ro => unmem t' (bslice m o (size_of t')) :: go rt ro
               | _, _ => []
               end) ts (l_offs l))
  | TStruct l fs => VRec (un_fields fs (l_offs l))
  | TEnum (Some w) l voffs vs =>
      let tag := unle (firstn (N.to_nat w) m) in
      VVar tag ((fix pick (vs0 : list vdef) (vo : list (list N)) (i : nat) {struct vs0} : list val :=
                   match vs0, vo, i with
                   | vd :: _, offs :: _, O => un_fields (vd_fields vd) offs
                   | _ :: rv, _ :: ro, S j => pick rv ro j
                   | _, _, _ => []                      (* tag out of range: an invalid enum value *)
                   end) vs voffs (N.to_nat (N.min tag 70000)))
  | _ => VUnit
  end.

Definition ISIZE_MAX : N := 9223372036854775807.

(* build mode of the unchecked arithmetic: debug (overflow checks) or release (wrapping) *)
Inductive mode := Debug | Release.

Section ImplDec.
Variable md : mode.
Variable checked_mul : bool.   (* true once the bulk reader uses checked_mul (fix F7) *)
Variable v : N.

Fixpoint chunks_of (t : ty) (k : nat) (m : bytes) : list val :=
  match k with
  | O => []
  | S k' => unmem t (firstn (N.to_nat (size_of t)) m) :: chunks_of t k' (skipn (N.to_nat (size_of t)) m)
  end.

(* the bulk Vec reader (savefile/src/lib.rs 6952-6999) *)
Definition bulk_vec (t : ty) (bs : bytes) : res (val * bytes) :=
  let* (n, r) := rd_usize bs in
  if n =? 0 then Ok (VSeq [], r) else
  let prod := size_of t * n in
  if checked_mul && (Bytes.U64 <=? prod) then Err ELayout else
  match md, (Bytes.U64 <=? prod) with
  | Debug, true => Panic                                  (* attempt to multiply with overflow *)
  | _, _ =>
      let nb := prod mod Bytes.U64 in
      if ISIZE_MAX <? nb then Err ELayout else             (* Layout::from_size_align *)
      if size_of t =? 0 then Ok (VSeq (repeat (unmem t []) (N.to_nat (N.min n 1000000))), r) else
      if N.of_nat (length r) <? nb then Err EEof else      (* read_exact (or the allocation) fails: too few bytes *)
      let* (raw, r') := take_exact (N.to_nat nb) r in
      (* in release mode with a wrapped product the Vec claims n elements over nb bytes: the elements beyond
         nb / size are out of bounds; the model returns only those backed by the buffer and the claimed count
         is reported separately by [bulk_claims] *)
      Ok (VSeq (chunks_of t (N.to_nat (nb / size_of t)) raw), r')
  end.

(* number of elements the returned Vec claims vs. number backed by bytes read *)
Definition bulk_claims (t : ty) (bs : bytes) : option (N * N) :=
  match rd_usize bs with
  | Ok (n, _) => if (n =? 0) || (size_of t =? 0) then None else Some (n, ((size_of t * n) mod Bytes.U64) / size_of t)
  | _ => None
  end.

Fixpoint impl_dec (t : ty) {struct t} : reader val :=
  let dec_fields := fix dec_fields (fs : list fdef) {struct fs} : reader (list val) :=
      fun bs =>
      match fs with
      | [] => Ok ([], bs)
      | f :: rf =>
          let* (y, r) :=
            (match fd_kind f with
             | FIgnored => Ok (fd_default f, bs)
             | FNormal => if present v f then impl_dec (fd_ty f) bs else Ok (fd_default f, bs)
             | FRemoved | FAbiRemoved =>
                 if present v f then let* (_, r) := impl_dec (fd_ty f) bs in Ok (VUnit, r) else Ok (VUnit, bs)
             end) in
          let* (ys, r') := dec_fields rf r in
          Ok (y :: ys, r')
      end in
  match t with
  | TVec t' => fun bs =>
      if packed v t' then bulk_vec t' bs
      else
        let* (n, r) := rd_usize bs in
        if SEQ_LIMIT <? n then Err EGeneral else
        let* (xs, r') := read_n (impl_dec t') (seq_fuel n r) n r in Ok (VSeq xs, r')
  | TSeq t' => fun bs =>
      let* (n, r) := rd_usize bs in
      let* (xs, r') := read_n (impl_dec t') (seq_fuel n r) n r in Ok (VSeq xs, r')
  | TArray t' n => fun bs =>
      if n =? 0 then Ok (VSeq [], bs) else
      if packed v t' then
        if N.of_nat (length bs) <? size_of t' * n then Err EEof else
        let* (raw, r') := take_exact (N.to_nat (size_of t' * n)) bs in
        Ok (VSeq (chunks_of t' (N.to_nat n) raw), r')
      else
        let* (xs, r') := read_n (impl_dec t') (N.to_nat n) n bs in Ok (VSeq xs, r')
  | TOption t' => fun bs =>
      let* (b, r) := rd_bool bs in
      if b then let* (y, r') := impl_dec t' r in Ok (VSome y, r') else Ok (VNone, r)
  | TResult a b => fun bs =>
      let* (tag, r) := rd_bool bs in
      if tag then let* (y, r') := impl_dec a r in Ok (VOk y, r')
      else let* (y, r') := impl_dec b r in Ok (VErr y, r')
  | TBox t' => impl_dec t'
  | TCell t' => impl_dec t'
  | TTuple _ ts => fun bs =>
      let* (ys, r) :=
        (fix go (ts : list ty) {struct ts} : reader (list val) :=
           fun bs =>
           match ts with
           | [] => Ok ([], bs)
           | t' :: rt => let* (y, r) := impl_dec t' bs in let* (ys, r') := go rt r in Ok (y :: ys, r')
           end) ts bs in
      Ok (VRec ys, r)
  | TStruct _ fs => fun bs => let* (ys, r) := dec_fields fs bs in Ok (VRec ys, r)
  | TEnum repr _ _ vs => fun bs =>
      let* (idx, r) := rd_le (dwidth repr (length vs)) bs in
      if N.of_nat (length vs) <=? idx then Err EGeneral else
      (fix pick (vs0 : list vdef) (i : nat) {struct vs0} : res (val * bytes) :=
         match vs0, i with
         | vd :: _, O => let* (ys, r') := dec_fields (vd_fields vd) r in Ok (VVar idx ys, r')
         | _ :: rv, S j => pick rv j
         | [], _ => Err EGeneral
         end) vs (N.to_nat idx)
  | _ => dec v t
  end.

(* ArrayVec<V, C> (savefile/src/lib.rs 7662-7683), a top-level container outside the universe *)
Definition arrayvec_dec (t : ty) (cap : N) (bs : bytes) : res (val * bytes) :=
  let* (n, r) := rd_usize bs in
  if cap <? n then Err EOther else                         (* ArrayvecCapacityError *)
  if packed v t then
    if N.of_nat (length r) <? size_of t * n then Err EEof else
    let* (raw, r') := take_exact (N.to_nat (size_of t * n)) r in
    Ok (VSeq (chunks_of t (N.to_nat n) raw), r')
  else
    let* (xs, r') := read_n (impl_dec t) (N.to_nat n) n r in Ok (VSeq xs, r').

End ImplDec.

(* validity of a materialised value: typing without the size-sanity limits *)
Fixpoint valid_val (t : ty) (x : val) {struct t} : bool :=
  let fields_ok := fix fields_ok (fs : list fdef) (xs : list val) {struct fs} : bool :=
      match fs, xs with
      | [], [] => true
      | f :: rf, y :: ry =>
          (if is_removed f then match y with VUnit => true | _ => false end
           else if is_ignored f then true
           else valid_val (fd_ty f) y || val_eqb y (fd_default f))     (* an absent field holds its default, as given *)
          && fields_ok rf ry
      | _, _ => false
      end in
  match t, x with
  | TInt k, VInt z => ((int_lo k <=? z) && (z <? int_hi k))%Z
  | TBool, VInt z => ((z =? 0) || (z =? 1))%Z
  | TChar, VInt z => char_ok z
  | TF32, VInt z => ((0 <=? z) && (z <? 4294967296))%Z
  | TF64, VInt z => ((0 <=? z) && (z <? 18446744073709551616))%Z
  | TUnit, VUnit => true
  | TString, VStr b => utf8_valid b
  | TVec t', VSeq l | TSeq t', VSeq l => forallb (valid_val t') l
  | TArray t' n, VSeq l => (N.of_nat (length l) =? n) && forallb (valid_val t') l
  | TOption t', VNone => true
  | TOption t', VSome y => valid_val t' y
  | TResult a b, VOk y => valid_val a y
  | TResult a b, VErr y => valid_val b y
  | TBox t', y | TCell t', y => valid_val t' y
  | TTuple _ ts, VRec xs =>
      (fix go (ts : list ty) (xs : list val) {struct ts} : bool :=
         match ts, xs with
         | [], [] => true
         | t' :: rt, y :: ry => valid_val t' y && go rt ry
         | _, _ => false
         end) ts xs
  | TStruct _ fs, VRec xs => fields_ok fs xs
  | TEnum repr _ _ vs, VVar idx xs =>
      (idx <? N.of_nat (length vs)) &&
      (fix pick (vs0 : list vdef) (i : nat) {struct vs0} : bool :=
         match vs0, i with
         | vd :: _, O => fields_ok (vd_fields vd) xs
         | _ :: rv, S j => pick rv j
         | [], _ => false
         end) vs (N.to_nat (N.min idx 70000))
  | _, _ => false
  end.

(* Known class K1: a bool, char or repr(uN) enum below a bulk-read container (Vec / array / ArrayVec of a packed
   element type): the bulk reader materialises whatever bit pattern the file holds *)
Fixpoint has_niche (t : ty) : bool :=
  match t with
  | TBool | TChar => true
  | TEnum _ _ _ _ => true
  | TArray t' _ | TCell t' => has_niche t'
  | TTuple _ ts => existsb has_niche ts
  | TStruct _ fs => existsb (fun f : fdef => negb (is_removed f) && has_niche (fd_ty f)) fs
  | _ => false
  end.

Section BulkSafe.
Variable v : N.
Fixpoint bulk_safe (t : ty) : bool :=
  let okf := fun f : fdef => bulk_safe (fd_ty f) in
  match t with
  | TVec t' => bulk_safe t' && negb (packed v t' && has_niche t')
  | TArray t' _ => bulk_safe t' && negb (packed v t' && has_niche t')
  | TSeq t' | TOption t' | TBox t' | TCell t' => bulk_safe t'
  | TResult a b => bulk_safe a && bulk_safe b
  | TTuple _ ts => forallb bulk_safe ts
  | TStruct _ fs => forallb okf fs
  | TEnum _ _ _ vs => forallb (fun vd : vdef => forallb okf (vd_fields vd)) vs
  | _ => true
  end.
End BulkSafe.
