(* HarnessC12.v — comparison functions for C12 (schemas are faithful). *)
From SF Require Import Bytes Schema Ty SchemaOf HarnessC5.
Open Scope N_scope.

(* the real schema equals the model's (modulo diagnostic names and Vec/String layout probes) and carries no
   recursion marker (the universe has no recursive types) *)
Definition agree_schema (v : N) (t : ty) (real_hex : bytes) : bool :=
  match schema_of_hex real_hex with
  | Some s => schema_agrees s (schema_of v t) && no_recursion_marker s
  | None => false
  end.

(* the property on the implementation: a reader driven only by the REAL schema parses the REAL bytes completely
   and recovers the structure of the value *)
Definition sread_oracle (v : N) (t : ty) (x : val) (real_hex : bytes) (payload : bytes) : bool :=
  match schema_of_hex real_hex with
  | Some s =>
      match sread s payload with
      | Ok (tr, []) => tree_eqb tr (tree_of v t x)
      | _ => false
      end
  | None => false
  end.

(* library container types outside the modelled universe: the generic reader parses the real bytes completely
   under the real schema; no recursion marker (none of the corpus types is recursive) *)
Definition lib_ok (real_hex : bytes) (payload : bytes) : bool :=
  match schema_of_hex real_hex with
  | Some s => no_recursion_marker s && match sread s payload with Ok (_, []) => true | _ => false end
  | None => false
  end.
