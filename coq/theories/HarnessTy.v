(* HarnessTy.v — comparison functions for the data-side correspondence cases. *)
From SF Require Import Bytes Schema Ty.
Open Scope N_scope.

Definition MAGIC : bytes := [115; 97; 118; 101; 102; 105; 108; 101; 0].
Definition LIBVER : N := 2.
Definition header (v : N) (compressed : bool) : bytes :=
  MAGIC ++ le 2 LIBVER ++ le 4 v ++ [if compressed then 1 else 0].

Definition PAD : bytes := [165; 90; 1].

(* hypotheses of the theorems hold for the generated case (non-vacuity of the tie) *)
Definition case_ok (v : N) (t : ty) (x : val) : bool := wf_ty t && has_ty t x && writable v t x.

(* payload: bytes, the value the implementation loaded, the model's reader on the same bytes *)
Definition agree_payload (v : N) (t : ty) (x : val) (payload : bytes) (loaded : val) : bool :=
  match enc v t x with
  | Ok b =>
      bytes_eqb b payload && val_eqb loaded (norm v t x)
      && match dec v t (payload ++ PAD) with
         | Ok (y, r) => val_eqb y (norm v t x) && bytes_eqb r PAD
         | _ => false
         end
  | _ => false
  end.

Definition agree_bare (v : N) (t : ty) (x : val) (file : bytes) (consumed : N) (loaded : val) : bool :=
  case_ok v t x && agree_payload v t x file loaded && (consumed =? N.of_nat (length file)).

Definition agree_noschema (v : N) (t : ty) (x : val) (file : bytes) (consumed : N) (loaded : val) : bool :=
  case_ok v t x && bytes_eqb (firstn 16 file) (header v false)
  && agree_payload v t x (skipn 16 file) loaded && (consumed =? N.of_nat (length file)).

(* with schema: header, a schema section that the schema reader consumes exactly, the payload *)
Definition agree_plain (compressed : bool) (v : N) (t : ty) (x : val) (file : bytes) (loaded : val) : bool :=
  case_ok v t x && bytes_eqb (firstn 16 file) (header v compressed)
  && match de_top 2 (skipn 16 file) with
     | Ok (_, payload) => agree_payload v t x payload loaded
     | _ => false
     end.

(* reading arbitrary bytes: outcome classes must agree *)
Inductive obs_load := OLoadOk (consumed : N) (y : val) | OLoadErr (e : err) | OLoadPanic.
Definition err_tag2 (e : err) : N :=
  match e with
  | EEof => 0 | EGeneral => 1 | EUtf8 => 2 | EWrongVersion => 3 | EInvalidChar => 4
  | ESchema => 5 | ELayout => 6 | EOther => 7
  end.
Definition agree_dec (v : N) (t : ty) (bs : bytes) (o : obs_load) : bool :=
  match dec v t bs, o with
  | Ok (y, r), OLoadOk c y' => val_eqb y y' && (c + N.of_nat (length r) =? N.of_nat (length bs))
  | Err e, OLoadErr e' => err_tag2 e =? err_tag2 e'
  | Panic, OLoadPanic => true
  | _, _ => false
  end.

Definition agree_packed (v : N) (t : ty) (o : bool) : bool := Bool.eqb (packed v t) o.
