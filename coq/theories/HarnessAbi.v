(* HarnessAbi.v — comparison functions for the ABI-side checks (C09 C10 C11 C15). *)
From SF Require Import Bytes Schema Ty HarnessTy HarnessC5 Abi.
From SFX Require Import Extracted.
Open Scope N_scope.

Definition td_of_hex (h : bytes) : option traitdef :=
  match schema_of_hex h with Some (STrait _ d) => Some d | _ => None end.

Fixpoint all_some {A} (l : list (option A)) : option (list A) :=
  match l with
  | [] => Some []
  | None :: _ => None
  | Some a :: r => match all_some r with Some b => Some (a :: b) | None => None end
  end.

(* ---- C15: ledger. revs: for each run, the definitions of that revision at versions 0..latest (hex);
   observed: result of each run (0 ok / 1 err / 2 panic) and the final files (version, file bytes) *)
Definition vres_tag (v : vres) : N := match v with VOk => 0 | VErr => 1 | VPanic => 2 end.
Fixpoint list_N_eqb6 (a b : list N) : bool :=
  match a, b with [], [] => true | x :: a', y :: b' => (x =? y) && list_N_eqb6 a' b' | _, _ => false end.

Definition ledger_file (t : traitdef) : bytes := header 1 false ++ ser_td 1 (ser 1) t.

Definition agree_ledger (revs : list (list bytes)) (obs_results : list N) (obs_files : list (N * bytes)) : bool :=
  match all_some (map (fun defs => all_some (map td_of_hex defs)) revs) with
  | None => false
  | Some rs =>
      let '(d, res) := ledger_seq [] rs in
      list_N_eqb6 (map vres_tag res) obs_results
      && Nat.eqb (length d) (length obs_files)
      && forallb (fun p : N * bytes =>
                    match ledger_get d (fst p) with
                    | Some t => bytes_eqb (ledger_file t) (snd p)
                    | None => false
                    end) obs_files
  end.

(* ---- C10 / C11: connection analysis. Observed: connect ok?, then (method name, arg index, passable) triples *)
Definition find_cm (name : bytes) (ms : list cmethod) : option cmethod :=
  find (fun c => bytes_eqb (cm_name c) name) ms.

Definition agree_connect (ev : N) (ce cle cn cln : bytes) (connect_ok : bool) (bits : list (bytes * N * bool)) : bool :=
  match td_of_hex ce, td_of_hex cle, td_of_hex cn, td_of_hex cln with
  | Some a, Some b, Some c, Some d =>
      match analyze ev a b c d with
      | AOk ms =>
          connect_ok &&
          forallb (fun t : bytes * N * bool =>
                     match find_cm (fst (fst t)) ms with
                     | Some cm => Bool.eqb (N.testbit (cm_mask cm) (snd (fst t))) (snd t)
                     | None => false
                     end) bits
      | AErr _ => negb connect_ok
      | APanic => false
      end
  | _, _, _, _ => false
  end.

(* ---- C10: a by-value argument and the returned value across versions.
   caller at version i holds x : tI; effective version e; implementation at version j with type tJ echoes.
   observed: what the implementation logged (its argument), and what the caller got back (or a panic). *)
Inductive obs_call := OCallOk (ret : val) | OCallPanic.

Definition seen_by_impl (e : N) (tI tJ : ty) (x : val) : res val :=
  let* b := enc e tI x in
  let* (y, r) := dec e tJ b in
  match r with [] => Ok y | _ => Err EOther end.

Definition echo_back (e j : N) (tI tJ : ty) (y : val) : res val :=
  let* b := enc (if x_ret_uses_effective then e else j) tJ y in
  let* (z, r) := dec e tI b in
  Ok z.                        (* trailing bytes of the reply are not inspected by the caller *)

Definition agree_echo (e j : N) (tI tJ : ty) (x : val) (logged : option val) (o : obs_call) : bool :=
  match seen_by_impl e tI tJ x with
  | Ok y =>
      match logged with Some l => val_eqb l y | None => false end
      && match echo_back e j tI tJ y, o with
         | Ok z, OCallOk z' => val_eqb z z'
         | Err _, OCallPanic => true
         | Panic, OCallPanic => true
         | _, _ => false
         end
  | _ => match o with OCallPanic => true | _ => false end
  end.

(* the property itself (C10): the receiver sees retained fields unchanged and unknown ones defaulted, in BOTH directions:
   everything travels in the effective version's format *)
Definition echo_spec (e : N) (tI tJ : ty) (x : val) : res val :=
  let* y := seen_by_impl e tI tJ x in
  let* b := enc e tJ y in
  let* (z, r) := dec e tI b in
  match r with [] => Ok z | _ => Err EOther end.
Definition echo_oracle (e : N) (tI tJ : ty) (x : val) (o : obs_call) : bool :=
  match echo_spec e tI tJ x, o with
  | Ok z, OCallOk z' => val_eqb z z'
  | Ok _, OCallPanic => false
  | _, OCallPanic => true            (* e.g. a variant / Removed field that does not exist at the effective version *)
  | _, _ => false
  end.

(* ---- closures over the versioned type, across versions: with_cb(a, f) calls f(a) on the caller's side and returns what f
   returned; every hop (argument, closure argument, closure result, return value) travels at the effective version *)
Definition cb_chain (e : N) (tI tJ : ty) (x : val) : res (val * val * val * val) :=
  let* y1 := seen_by_impl e tI tJ x in          (* the implementation's argument *)
  let* y2 := seen_by_impl e tJ tI y1 in         (* what the caller's closure is called with *)
  let* y3 := seen_by_impl e tI tJ y2 in         (* the closure's result as the implementation receives it *)
  let* y4 := seen_by_impl e tJ tI y3 in         (* the value the caller gets back *)
  Ok (y1, y2, y3, y4).

Definition optval_eqb (a : option val) (b : val) : bool := match a with Some x => val_eqb x b | None => false end.

Definition agree_cb (e : N) (tI tJ : ty) (x : val) (l1 seen l3 : option val) (o : obs_call) : bool :=
  match cb_chain e tI tJ x, o with
  | Ok (y1, y2, y3, y4), OCallOk z => optval_eqb l1 y1 && optval_eqb seen y2 && optval_eqb l3 y3 && val_eqb z y4
  | Ok _, OCallPanic => false
  | _, OCallPanic => true
  | _, _ => false
  end.

(* make_cb() returns a boxed closure; calling it with x: the implementation's closure sees y1 and returns it *)
Definition agree_mkcb (e : N) (tI tJ : ty) (x : val) (called : option val) (o : obs_call) : bool :=
  match (let* y1 := seen_by_impl e tI tJ x in let* y2 := seen_by_impl e tJ tI y1 in Ok (y1, y2)), o with
  | Ok (y1, y2), OCallOk z => optval_eqb called y1 && val_eqb z y2
  | Ok _, OCallPanic => false
  | _, OCallPanic => true
  | _, _ => false
  end.

(* a by-reference argument: serialized unless the mask bit is set; either way the implementation must see the value
   as if it had been serialized at the effective version (that is the property C11) *)
Definition agree_byref_seen (e : N) (tI tJ : ty) (x : val) (logged : option val) : bool :=
  match seen_by_impl e tI tJ x, logged with
  | Ok y, Some l => val_eqb l y
  | Ok _, None => false
  | _, None => true
  | _, Some _ => false
  end.

(* ---- FlexBuffer *)
Definition agree_flex (chunks : list bytes) (spilled : bool) (contents : bytes) : bool :=
  let f := fold_left flex_write chunks (FStack []) in
  bytes_eqb (flex_contents f) contents
  && Bool.eqb (match f with FSpill _ => true | FStack _ => false end) spilled
  && (x_flex_buffer_size =? FLEX).
