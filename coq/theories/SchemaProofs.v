(* SchemaProofs.v — proofs about the Schema codec, diff and shape. *)
From SF Require Import Bytes Schema.

(* ------------------------------------------------------------------ *)
(* Induction principle for the nested inductive [schema]. *)

Section SchemaInd.
Variable P : schema -> Prop.

Definition Pfields (fs : list field) : Prop := Forall (fun f => P (f_val f)) fs.
Definition Pvariants (vs : list variant) : Prop := Forall (fun v => Pfields (v_fields v)) vs.
Definition Pmethod (m : method) : Prop := P (m_ret m) /\ Forall P (m_args m).
Definition Ptd (d : traitdef) : Prop := Forall Pmethod (td_methods d).

Hypothesis H_struct : forall name size align fields, Pfields fields -> P (SStruct name size align fields).
Hypothesis H_enum : forall name variants dsize repr size align, Pvariants variants ->
  P (SEnum name variants dsize repr size align).
Hypothesis H_prim : forall p, P (SPrim p).
Hypothesis H_vector : forall s l, P s -> P (SVector s l).
Hypothesis H_array : forall s c, P s -> P (SArray s c).
Hypothesis H_option : forall s, P s -> P (SOption s).
Hypothesis H_undefined : P SUndefined.
Hypothesis H_zerosize : P SZeroSize.
Hypothesis H_custom : forall c, P (SCustom c).
Hypothesis H_boxed : forall s, P s -> P (SBoxed s).
Hypothesis H_slice : forall s, P s -> P (SSlice s).
Hypothesis H_str : P SStr.
Hypothesis H_reference : forall s, P s -> P (SReference s).
Hypothesis H_trait : forall m d, Ptd d -> P (STrait m d).
Hypothesis H_fnclosure : forall m d, Ptd d -> P (SFnClosure m d).
Hypothesis H_recursion : forall d, P (SRecursion d).
Hypothesis H_stdioerror : P SStdIoError.
Hypothesis H_future : forall d send sync unpin, Ptd d -> P (SFuture d send sync unpin).
Hypothesis H_uninitslice : P SUninitSlice.
Hypothesis H_utctimestamp : P SUtcTimestamp.

Fixpoint schema_ind' (s : schema) : P s :=
  let fields_ind :=
    fix go (l : list field) : Pfields l :=
      match l return Pfields l with
      | [] => Forall_nil _
      | f :: t => @Forall_cons _ (fun f => P (f_val f)) f t (schema_ind' (f_val f)) (go t)
      end in
  let variants_ind :=
    fix go (l : list variant) : Pvariants l :=
      match l return Pvariants l with
      | [] => Forall_nil _
      | v :: t => @Forall_cons _ (fun v => Pfields (v_fields v)) v t (fields_ind (v_fields v)) (go t)
      end in
  let args_ind :=
    fix go (l : list schema) : Forall P l :=
      match l return Forall P l with
      | [] => Forall_nil _
      | a :: t => @Forall_cons _ P a t (schema_ind' a) (go t)
      end in
  let methods_ind :=
    fix go (l : list method) : Forall Pmethod l :=
      match l return Forall Pmethod l with
      | [] => Forall_nil _
      | m :: t => @Forall_cons _ Pmethod m t (conj (schema_ind' (m_ret m)) (args_ind (m_args m))) (go t)
      end in
  match s return P s with
  | SStruct name size align fields => H_struct name size align fields (fields_ind fields)
  | SEnum name variants dsize repr size align =>
      H_enum name variants dsize repr size align (variants_ind variants)
  | SPrim p => H_prim p
  | SVector s l => H_vector s l (schema_ind' s)
  | SArray s c => H_array s c (schema_ind' s)
  | SOption s => H_option s (schema_ind' s)
  | SUndefined => H_undefined
  | SZeroSize => H_zerosize
  | SCustom c => H_custom c
  | SBoxed s => H_boxed s (schema_ind' s)
  | SSlice s => H_slice s (schema_ind' s)
  | SStr => H_str
  | SReference s => H_reference s (schema_ind' s)
  | STrait m d => H_trait m d (methods_ind (td_methods d))
  | SFnClosure m d => H_fnclosure m d (methods_ind (td_methods d))
  | SRecursion d => H_recursion d
  | SStdIoError => H_stdioerror
  | SFuture d send sync unpin => H_future d send sync unpin (methods_ind (td_methods d))
  | SUninitSlice => H_uninitslice
  | SUtcTimestamp => H_utctimestamp
  end.
End SchemaInd.

(* ------------------------------------------------------------------ *)
(* Small reader facts. *)

Lemma rd_u8_cons k r : k < 256 -> rd_u8 (k :: r) = Ok (k, r).
Proof.
  intros H. change (k :: r) with ([k] ++ r).
  unfold rd_u8, rd_le. rewrite take_exact_app by reflexivity.
  cbn [bind unle]. f_equal. f_equal. lia.
Qed.

Lemma wf_stringb_wf s : wf_stringb s = true -> wf_string s.
Proof.
  unfold wf_stringb, wf_string. rewrite !andb_true_iff. intros [[H1 H2] _].
  split; [apply N.leb_le; exact H1|exact H2].
Qed.

Lemma wf_optb_wf o : wf_optb o = true -> wf_opt_usize o.
Proof. destruct o as [n|]; cbn [wf_optb wf_opt_usize]; [apply N.ltb_lt|trivial]. Qed.

Lemma enc_string_length s : length (enc_string s) = (8 + length s)%nat.
Proof. unfold enc_string, enc_usize. rewrite app_length, le_length. reflexivity. Qed.

Lemma enc_usize_length n : length (enc_usize n) = 8%nat.
Proof. apply le_length. Qed.

Lemma enc_u8_length n : length (enc_u8 n) = 1%nat.
Proof. apply le_length. Qed.

Lemma flat_map_length_in {A} (enc : A -> bytes) x xs :
  In x xs -> (length (enc x) <= length (flat_map enc xs))%nat.
Proof.
  induction xs as [|a xs IH]; intros Hin; [destruct Hin|].
  cbn [flat_map]. rewrite app_length. destruct Hin as [->|Hin]; [lia|].
  specialize (IH Hin). lia.
Qed.

Lemma flat_map_length_ge {A} (enc : A -> bytes) xs :
  (forall x, In x xs -> (1 <= length (enc x))%nat) ->
  (length xs <= length (flat_map enc xs))%nat.
Proof.
  induction xs as [|a xs IH]; intros H; [cbn; lia|].
  cbn [flat_map length]. rewrite app_length.
  pose proof (H a (or_introl eq_refl)) as Ha.
  assert (IH' : (length xs <= length (flat_map enc xs))%nat).
  { apply IH. intros x Hx. apply H. right. exact Hx. }
  lia.
Qed.

Lemma read_n_S {A} (rd : reader A) f count bs :
  read_n rd (S f) count bs =
  if count =? 0 then Ok ([], bs) else
    let* (x, r) := rd bs in
    let* (xs, r') := read_n rd f (count - 1) r in
    Ok (x :: xs, r').
Proof. reflexivity. Qed.

Lemma read_n_0 {A} (rd : reader A) f bs : read_n rd f 0 bs = Ok ([], bs).
Proof. destruct f; reflexivity. Qed.

Lemma read_n_app {A B} (rd : reader B) (enc : A -> bytes) (g : A -> B) :
  forall xs fuel r,
    (forall x, In x xs -> forall r', rd (enc x ++ r') = Ok (g x, r')) ->
    (length xs <= fuel)%nat ->
    read_n rd fuel (len xs) (flat_map enc xs ++ r) = Ok (map g xs, r).
Proof.
  induction xs as [|a xs IH]; intros fuel r Hrd Hfuel.
  - apply read_n_0.
  - destruct fuel as [|f]; [cbn [length] in Hfuel; lia|].
    rewrite read_n_S.
    replace (len (a :: xs) =? 0) with false
      by (symmetry; apply N.eqb_neq; unfold len; cbn [length]; lia).
    cbn [flat_map]. rewrite <- app_assoc.
    rewrite (Hrd a (or_introl eq_refl)). cbn [bind].
    replace (len (a :: xs) - 1) with (len xs) by (unfold len; cbn [length]; lia).
    rewrite IH.
    + reflexivity.
    + intros x Hx. apply Hrd. right. exact Hx.
    + cbn [length] in Hfuel. lia.
Qed.

Lemma read_n_app_S {A B} (rd : reader B) (enc : A -> bytes) (g : A -> B) xs r :
  (forall x, In x xs -> forall r', rd (enc x ++ r') = Ok (g x, r')) ->
  (forall x, In x xs -> (1 <= length (enc x))%nat) ->
  read_n rd (S (length (flat_map enc xs ++ r))) (len xs) (flat_map enc xs ++ r) = Ok (map g xs, r).
Proof.
  intros Hrd Hne. apply read_n_app; [exact Hrd|].
  rewrite app_length. pose proof (flat_map_length_ge enc xs Hne). lia.
Qed.

Lemma rd_vec_app {A B} (rd : reader B) (enc : A -> bytes) (g : A -> B) xs r :
  len xs <=? VEC_LIMIT = true ->
  (forall x, In x xs -> forall r', rd (enc x ++ r') = Ok (g x, r')) ->
  (forall x, In x xs -> (1 <= length (enc x))%nat) ->
  rd_vec rd (enc_usize (len xs) ++ flat_map enc xs ++ r) = Ok (map g xs, r).
Proof.
  intros Hl Hrd Hne. unfold rd_vec. apply N.leb_le in Hl.
  rewrite rd_usize_app by (unfold VEC_LIMIT, U64 in *; lia). cbn [bind].
  replace (VEC_LIMIT <? len xs) with false by (symmetry; apply N.ltb_ge; exact Hl).
  apply read_n_app_S; assumption.
Qed.

(* ------------------------------------------------------------------ *)
(* Unfolding equations for the writer, phrased with the component writers. *)

Lemma ser_struct fv name size align fields :
  ser fv (SStruct name size align fields) =
  1 :: enc_string name ++ enc_usize (len fields) ++ enc_opt_usize size ++ enc_opt_usize align
    ++ flat_map (ser_field (ser fv)) fields.
Proof. reflexivity. Qed.

Lemma ser_enum fv name variants dsize repr size align :
  ser fv (SEnum name variants dsize repr size align) =
  2 :: enc_string name ++ enc_usize (len variants)
    ++ flat_map (ser_variant (ser fv)) variants
    ++ enc_u8 dsize ++ enc_bool repr ++ enc_opt_usize size ++ enc_opt_usize align.
Proof. reflexivity. Qed.

Lemma ser_trait fv m d : ser fv (STrait m d) = 15 :: enc_bool m ++ ser_td fv (ser fv) d.
Proof. reflexivity. Qed.

Lemma ser_fnclosure fv m d : ser fv (SFnClosure m d) = 11 :: enc_bool m ++ ser_td fv (ser fv) d.
Proof. reflexivity. Qed.

Definition fut_mask (send sync unpin : bool) : N :=
  (if send then 1 else 0) + (if sync then 2 else 0) + (if unpin then 4 else 0).

Lemma ser_future fv d send sync unpin :
  ser fv (SFuture d send sync unpin) = 18 :: fut_mask send sync unpin :: ser_td fv (ser fv) d.
Proof. reflexivity. Qed.

Lemma fut_mask_spec send sync unpin :
  fut_mask send sync unpin < 256 /\
  N.testbit (fut_mask send sync unpin) 0 = send /\
  N.testbit (fut_mask send sync unpin) 1 = sync /\
  N.testbit (fut_mask send sync unpin) 2 = unpin.
Proof. destruct send, sync, unpin; (split; [reflexivity|repeat split]). Qed.

Lemma ser_nonempty fv s : (1 <= length (ser fv s))%nat.
Proof. destruct s; cbn [ser length]; lia. Qed.

(* ------------------------------------------------------------------ *)
(* Component round trips, parametric in the schema reader/writer. *)

Section Components.
Variable fv : N.
Variable d : reader schema.
Variable sr : schema -> bytes.

Lemma ser_field_length_val (f : field) : (length (sr (f_val f)) <= length (ser_field sr f))%nat.
Proof. unfold ser_field. rewrite !app_length. lia. Qed.

Lemma ser_field_nonempty (f : field) : (1 <= length (ser_field sr f))%nat.
Proof. unfold ser_field. rewrite !app_length, enc_string_length. lia. Qed.

Lemma ser_variant_length_val (v : variant) (f : field) :
  In f (v_fields v) -> (length (sr (f_val f)) <= length (ser_variant sr v))%nat.
Proof.
  intros Hin. unfold ser_variant. rewrite !app_length.
  pose proof (flat_map_length_in (ser_field sr) f (v_fields v) Hin).
  pose proof (ser_field_length_val f). lia.
Qed.

Lemma ser_variant_nonempty (v : variant) : (1 <= length (ser_variant sr v))%nat.
Proof. unfold ser_variant. rewrite !app_length, enc_string_length. lia. Qed.

Lemma ser_method_length_ret (m : method) : (length (sr (m_ret m)) <= length (ser_method fv sr m))%nat.
Proof. unfold ser_method. rewrite !app_length. lia. Qed.

Lemma ser_method_length_arg (m : method) a :
  In a (m_args m) -> (length (sr a) <= length (ser_method fv sr m))%nat.
Proof.
  intros Hin. unfold ser_method. rewrite !app_length.
  pose proof (flat_map_length_in sr a (m_args m) Hin). lia.
Qed.

Lemma ser_method_nonempty (m : method) : (1 <= length (ser_method fv sr m))%nat.
Proof. unfold ser_method. rewrite !app_length, enc_string_length. lia. Qed.

Lemma ser_td_length_method (td : traitdef) m :
  In m (td_methods td) -> (length (ser_method fv sr m) <= length (ser_td fv sr td))%nat.
Proof.
  intros Hin. unfold ser_td. rewrite !app_length.
  pose proof (flat_map_length_in (ser_method fv sr) m (td_methods td) Hin). lia.
Qed.

Hypothesis Hfv : 0 <? fv = true.

Lemma de_field_rt (f : field) :
  wf_stringb (f_name f) = true -> wf_optb (f_off f) = true ->
  (forall r', d (sr (f_val f) ++ r') = Ok (f_val f, r')) ->
  forall r, de_field fv d (ser_field sr f ++ r) = Ok (f, r).
Proof.
  intros Hn Ho Hd r. destruct f as [name val off]. cbn [f_name f_val f_off] in *.
  unfold de_field, ser_field. cbn [f_name f_val f_off].
  rewrite <- !app_assoc.
  rewrite rd_string_app by (apply wf_stringb_wf; exact Hn). cbn [bind].
  rewrite Hd. cbn [bind].
  unfold rd_gated. rewrite Hfv.
  rewrite rd_opt_usize_app by (apply wf_optb_wf; exact Ho). cbn [bind].
  reflexivity.
Qed.

Lemma de_variant_rt (v : variant) :
  wf_stringb (v_name v) = true -> v_discr v <? 256 = true -> len (v_fields v) <? U64 = true ->
  (forall f, In f (v_fields v) -> forall r', de_field fv d (ser_field sr f ++ r') = Ok (f, r')) ->
  forall r, de_variant fv d (ser_variant sr v ++ r) = Ok (v, r).
Proof.
  intros Hn Hd Hl Hf r. destruct v as [name discr fields]. cbn [v_name v_discr v_fields] in *.
  unfold de_variant, ser_variant. cbn [v_name v_discr v_fields].
  rewrite <- !app_assoc.
  rewrite rd_string_app by (apply wf_stringb_wf; exact Hn). cbn [bind].
  rewrite rd_u8_app by (apply N.ltb_lt; exact Hd). cbn [bind].
  rewrite rd_usize_app by (apply N.ltb_lt; exact Hl). cbn [bind].
  rewrite (read_n_app_S (de_field fv d) (ser_field sr) (fun x => x)).
  - cbn [bind]. rewrite map_id. reflexivity.
  - exact Hf.
  - intros x _. apply ser_field_nonempty.
Qed.

Lemma de_receiver_rt rc r : de_receiver (receiver_tag rc :: r) = Ok (rc, r).
Proof.
  unfold de_receiver. destruct rc; cbn [receiver_tag]; rewrite rd_u8_cons by lia; reflexivity.
Qed.

Lemma de_method_rt (m : method) :
  wf_stringb (m_name m) = true -> len (m_args m) <=? VEC_LIMIT = true ->
  (2 <=? fv = false -> m_recv m = RShared /\ m_async m = false) ->
  (forall r', d (sr (m_ret m) ++ r') = Ok (m_ret m, r')) ->
  (forall a, In a (m_args m) -> forall r', d (sr a ++ r') = Ok (a, r')) ->
  (forall a, In a (m_args m) -> (1 <= length (sr a))%nat) ->
  forall r, de_method fv d (ser_method fv sr m ++ r) = Ok (m, r).
Proof.
  intros Hn Hl Hv1 Hret Hargs Hne r. destruct m as [name ret recv args async].
  cbn [m_name m_ret m_recv m_args m_async] in *.
  unfold de_method, ser_method. cbn [m_name m_ret m_recv m_args m_async].
  rewrite <- !app_assoc.
  rewrite rd_string_app by (apply wf_stringb_wf; exact Hn). cbn [bind].
  rewrite Hret. cbn [bind]. unfold rd_gated.
  destruct (2 <=? fv) eqn:E.
  - rewrite <- !app_assoc. cbn [app]. rewrite de_receiver_rt. cbn [bind].
    rewrite rd_bool_app. cbn [bind].
    rewrite (rd_vec_app d sr (fun x => x)) by assumption. cbn [bind].
    rewrite map_id. reflexivity.
  - destruct (Hv1 eq_refl) as [-> ->]. cbn [app bind].
    rewrite (rd_vec_app d sr (fun x => x)) by assumption. cbn [bind].
    rewrite map_id. reflexivity.
Qed.

(* trait names *)
Lemma split_plus_noplus l : forall acc rest,
  no_plus l = true -> split_plus acc (l ++ rest) = split_plus (rev l ++ acc) rest.
Proof.
  induction l as [|c l IH]; intros acc rest H; [reflexivity|].
  cbn [no_plus forallb] in H. apply andb_true_iff in H as [Hc Hl].
  cbn [app split_plus rev]. apply negb_true_iff in Hc. rewrite Hc.
  rewrite IH by exact Hl. rewrite <- app_assoc. reflexivity.
Qed.

Lemma split_effective name sync send :
  no_plus name = true ->
  split_plus [] (effective_name name sync send) =
  name :: (if sync then [[83; 121; 110; 99]] else []) ++ (if send then [[83; 101; 110; 100]] else []).
Proof.
  intros H. unfold effective_name. rewrite split_plus_noplus by exact H.
  rewrite app_nil_r. rewrite <- (rev_involutive name) at 2.
  generalize (rev name) as c. intros c.
  destruct sync, send; reflexivity.
Qed.

Lemma scan_effective (sync send : bool) :
  scan_segments ((if sync then [[83; 121; 110; 99]] else []) ++ (if send then [[83; 101; 110; 100]] else []))
    false false = Some (sync, send).
Proof. destruct sync, send; reflexivity. Qed.

Lemma de_td_rt (td : traitdef) :
  no_plus (td_name td) = true ->
  wf_stringb (effective_name (td_name td) (td_sync td) (td_send td)) = true ->
  len (td_methods td) <=? VEC_LIMIT = true ->
  (forall m, In m (td_methods td) -> forall r', de_method fv d (ser_method fv sr m ++ r') = Ok (m, r')) ->
  forall r, de_td fv d (ser_td fv sr td ++ r) = Ok (td, r).
Proof.
  intros Hnp Hn Hl Hm r. destruct td as [name methods sync send].
  cbn [td_name td_methods td_sync td_send] in *.
  unfold de_td, ser_td. cbn [td_name td_methods td_sync td_send].
  rewrite <- !app_assoc.
  rewrite rd_string_app by (apply wf_stringb_wf; exact Hn). cbn [bind].
  rewrite split_effective by exact Hnp. rewrite scan_effective.
  rewrite (rd_vec_app (de_method fv d) (ser_method fv sr) (fun x => x)).
  - cbn [bind]. rewrite map_id. reflexivity.
  - exact Hl.
  - exact Hm.
  - intros x _. apply ser_method_nonempty.
Qed.

End Components.

(* ------------------------------------------------------------------ *)
(* Unfolding equations for the boolean predicates. *)

Definition wff (f : field) : bool := wf_stringb (f_name f) && wfs (f_val f) && wf_optb (f_off f).
Definition wfv (v : variant) : bool :=
  wf_stringb (v_name v) && (v_discr v <? 256) && (len (v_fields v) <? U64) && forallb wff (v_fields v).
Definition wfm (m : method) : bool :=
  wf_stringb (m_name m) && wfs (m_ret m) && (len (m_args m) <=? VEC_LIMIT) && forallb wfs (m_args m).
Definition wftd (d : traitdef) : bool :=
  no_plus (td_name d)
  && wf_stringb (effective_name (td_name d) (td_sync d) (td_send d))
  && (len (td_methods d) <=? VEC_LIMIT)
  && forallb wfm (td_methods d).

Lemma wfs_struct name size align fields :
  wfs (SStruct name size align fields) =
  wf_stringb name && wf_optb size && wf_optb align && (len fields <? U64) && forallb wff fields.
Proof. reflexivity. Qed.
Lemma wfs_enum name variants dsize repr size align :
  wfs (SEnum name variants dsize repr size align) =
  wf_stringb name && (len variants <? U64) && (dsize <? 256) && wf_optb size && wf_optb align
  && forallb wfv variants.
Proof. reflexivity. Qed.
Lemma wfs_trait m d : wfs (STrait m d) = wftd d. Proof. reflexivity. Qed.
Lemma wfs_fnclosure m d : wfs (SFnClosure m d) = wftd d. Proof. reflexivity. Qed.
Lemma wfs_future d a b c : wfs (SFuture d a b c) = wftd d. Proof. reflexivity. Qed.

Definition v1m (m : method) : bool :=
  match m_recv m with RShared => true | _ => false end && negb (m_async m)
  && v1_expressible (m_ret m) && forallb v1_expressible (m_args m).
Definition v1td (d : traitdef) : bool := forallb v1m (td_methods d).
Definition v1f (f : field) : bool := v1_expressible (f_val f).

Lemma v1_struct name size align fields :
  v1_expressible (SStruct name size align fields) = forallb v1f fields.
Proof. reflexivity. Qed.
Lemma v1_enum name variants dsize repr size align :
  v1_expressible (SEnum name variants dsize repr size align) =
  forallb (fun v : variant => forallb v1f (v_fields v)) variants.
Proof. reflexivity. Qed.
Lemma v1_trait m d : v1_expressible (STrait m d) = v1td d. Proof. reflexivity. Qed.
Lemma v1_fnclosure m d : v1_expressible (SFnClosure m d) = v1td d. Proof. reflexivity. Qed.
Lemma v1_future d a b c : v1_expressible (SFuture d a b c) = v1td d. Proof. reflexivity. Qed.

(* ------------------------------------------------------------------ *)
(* Round trip for format versions >= 1. *)

Section RoundTrip.
Variable fv : N.
Hypothesis Hfv : 0 <? fv = true.

Definition RT (s : schema) : Prop :=
  wfs s = true -> (2 <=? fv = false -> v1_expressible s = true) ->
  forall fuel r, (length (ser fv s) <= fuel)%nat -> de fv fuel (ser fv s ++ r) = Ok (s, r).

Lemma rt_fields f0 fields :
  Pfields RT fields ->
  forallb wff fields = true ->
  (2 <=? fv = false -> forallb v1f fields = true) ->
  (forall x, In x fields -> length (ser fv (f_val x)) <= f0)%nat ->
  forall x, In x fields -> forall r', de_field fv (de fv f0) (ser_field (ser fv) x ++ r') = Ok (x, r').
Proof.
  intros IH Hwf Hv1 Hlen x Hx r'.
  unfold Pfields in IH. rewrite Forall_forall in IH. rewrite forallb_forall in Hwf.
  specialize (IH x Hx). specialize (Hwf x Hx). unfold wff in Hwf.
  rewrite !andb_true_iff in Hwf. destruct Hwf as [[Hn Hs] Ho].
  apply de_field_rt; try assumption.
  intros r''. apply IH; [exact Hs| |apply Hlen; exact Hx].
  intros E. specialize (Hv1 E). rewrite forallb_forall in Hv1. apply (Hv1 x Hx).
Qed.

Lemma rt_td f0 td :
  Ptd RT td ->
  wftd td = true ->
  (2 <=? fv = false -> v1td td = true) ->
  (length (ser_td fv (ser fv) td) <= f0)%nat ->
  forall r, de_td fv (de fv f0) (ser_td fv (ser fv) td ++ r) = Ok (td, r).
Proof.
  intros IH Hwf Hv1 Hlen r.
  unfold wftd in Hwf. rewrite !andb_true_iff in Hwf. destruct Hwf as [[[Hnp Hn] Hl] Hms].
  apply de_td_rt; try assumption.
  intros m Hm r'.
  unfold Ptd in IH. rewrite Forall_forall in IH. rewrite forallb_forall in Hms.
  specialize (IH m Hm). specialize (Hms m Hm). destruct IH as [IHret IHargs].
  rewrite Forall_forall in IHargs.
  unfold wfm in Hms. rewrite !andb_true_iff in Hms. destruct Hms as [[[Hmn Hmr] Hml] Hma].
  rewrite forallb_forall in Hma.
  pose proof (ser_td_length_method fv (ser fv) td m Hm) as Hlm.
  assert (Hv1m : 2 <=? fv = false -> v1m m = true).
  { intros E. specialize (Hv1 E). unfold v1td in Hv1. rewrite forallb_forall in Hv1. apply Hv1, Hm. }
  apply de_method_rt; try assumption.
  - intros E. specialize (Hv1m E). unfold v1m in Hv1m. rewrite !andb_true_iff in Hv1m.
    destruct Hv1m as [[[Hrc Has] _] _]. split.
    + destruct (m_recv m); [reflexivity|discriminate|discriminate].
    + apply negb_true_iff in Has. exact Has.
  - intros r''. apply IHret; [exact Hmr| |].
    + intros E. specialize (Hv1m E). unfold v1m in Hv1m. rewrite !andb_true_iff in Hv1m.
      destruct Hv1m as [[_ Hr] _]. exact Hr.
    + pose proof (ser_method_length_ret fv (ser fv) m). lia.
  - intros a Ha r''. apply IHargs; [exact Ha|apply Hma; exact Ha| |].
    + intros E. specialize (Hv1m E). unfold v1m in Hv1m. rewrite !andb_true_iff in Hv1m.
      destruct Hv1m as [_ Hr]. rewrite forallb_forall in Hr. apply Hr, Ha.
    + pose proof (ser_method_length_arg fv (ser fv) m a Ha). lia.
  - intros a _. apply ser_nonempty.
Qed.

Lemma rt_all : forall s, RT s.
Proof.
  induction s as
    [name size align fields H | name variants dsize repr size align H | p | s l IHs | s c IHs
    | s IHs | | | c | s IHs | s IHs | | s IHs | m d H | m d H | d | | d send sync unpin H | | ]
    using schema_ind'; unfold RT; intros Hwf Hv1 fuel r Hfuel;
    (destruct fuel as [|f0]; [pose proof (ser_nonempty fv) as Hne; 
      match type of Hfuel with (length (ser fv ?s) <= 0)%nat => specialize (Hne s) end; lia|]).
  - (* struct *)
    rewrite wfs_struct in Hwf. rewrite !andb_true_iff in Hwf.
    destruct Hwf as [[[[Hn Hsz] Hal] Hl] Hfs].
    rewrite ser_struct in Hfuel |- *. cbn [length] in Hfuel. rewrite !app_length in Hfuel.
    cbn [de app]. rewrite rd_u8_cons by lia. cbn [bind].
    rewrite <- !app_assoc.
    rewrite rd_string_app by (apply wf_stringb_wf; exact Hn). cbn [bind].
    rewrite rd_usize_app by (apply N.ltb_lt; exact Hl). cbn [bind].
    unfold rd_gated. rewrite Hfv.
    rewrite rd_opt_usize_app by (apply wf_optb_wf; exact Hsz). cbn [bind].
    rewrite rd_opt_usize_app by (apply wf_optb_wf; exact Hal). cbn [bind].
    rewrite (read_n_app_S (de_field fv (de fv f0)) (ser_field (ser fv)) (fun x => x)).
    + cbn [bind]. rewrite map_id. reflexivity.
    + apply rt_fields; [exact H|exact Hfs|exact Hv1|].
      intros x Hx.
        pose proof (flat_map_length_in (ser_field (ser fv)) x fields Hx).
        pose proof (ser_field_length_val (ser fv) x). lia.
    + intros x _. apply ser_field_nonempty.
  - (* enum *)
    rewrite wfs_enum in Hwf. rewrite !andb_true_iff in Hwf.
    destruct Hwf as [[[[[Hn Hl] Hds] Hsz] Hal] Hvs].
    rewrite ser_enum in Hfuel |- *. cbn [length] in Hfuel. rewrite !app_length in Hfuel.
    cbn [de app]. rewrite rd_u8_cons by lia. cbn [bind].
    rewrite <- !app_assoc.
    rewrite rd_string_app by (apply wf_stringb_wf; exact Hn). cbn [bind].
    rewrite rd_usize_app by (apply N.ltb_lt; exact Hl). cbn [bind].
    rewrite (read_n_app_S (de_variant fv (de fv f0)) (ser_variant (ser fv)) (fun x => x)).
    + cbn [bind]. rewrite map_id. rewrite Hfv.
      rewrite rd_u8_app by (apply N.ltb_lt; exact Hds). cbn [bind].
      rewrite rd_bool_app. cbn [bind].
      rewrite rd_opt_usize_app by (apply wf_optb_wf; exact Hsz). cbn [bind].
      rewrite <- (app_nil_r (enc_opt_usize align)) at 1. rewrite <- app_assoc. cbn [app].
      rewrite rd_opt_usize_app by (apply wf_optb_wf; exact Hal). cbn [bind].
      reflexivity.
    + intros v Hv r'.
      unfold Pvariants in H. rewrite Forall_forall in H. specialize (H v Hv).
      rewrite forallb_forall in Hvs. specialize (Hvs v Hv). unfold wfv in Hvs.
      rewrite !andb_true_iff in Hvs. destruct Hvs as [[[Hvn Hvd] Hvl] Hvf].
      apply de_variant_rt; [exact Hvn|exact Hvd|exact Hvl|].
      apply rt_fields; [exact H|exact Hvf| |].
      * intros E. specialize (Hv1 E). rewrite v1_enum in Hv1. rewrite forallb_forall in Hv1.
        apply Hv1, Hv.
      * intros x Hx.
        pose proof (flat_map_length_in (ser_variant (ser fv)) v variants Hv).
        pose proof (ser_variant_length_val (ser fv) v x Hx). lia.
    + intros x _. apply ser_variant_nonempty.
  - (* prim *)
    destruct p as [ | | | | | | | | l | | | | | | | ]; cbn [ser ser_prim de app prim_tag]; rewrite rd_u8_cons by lia; cbn [bind];
      unfold de_prim; rewrite rd_u8_cons by lia; cbn [bind]; try reflexivity.
    unfold rd_gated, rd_vlayout. rewrite Hfv. cbn [app].
    rewrite rd_u8_cons by (destruct l; cbn [vlayout_tag]; lia). cbn [bind].
    destruct l; reflexivity.
  - (* vector *)
    cbn [ser length] in Hfuel |- *. rewrite app_length in Hfuel.
    cbn [de app]. rewrite rd_u8_cons by lia. cbn [bind].
    rewrite <- app_assoc. rewrite IHs; [|exact Hwf|exact Hv1|lia]. cbn [bind].
    unfold rd_gated, rd_vlayout. rewrite Hfv. cbn [app].
    rewrite rd_u8_cons by (destruct l; cbn [vlayout_tag]; lia). cbn [bind].
    destruct l; reflexivity.
  - (* array *)
    cbn [wfs] in Hwf. apply andb_true_iff in Hwf as [Hs Hc].
    cbn [ser length] in Hfuel |- *. rewrite app_length in Hfuel.
    cbn [de app]. rewrite rd_u8_cons by lia. cbn [bind].
    rewrite <- app_assoc. rewrite rd_usize_app by (apply N.ltb_lt; exact Hc). cbn [bind].
    rewrite IHs; [|exact Hs|exact Hv1|lia]. reflexivity.
  - (* option *)
    cbn [ser length] in Hfuel |- *.
    cbn [de app]. rewrite rd_u8_cons by lia. cbn [bind].
    rewrite IHs; [|exact Hwf|exact Hv1|lia]. reflexivity.
  - cbn [ser de app]. rewrite rd_u8_cons by lia. reflexivity.
  - cbn [ser de app]. rewrite rd_u8_cons by lia. reflexivity.
  - (* custom *)
    cbn [wfs] in Hwf.
    cbn [ser de app]. rewrite rd_u8_cons by lia. cbn [bind].
    rewrite rd_string_app by (apply wf_stringb_wf; exact Hwf). reflexivity.
  - (* boxed *)
    cbn [ser length] in Hfuel |- *.
    cbn [de app]. rewrite rd_u8_cons by lia. cbn [bind].
    rewrite IHs; [|exact Hwf|exact Hv1|lia]. reflexivity.
  - (* slice *)
    cbn [ser length] in Hfuel |- *.
    cbn [de app]. rewrite rd_u8_cons by lia. cbn [bind].
    rewrite IHs; [|exact Hwf|exact Hv1|lia]. reflexivity.
  - cbn [ser de app]. rewrite rd_u8_cons by lia. reflexivity.
  - (* reference *)
    cbn [ser length] in Hfuel |- *.
    cbn [de app]. rewrite rd_u8_cons by lia. cbn [bind].
    rewrite IHs; [|exact Hwf|exact Hv1|lia]. reflexivity.
  - (* trait *)
    rewrite wfs_trait in Hwf. rewrite ser_trait in Hfuel |- *.
    cbn [length] in Hfuel. rewrite app_length in Hfuel.
    cbn [de app]. rewrite rd_u8_cons by lia. cbn [bind].
    rewrite <- app_assoc. rewrite rd_bool_app. cbn [bind].
    rewrite rt_td; [reflexivity|exact H|exact Hwf| |lia].
    intros E. rewrite <- (v1_trait m). apply Hv1, E.
  - (* fnclosure *)
    rewrite wfs_fnclosure in Hwf. rewrite ser_fnclosure in Hfuel |- *.
    cbn [length] in Hfuel. rewrite app_length in Hfuel.
    cbn [de app]. rewrite rd_u8_cons by lia. cbn [bind].
    rewrite <- app_assoc. rewrite rd_bool_app. cbn [bind].
    rewrite rt_td; [reflexivity|exact H|exact Hwf| |lia].
    intros E. rewrite <- (v1_fnclosure m). apply Hv1, E.
  - (* recursion *)
    cbn [wfs] in Hwf.
    cbn [ser de app]. rewrite rd_u8_cons by lia. cbn [bind].
    rewrite rd_usize_app by (apply N.ltb_lt; exact Hwf). reflexivity.
  - cbn [ser de app]. rewrite rd_u8_cons by lia. reflexivity.
  - (* future *)
    rewrite wfs_future in Hwf. rewrite ser_future in Hfuel |- *.
    cbn [length] in Hfuel.
    destruct (fut_mask_spec send sync unpin) as [Hm [H0 [H1 H2]]].
    cbn [de app]. rewrite rd_u8_cons by lia. cbn [bind].
    rewrite rd_u8_cons by exact Hm. cbn [bind].
    rewrite rt_td; [|exact H|exact Hwf| |lia].
    + cbn [bind]. rewrite H0, H1, H2. reflexivity.
    + intros E. rewrite <- (v1_future d send sync unpin). apply Hv1, E.
  - cbn [ser de app]. rewrite rd_u8_cons by lia. reflexivity.
  - cbn [ser de app]. rewrite rd_u8_cons by lia. reflexivity.
Qed.

End RoundTrip.

Theorem de_ser_rt2 : forall s, wfs s = true -> forall r, de_top 2 (ser 2 s ++ r) = Ok (s, r).
Proof.
  intros s Hwf r. unfold de_top. apply (rt_all 2 eq_refl s Hwf).
  - intros E. discriminate E.
  - rewrite app_length. lia.
Qed.

Theorem de_ser_rt1 : forall s, wfs s = true -> v1_expressible s = true ->
  forall r, de_top 1 (ser 1 s ++ r) = Ok (s, r).
Proof.
  intros s Hwf Hv1 r. unfold de_top. apply (rt_all 1 eq_refl s Hwf).
  - intros _. exact Hv1.
  - rewrite app_length. lia.
Qed.

(* ------------------------------------------------------------------ *)
(* Format 0: the reconstructed writer [ser0] against the reader at version 0. *)

Definition ser0_field (f : field) : bytes := enc_string (f_name f) ++ ser0 (f_val f).
Definition strip_field (f : field) : field := Fld (f_name f) (strip (f_val f)) None.
Definition ser0_variant (v : variant) : bytes :=
  enc_string (v_name v) ++ enc_u8 (v_discr v) ++ enc_usize (len (v_fields v))
  ++ flat_map ser0_field (v_fields v).
Definition strip_variant (v : variant) : variant :=
  Var (v_name v) (v_discr v) (map strip_field (v_fields v)).

Lemma ser0_struct name size align fields :
  ser0 (SStruct name size align fields) =
  1 :: enc_string name ++ enc_usize (len fields) ++ flat_map ser0_field fields.
Proof. reflexivity. Qed.
Lemma ser0_enum name variants dsize repr size align :
  ser0 (SEnum name variants dsize repr size align) =
  2 :: enc_string name ++ enc_usize (len variants) ++ flat_map ser0_variant variants.
Proof. reflexivity. Qed.
Lemma strip_struct name size align fields :
  strip (SStruct name size align fields) = SStruct name None None (map strip_field fields).
Proof. reflexivity. Qed.
Lemma strip_enum name variants dsize repr size align :
  strip (SEnum name variants dsize repr size align) =
  SEnum name (map strip_variant variants) 1 false None None.
Proof. reflexivity. Qed.

Definition v0f (f : field) : bool := v0_expressible (f_val f).
Lemma v0_struct name size align fields :
  v0_expressible (SStruct name size align fields) = forallb v0f fields.
Proof. reflexivity. Qed.
Lemma v0_enum name variants dsize repr size align :
  v0_expressible (SEnum name variants dsize repr size align) =
  forallb (fun v : variant => forallb v0f (v_fields v)) variants.
Proof. reflexivity. Qed.

Lemma ser0_nonempty s : (1 <= length (ser0 s))%nat.
Proof. destruct s; cbn [ser0 length]; lia. Qed.

Lemma ser0_field_length_val f : (length (ser0 (f_val f)) <= length (ser0_field f))%nat.
Proof. unfold ser0_field. rewrite !app_length. lia. Qed.
Lemma ser0_field_nonempty f : (1 <= length (ser0_field f))%nat.
Proof. unfold ser0_field. rewrite !app_length, enc_string_length. lia. Qed.
Lemma ser0_variant_length_val v f :
  In f (v_fields v) -> (length (ser0 (f_val f)) <= length (ser0_variant v))%nat.
Proof.
  intros Hin. unfold ser0_variant. rewrite !app_length.
  pose proof (flat_map_length_in ser0_field f (v_fields v) Hin).
  pose proof (ser0_field_length_val f). lia.
Qed.
Lemma ser0_variant_nonempty v : (1 <= length (ser0_variant v))%nat.
Proof. unfold ser0_variant. rewrite !app_length, enc_string_length. lia. Qed.

Lemma de_field0_rt (d : reader schema) (f : field) :
  wf_stringb (f_name f) = true ->
  (forall r', d (ser0 (f_val f) ++ r') = Ok (strip (f_val f), r')) ->
  forall r, de_field 0 d (ser0_field f ++ r) = Ok (strip_field f, r).
Proof.
  intros Hn Hd r. unfold de_field, ser0_field, strip_field.
  rewrite <- !app_assoc.
  rewrite rd_string_app by (apply wf_stringb_wf; exact Hn). cbn [bind].
  rewrite Hd. reflexivity.
Qed.

Lemma de_variant0_rt (d : reader schema) (v : variant) :
  wf_stringb (v_name v) = true -> v_discr v <? 256 = true -> len (v_fields v) <? U64 = true ->
  (forall f, In f (v_fields v) -> forall r', de_field 0 d (ser0_field f ++ r') = Ok (strip_field f, r')) ->
  forall r, de_variant 0 d (ser0_variant v ++ r) = Ok (strip_variant v, r).
Proof.
  intros Hn Hd Hl Hf r. unfold de_variant, ser0_variant, strip_variant.
  rewrite <- !app_assoc.
  rewrite rd_string_app by (apply wf_stringb_wf; exact Hn). cbn [bind].
  rewrite rd_u8_app by (apply N.ltb_lt; exact Hd). cbn [bind].
  rewrite rd_usize_app by (apply N.ltb_lt; exact Hl). cbn [bind].
  rewrite (read_n_app_S (de_field 0 d) ser0_field strip_field).
  - reflexivity.
  - exact Hf.
  - intros x _. apply ser0_field_nonempty.
Qed.

Definition RT0 (s : schema) : Prop :=
  wfs s = true -> v0_expressible s = true ->
  forall fuel r, (length (ser0 s) <= fuel)%nat -> de 0 fuel (ser0 s ++ r) = Ok (strip s, r).

Lemma rt0_fields f0 fields :
  Pfields RT0 fields ->
  forallb wff fields = true ->
  forallb v0f fields = true ->
  (forall x, In x fields -> length (ser0 (f_val x)) <= f0)%nat ->
  forall x, In x fields -> forall r', de_field 0 (de 0 f0) (ser0_field x ++ r') = Ok (strip_field x, r').
Proof.
  intros IH Hwf Hv0 Hlen x Hx r'.
  unfold Pfields in IH. rewrite Forall_forall in IH. rewrite forallb_forall in Hwf, Hv0.
  specialize (IH x Hx). specialize (Hwf x Hx). specialize (Hv0 x Hx). unfold wff in Hwf.
  rewrite !andb_true_iff in Hwf. destruct Hwf as [[Hn Hs] Ho].
  apply de_field0_rt; [exact Hn|].
  intros r''. apply IH; [exact Hs|exact Hv0|apply Hlen; exact Hx].
Qed.

Lemma rt0_all : forall s, RT0 s.
Proof.
  induction s as
    [name size align fields H | name variants dsize repr size align H | p | s l IHs | s c IHs
    | s IHs | | | c | s IHs | s IHs | | s IHs | m d H | m d H | d | | d send sync unpin H | | ]
    using schema_ind'; unfold RT0; intros Hwf Hv0 fuel r Hfuel;
    (destruct fuel as [|f0]; [pose proof ser0_nonempty as Hne;
      match type of Hfuel with (length (ser0 ?s) <= 0)%nat => specialize (Hne s) end; lia|]).
  - (* struct *)
    rewrite wfs_struct in Hwf. rewrite !andb_true_iff in Hwf.
    destruct Hwf as [[[[Hn Hsz] Hal] Hl] Hfs].
    rewrite v0_struct in Hv0. rewrite strip_struct.
    rewrite ser0_struct in Hfuel |- *. cbn [length] in Hfuel. rewrite !app_length in Hfuel.
    cbn [de app]. rewrite rd_u8_cons by lia. cbn [bind].
    rewrite <- !app_assoc.
    rewrite rd_string_app by (apply wf_stringb_wf; exact Hn). cbn [bind].
    rewrite rd_usize_app by (apply N.ltb_lt; exact Hl). cbn [bind].
    unfold rd_gated. change (0 <? 0) with false. cbn [bind].
    rewrite (read_n_app_S (de_field 0 (de 0 f0)) ser0_field strip_field).
    + reflexivity.
    + apply rt0_fields; [exact H|exact Hfs|exact Hv0|].
      intros x Hx.
      pose proof (flat_map_length_in ser0_field x fields Hx).
      pose proof (ser0_field_length_val x). lia.
    + intros x _. apply ser0_field_nonempty.
  - (* enum *)
    rewrite wfs_enum in Hwf. rewrite !andb_true_iff in Hwf.
    destruct Hwf as [[[[[Hn Hl] Hds] Hsz] Hal] Hvs].
    rewrite v0_enum in Hv0. rewrite strip_enum.
    rewrite ser0_enum in Hfuel |- *. cbn [length] in Hfuel. rewrite !app_length in Hfuel.
    cbn [de app]. rewrite rd_u8_cons by lia. cbn [bind].
    rewrite <- !app_assoc.
    rewrite rd_string_app by (apply wf_stringb_wf; exact Hn). cbn [bind].
    rewrite rd_usize_app by (apply N.ltb_lt; exact Hl). cbn [bind].
    rewrite (read_n_app_S (de_variant 0 (de 0 f0)) ser0_variant strip_variant).
    + reflexivity.
    + intros v Hv r'.
      unfold Pvariants in H. rewrite Forall_forall in H. specialize (H v Hv).
      rewrite forallb_forall in Hvs. specialize (Hvs v Hv). unfold wfv in Hvs.
      rewrite !andb_true_iff in Hvs. destruct Hvs as [[[Hvn Hvd] Hvl] Hvf].
      rewrite forallb_forall in Hv0. specialize (Hv0 v Hv).
      apply de_variant0_rt; [exact Hvn|exact Hvd|exact Hvl|].
      apply rt0_fields; [exact H|exact Hvf|exact Hv0|].
      intros x Hx.
      pose proof (flat_map_length_in ser0_variant v variants Hv).
      pose proof (ser0_variant_length_val v x Hx). lia.
    + intros x _. apply ser0_variant_nonempty.
  - (* prim *)
    destruct p; cbn [ser0 de app prim_tag]; rewrite rd_u8_cons by lia; cbn [bind];
      unfold de_prim; rewrite rd_u8_cons by lia; cbn [bind]; reflexivity.
  - (* vector *)
    cbn [ser0 length strip] in Hfuel |- *.
    cbn [de app]. rewrite rd_u8_cons by lia. cbn [bind].
    rewrite IHs; [|exact Hwf|exact Hv0|lia]. reflexivity.
  - (* array *)
    cbn [wfs] in Hwf. apply andb_true_iff in Hwf as [Hs Hc].
    cbn [ser0 length strip] in Hfuel |- *. rewrite app_length in Hfuel.
    cbn [de app]. rewrite rd_u8_cons by lia. cbn [bind].
    rewrite <- app_assoc. rewrite rd_usize_app by (apply N.ltb_lt; exact Hc). cbn [bind].
    rewrite IHs; [|exact Hs|exact Hv0|lia]. reflexivity.
  - (* option *)
    cbn [ser0 length strip] in Hfuel |- *.
    cbn [de app]. rewrite rd_u8_cons by lia. cbn [bind].
    rewrite IHs; [|exact Hwf|exact Hv0|lia]. reflexivity.
  - cbn [ser0 de app]. rewrite rd_u8_cons by lia. reflexivity.
  - cbn [ser0 de app]. rewrite rd_u8_cons by lia. reflexivity.
  - (* custom *)
    cbn [wfs] in Hwf.
    cbn [ser0 de app]. rewrite rd_u8_cons by lia. cbn [bind].
    rewrite rd_string_app by (apply wf_stringb_wf; exact Hwf). reflexivity.
  - (* boxed *)
    cbn [ser0 length strip] in Hfuel |- *.
    cbn [de app]. rewrite rd_u8_cons by lia. cbn [bind].
    rewrite IHs; [|exact Hwf|exact Hv0|lia]. reflexivity.
  - (* slice *)
    cbn [ser0 length strip] in Hfuel |- *.
    cbn [de app]. rewrite rd_u8_cons by lia. cbn [bind].
    rewrite IHs; [|exact Hwf|exact Hv0|lia]. reflexivity.
  - cbn [ser0 de app]. rewrite rd_u8_cons by lia. reflexivity.
  - (* reference *)
    cbn [ser0 length strip] in Hfuel |- *.
    cbn [de app]. rewrite rd_u8_cons by lia. cbn [bind].
    rewrite IHs; [|exact Hwf|exact Hv0|lia]. reflexivity.
  - discriminate Hv0.
  - discriminate Hv0.
  - (* recursion *)
    cbn [wfs] in Hwf.
    cbn [ser0 de app]. rewrite rd_u8_cons by lia. cbn [bind].
    rewrite rd_usize_app by (apply N.ltb_lt; exact Hwf). reflexivity.
  - cbn [ser0 de app]. rewrite rd_u8_cons by lia. reflexivity.
  - discriminate Hv0.
  - cbn [ser0 de app]. rewrite rd_u8_cons by lia. reflexivity.
  - cbn [ser0 de app]. rewrite rd_u8_cons by lia. reflexivity.
Qed.

Theorem de_ser0_strip : forall s, wfs s = true -> v0_expressible s = true ->
  forall r, de_top 0 (ser0 s ++ r) = Ok (strip s, r).
Proof.
  intros s Hwf Hv0 r. unfold de_top. apply (rt0_all s Hwf Hv0).
  rewrite app_length. lia.
Qed.

(* ------------------------------------------------------------------ *)
(* diff: standalone versions of the local fixpoints, with unfolding equations. *)

Definition dfields_go : list field -> list field -> dres :=
  fix go (fa fb : list field) : dres :=
    match fa, fb with
    | x :: ta, y :: tb => dthen (diff (f_val x) (f_val y) false) (go ta tb)
    | _, _ => DSame
    end.
Definition dfields (fa fb : list field) : dres :=
  if negb (Nat.eqb (length fa) (length fb)) then DDiff else dfields_go fa fb.

Definition dvariants_go : list variant -> list variant -> dres :=
  fix gov (va vb : list variant) : dres :=
    match va, vb with
    | x :: ta, y :: tb =>
        if negb (bytes_eqb (v_name x) (v_name y)) then DDiff else
        if negb (v_discr x =? v_discr y) then DDiff else
        dthen (dfields (v_fields x) (v_fields y)) (gov ta tb)
    | _, _ => DSame
    end.

Definition dargs (rp : bool) : list schema -> list schema -> dres :=
  fix goa (aa ab : list schema) : dres :=
    match aa, ab with
    | x :: ta, y :: tb => dthen (diff x y rp) (goa ta tb)
    | _, _ => DSame
    end.
Definition dmethod (rp : bool) (msb : list method) (m : method) : dres :=
  match find_method (m_name m) msb with
  | None => DSame
  | Some bm =>
      if negb (Nat.eqb (length (m_args m)) (length (m_args bm))) then DDiff
      else dargs rp (m_args m) (m_args bm)
  end.
Definition dmethods (rp : bool) (msb : list method) : list method -> dres :=
  fix gom (ma : list method) : dres :=
    match ma with
    | [] => DSame
    | m :: tl => dthen (dmethod rp msb m) (gom tl)
    end.
Definition dabi (rp : bool) (da db : traitdef) : dres := dmethods rp (td_methods db) (td_methods da).

Lemma diff_struct n1 s1 a1 fa n2 s2 a2 fb rp :
  diff (SStruct n1 s1 a1 fa) (SStruct n2 s2 a2 fb) rp = dfields fa fb.
Proof. reflexivity. Qed.
Lemma diff_enum n1 va dsa r1 s1 a1 n2 vb dsb r2 s2 a2 rp :
  diff (SEnum n1 va dsa r1 s1 a1) (SEnum n2 vb dsb r2 s2 a2) rp =
  if negb (Nat.eqb (length va) (length vb)) then DDiff else
  if negb (dsa =? dsb) then DDiff else dvariants_go va vb.
Proof. reflexivity. Qed.
Lemma diff_trait ma da mb db rp :
  diff (STrait ma da) (STrait mb db) rp = if negb (Bool.eqb ma mb) then DDiff else dabi rp da db.
Proof. reflexivity. Qed.
Lemma diff_fnclosure ma da mb db rp :
  diff (SFnClosure ma da) (SFnClosure mb db) rp = if negb (Bool.eqb ma mb) then DDiff else dabi rp da db.
Proof. reflexivity. Qed.
Lemma diff_future da sea sya una db seb syb unb rp :
  diff (SFuture da sea sya una) (SFuture db seb syb unb) rp =
  if negb rp then DPanic else
  if (sea && negb seb) || (sya && negb syb) || (una && negb unb) then DDiff else dabi rp da db.
Proof. reflexivity. Qed.

Lemma dthen_same a b : dthen a b = DSame <-> a = DSame /\ b = DSame.
Proof. destruct a; cbn [dthen]; split; try (intros [? ?]); try discriminate; auto. Qed.

Lemma bytes_eqb_refl a : bytes_eqb a a = true.
Proof. apply bytes_eqb_eq. reflexivity. Qed.

(* ------------------------------------------------------------------ *)
(* diff_refl *)

Definition rf (f : field) : bool := refl_ok false (f_val f).
Definition rtd (rp : bool) (d : traitdef) : bool :=
  nodup_names (map (fun m : method => m_name m) (td_methods d))
  && forallb (fun m : method => forallb (refl_ok rp) (m_args m)) (td_methods d).

Lemma refl_ok_struct rp n s a fs : refl_ok rp (SStruct n s a fs) = forallb rf fs.
Proof. reflexivity. Qed.
Lemma refl_ok_enum rp n vs ds r s a :
  refl_ok rp (SEnum n vs ds r s a) = forallb (fun v : variant => forallb rf (v_fields v)) vs.
Proof. reflexivity. Qed.
Lemma refl_ok_trait rp m d : refl_ok rp (STrait m d) = rtd rp d. Proof. reflexivity. Qed.
Lemma refl_ok_fnclosure rp m d : refl_ok rp (SFnClosure m d) = rtd rp d. Proof. reflexivity. Qed.
Lemma refl_ok_future rp d a b c : refl_ok rp (SFuture d a b c) = rp && rtd rp d. Proof. reflexivity. Qed.

Definition DR (s : schema) : Prop := forall rp, refl_ok rp s = true -> diff s s rp = DSame.

Lemma dfields_go_refl fa :
  Pfields DR fa -> forallb rf fa = true -> dfields_go fa fa = DSame.
Proof.
  unfold Pfields. induction fa as [|x fa IH]; intros HP Hr; [reflexivity|].
  inversion HP as [|? ? Hx Hfa]; subst.
  cbn [forallb] in Hr. apply andb_true_iff in Hr as [Hrx Hrfa].
  cbn [dfields_go]. apply dthen_same. split.
  - apply Hx. exact Hrx.
  - apply IH; assumption.
Qed.

Lemma dfields_refl fa :
  Pfields DR fa -> forallb rf fa = true -> dfields fa fa = DSame.
Proof.
  intros HP Hr. unfold dfields. rewrite Nat.eqb_refl. cbn [negb].
  apply dfields_go_refl; assumption.
Qed.

Lemma dvariants_go_refl va :
  Pvariants DR va -> forallb (fun v : variant => forallb rf (v_fields v)) va = true ->
  dvariants_go va va = DSame.
Proof.
  unfold Pvariants. induction va as [|x va IH]; intros HP Hr; [reflexivity|].
  inversion HP as [|? ? Hx Hva]; subst.
  cbn [forallb] in Hr. apply andb_true_iff in Hr as [Hrx Hrva].
  cbn [dvariants_go]. rewrite bytes_eqb_refl, N.eqb_refl. cbn [negb].
  apply dthen_same. split.
  - apply dfields_refl; assumption.
  - apply IH; assumption.
Qed.

Lemma dargs_refl rp aa :
  Forall DR aa -> forallb (refl_ok rp) aa = true -> dargs rp aa aa = DSame.
Proof.
  induction aa as [|x aa IH]; intros HP Hr; [reflexivity|].
  inversion HP as [|? ? Hx Haa]; subst.
  cbn [forallb] in Hr. apply andb_true_iff in Hr as [Hrx Hraa].
  cbn [dargs]. apply dthen_same. split.
  - apply Hx. exact Hrx.
  - apply IH; assumption.
Qed.

Lemma find_method_nodup ms :
  nodup_names (map (fun m : method => m_name m) ms) = true ->
  forall m, In m ms -> find_method (m_name m) ms = Some m.
Proof.
  induction ms as [|a ms IH]; intros Hnd m Hin; [destruct Hin|].
  cbn [map nodup_names] in Hnd. apply andb_true_iff in Hnd as [Hna Hnd].
  unfold find_method. cbn [find]. destruct Hin as [->|Hin].
  - rewrite bytes_eqb_refl. reflexivity.
  - destruct (bytes_eqb (m_name a) (m_name m)) eqn:E.
    + exfalso. apply negb_true_iff in Hna.
      assert (Hex : existsb (bytes_eqb (m_name a)) (map (fun m0 : method => m_name m0) ms) = true).
      { apply existsb_exists. exists (m_name m). split; [|exact E].
        apply in_map_iff. exists m. split; [reflexivity|exact Hin]. }
      rewrite Hex in Hna. discriminate Hna.
    + apply IH; assumption.
Qed.

Lemma dmethods_refl rp ms :
  nodup_names (map (fun m : method => m_name m) ms) = true ->
  forall ms', (forall m, In m ms' -> In m ms) ->
  Forall (Pmethod DR) ms' ->
  forallb (fun m : method => forallb (refl_ok rp) (m_args m)) ms' = true ->
  dmethods rp ms ms' = DSame.
Proof.
  intros Hnd. induction ms' as [|m ms' IH]; intros Hsub HP Hr; [reflexivity|].
  inversion HP as [|? ? Hm Hms']; subst.
  cbn [forallb] in Hr. apply andb_true_iff in Hr as [Hrm Hrms'].
  cbn [dmethods]. apply dthen_same. split.
  - unfold dmethod. rewrite (find_method_nodup ms Hnd m) by (apply Hsub; left; reflexivity).
    rewrite Nat.eqb_refl. cbn [negb]. destruct Hm as [_ Hargs].
    apply dargs_refl; assumption.
  - apply IH; [|assumption|assumption].
    intros m0 Hm0. apply Hsub. right. exact Hm0.
Qed.

Lemma dabi_refl rp d : Ptd DR d -> rtd rp d = true -> dabi rp d d = DSame.
Proof.
  intros HP Hr. unfold rtd in Hr. apply andb_true_iff in Hr as [Hnd Hr].
  unfold dabi. apply dmethods_refl; [exact Hnd|auto|exact HP|exact Hr].
Qed.

Lemma dr_all : forall s, DR s.
Proof.
  induction s as
    [name size align fields H | name variants dsize repr size align H | p | s l IHs | s c IHs
    | s IHs | | | c | s IHs | s IHs | | s IHs | m d H | m d H | d | | d send sync unpin H | | ]
    using schema_ind'; unfold DR; intros rp Hr.
  - rewrite diff_struct. rewrite refl_ok_struct in Hr. apply dfields_refl; assumption.
  - rewrite diff_enum. rewrite refl_ok_enum in Hr.
    rewrite Nat.eqb_refl, N.eqb_refl. cbn [negb]. apply dvariants_go_refl; assumption.
  - destruct p; reflexivity.
  - exact (IHs false Hr).
  - change (diff (SArray s c) (SArray s c) rp) with (if negb (c =? c) then DDiff else diff s s false).
    rewrite N.eqb_refl. cbn [negb]. exact (IHs false Hr).
  - exact (IHs false Hr).
  - discriminate Hr.
  - reflexivity.
  - change (diff (SCustom c) (SCustom c) rp) with (if bytes_eqb c c then DSame else DDiff).
    rewrite bytes_eqb_refl. reflexivity.
  - exact (IHs rp Hr).
  - exact (IHs rp Hr).
  - reflexivity.
  - exact (IHs rp Hr).
  - rewrite diff_trait. rewrite refl_ok_trait in Hr. rewrite Bool.eqb_reflx. cbn [negb].
    apply dabi_refl; assumption.
  - rewrite diff_fnclosure. rewrite refl_ok_fnclosure in Hr. rewrite Bool.eqb_reflx. cbn [negb].
    apply dabi_refl; assumption.
  - change (diff (SRecursion d) (SRecursion d) rp) with (if d =? d then DSame else DDiff).
    rewrite N.eqb_refl. reflexivity.
  - reflexivity.
  - rewrite diff_future. rewrite refl_ok_future in Hr. apply andb_true_iff in Hr as [Hrp Hr].
    rewrite Hrp. cbn [negb]. rewrite !andb_negb_r. cbn [orb].
    subst rp. apply dabi_refl; assumption.
  - reflexivity.
  - reflexivity.
Qed.

Theorem diff_refl : forall s rp, refl_ok rp s = true -> diff s s rp = DSame.
Proof. intros s rp H. apply (dr_all s rp H). Qed.

(* ------------------------------------------------------------------ *)
(* diff vs shape on the data fragment *)

Definition shf (f : field) : shp := shape (f_val f).
Definition shv (v : variant) : bytes * N * list shp := (v_name v, v_discr v, map shf (v_fields v)).
Definition dff (f : field) : bool := data_frag (f_val f).
Definition dfv (v : variant) : bool := forallb dff (v_fields v).

Lemma shape_struct n s a fs : shape (SStruct n s a fs) = HStruct (map shf fs).
Proof. reflexivity. Qed.
Lemma shape_enum n vs ds r s a : shape (SEnum n vs ds r s a) = HEnum ds (map shv vs).
Proof. reflexivity. Qed.
Lemma data_frag_struct n s a fs : data_frag (SStruct n s a fs) = forallb dff fs.
Proof. reflexivity. Qed.
Lemma data_frag_enum n vs ds r s a : data_frag (SEnum n vs ds r s a) = forallb dfv vs.
Proof. reflexivity. Qed.

Lemma diff_prim_tag a b : diff_prim a b = if prim_tag a =? prim_tag b then DSame else DDiff.
Proof. destruct a, b; reflexivity. Qed.

Definition DS (a : schema) : Prop :=
  forall b rp, data_frag a = true -> data_frag b = true -> diff a b rp = DSame -> shape a = shape b.
Definition SD (a : schema) : Prop :=
  forall b rp, data_frag a = true -> data_frag b = true -> shape a = shape b -> diff a b rp = DSame.

Lemma dfields_go_shape fa :
  Pfields DS fa -> forall fb, forallb dff fa = true -> forallb dff fb = true ->
  length fa = length fb -> dfields_go fa fb = DSame -> map shf fa = map shf fb.
Proof.
  unfold Pfields. induction fa as [|x fa IH]; intros HP fb Ha Hb Hlen Hd;
    destruct fb as [|y fb]; try discriminate Hlen; [reflexivity|].
  inversion HP as [|? ? Hx Hfa]; subst.
  cbn [forallb] in Ha, Hb. apply andb_true_iff in Ha as [Hax Ha]. apply andb_true_iff in Hb as [Hby Hb].
  cbn [dfields_go] in Hd. apply dthen_same in Hd as [Hdx Hd].
  cbn [length] in Hlen. injection Hlen as Hlen.
  cbn [map]. f_equal.
  - exact (Hx (f_val y) false Hax Hby Hdx).
  - apply IH; assumption.
Qed.

Lemma dfields_shape fa fb :
  Pfields DS fa -> forallb dff fa = true -> forallb dff fb = true ->
  dfields fa fb = DSame -> map shf fa = map shf fb.
Proof.
  intros HP Ha Hb Hd. unfold dfields in Hd.
  destruct (Nat.eqb (length fa) (length fb)) eqn:E; cbn [negb] in Hd; [|discriminate Hd].
  apply Nat.eqb_eq in E. apply dfields_go_shape; assumption.
Qed.

Lemma dvariants_go_shape va :
  Pvariants DS va -> forall vb, forallb dfv va = true -> forallb dfv vb = true ->
  length va = length vb -> dvariants_go va vb = DSame -> map shv va = map shv vb.
Proof.
  unfold Pvariants. induction va as [|x va IH]; intros HP vb Ha Hb Hlen Hd;
    destruct vb as [|y vb]; try discriminate Hlen; [reflexivity|].
  inversion HP as [|? ? Hx Hva]; subst.
  cbn [forallb] in Ha, Hb. apply andb_true_iff in Ha as [Hax Ha]. apply andb_true_iff in Hb as [Hby Hb].
  cbn [dvariants_go] in Hd.
  destruct (bytes_eqb (v_name x) (v_name y)) eqn:En; cbn [negb] in Hd; [|discriminate Hd].
  destruct (v_discr x =? v_discr y) eqn:Ed; cbn [negb] in Hd; [|discriminate Hd].
  apply dthen_same in Hd as [Hdx Hd].
  apply bytes_eqb_eq in En. apply N.eqb_eq in Ed.
  cbn [length] in Hlen. injection Hlen as Hlen.
  cbn [map]. f_equal.
  - unfold shv. rewrite En, Ed. f_equal. apply dfields_shape; assumption.
  - apply IH; assumption.
Qed.

Lemma ds_all : forall a, DS a.
Proof.
  induction a as
    [name size align fields IHf | name variants dsize repr size align IHv | p | s l IHs | s c IHs
    | s IHs | | | c | s IHs | s IHs | | s IHs | m d IHd | m d IHd | d | | d send sync unpin IHd | | ]
    using schema_ind'; unfold DS; intros b rp Ha Hb Hd;
  destruct b as
    [n2 sz2 al2 fb | n2 vb ds2 rp2 sz2 al2 | pb | sb lb | sb cb | sb | | | cb | sb | sb | | sb
    | mb db | mb db | db | | db se2 sy2 un2 | | ];
  try discriminate Ha; try discriminate Hb; try discriminate Hd; try reflexivity.
  - (* struct *)
    rewrite diff_struct in Hd. rewrite data_frag_struct in Ha, Hb. rewrite !shape_struct.
    f_equal. apply dfields_shape; assumption.
  - (* enum *)
    rewrite diff_enum in Hd. rewrite data_frag_enum in Ha, Hb. rewrite !shape_enum.
    destruct (Nat.eqb (length variants) (length vb)) eqn:El; cbn [negb] in Hd; [|discriminate Hd].
    destruct (dsize =? ds2) eqn:Ed; cbn [negb] in Hd; [|discriminate Hd].
    apply Nat.eqb_eq in El. apply N.eqb_eq in Ed. subst ds2.
    f_equal. apply dvariants_go_shape; assumption.
  - (* prim *)
    change (diff_prim p pb = DSame) in Hd. rewrite diff_prim_tag in Hd.
    destruct (prim_tag p =? prim_tag pb) eqn:E; [|discriminate Hd].
    apply N.eqb_eq in E. cbn [shape]. rewrite E. reflexivity.
  - (* vector *)
    cbn [shape]. f_equal. exact (IHs sb false Ha Hb Hd).
  - (* array *)
    change (diff (SArray s c) (SArray sb cb) rp) with (if negb (c =? cb) then DDiff else diff s sb false) in Hd.
    destruct (c =? cb) eqn:E; cbn [negb] in Hd; [|discriminate Hd].
    apply N.eqb_eq in E. subst cb. cbn [shape]. f_equal. exact (IHs sb false Ha Hb Hd).
  - (* option *)
    cbn [shape]. f_equal. exact (IHs sb false Ha Hb Hd).
  - (* custom *)
    change (diff (SCustom c) (SCustom cb) rp) with (if bytes_eqb c cb then DSame else DDiff) in Hd.
    destruct (bytes_eqb c cb) eqn:E; [|discriminate Hd].
    apply bytes_eqb_eq in E. subst cb. reflexivity.
  - (* boxed *)
    cbn [shape]. f_equal. exact (IHs sb rp Ha Hb Hd).
  - (* slice *)
    cbn [shape]. f_equal. exact (IHs sb rp Ha Hb Hd).
  - (* reference *)
    cbn [shape]. f_equal. exact (IHs sb rp Ha Hb Hd).
  - (* recursion *)
    change (diff (SRecursion d) (SRecursion db) rp) with (if d =? db then DSame else DDiff) in Hd.
    destruct (d =? db) eqn:E; [|discriminate Hd].
    apply N.eqb_eq in E. subst db. reflexivity.
Qed.

Theorem diff_same_shape : forall a b rp, data_frag a = true -> data_frag b = true ->
  diff a b rp = DSame -> shape a = shape b.
Proof. intros a b rp Ha Hb Hd. exact (ds_all a b rp Ha Hb Hd). Qed.

Lemma shape_dfields_go fa :
  Pfields SD fa -> forall fb, forallb dff fa = true -> forallb dff fb = true ->
  map shf fa = map shf fb -> dfields_go fa fb = DSame.
Proof.
  unfold Pfields. induction fa as [|x fa IH]; intros HP fb Ha Hb Hs;
    destruct fb as [|y fb]; try discriminate Hs; try reflexivity.
  inversion HP as [|? ? Hx Hfa]; subst.
  cbn [forallb] in Ha, Hb. apply andb_true_iff in Ha as [Hax Ha]. apply andb_true_iff in Hb as [Hby Hb].
  cbn [map] in Hs. injection Hs as Hsx Hs.
  cbn [dfields_go]. apply dthen_same. split.
  - exact (Hx (f_val y) false Hax Hby Hsx).
  - apply IH; assumption.
Qed.

Lemma shape_dfields fa fb :
  Pfields SD fa -> forallb dff fa = true -> forallb dff fb = true ->
  map shf fa = map shf fb -> dfields fa fb = DSame.
Proof.
  intros HP Ha Hb Hs. unfold dfields.
  assert (Hlen : length fa = length fb).
  { rewrite <- (map_length shf fa), <- (map_length shf fb), Hs. reflexivity. }
  rewrite Hlen, Nat.eqb_refl. cbn [negb]. apply shape_dfields_go; assumption.
Qed.

Lemma shape_dvariants_go va :
  Pvariants SD va -> forall vb, forallb dfv va = true -> forallb dfv vb = true ->
  map shv va = map shv vb -> dvariants_go va vb = DSame.
Proof.
  unfold Pvariants. induction va as [|x va IH]; intros HP vb Ha Hb Hs;
    destruct vb as [|y vb]; try discriminate Hs; try reflexivity.
  inversion HP as [|? ? Hx Hva]; subst.
  cbn [forallb] in Ha, Hb. apply andb_true_iff in Ha as [Hax Ha]. apply andb_true_iff in Hb as [Hby Hb].
  cbn [map] in Hs. unfold shv at 1 3 in Hs. injection Hs as Hn Hd Hf Hs.
  cbn [dvariants_go]. rewrite Hn, Hd, bytes_eqb_refl, N.eqb_refl. cbn [negb].
  apply dthen_same. split.
  - apply shape_dfields; assumption.
  - apply IH; assumption.
Qed.

Lemma sd_all : forall a, SD a.
Proof.
  induction a as
    [name size align fields IHf | name variants dsize repr size align IHv | p | s l IHs | s c IHs
    | s IHs | | | c | s IHs | s IHs | | s IHs | m d IHd | m d IHd | d | | d send sync unpin IHd | | ]
    using schema_ind'; unfold SD; intros b rp Ha Hb Hs;
  destruct b as
    [n2 sz2 al2 fb | n2 vb ds2 rp2 sz2 al2 | pb | sb lb | sb cb | sb | | | cb | sb | sb | | sb
    | mb db | mb db | db | | db se2 sy2 un2 | | ];
  try discriminate Ha; try discriminate Hb; try discriminate Hs; try reflexivity.
  - (* struct *)
    rewrite diff_struct. rewrite data_frag_struct in Ha, Hb. rewrite !shape_struct in Hs.
    injection Hs as Hs. apply shape_dfields; assumption.
  - (* enum *)
    rewrite diff_enum. rewrite data_frag_enum in Ha, Hb. rewrite !shape_enum in Hs.
    injection Hs as Hds Hs.
    assert (Hlen : length variants = length vb).
    { rewrite <- (map_length shv variants), <- (map_length shv vb), Hs. reflexivity. }
    rewrite Hlen, Nat.eqb_refl, Hds, N.eqb_refl. cbn [negb].
    apply shape_dvariants_go; assumption.
  - (* prim *)
    change (diff_prim p pb = DSame). rewrite diff_prim_tag.
    cbn [shape] in Hs. injection Hs as Hs. rewrite Hs, N.eqb_refl. reflexivity.
  - (* vector *)
    cbn [shape] in Hs. injection Hs as Hs. exact (IHs sb false Ha Hb Hs).
  - (* array *)
    change (diff (SArray s c) (SArray sb cb) rp) with (if negb (c =? cb) then DDiff else diff s sb false).
    cbn [shape] in Hs. injection Hs as Hc Hs. rewrite Hc, N.eqb_refl. cbn [negb].
    exact (IHs sb false Ha Hb Hs).
  - (* option *)
    cbn [shape] in Hs. injection Hs as Hs. exact (IHs sb false Ha Hb Hs).
  - (* custom *)
    change (diff (SCustom c) (SCustom cb) rp) with (if bytes_eqb c cb then DSame else DDiff).
    cbn [shape] in Hs. injection Hs as Hs. rewrite Hs, bytes_eqb_refl. reflexivity.
  - (* boxed *)
    cbn [shape] in Hs. injection Hs as Hs. exact (IHs sb rp Ha Hb Hs).
  - (* slice *)
    cbn [shape] in Hs. injection Hs as Hs. exact (IHs sb rp Ha Hb Hs).
  - (* reference *)
    cbn [shape] in Hs. injection Hs as Hs. exact (IHs sb rp Ha Hb Hs).
  - (* recursion *)
    change (diff (SRecursion d) (SRecursion db) rp) with (if d =? db then DSame else DDiff).
    cbn [shape] in Hs. injection Hs as Hs. rewrite Hs, N.eqb_refl. reflexivity.
Qed.

Theorem shape_diff_same : forall a b rp, data_frag a = true -> data_frag b = true ->
  shape a = shape b -> diff a b rp = DSame.
Proof. intros a b rp Ha Hb Hs. exact (sd_all a b rp Ha Hb Hs). Qed.

Print Assumptions de_ser_rt2.
Print Assumptions de_ser_rt1.
Print Assumptions de_ser0_strip.
Print Assumptions diff_refl.
Print Assumptions diff_same_shape.
Print Assumptions shape_diff_same.
