(* TyProofs.v — proofs about the type-universe encoder [enc] and reader [dec] of Ty.v. *)
From SF Require Import Bytes Ty.
Open Scope N_scope.

(* ------------------------------------------------------------------ *)
(* Induction principle for the nested inductive [ty]. *)

Section TyInd.
Variable P : ty -> Prop.

Definition Pfs (fs : list fdef) : Prop := Forall (fun f => P (fd_ty f)) fs.
Definition Pvs (vs : list vdef) : Prop := Forall (fun vd => Pfs (vd_fields vd)) vs.

Hypothesis H_int : forall k, P (TInt k).
Hypothesis H_bool : P TBool.
Hypothesis H_char : P TChar.
Hypothesis H_f32 : P TF32.
Hypothesis H_f64 : P TF64.
Hypothesis H_unit : P TUnit.
Hypothesis H_string : P TString.
Hypothesis H_vec : forall t, P t -> P (TVec t).
Hypothesis H_seq : forall t, P t -> P (TSeq t).
Hypothesis H_array : forall t n, P t -> P (TArray t n).
Hypothesis H_option : forall t, P t -> P (TOption t).
Hypothesis H_result : forall a b, P a -> P b -> P (TResult a b).
Hypothesis H_box : forall t, P t -> P (TBox t).
Hypothesis H_cell : forall t, P t -> P (TCell t).
Hypothesis H_tuple : forall l ts, Forall P ts -> P (TTuple l ts).
Hypothesis H_struct : forall l fs, Pfs fs -> P (TStruct l fs).
Hypothesis H_enum : forall repr l vo vs, Pvs vs -> P (TEnum repr l vo vs).

Fixpoint ty_ind' (t : ty) : P t :=
  let fields_ind :=
    fix go (l : list fdef) : Pfs l :=
      match l return Pfs l with
      | [] => Forall_nil _
      | f :: r => @Forall_cons _ (fun f => P (fd_ty f)) f r (ty_ind' (fd_ty f)) (go r)
      end in
  let variants_ind :=
    fix go (l : list vdef) : Pvs l :=
      match l return Pvs l with
      | [] => Forall_nil _
      | vd :: r => @Forall_cons _ (fun vd => Pfs (vd_fields vd)) vd r (fields_ind (vd_fields vd)) (go r)
      end in
  let tys_ind :=
    fix go (l : list ty) : Forall P l :=
      match l return Forall P l with
      | [] => Forall_nil _
      | a :: r => @Forall_cons _ P a r (ty_ind' a) (go r)
      end in
  match t return P t with
  | TInt k => H_int k
  | TBool => H_bool
  | TChar => H_char
  | TF32 => H_f32
  | TF64 => H_f64
  | TUnit => H_unit
  | TString => H_string
  | TVec t => H_vec t (ty_ind' t)
  | TSeq t => H_seq t (ty_ind' t)
  | TArray t n => H_array t n (ty_ind' t)
  | TOption t => H_option t (ty_ind' t)
  | TResult a b => H_result a b (ty_ind' a) (ty_ind' b)
  | TBox t => H_box t (ty_ind' t)
  | TCell t => H_cell t (ty_ind' t)
  | TTuple l ts => H_tuple l ts (tys_ind ts)
  | TStruct l fs => H_struct l fs (fields_ind fs)
  | TEnum repr l vo vs => H_enum repr l vo vs (variants_ind vs)
  end.
End TyInd.

(* ------------------------------------------------------------------ *)
(* Standalone copies of the local fixpoints of Ty.v, parametric in the recursive function. *)

Section Pick.
Variable A : Type.
Variable K : vdef -> A.
Variable Dflt : A.
Fixpoint pickg (vs0 : list vdef) (i : nat) {struct vs0} : A :=
  match vs0, i with
  | vd :: _, O => K vd
  | _ :: rv, S j => pickg rv j
  | [], _ => Dflt
  end.

Lemma pickg_nth vs i :
  pickg vs i = match nth_error vs i with Some vd => K vd | None => Dflt end.
Proof.
  revert i; induction vs as [|vd vs IH]; intros [|i]; cbn [pickg nth_error]; try reflexivity.
  apply IH.
Qed.
End Pick.
Arguments pickg {A} K Dflt vs0 i.

Section Mirror.
Variable v : N.
Variable H : ty -> val -> bool.
Variable E : ty -> val -> res bytes.
Variable D : ty -> reader val.
Variable Nm : ty -> val -> val.
Variable W : ty -> val -> bool.

(* has_ty *)
Definition hf (f : fdef) (y : val) : bool :=
  (if is_removed f then match y with VUnit => true | _ => false end else H (fd_ty f) y)
  && (if is_removed f then match fd_kind f with FAbiRemoved => H (fd_ty f) (fd_default f) | _ => true end
      else if full_range f && negb (is_ignored f) then true
      else H (fd_ty f) (fd_default f)).

Fixpoint hflds (fs : list fdef) (xs : list val) {struct fs} : bool :=
  match fs, xs with
  | [], [] => true
  | f :: rf, y :: ry => hf f y && hflds rf ry
  | _, _ => false
  end.

Fixpoint htup (ts : list ty) (xs : list val) {struct ts} : bool :=
  match ts, xs with
  | [], [] => true
  | t :: rt, y :: ry => H t y && htup rt ry
  | _, _ => false
  end.

(* enc *)
Definition efield (f : fdef) (y : val) : res bytes :=
  match fd_kind f with
  | FIgnored => Ok []
  | FNormal => if present v f then E (fd_ty f) y else Ok []
  | FRemoved => if present v f then Panic else Ok []
  | FAbiRemoved => if present v f then E (fd_ty f) (fd_default f) else Ok []
  end.

Fixpoint eflds (fs : list fdef) (xs : list val) {struct fs} : res bytes :=
  match fs, xs with
  | [], [] => Ok []
  | f :: rf, y :: ry =>
      let* a := efield f y in
      let* b := eflds rf ry in
      Ok (a ++ b)
  | _, _ => Err EOther
  end.

Fixpoint etup (ts : list ty) (xs : list val) {struct ts} : res bytes :=
  match ts, xs with
  | [], [] => Ok []
  | t :: rt, y :: ry => let* a := E t y in let* b := etup rt ry in Ok (a ++ b)
  | _, _ => Err EOther
  end.

(* dec *)
Definition dfield (f : fdef) : reader val := fun bs =>
  match fd_kind f with
  | FIgnored => Ok (fd_default f, bs)
  | FNormal => if present v f then D (fd_ty f) bs else Ok (fd_default f, bs)
  | FRemoved | FAbiRemoved =>
      if present v f then let* (_, r) := D (fd_ty f) bs in Ok (VUnit, r) else Ok (VUnit, bs)
  end.

Fixpoint dflds (fs : list fdef) {struct fs} : reader (list val) :=
  fun bs =>
  match fs with
  | [] => Ok ([], bs)
  | f :: rf =>
      let* (y, r) := dfield f bs in
      let* (ys, r') := dflds rf r in
      Ok (y :: ys, r')
  end.

Fixpoint dtup (ts : list ty) {struct ts} : reader (list val) :=
  fun bs =>
  match ts with
  | [] => Ok ([], bs)
  | t :: rt => let* (y, r) := D t bs in let* (ys, r') := dtup rt r in Ok (y :: ys, r')
  end.

(* norm *)
Definition nfield (f : fdef) (y : val) : val :=
  match fd_kind f with
  | FIgnored => fd_default f
  | FNormal => if present v f then Nm (fd_ty f) y else fd_default f
  | FRemoved | FAbiRemoved => VUnit
  end.

Fixpoint nflds (fs : list fdef) (xs : list val) {struct fs} : list val :=
  match fs, xs with
  | f :: rf, y :: ry => nfield f y :: nflds rf ry
  | _, _ => []
  end.

Fixpoint ntup (ts : list ty) (xs : list val) {struct ts} : list val :=
  match ts, xs with
  | t :: rt, y :: ry => Nm t y :: ntup rt ry
  | _, _ => []
  end.

(* writable *)
Definition wfield (f : fdef) (y : val) : bool :=
  match fd_kind f with
  | FIgnored => true
  | FNormal => if present v f then W (fd_ty f) y else true
  | FRemoved => negb (present v f)
  | FAbiRemoved => if present v f then W (fd_ty f) (fd_default f) else true
  end.

Fixpoint wflds (fs : list fdef) (xs : list val) {struct fs} : bool :=
  match fs, xs with
  | f :: rf, y :: ry => wfield f y && wflds rf ry
  | _, _ => true
  end.

Fixpoint wtup (ts : list ty) (xs : list val) {struct ts} : bool :=
  match ts, xs with
  | t :: rt, y :: ry => W t y && wtup rt ry
  | _, _ => true
  end.
End Mirror.

(* ------------------------------------------------------------------ *)
(* Unfolding equations. *)

(* has_ty *)
Lemma has_ty_TInt k z : has_ty (TInt k) (VInt z) = ((int_lo k <=? z) && (z <? int_hi k))%Z.
Proof. reflexivity. Qed.
Lemma has_ty_TBool z : has_ty TBool (VInt z) = ((z =? 0) || (z =? 1))%Z.
Proof. reflexivity. Qed.
Lemma has_ty_TChar z : has_ty TChar (VInt z) = char_ok z.
Proof. reflexivity. Qed.
Lemma has_ty_TF32 z : has_ty TF32 (VInt z) = ((0 <=? z) && (z <? 4294967296))%Z.
Proof. reflexivity. Qed.
Lemma has_ty_TF64 z : has_ty TF64 (VInt z) = ((0 <=? z) && (z <? 18446744073709551616))%Z.
Proof. reflexivity. Qed.
Lemma has_ty_TString b :
  has_ty TString (VStr b) = (N.of_nat (length b) <=? STRING_LIMIT) && utf8_valid b && wfbb b.
Proof. reflexivity. Qed.
Lemma has_ty_TVec t l :
  has_ty (TVec t) (VSeq l) = (N.of_nat (length l) <=? SEQ_LIMIT) && forallb (has_ty t) l.
Proof. reflexivity. Qed.
Lemma has_ty_TSeq t l :
  has_ty (TSeq t) (VSeq l) = (N.of_nat (length l) <=? SEQ_LIMIT) && forallb (has_ty t) l.
Proof. reflexivity. Qed.
Lemma has_ty_TArray t n l :
  has_ty (TArray t n) (VSeq l) = (N.of_nat (length l) =? n) && forallb (has_ty t) l.
Proof. reflexivity. Qed.
Lemma has_ty_TOption_some t y : has_ty (TOption t) (VSome y) = has_ty t y.
Proof. reflexivity. Qed.
Lemma has_ty_TResult_ok a b y : has_ty (TResult a b) (VOk y) = has_ty a y.
Proof. reflexivity. Qed.
Lemma has_ty_TResult_err a b y : has_ty (TResult a b) (VErr y) = has_ty b y.
Proof. reflexivity. Qed.
Lemma has_ty_TBox t y : has_ty (TBox t) y = has_ty t y.
Proof. reflexivity. Qed.
Lemma has_ty_TCell t y : has_ty (TCell t) y = has_ty t y.
Proof. reflexivity. Qed.
Lemma has_ty_TTuple l ts xs : has_ty (TTuple l ts) (VRec xs) = htup has_ty ts xs.
Proof. reflexivity. Qed.
Lemma has_ty_TStruct l fs xs : has_ty (TStruct l fs) (VRec xs) = hflds has_ty fs xs.
Proof. reflexivity. Qed.
Lemma has_ty_TEnum repr l vo vs idx xs :
  has_ty (TEnum repr l vo vs) (VVar idx xs) =
  (idx <? 256 ^ N.of_nat (dwidth repr (length vs)))
  && pickg (fun vd => hflds has_ty (vd_fields vd) xs) false vs (N.to_nat idx).
Proof. reflexivity. Qed.

(* writable *)
Lemma writable_TVec v t l : writable v (TVec t) (VSeq l) = forallb (writable v t) l.
Proof. reflexivity. Qed.
Lemma writable_TSeq v t l : writable v (TSeq t) (VSeq l) = forallb (writable v t) l.
Proof. reflexivity. Qed.
Lemma writable_TArray v t n l : writable v (TArray t n) (VSeq l) = forallb (writable v t) l.
Proof. reflexivity. Qed.
Lemma writable_TOption_some v t y : writable v (TOption t) (VSome y) = writable v t y.
Proof. reflexivity. Qed.
Lemma writable_TResult_ok v a b y : writable v (TResult a b) (VOk y) = writable v a y.
Proof. reflexivity. Qed.
Lemma writable_TResult_err v a b y : writable v (TResult a b) (VErr y) = writable v b y.
Proof. reflexivity. Qed.
Lemma writable_TBox v t y : writable v (TBox t) y = writable v t y.
Proof. reflexivity. Qed.
Lemma writable_TCell v t y : writable v (TCell t) y = writable v t y.
Proof. reflexivity. Qed.
Lemma writable_TTuple v l ts xs : writable v (TTuple l ts) (VRec xs) = wtup (writable v) ts xs.
Proof. reflexivity. Qed.
Lemma writable_TStruct v l fs xs : writable v (TStruct l fs) (VRec xs) = wflds v (writable v) fs xs.
Proof. reflexivity. Qed.
Lemma writable_TEnum v repr l vo vs idx xs :
  writable v (TEnum repr l vo vs) (VVar idx xs) =
  pickg (fun vd => in_range (vd_from vd) (vd_to vd) v && wflds v (writable v) (vd_fields vd) xs)
        false vs (N.to_nat idx).
Proof. reflexivity. Qed.

(* enc *)
Lemma enc_TInt v k z : enc v (TInt k) (VInt z) = Ok (le (ity_bytes k) (twos (ity_bytes k) z)).
Proof. reflexivity. Qed.
Lemma enc_TBool v z : enc v TBool (VInt z) = Ok [if (z =? 0)%Z then 0 else 1].
Proof. reflexivity. Qed.
Lemma enc_TChar v z : enc v TChar (VInt z) = Ok (le 4 (Z.to_N z)).
Proof. reflexivity. Qed.
Lemma enc_TF32 v z : enc v TF32 (VInt z) = Ok (le 4 (Z.to_N z)).
Proof. reflexivity. Qed.
Lemma enc_TF64 v z : enc v TF64 (VInt z) = Ok (le 8 (Z.to_N z)).
Proof. reflexivity. Qed.
Lemma enc_TUnit v : enc v TUnit VUnit = Ok [].
Proof. reflexivity. Qed.
Lemma enc_TString v b : enc v TString (VStr b) = Ok (enc_string b).
Proof. reflexivity. Qed.
Lemma enc_TVec v t l :
  enc v (TVec t) (VSeq l) =
  let* body := concat_res (map (enc v t) l) in Ok (enc_usize (N.of_nat (length l)) ++ body).
Proof. reflexivity. Qed.
Lemma enc_TSeq v t l :
  enc v (TSeq t) (VSeq l) =
  let* body := concat_res (map (enc v t) l) in Ok (enc_usize (N.of_nat (length l)) ++ body).
Proof. reflexivity. Qed.
Lemma enc_TArray v t n l : enc v (TArray t n) (VSeq l) = concat_res (map (enc v t) l).
Proof. reflexivity. Qed.
Lemma enc_TOption_none v t : enc v (TOption t) VNone = Ok [0].
Proof. reflexivity. Qed.
Lemma enc_TOption_some v t y : enc v (TOption t) (VSome y) = let* b := enc v t y in Ok (1 :: b).
Proof. reflexivity. Qed.
Lemma enc_TResult_ok v a b y : enc v (TResult a b) (VOk y) = let* r := enc v a y in Ok (1 :: r).
Proof. reflexivity. Qed.
Lemma enc_TResult_err v a b y : enc v (TResult a b) (VErr y) = let* r := enc v b y in Ok (0 :: r).
Proof. reflexivity. Qed.
Lemma enc_TBox v t y : enc v (TBox t) y = enc v t y.
Proof. reflexivity. Qed.
Lemma enc_TCell v t y : enc v (TCell t) y = enc v t y.
Proof. reflexivity. Qed.
Lemma enc_TTuple v l ts xs : enc v (TTuple l ts) (VRec xs) = etup (enc v) ts xs.
Proof. reflexivity. Qed.
Lemma enc_TStruct v l fs xs : enc v (TStruct l fs) (VRec xs) = eflds v (enc v) fs xs.
Proof. reflexivity. Qed.
Lemma enc_TEnum v repr l vo vs idx xs :
  enc v (TEnum repr l vo vs) (VVar idx xs) =
  pickg (fun vd =>
           if in_range (vd_from vd) (vd_to vd) v then
             let* b := eflds v (enc v) (vd_fields vd) xs in
             Ok (le (dwidth repr (length vs)) idx ++ b)
           else Panic) (Err EOther) vs (N.to_nat idx).
Proof. reflexivity. Qed.

(* dec *)
Lemma dec_TInt v k bs :
  dec v (TInt k) bs =
  let* (n, r) := rd_le (ity_bytes k) bs in Ok (VInt (untwos (ity_signed k) (ity_bytes k) n), r).
Proof. reflexivity. Qed.
Lemma dec_TBool v bs :
  dec v TBool bs = let* (b, r) := rd_u8 bs in Ok (VInt (if b =? 1 then 1 else 0), r).
Proof. reflexivity. Qed.
Lemma dec_TChar v bs :
  dec v TChar bs =
  let* (n, r) := rd_le 4 bs in
  if char_ok (Z.of_N n) then Ok (VInt (Z.of_N n), r) else Err EInvalidChar.
Proof. reflexivity. Qed.
Lemma dec_TF32 v bs : dec v TF32 bs = let* (n, r) := rd_le 4 bs in Ok (VInt (Z.of_N n), r).
Proof. reflexivity. Qed.
Lemma dec_TF64 v bs : dec v TF64 bs = let* (n, r) := rd_le 8 bs in Ok (VInt (Z.of_N n), r).
Proof. reflexivity. Qed.
Lemma dec_TUnit v bs : dec v TUnit bs = Ok (VUnit, bs).
Proof. reflexivity. Qed.
Lemma dec_TString v bs : dec v TString bs = let* (s, r) := rd_string bs in Ok (VStr s, r).
Proof. reflexivity. Qed.
Lemma dec_TVec v t bs :
  dec v (TVec t) bs =
  let* (n, r) := rd_usize bs in
  if negb (packed v t) && (SEQ_LIMIT <? n) then Err EGeneral else
  let* (xs, r') := read_n (dec v t) (seq_fuel n r) n r in Ok (VSeq xs, r').
Proof. reflexivity. Qed.
Lemma dec_TSeq v t bs :
  dec v (TSeq t) bs =
  let* (n, r) := rd_usize bs in
  let* (xs, r') := read_n (dec v t) (seq_fuel n r) n r in Ok (VSeq xs, r').
Proof. reflexivity. Qed.
Lemma dec_TArray v t n bs :
  dec v (TArray t n) bs =
  let* (xs, r') := read_n (dec v t) (N.to_nat n) n bs in Ok (VSeq xs, r').
Proof. reflexivity. Qed.
Lemma dec_TOption v t bs :
  dec v (TOption t) bs =
  let* (b, r) := rd_bool bs in
  if b then let* (y, r') := dec v t r in Ok (VSome y, r') else Ok (VNone, r).
Proof. reflexivity. Qed.
Lemma dec_TResult v a b bs :
  dec v (TResult a b) bs =
  let* (tag, r) := rd_bool bs in
  if tag then let* (y, r') := dec v a r in Ok (VOk y, r')
  else let* (y, r') := dec v b r in Ok (VErr y, r').
Proof. reflexivity. Qed.
Lemma dec_TBox v t : dec v (TBox t) = dec v t.
Proof. reflexivity. Qed.
Lemma dec_TCell v t : dec v (TCell t) = dec v t.
Proof. reflexivity. Qed.
Lemma dec_TTuple v l ts bs :
  dec v (TTuple l ts) bs = let* (ys, r) := dtup (dec v) ts bs in Ok (VRec ys, r).
Proof. reflexivity. Qed.
Lemma dec_TStruct v l fs bs :
  dec v (TStruct l fs) bs = let* (ys, r) := dflds v (dec v) fs bs in Ok (VRec ys, r).
Proof. reflexivity. Qed.
Lemma dec_TEnum v repr l vo vs bs :
  dec v (TEnum repr l vo vs) bs =
  let* (idx, r) := rd_le (dwidth repr (length vs)) bs in
  if N.of_nat (length vs) <=? idx then Err EGeneral else
  pickg (fun vd => let* (ys, r') := dflds v (dec v) (vd_fields vd) r in Ok (VVar idx ys, r'))
        (Err EGeneral) vs (N.to_nat idx).
Proof. reflexivity. Qed.

(* norm *)
Lemma norm_TVec v t l : norm v (TVec t) (VSeq l) = VSeq (map (norm v t) l).
Proof. reflexivity. Qed.
Lemma norm_TSeq v t l : norm v (TSeq t) (VSeq l) = VSeq (map (norm v t) l).
Proof. reflexivity. Qed.
Lemma norm_TArray v t n l : norm v (TArray t n) (VSeq l) = VSeq (map (norm v t) l).
Proof. reflexivity. Qed.
Lemma norm_TOption_some v t y : norm v (TOption t) (VSome y) = VSome (norm v t y).
Proof. reflexivity. Qed.
Lemma norm_TResult_ok v a b y : norm v (TResult a b) (VOk y) = VOk (norm v a y).
Proof. reflexivity. Qed.
Lemma norm_TResult_err v a b y : norm v (TResult a b) (VErr y) = VErr (norm v b y).
Proof. reflexivity. Qed.
Lemma norm_TBox v t y : norm v (TBox t) y = norm v t y.
Proof. reflexivity. Qed.
Lemma norm_TCell v t y : norm v (TCell t) y = norm v t y.
Proof. reflexivity. Qed.
Lemma norm_TTuple v l ts xs : norm v (TTuple l ts) (VRec xs) = VRec (ntup (norm v) ts xs).
Proof. reflexivity. Qed.
Lemma norm_TStruct v l fs xs : norm v (TStruct l fs) (VRec xs) = VRec (nflds v (norm v) fs xs).
Proof. reflexivity. Qed.
Lemma norm_TEnum v repr l vo vs idx xs :
  norm v (TEnum repr l vo vs) (VVar idx xs) =
  VVar idx (pickg (fun vd => nflds v (norm v) (vd_fields vd) xs) xs vs (N.to_nat idx)).
Proof. reflexivity. Qed.

(* ------------------------------------------------------------------ *)
(* Basic facts: bind, read_n, integers. *)

Lemma bind_ok {A B} (r : res A) (k : A -> res B) b :
  bind r k = Ok b -> exists a, r = Ok a /\ k a = Ok b.
Proof. destruct r; cbn [bind]; intros; try discriminate; eauto. Qed.

Lemma read_n_S {A} (rd : reader A) f count bs :
  read_n rd (S f) count bs =
  if count =? 0 then Ok ([], bs) else
    let* (x, r) := rd bs in
    let* (xs, r') := read_n rd f (count - 1) r in
    Ok (x :: xs, r').
Proof. reflexivity. Qed.

Lemma read_n_0 {A} (rd : reader A) f bs : read_n rd f 0 bs = Ok ([], bs).
Proof. destruct f; reflexivity. Qed.

Lemma read_n_O {A} (rd : reader A) count bs :
  read_n rd O count bs = if count =? 0 then Ok ([], bs) else OutOfFuel.
Proof. reflexivity. Qed.

Lemma pow256_pos w : (0 < pow256 w)%Z.
Proof.
  unfold pow256. assert (256 ^ N.of_nat w <> 0) by (apply N.pow_nonzero; lia). lia.
Qed.

Lemma twos_lt w z : twos w z < 256 ^ N.of_nat w.
Proof.
  unfold twos. pose proof (pow256_pos w) as Hp.
  pose proof (Z.mod_pos_bound z (pow256 w) Hp) as Hm. unfold pow256 in *. lia.
Qed.

Lemma pow256_1 : pow256 1 = 256%Z. Proof. reflexivity. Qed.
Lemma pow256_2 : pow256 2 = 65536%Z. Proof. reflexivity. Qed.
Lemma pow256_4 : pow256 4 = 4294967296%Z. Proof. reflexivity. Qed.
Lemma pow256_8 : pow256 8 = 18446744073709551616%Z. Proof. reflexivity. Qed.
Lemma pow256_16 : pow256 16 = 340282366920938463463374607431768211456%Z. Proof. reflexivity. Qed.

Lemma untwos_twos k z :
  (int_lo k <= z < int_hi k)%Z ->
  untwos (ity_signed k) (ity_bytes k) (twos (ity_bytes k) z) = z.
Proof.
  unfold int_lo, int_hi, untwos, twos.
  destruct k; cbn [ity_signed ity_bytes andb];
    rewrite ?pow256_1, ?pow256_2, ?pow256_4, ?pow256_8, ?pow256_16; intros Hz;
    (rewrite Z2N.id by (apply Z.mod_pos_bound; lia));
    try (rewrite Z.geb_leb;
         match goal with |- context [Z.leb ?a ?b] => destruct (Z.leb_spec a b) end);
    Z.to_euclidean_division_equations; lia.
Qed.

(* ------------------------------------------------------------------ *)
(* Round trip (together with totality of the encoder). *)

Definition RT (v : N) (t : ty) : Prop :=
  forall x, has_ty t x = true -> writable v t x = true ->
  exists b, enc v t x = Ok b /\ forall r, dec v t (b ++ r) = Ok (norm v t x, r).

Lemma concat_rt (E : val -> res bytes) (D : reader val) (g : val -> val) l :
  Forall (fun x => exists b, E x = Ok b /\ forall r, D (b ++ r) = Ok (g x, r)) l ->
  exists body, concat_res (map E l) = Ok body /\
    forall fuel r, (length l <= fuel)%nat ->
      read_n D fuel (N.of_nat (length l)) (body ++ r) = Ok (map g l, r).
Proof.
  induction 1 as [|x l Hx _ IH].
  - exists []. split; [reflexivity|]. intros. apply read_n_0.
  - destruct Hx as (b & Hb & Hd). destruct IH as (body & Hbody & Hrd).
    exists (b ++ body). cbn [map concat_res]. rewrite Hb, Hbody. cbn [bind].
    split; [reflexivity|]. intros fuel r Hf.
    destruct fuel as [|fuel]; [cbn [length] in Hf; lia|].
    rewrite read_n_S.
    replace (N.of_nat (length (x :: l)) =? 0) with false
      by (symmetry; apply N.eqb_neq; cbn [length]; lia).
    rewrite <- app_assoc, Hd. cbn [bind].
    replace (N.of_nat (length (x :: l)) - 1) with (N.of_nat (length l)) by (cbn [length]; lia).
    rewrite Hrd by (cbn [length] in Hf; lia). reflexivity.
Qed.

Lemma RT_Forall v t l :
  RT v t -> forallb (has_ty t) l = true -> forallb (writable v t) l = true ->
  Forall (fun x => exists b, enc v t x = Ok b /\ forall r, dec v t (b ++ r) = Ok (norm v t x, r)) l.
Proof.
  intros IH Hh Hw. rewrite forallb_forall in Hh, Hw. apply Forall_forall.
  intros x Hx. apply IH; [apply Hh|apply Hw]; exact Hx.
Qed.

Lemma tup_rt v ts :
  Forall (RT v) ts -> forall xs,
  htup has_ty ts xs = true -> wtup (writable v) ts xs = true ->
  exists b, etup (enc v) ts xs = Ok b /\
    forall r, dtup (dec v) ts (b ++ r) = Ok (ntup (norm v) ts xs, r).
Proof.
  induction 1 as [|t ts Ht _ IH]; intros [|y ry] Hh Hw; cbn [htup wtup] in Hh, Hw; try discriminate.
  - exists []. split; reflexivity.
  - apply andb_true_iff in Hh as [Hh1 Hh2]. apply andb_true_iff in Hw as [Hw1 Hw2].
    destruct (Ht y Hh1 Hw1) as (a & Ha & Hda). destruct (IH ry Hh2 Hw2) as (b & Hb & Hdb).
    exists (a ++ b). cbn [etup dtup ntup]. rewrite Ha, Hb. cbn [bind]. split; [reflexivity|].
    intros r. rewrite <- app_assoc, Hda. cbn [bind]. rewrite Hdb. reflexivity.
Qed.

Lemma field_rt v f y :
  RT v (fd_ty f) -> hf has_ty f y = true -> wfield v (writable v) f y = true ->
  exists b, efield v (enc v) f y = Ok b /\
    forall r, dfield v (dec v) f (b ++ r) = Ok (nfield v (norm v) f y, r).
Proof.
  intros IH Hh Hw. unfold hf, wfield, efield, dfield, nfield, is_removed, is_ignored in *.
  destruct (fd_kind f); destruct (present v f); cbn [negb] in Hw; try discriminate;
    try (exists []; split; reflexivity);
    apply andb_true_iff in Hh as [Hh1 Hh2].
  - destruct (IH y Hh1 Hw) as (b & Hb & Hd). exists b. split; [exact Hb|exact Hd].
  - destruct (IH _ Hh2 Hw) as (b & Hb & Hd). exists b. split; [exact Hb|].
    intros r. rewrite Hd. reflexivity.
Qed.

Lemma fields_rt v fs :
  Pfs (RT v) fs -> forall xs,
  hflds has_ty fs xs = true -> wflds v (writable v) fs xs = true ->
  exists b, eflds v (enc v) fs xs = Ok b /\
    forall r, dflds v (dec v) fs (b ++ r) = Ok (nflds v (norm v) fs xs, r).
Proof.
  induction 1 as [|f fs Hf _ IH]; intros [|y ry] Hh Hw; cbn [hflds wflds] in Hh, Hw; try discriminate.
  - exists []. split; reflexivity.
  - apply andb_true_iff in Hh as [Hh1 Hh2]. apply andb_true_iff in Hw as [Hw1 Hw2].
    destruct (field_rt v f y Hf Hh1 Hw1) as (a & Ha & Hda).
    destruct (IH ry Hh2 Hw2) as (b & Hb & Hdb).
    exists (a ++ b). cbn [eflds dflds nflds]. rewrite Ha, Hb. cbn [bind]. split; [reflexivity|].
    intros r. rewrite <- app_assoc, Hda. cbn [bind]. rewrite Hdb. reflexivity.
Qed.

Lemma rd_u8_cons k r : k < 256 -> rd_u8 (k :: r) = Ok (k, r).
Proof.
  intros H. change (k :: r) with ([k] ++ r).
  unfold rd_u8, rd_le. rewrite take_exact_app by reflexivity.
  cbn [bind unle]. f_equal. f_equal. lia.
Qed.

Lemma rd_bool_cons k r : k < 256 -> rd_bool (k :: r) = Ok (k =? 1, r).
Proof. intros H. unfold rd_bool. rewrite rd_u8_cons by exact H. reflexivity. Qed.

Lemma rt_all v t : RT v t.
Proof.
  induction t using ty_ind'; intros x Hh Hw.
  - (* TInt *)
    destruct x; try discriminate. rewrite has_ty_TInt in Hh.
    apply andb_true_iff in Hh as [H1 H2]. apply Z.leb_le in H1. apply Z.ltb_lt in H2.
    eexists. split; [apply enc_TInt|]. intros r. rewrite dec_TInt.
    rewrite rd_le_app by apply twos_lt. cbn [bind].
    rewrite untwos_twos by lia. reflexivity.
  - (* TBool *)
    destruct x; try discriminate. rewrite has_ty_TBool in Hh.
    eexists. split; [apply enc_TBool|]. intros r. rewrite dec_TBool.
    apply orb_true_iff in Hh as [Hz|Hz]; apply Z.eqb_eq in Hz; subst z; reflexivity.
  - (* TChar *)
    destruct x; try discriminate. rewrite has_ty_TChar in Hh.
    eexists. split; [apply enc_TChar|]. intros r. rewrite dec_TChar.
    assert (Hz : (0 <= z < 1114112)%Z) by (unfold char_ok in Hh; lia).
    rewrite rd_le_app by (change (256 ^ N.of_nat 4) with 4294967296; lia). cbn [bind].
    rewrite Z2N.id by lia. rewrite Hh. reflexivity.
  - (* TF32 *)
    destruct x; try discriminate. rewrite has_ty_TF32 in Hh.
    eexists. split; [apply enc_TF32|]. intros r. rewrite dec_TF32.
    rewrite rd_le_app by (change (256 ^ N.of_nat 4) with 4294967296; lia). cbn [bind].
    rewrite Z2N.id by lia. reflexivity.
  - (* TF64 *)
    destruct x; try discriminate. rewrite has_ty_TF64 in Hh.
    eexists. split; [apply enc_TF64|]. intros r. rewrite dec_TF64.
    rewrite rd_le_app by (change (256 ^ N.of_nat 8) with 18446744073709551616; lia). cbn [bind].
    rewrite Z2N.id by lia. reflexivity.
  - (* TUnit *)
    destruct x; try discriminate. exists []. split; reflexivity.
  - (* TString *)
    destruct x; try discriminate. rewrite has_ty_TString in Hh.
    apply andb_true_iff in Hh as [Hh H3]. apply andb_true_iff in Hh as [H1 H2].
    eexists. split; [apply enc_TString|]. intros r. rewrite dec_TString.
    rewrite rd_string_app by (split; [apply N.leb_le; exact H1|exact H2]). reflexivity.
  - (* TVec *)
    destruct x; try discriminate. rewrite has_ty_TVec in Hh. rewrite writable_TVec in Hw.
    apply andb_true_iff in Hh as [H1 H2]. apply N.leb_le in H1.
    destruct (concat_rt _ _ _ _ (RT_Forall v t l IHt H2 Hw)) as (body & Hbody & Hrd).
    rewrite enc_TVec, Hbody. cbn [bind]. eexists. split; [reflexivity|].
    intros r. rewrite dec_TVec, <- app_assoc.
    rewrite rd_usize_app by (unfold SEQ_LIMIT, Bytes.U64 in *; lia). cbn [bind].
    replace (SEQ_LIMIT <? N.of_nat (length l)) with false by (symmetry; apply N.ltb_ge; exact H1).
    rewrite andb_false_r.
    rewrite Hrd by (unfold seq_fuel; rewrite N.min_l by exact H1; lia).
    cbn [bind]. rewrite norm_TVec. reflexivity.
  - (* TSeq *)
    destruct x; try discriminate. rewrite has_ty_TSeq in Hh. rewrite writable_TSeq in Hw.
    apply andb_true_iff in Hh as [H1 H2]. apply N.leb_le in H1.
    destruct (concat_rt _ _ _ _ (RT_Forall v t l IHt H2 Hw)) as (body & Hbody & Hrd).
    rewrite enc_TSeq, Hbody. cbn [bind]. eexists. split; [reflexivity|].
    intros r. rewrite dec_TSeq, <- app_assoc.
    rewrite rd_usize_app by (unfold SEQ_LIMIT, Bytes.U64 in *; lia). cbn [bind].
    rewrite Hrd by (unfold seq_fuel; rewrite N.min_l by exact H1; lia).
    cbn [bind]. rewrite norm_TSeq. reflexivity.
  - (* TArray *)
    destruct x; try discriminate. rewrite has_ty_TArray in Hh. rewrite writable_TArray in Hw.
    apply andb_true_iff in Hh as [H1 H2]. apply N.eqb_eq in H1.
    destruct (concat_rt _ _ _ _ (RT_Forall v t l IHt H2 Hw)) as (body & Hbody & Hrd).
    rewrite enc_TArray, Hbody. eexists. split; [reflexivity|].
    intros r. rewrite dec_TArray. rewrite <- H1.
    rewrite Hrd by lia.
    cbn [bind]. rewrite norm_TArray. reflexivity.
  - (* TOption *)
    destruct x; try discriminate.
    + exists [0]. split; [reflexivity|]. intros r. rewrite dec_TOption.
      cbn [app]. rewrite rd_bool_cons by lia. reflexivity.
    + rewrite has_ty_TOption_some in Hh. rewrite writable_TOption_some in Hw.
      destruct (IHt x Hh Hw) as (b & Hb & Hd).
      rewrite enc_TOption_some, Hb. cbn [bind]. eexists. split; [reflexivity|].
      intros r. rewrite dec_TOption. cbn [app]. rewrite rd_bool_cons by lia. cbn [bind].
      change (1 =? 1) with true. cbv iota. rewrite Hd. cbn [bind]. rewrite norm_TOption_some. reflexivity.
  - (* TResult *)
    destruct x; try discriminate.
    + rewrite has_ty_TResult_ok in Hh. rewrite writable_TResult_ok in Hw.
      destruct (IHt1 x Hh Hw) as (b & Hb & Hd).
      rewrite enc_TResult_ok, Hb. cbn [bind]. eexists. split; [reflexivity|].
      intros r. rewrite dec_TResult. cbn [app]. rewrite rd_bool_cons by lia. cbn [bind].
      change (1 =? 1) with true. cbv iota. rewrite Hd. cbn [bind]. rewrite norm_TResult_ok. reflexivity.
    + rewrite has_ty_TResult_err in Hh. rewrite writable_TResult_err in Hw.
      destruct (IHt2 x Hh Hw) as (b & Hb & Hd).
      rewrite enc_TResult_err, Hb. cbn [bind]. eexists. split; [reflexivity|].
      intros r. rewrite dec_TResult. cbn [app]. rewrite rd_bool_cons by lia. cbn [bind].
      change (0 =? 1) with false. cbv iota. rewrite Hd. cbn [bind]. rewrite norm_TResult_err. reflexivity.
  - (* TBox *)
    rewrite has_ty_TBox in Hh. rewrite writable_TBox in Hw.
    rewrite enc_TBox, dec_TBox, norm_TBox. apply IHt; assumption.
  - (* TCell *)
    rewrite has_ty_TCell in Hh. rewrite writable_TCell in Hw.
    rewrite enc_TCell, dec_TCell, norm_TCell. apply IHt; assumption.
  - (* TTuple *)
    destruct x; try discriminate. rewrite has_ty_TTuple in Hh. rewrite writable_TTuple in Hw.
    destruct (tup_rt v ts H l0 Hh Hw) as (b & Hb & Hd).
    exists b. rewrite enc_TTuple. split; [exact Hb|].
    intros r. rewrite dec_TTuple, Hd. cbn [bind]. rewrite norm_TTuple. reflexivity.
  - (* TStruct *)
    destruct x; try discriminate. rewrite has_ty_TStruct in Hh. rewrite writable_TStruct in Hw.
    destruct (fields_rt v fs H l0 Hh Hw) as (b & Hb & Hd).
    exists b. rewrite enc_TStruct. split; [exact Hb|].
    intros r. rewrite dec_TStruct, Hd. cbn [bind]. rewrite norm_TStruct. reflexivity.
  - (* TEnum *)
    destruct x; try discriminate. rewrite has_ty_TEnum in Hh. rewrite writable_TEnum in Hw.
    rewrite enc_TEnum, norm_TEnum. rewrite pickg_nth in *.
    apply andb_true_iff in Hh as [Hidx Hh]. apply N.ltb_lt in Hidx.
    destruct (nth_error vs (N.to_nat idx)) as [vd|] eqn:Hn; [|discriminate].
    apply andb_true_iff in Hw as [Hr Hw]. rewrite Hr.
    assert (Hlt : (N.to_nat idx < length vs)%nat) by (apply nth_error_Some; congruence).
    unfold Pvs in H. rewrite Forall_forall in H.
    destruct (fields_rt v (vd_fields vd) (H vd (nth_error_In _ _ Hn)) l0 Hh Hw) as (b & Hb & Hd).
    rewrite Hb. cbn [bind]. eexists. split; [reflexivity|].
    intros r. rewrite dec_TEnum, <- app_assoc. rewrite rd_le_app by exact Hidx. cbn [bind].
    replace (N.of_nat (length vs) <=? idx) with false by (symmetry; apply N.leb_gt; lia).
    rewrite pickg_nth, Hn, Hd. cbn [bind]. rewrite pickg_nth, Hn. reflexivity.
Qed.

Theorem enc_total : forall v t x,
  has_ty t x = true -> writable v t x = true -> exists b, enc v t x = Ok b.
Proof. intros v t x Hh Hw. destruct (rt_all v t x Hh Hw) as (b & Hb & _). eauto. Qed.

Theorem dec_enc_roundtrip : forall v t x b,
  has_ty t x = true -> writable v t x = true ->
  enc v t x = Ok b -> forall r, dec v t (b ++ r) = Ok (norm v t x, r).
Proof.
  intros v t x b Hh Hw He. destruct (rt_all v t x Hh Hw) as (b' & Hb & Hd).
  rewrite He in Hb. inversion Hb; subst b'. exact Hd.
Qed.

(* ------------------------------------------------------------------ *)
(* Stability of successful reads under extension of the input. *)

Definition ext {A} (rd : reader A) : Prop :=
  forall bs y r e, rd bs = Ok (y, r) -> rd (bs ++ e) = Ok (y, r ++ e).

(* one step through a [bind]: case on the first reader, transport it with [lem] *)
Ltac ext_with lem :=
  match goal with
  | H : bind (?rd ?bs) _ = Ok _ |- context [?rd (?bs ++ ?e)] =>
      let E := fresh "E" in
      destruct (rd bs) as [[? ?]| | |] eqn:E; cbn [bind] in H; try discriminate H;
      rewrite (lem _ _ _ e E); cbn [bind]
  end.

Ltac ext_done H := inversion H; subst; reflexivity.

(* case on the condition of the outermost [if] in H (and the goal) *)
Ltac ext_if H :=
  match type of H with
  | (if ?c then _ else _) = Ok _ => destruct c; try discriminate H
  end.

Lemma take_exact_ext k : ext (take_exact k).
Proof.
  intros bs y r e H. unfold take_exact in *.
  destruct (Nat.leb k (length bs)) eqn:E; [|discriminate].
  inversion H; subst. apply Nat.leb_le in E. rewrite app_length.
  replace (Nat.leb k (length bs + length e)) with true by (symmetry; apply Nat.leb_le; lia).
  rewrite firstn_app, skipn_app. replace (k - length bs)%nat with 0%nat by lia.
  cbn [firstn skipn]. rewrite app_nil_r. reflexivity.
Qed.

Lemma rd_le_ext w : ext (rd_le w).
Proof.
  intros bs y r e H. unfold rd_le in *. ext_with (take_exact_ext w). ext_done H.
Qed.

Lemma rd_u8_ext : ext rd_u8.
Proof. apply rd_le_ext. Qed.

Lemma rd_usize_ext : ext rd_usize.
Proof. apply rd_le_ext. Qed.

Lemma rd_bool_ext : ext rd_bool.
Proof.
  intros bs y r e H. unfold rd_bool in *. ext_with rd_u8_ext. ext_done H.
Qed.

Lemma rd_string_ext : ext rd_string.
Proof.
  intros bs y r e H. unfold rd_string in *. ext_with rd_usize_ext.
  ext_if H.
  ext_with (take_exact_ext (N.to_nat n)).
  ext_if H. ext_done H.
Qed.

Lemma read_n_ext {A} (rd : reader A) :
  ext rd -> forall f n bs xs r f' e,
  read_n rd f n bs = Ok (xs, r) -> (f <= f')%nat ->
  read_n rd f' n (bs ++ e) = Ok (xs, r ++ e).
Proof.
  intros Hrd. induction f as [|f IH]; intros n bs xs r f' e H Hf.
  - rewrite read_n_O in H. destruct (n =? 0) eqn:En; [|discriminate].
    apply N.eqb_eq in En; subst n. inversion H; subst. apply read_n_0.
  - rewrite read_n_S in H. destruct (n =? 0) eqn:En.
    + apply N.eqb_eq in En; subst n. inversion H; subst. apply read_n_0.
    + destruct f' as [|f']; [lia|]. rewrite read_n_S, En.
      destruct (rd bs) as [[x r0]| | |] eqn:E1; try discriminate. cbn [bind] in H.
      destruct (read_n rd f (n - 1) r0) as [[xs0 r1]| | |] eqn:E2; try discriminate.
      cbn [bind] in H. inversion H; subst.
      rewrite (Hrd _ _ _ e E1). cbn [bind]. rewrite (IH _ _ _ _ f' e E2) by lia. reflexivity.
Qed.

Lemma seq_fuel_app n r e : (seq_fuel n r <= seq_fuel n (r ++ e))%nat.
Proof. unfold seq_fuel. rewrite app_length. lia. Qed.

Lemma dtup_ext (D : ty -> reader val) ts :
  Forall (fun t => ext (D t)) ts -> ext (dtup D ts).
Proof.
  induction 1 as [|t ts Ht _ IH]; intros bs y r e Hd; cbn [dtup] in *.
  - ext_done Hd.
  - ext_with Ht. ext_with IH. ext_done Hd.
Qed.

Lemma dfield_ext v (D : ty -> reader val) f : ext (D (fd_ty f)) -> ext (dfield v D f).
Proof.
  intros Hf bs y r e H. unfold dfield in *.
  destruct (fd_kind f); destruct (present v f);
    try (ext_done H); try (apply Hf; exact H);
    ext_with Hf; ext_done H.
Qed.

Lemma dflds_ext v (D : ty -> reader val) fs :
  Pfs (fun t => ext (D t)) fs -> ext (dflds v D fs).
Proof.
  induction 1 as [|f fs Hf _ IH]; intros bs y r e Hd; cbn [dflds] in *.
  - ext_done Hd.
  - ext_with (dfield_ext v D f Hf). ext_with IH. ext_done Hd.
Qed.

Lemma dec_ext v t : ext (dec v t).
Proof.
  induction t using ty_ind'; intros bs y r e Hd.
  - rewrite dec_TInt in *. ext_with (rd_le_ext (ity_bytes k)). ext_done Hd.
  - rewrite dec_TBool in *. ext_with rd_u8_ext. ext_done Hd.
  - rewrite dec_TChar in *. ext_with (rd_le_ext 4).
    ext_if Hd. ext_done Hd.
  - rewrite dec_TF32 in *. ext_with (rd_le_ext 4). ext_done Hd.
  - rewrite dec_TF64 in *. ext_with (rd_le_ext 8). ext_done Hd.
  - rewrite dec_TUnit in *. ext_done Hd.
  - rewrite dec_TString in *. ext_with rd_string_ext. ext_done Hd.
  - rewrite dec_TVec in *. ext_with rd_usize_ext.
    ext_if Hd.
    match type of Hd with bind (read_n _ (seq_fuel ?n ?l) _ _) _ = _ =>
      destruct (read_n (dec v t) (seq_fuel n l) n l) as [[xs r1]| | |] eqn:E2; try discriminate;
      rewrite (read_n_ext _ IHt _ _ _ _ _ _ e E2 (seq_fuel_app n l e)) end.
    cbn [bind] in *. ext_done Hd.
  - rewrite dec_TSeq in *. ext_with rd_usize_ext.
    match type of Hd with bind (read_n _ (seq_fuel ?n ?l) _ _) _ = _ =>
      destruct (read_n (dec v t) (seq_fuel n l) n l) as [[xs r1]| | |] eqn:E2; try discriminate;
      rewrite (read_n_ext _ IHt _ _ _ _ _ _ e E2 (seq_fuel_app n l e)) end.
    cbn [bind] in *. ext_done Hd.
  - rewrite dec_TArray in *.
    destruct (read_n (dec v t) (N.to_nat n) n bs) as [[xs r1]| | |] eqn:E2; try discriminate.
    rewrite (read_n_ext _ IHt _ _ _ _ _ _ e E2 (le_n _)).
    cbn [bind] in *. ext_done Hd.
  - rewrite dec_TOption in *. ext_with rd_bool_ext. ext_if Hd.
    + ext_with IHt. ext_done Hd.
    + ext_done Hd.
  - rewrite dec_TResult in *. ext_with rd_bool_ext. ext_if Hd.
    + ext_with IHt1. ext_done Hd.
    + ext_with IHt2. ext_done Hd.
  - rewrite dec_TBox in *. apply IHt. exact Hd.
  - rewrite dec_TCell in *. apply IHt. exact Hd.
  - rewrite dec_TTuple in *. ext_with (dtup_ext (dec v) ts H). ext_done Hd.
  - rewrite dec_TStruct in *. ext_with (dflds_ext v (dec v) fs H). ext_done Hd.
  - rewrite dec_TEnum in *. ext_with (rd_le_ext (dwidth repr (length vs))).
    ext_if Hd.
    rewrite pickg_nth in *.
    match type of Hd with match nth_error vs ?i with _ => _ end = _ =>
      destruct (nth_error vs i) as [vd|] eqn:Hn; [|discriminate] end.
    unfold Pvs in H. rewrite Forall_forall in H.
    ext_with (dflds_ext v (dec v) (vd_fields vd) (H vd (nth_error_In _ _ Hn))). ext_done Hd.
Qed.

Theorem dec_extend : forall v t bs y r e,
  dec v t bs = Ok (y, r) -> dec v t (bs ++ e) = Ok (y, r ++ e).
Proof. intros v t. exact (dec_ext v t). Qed.

Theorem dec_truncated : forall v t x b,
  has_ty t x = true -> writable v t x = true -> enc v t x = Ok b ->
  forall k, (k < length b)%nat -> forall y r, dec v t (firstn k b) <> Ok (y, r).
Proof.
  intros v t x b Hh Hw He k Hk y r Hd.
  apply (dec_extend _ _ _ _ _ (skipn k b)) in Hd. rewrite firstn_skipn in Hd.
  pose proof (dec_enc_roundtrip v t x b Hh Hw He []) as Hrt. rewrite app_nil_r in Hrt.
  rewrite Hrt in Hd. inversion Hd as [[Hy Hr]].
  symmetry in Hr. apply app_eq_nil in Hr as [_ Hs].
  apply (f_equal (@length _)) in Hs. rewrite skipn_length in Hs. cbn [length] in Hs. lia.
Qed.

(* ------------------------------------------------------------------ *)
(* Fuel.  [dec_no_outoffuel] as first stated (forall v t bs, dec v t bs <> OutOfFuel) is FALSE
   for the definitions as they stand: a sequence whose element type has an empty encoding can
   declare more elements than [seq_fuel] provides. *)

Lemma read_n_unit_oof v f : forall n bs,
  N.of_nat f < n -> read_n (dec v TUnit) f n bs = OutOfFuel.
Proof.
  induction f as [|f IH]; intros n bs Hn.
  - rewrite read_n_O. replace (n =? 0) with false by (symmetry; apply N.eqb_neq; lia). reflexivity.
  - rewrite read_n_S. replace (n =? 0) with false by (symmetry; apply N.eqb_neq; lia).
    rewrite dec_TUnit. cbn [bind]. rewrite IH by lia. reflexivity.
Qed.

Lemma dec_no_outoffuel_counterexample :
  dec 0 (TSeq TUnit) (enc_usize 2000000) = OutOfFuel.
Proof.
  rewrite dec_TSeq. rewrite <- (app_nil_r (enc_usize 2000000)).
  rewrite rd_usize_app by (unfold Bytes.U64; lia). cbn [bind].
  rewrite read_n_unit_oof; [reflexivity|].
  unfold seq_fuel, SEQ_LIMIT. cbn [length]. lia.
Qed.

(* the same with Vec<()> (the element type is packed, so the SEQ_LIMIT check is skipped) *)
Lemma dec_no_outoffuel_counterexample_vec :
  dec 0 (TVec TUnit) (enc_usize 2000000) = OutOfFuel.
Proof.
  rewrite dec_TVec. rewrite <- (app_nil_r (enc_usize 2000000)).
  rewrite rd_usize_app by (unfold Bytes.U64; lia). cbn [bind].
  change (packed 0 TUnit) with true. cbn [negb andb].
  rewrite read_n_unit_oof; [reflexivity|].
  unfold seq_fuel, SEQ_LIMIT. cbn [length]. lia.
Qed.

(* the counterexample type is well formed, so [wf_ty] does not rescue the statement *)
Lemma dec_no_outoffuel_counterexample_wf : wf_ty (TSeq TUnit) = true /\ wf_ty (TVec TUnit) = true.
Proof. split; reflexivity. Qed.

Lemma dec_no_outoffuel_false : ~ (forall v t bs, dec v t bs <> OutOfFuel).
Proof. intros H. exact (H _ _ _ dec_no_outoffuel_counterexample). Qed.

(* [consumes v t]: every successful read of a [t] at version [v] consumes at least one byte
   (a sound syntactic criterion). *)
Definition cfield_ (C : ty -> bool) (v : N) (f : fdef) : bool :=
  match fd_kind f with
  | FIgnored => false
  | _ => present v f && C (fd_ty f)
  end.

Fixpoint consumes (v : N) (t : ty) {struct t} : bool :=
  match t with
  | TUnit => false
  | TInt _ | TBool | TChar | TF32 | TF64 | TString | TVec _ | TSeq _ | TOption _ | TResult _ _ => true
  | TArray t n => (0 <? n) && consumes v t
  | TBox t | TCell t => consumes v t
  | TTuple _ ts => existsb (consumes v) ts
  | TStruct _ fs => existsb (cfield_ (consumes v) v) fs
  | TEnum repr _ _ vs =>
      Nat.ltb 0 (dwidth repr (length vs))
      || forallb (fun vd : vdef => existsb (cfield_ (consumes v) v) (vd_fields vd)) vs
  end.

(* [nonempty_elems v t]: every Vec/VecDeque-like element type that is actually read at version
   [v] has a nonempty encoding (for [TVec] this is only needed when the element type is packed:
   otherwise the reader enforces SEQ_LIMIT, and the fuel covers SEQ_LIMIT elements). *)
Definition nfield_ (C : ty -> bool) (v : N) (f : fdef) : bool :=
  match fd_kind f with
  | FIgnored => true
  | _ => negb (present v f) || C (fd_ty f)
  end.

Fixpoint nonempty_elems (v : N) (t : ty) {struct t} : bool :=
  match t with
  | TVec t => (negb (packed v t) || consumes v t) && nonempty_elems v t
  | TSeq t => consumes v t && nonempty_elems v t
  | TArray t _ | TOption t | TBox t | TCell t => nonempty_elems v t
  | TResult a b => nonempty_elems v a && nonempty_elems v b
  | TTuple _ ts => forallb (nonempty_elems v) ts
  | TStruct _ fs => forallb (nfield_ (nonempty_elems v) v) fs
  | TEnum _ _ _ vs => forallb (fun vd : vdef => forallb (nfield_ (nonempty_elems v) v) (vd_fields vd)) vs
  | _ => true
  end.

Lemma consumes_TArray v t n : consumes v (TArray t n) = (0 <? n) && consumes v t.
Proof. reflexivity. Qed.
Lemma consumes_TBox v t : consumes v (TBox t) = consumes v t.
Proof. reflexivity. Qed.
Lemma consumes_TCell v t : consumes v (TCell t) = consumes v t.
Proof. reflexivity. Qed.
Lemma consumes_TTuple v l ts : consumes v (TTuple l ts) = existsb (consumes v) ts.
Proof. reflexivity. Qed.
Lemma consumes_TStruct v l fs : consumes v (TStruct l fs) = existsb (cfield_ (consumes v) v) fs.
Proof. reflexivity. Qed.
Lemma consumes_TEnum v repr l vo vs :
  consumes v (TEnum repr l vo vs) =
  Nat.ltb 0 (dwidth repr (length vs))
  || forallb (fun vd : vdef => existsb (cfield_ (consumes v) v) (vd_fields vd)) vs.
Proof. reflexivity. Qed.

Lemma ne_TVec v t :
  nonempty_elems v (TVec t) = (negb (packed v t) || consumes v t) && nonempty_elems v t.
Proof. reflexivity. Qed.
Lemma ne_TSeq v t : nonempty_elems v (TSeq t) = consumes v t && nonempty_elems v t.
Proof. reflexivity. Qed.
Lemma ne_TArray v t n : nonempty_elems v (TArray t n) = nonempty_elems v t.
Proof. reflexivity. Qed.
Lemma ne_TOption v t : nonempty_elems v (TOption t) = nonempty_elems v t.
Proof. reflexivity. Qed.
Lemma ne_TResult v a b : nonempty_elems v (TResult a b) = nonempty_elems v a && nonempty_elems v b.
Proof. reflexivity. Qed.
Lemma ne_TBox v t : nonempty_elems v (TBox t) = nonempty_elems v t.
Proof. reflexivity. Qed.
Lemma ne_TCell v t : nonempty_elems v (TCell t) = nonempty_elems v t.
Proof. reflexivity. Qed.
Lemma ne_TTuple v l ts : nonempty_elems v (TTuple l ts) = forallb (nonempty_elems v) ts.
Proof. reflexivity. Qed.
Lemma ne_TStruct v l fs :
  nonempty_elems v (TStruct l fs) = forallb (nfield_ (nonempty_elems v) v) fs.
Proof. reflexivity. Qed.
Lemma ne_TEnum v repr l vo vs :
  nonempty_elems v (TEnum repr l vo vs) =
  forallb (fun vd : vdef => forallb (nfield_ (nonempty_elems v) v) (vd_fields vd)) vs.
Proof. reflexivity. Qed.

(* ---- how much a successful read consumes ---- *)

Ltac len_step H lem :=
  match type of H with
  | bind (?rd ?bs) _ = Ok _ =>
      let E := fresh "E" in
      destruct (rd bs) as [[? ?]| | |] eqn:E; cbn [bind] in H; try discriminate H;
      apply lem in E
  end.

Ltac len_if H :=
  match type of H with
  | (if ?c then _ else _) = Ok _ => destruct c eqn:?; try discriminate H
  end.

Lemma take_exact_len k bs a r : take_exact k bs = Ok (a, r) -> length bs = (k + length r)%nat.
Proof. intros H. apply take_exact_ok in H as [-> <-]. apply app_length. Qed.

Lemma rd_le_len w bs n r : rd_le w bs = Ok (n, r) -> length bs = (w + length r)%nat.
Proof.
  unfold rd_le. intros H. len_step H (take_exact_len w). inversion H; subst. exact E.
Qed.

Lemma rd_bool_len bs b r : rd_bool bs = Ok (b, r) -> length bs = (1 + length r)%nat.
Proof.
  unfold rd_bool, rd_u8. intros H. len_step H (rd_le_len 1). inversion H; subst. exact E.
Qed.

Lemma rd_string_len bs s r : rd_string bs = Ok (s, r) -> (8 + length r <= length bs)%nat.
Proof.
  unfold rd_string, rd_usize. intros H. len_step H (rd_le_len 8). len_if H.
  match type of H with bind (take_exact ?k ?l) _ = _ => len_step H (take_exact_len k) end.
  len_if H. inversion H; subst. lia.
Qed.

Lemma read_n_len {A} (rd : reader A) :
  (forall bs y r, rd bs = Ok (y, r) -> (length r <= length bs)%nat) ->
  forall f n bs xs r, read_n rd f n bs = Ok (xs, r) -> (length r <= length bs)%nat.
Proof.
  intros Hrd. induction f as [|f IH]; intros n bs xs r H.
  - rewrite read_n_O in H. destruct (n =? 0); [|discriminate]. inversion H; subst. lia.
  - rewrite read_n_S in H. destruct (n =? 0); [inversion H; subst; lia|].
    destruct (rd bs) as [[x r0]| | |] eqn:E1; try discriminate. cbn [bind] in H.
    destruct (read_n rd f (n - 1) r0) as [[xs0 r1]| | |] eqn:E2; try discriminate.
    cbn [bind] in H. inversion H; subst.
    apply Hrd in E1. apply IH in E2. lia.
Qed.

Lemma read_n_len_lt {A} (rd : reader A) :
  (forall bs y r, rd bs = Ok (y, r) -> (length r < length bs)%nat) ->
  forall f n bs xs r, n <> 0 -> read_n rd f n bs = Ok (xs, r) -> (length r < length bs)%nat.
Proof.
  intros Hrd f n bs xs r Hn H.
  assert (En : n =? 0 = false) by (apply N.eqb_neq; exact Hn).
  destruct f as [|f].
  - rewrite read_n_O, En in H. discriminate.
  - rewrite read_n_S, En in H.
    destruct (rd bs) as [[x r0]| | |] eqn:E1; try discriminate. cbn [bind] in H.
    destruct (read_n rd f (n - 1) r0) as [[xs0 r1]| | |] eqn:E2; try discriminate.
    cbn [bind] in H. inversion H; subst.
    apply Hrd in E1. apply read_n_len in E2; [lia|].
    intros bs0 y0 r2 H0. apply Hrd in H0. lia.
Qed.

Definition LEN (v : N) (t : ty) : Prop :=
  forall bs y r, dec v t bs = Ok (y, r) ->
  (length r <= length bs)%nat /\ (consumes v t = true -> (length r < length bs)%nat).

Lemma ity_bytes_pos k : (1 <= ity_bytes k)%nat.
Proof. destruct k; cbn [ity_bytes]; lia. Qed.

Lemma dtup_len v ts :
  Forall (LEN v) ts -> forall bs ys r, dtup (dec v) ts bs = Ok (ys, r) ->
  (length r <= length bs)%nat /\ (existsb (consumes v) ts = true -> (length r < length bs)%nat).
Proof.
  induction 1 as [|t ts Ht _ IH]; intros bs ys r Hd; cbn [dtup existsb] in *.
  - inversion Hd; subst. split; [lia|discriminate].
  - destruct (dec v t bs) as [[y r0]| | |] eqn:E1; try discriminate. cbn [bind] in Hd.
    destruct (dtup (dec v) ts r0) as [[ys0 r1]| | |] eqn:E2; try discriminate.
    cbn [bind] in Hd. inversion Hd; subst.
    apply Ht in E1 as [L1 S1]. apply IH in E2 as [L2 S2]. split; [lia|].
    intros Hc. apply orb_true_iff in Hc as [Hc|Hc]; [specialize (S1 Hc)|specialize (S2 Hc)]; lia.
Qed.

Lemma dfield_len v f :
  LEN v (fd_ty f) -> forall bs y r, dfield v (dec v) f bs = Ok (y, r) ->
  (length r <= length bs)%nat /\ (cfield_ (consumes v) v f = true -> (length r < length bs)%nat).
Proof.
  intros Hf bs y r Hd. unfold dfield, cfield_ in *.
  destruct (fd_kind f); destruct (present v f); cbn [andb];
    try (inversion Hd; subst; split; [lia|discriminate]);
    try (apply Hf in Hd; exact Hd);
    (destruct (dec v (fd_ty f) bs) as [[y0 r0]| | |] eqn:E1; try discriminate;
     cbn [bind] in Hd; inversion Hd; subst; apply Hf in E1; exact E1).
Qed.

Lemma dflds_len v fs :
  Pfs (LEN v) fs -> forall bs ys r, dflds v (dec v) fs bs = Ok (ys, r) ->
  (length r <= length bs)%nat /\ (existsb (cfield_ (consumes v) v) fs = true -> (length r < length bs)%nat).
Proof.
  induction 1 as [|f fs Hf _ IH]; intros bs ys r Hd; cbn [dflds existsb] in *.
  - inversion Hd; subst. split; [lia|discriminate].
  - destruct (dfield v (dec v) f bs) as [[y r0]| | |] eqn:E1; try discriminate. cbn [bind] in Hd.
    destruct (dflds v (dec v) fs r0) as [[ys0 r1]| | |] eqn:E2; try discriminate.
    cbn [bind] in Hd. inversion Hd; subst.
    apply (dfield_len v f Hf) in E1 as [L1 S1]. apply IH in E2 as [L2 S2]. split; [lia|].
    intros Hc. apply orb_true_iff in Hc as [Hc|Hc]; [specialize (S1 Hc)|specialize (S2 Hc)]; lia.
Qed.

Lemma len_all v t : LEN v t.
Proof.
  induction t using ty_ind'; intros bs y r Hd.
  - rewrite dec_TInt in Hd. len_step Hd (rd_le_len (ity_bytes k)).
    inversion Hd; subst. pose proof (ity_bytes_pos k). lia.
  - rewrite dec_TBool in Hd. len_step Hd (rd_le_len 1). inversion Hd; subst. lia.
  - rewrite dec_TChar in Hd. len_step Hd (rd_le_len 4). len_if Hd. inversion Hd; subst. lia.
  - rewrite dec_TF32 in Hd. len_step Hd (rd_le_len 4). inversion Hd; subst. lia.
  - rewrite dec_TF64 in Hd. len_step Hd (rd_le_len 8). inversion Hd; subst. lia.
  - rewrite dec_TUnit in Hd. inversion Hd; subst. split; [lia|discriminate].
  - rewrite dec_TString in Hd. len_step Hd rd_string_len. inversion Hd; subst. lia.
  - rewrite dec_TVec in Hd. len_step Hd (rd_le_len 8). len_if Hd.
    match type of Hd with bind (read_n ?rd ?f ?n ?l) _ = _ =>
      destruct (read_n rd f n l) as [[xs r1]| | |] eqn:E2; try discriminate end.
    cbn [bind] in Hd. inversion Hd; subst.
    apply read_n_len in E2; [lia|]. intros bs0 y0 r0 H0. apply IHt in H0. tauto.
  - rewrite dec_TSeq in Hd. len_step Hd (rd_le_len 8).
    match type of Hd with bind (read_n ?rd ?f ?n ?l) _ = _ =>
      destruct (read_n rd f n l) as [[xs r1]| | |] eqn:E2; try discriminate end.
    cbn [bind] in Hd. inversion Hd; subst.
    apply read_n_len in E2; [lia|]. intros bs0 y0 r0 H0. apply IHt in H0. tauto.
  - rewrite dec_TArray in Hd.
    destruct (read_n (dec v t) (N.to_nat n) n bs) as [[xs r1]| | |] eqn:E2; try discriminate.
    cbn [bind] in Hd. inversion Hd; subst. split.
    + apply read_n_len in E2; [lia|]. intros bs0 y0 r0 H0. apply IHt in H0. tauto.
    + rewrite consumes_TArray. intros Hc. apply andb_true_iff in Hc as [Hn Hc].
      apply N.ltb_lt in Hn.
      apply read_n_len_lt in E2; [lia| |lia]. intros bs0 y0 r0 H0. apply IHt in H0. tauto.
  - rewrite dec_TOption in Hd. len_step Hd rd_bool_len. len_if Hd.
    + len_step Hd IHt. inversion Hd; subst. lia.
    + inversion Hd; subst. lia.
  - rewrite dec_TResult in Hd. len_step Hd rd_bool_len. len_if Hd.
    + len_step Hd IHt1. inversion Hd; subst. lia.
    + len_step Hd IHt2. inversion Hd; subst. lia.
  - rewrite dec_TBox in Hd. rewrite consumes_TBox. apply IHt in Hd. exact Hd.
  - rewrite dec_TCell in Hd. rewrite consumes_TCell. apply IHt in Hd. exact Hd.
  - rewrite dec_TTuple in Hd. rewrite consumes_TTuple.
    destruct (dtup (dec v) ts bs) as [[ys r0]| | |] eqn:E1; try discriminate. cbn [bind] in Hd.
    inversion Hd; subst. exact (dtup_len v ts H _ _ _ E1).
  - rewrite dec_TStruct in Hd. rewrite consumes_TStruct.
    destruct (dflds v (dec v) fs bs) as [[ys r0]| | |] eqn:E1; try discriminate. cbn [bind] in Hd.
    inversion Hd; subst. exact (dflds_len v fs H _ _ _ E1).
  - rewrite dec_TEnum in Hd. rewrite consumes_TEnum.
    len_step Hd (rd_le_len (dwidth repr (length vs))). len_if Hd.
    rewrite pickg_nth in Hd.
    match type of Hd with match nth_error vs ?i with _ => _ end = _ =>
      destruct (nth_error vs i) as [vd|] eqn:Hn; [|discriminate] end.
    unfold Pvs in H. rewrite Forall_forall in H.
    pose proof (nth_error_In _ _ Hn) as Hin.
    len_step Hd (dflds_len v (vd_fields vd) (H vd Hin)).
    match goal with E : _ /\ _ |- _ => destruct E as [L1 S1] end.
    inversion Hd; subst.
    split; [lia|]. intros Hc. apply orb_true_iff in Hc as [Hc|Hc].
    + apply Nat.ltb_lt in Hc. lia.
    + rewrite forallb_forall in Hc. specialize (S1 (Hc vd Hin)). lia.
Qed.

Lemma dec_len v t bs y r : dec v t bs = Ok (y, r) -> (length r <= length bs)%nat.
Proof. intros H. apply len_all in H. tauto. Qed.

Lemma dec_len_lt v t bs y r :
  consumes v t = true -> dec v t bs = Ok (y, r) -> (length r < length bs)%nat.
Proof. intros Hc H. apply len_all in H. tauto. Qed.

(* ---- the reader never runs out of fuel when sequence elements are nonempty ---- *)

Lemma bind_noof {A B} (r : res A) (k : A -> res B) :
  r <> OutOfFuel -> (forall a, r = Ok a -> k a <> OutOfFuel) -> bind r k <> OutOfFuel.
Proof. intros H1 H2. destruct r; cbn [bind]; try congruence. apply H2; reflexivity. Qed.

Lemma take_exact_noof k bs : take_exact k bs <> OutOfFuel.
Proof. unfold take_exact. destruct (Nat.leb k (length bs)); discriminate. Qed.

Lemma rd_le_noof w bs : rd_le w bs <> OutOfFuel.
Proof.
  unfold rd_le. apply bind_noof; [apply take_exact_noof|]. intros [a r] _. discriminate.
Qed.

Lemma rd_bool_noof bs : rd_bool bs <> OutOfFuel.
Proof.
  unfold rd_bool. apply bind_noof; [apply rd_le_noof|]. intros [a r] _. discriminate.
Qed.

Lemma rd_string_noof bs : rd_string bs <> OutOfFuel.
Proof.
  unfold rd_string. apply bind_noof; [apply rd_le_noof|]. intros [n r] _. cbv beta iota.
  destruct (STRING_LIMIT <? n); [discriminate|].
  apply bind_noof; [apply take_exact_noof|]. intros [s r'] _. cbv beta iota.
  destruct (utf8_valid s); discriminate.
Qed.

(* enough fuel for the declared count *)
Lemma read_n_noof_count {A} (rd : reader A) :
  (forall bs, rd bs <> OutOfFuel) ->
  forall f n bs, (N.to_nat n <= f)%nat -> read_n rd f n bs <> OutOfFuel.
Proof.
  intros Hrd. induction f as [|f IH]; intros n bs Hf.
  - rewrite read_n_O. replace (n =? 0) with true by (symmetry; apply N.eqb_eq; lia). discriminate.
  - rewrite read_n_S. destruct (n =? 0) eqn:En; [discriminate|]. apply N.eqb_neq in En.
    apply bind_noof; [apply Hrd|]. intros [x r] _. cbv beta iota.
    apply bind_noof; [apply IH; lia|]. intros [xs r'] _. discriminate.
Qed.

(* enough fuel for the input length, when every element consumes input *)
Lemma read_n_noof_len {A} (rd : reader A) :
  (forall bs, rd bs <> OutOfFuel) ->
  (forall bs y r, rd bs = Ok (y, r) -> (length r < length bs)%nat) ->
  forall f n bs, (length bs < f)%nat -> read_n rd f n bs <> OutOfFuel.
Proof.
  intros Hrd Hlt. induction f as [|f IH]; intros n bs Hf; [lia|].
  rewrite read_n_S. destruct (n =? 0); [discriminate|].
  apply bind_noof; [apply Hrd|]. intros [x r] E. cbv beta iota.
  apply Hlt in E.
  apply bind_noof; [apply IH; lia|]. intros [xs r'] _. discriminate.
Qed.

Definition NOOF (v : N) (t : ty) : Prop :=
  nonempty_elems v t = true -> forall bs, dec v t bs <> OutOfFuel.

Lemma dtup_noof v ts :
  Forall (NOOF v) ts -> forallb (nonempty_elems v) ts = true ->
  forall bs, dtup (dec v) ts bs <> OutOfFuel.
Proof.
  induction 1 as [|t ts Ht _ IH]; intros Hne bs; cbn [dtup forallb] in *; [discriminate|].
  apply andb_true_iff in Hne as [Hn1 Hn2].
  apply bind_noof; [apply Ht; exact Hn1|]. intros [y r] _. cbv beta iota.
  apply bind_noof; [apply IH; exact Hn2|]. intros [ys r'] _. discriminate.
Qed.

Lemma dfield_noof v f :
  NOOF v (fd_ty f) -> nfield_ (nonempty_elems v) v f = true ->
  forall bs, dfield v (dec v) f bs <> OutOfFuel.
Proof.
  intros Hf Hne bs. unfold dfield, nfield_ in *.
  destruct (fd_kind f); destruct (present v f); cbn [negb orb] in Hne; try discriminate;
    try (apply Hf; exact Hne);
    (apply bind_noof; [apply Hf; exact Hne|]; intros [y r] _; discriminate).
Qed.

Lemma dflds_noof v fs :
  Pfs (NOOF v) fs -> forallb (nfield_ (nonempty_elems v) v) fs = true ->
  forall bs, dflds v (dec v) fs bs <> OutOfFuel.
Proof.
  induction 1 as [|f fs Hf _ IH]; intros Hne bs; cbn [dflds forallb] in *; [discriminate|].
  apply andb_true_iff in Hne as [Hn1 Hn2].
  apply bind_noof; [apply (dfield_noof v f Hf Hn1)|]. intros [y r] _. cbv beta iota.
  apply bind_noof; [apply IH; exact Hn2|]. intros [ys r'] _. discriminate.
Qed.

Lemma noof_all v t : NOOF v t.
Proof.
  induction t using ty_ind'; intros Hne bs.
  - rewrite dec_TInt. apply bind_noof; [apply rd_le_noof|]. intros [n r] _. discriminate.
  - rewrite dec_TBool. apply bind_noof; [apply rd_le_noof|]. intros [n r] _. discriminate.
  - rewrite dec_TChar. apply bind_noof; [apply rd_le_noof|]. intros [n r] _. cbv beta iota.
    destruct (char_ok (Z.of_N n)); discriminate.
  - rewrite dec_TF32. apply bind_noof; [apply rd_le_noof|]. intros [n r] _. discriminate.
  - rewrite dec_TF64. apply bind_noof; [apply rd_le_noof|]. intros [n r] _. discriminate.
  - rewrite dec_TUnit. discriminate.
  - rewrite dec_TString. apply bind_noof; [apply rd_string_noof|]. intros [n r] _. discriminate.
  - (* TVec *)
    rewrite ne_TVec in Hne. apply andb_true_iff in Hne as [Hc Hne].
    rewrite dec_TVec. apply bind_noof; [apply rd_le_noof|]. intros [n r] _. cbv beta iota.
    destruct (negb (packed v t) && (SEQ_LIMIT <? n)) eqn:C; [discriminate|].
    apply bind_noof; [|intros [xs r'] _; discriminate].
    destruct (SEQ_LIMIT <? n) eqn:L.
    + rewrite andb_true_r in C. rewrite C in Hc. cbn [orb] in Hc.
      apply read_n_noof_len; [apply IHt; exact Hne| |unfold seq_fuel; lia].
      intros bs0 y0 r0. apply dec_len_lt. exact Hc.
    + apply N.ltb_ge in L.
      apply read_n_noof_count; [apply IHt; exact Hne|].
      unfold seq_fuel. rewrite N.min_l by exact L. lia.
  - (* TSeq *)
    rewrite ne_TSeq in Hne. apply andb_true_iff in Hne as [Hc Hne].
    rewrite dec_TSeq. apply bind_noof; [apply rd_le_noof|]. intros [n r] _. cbv beta iota.
    apply bind_noof; [|intros [xs r'] _; discriminate].
    apply read_n_noof_len; [apply IHt; exact Hne| |unfold seq_fuel; lia].
    intros bs0 y0 r0. apply dec_len_lt. exact Hc.
  - (* TArray *)
    rewrite ne_TArray in Hne.
    rewrite dec_TArray. apply bind_noof; [|intros [xs r'] _; discriminate].
    apply read_n_noof_count; [apply IHt; exact Hne|lia].
  - rewrite ne_TOption in Hne.
    rewrite dec_TOption. apply bind_noof; [apply rd_bool_noof|]. intros [b r] _. cbv beta iota.
    destruct b; [|discriminate].
    apply bind_noof; [apply IHt; exact Hne|]. intros [y r'] _. discriminate.
  - rewrite ne_TResult in Hne. apply andb_true_iff in Hne as [Hn1 Hn2].
    rewrite dec_TResult. apply bind_noof; [apply rd_bool_noof|]. intros [b0 r] _. cbv beta iota.
    destruct b0.
    + apply bind_noof; [apply IHt1; exact Hn1|]. intros [y r'] _. discriminate.
    + apply bind_noof; [apply IHt2; exact Hn2|]. intros [y r'] _. discriminate.
  - rewrite ne_TBox in Hne. rewrite dec_TBox. apply IHt. exact Hne.
  - rewrite ne_TCell in Hne. rewrite dec_TCell. apply IHt. exact Hne.
  - rewrite ne_TTuple in Hne. rewrite dec_TTuple.
    apply bind_noof; [apply (dtup_noof v ts H Hne)|]. intros [ys r] _. discriminate.
  - rewrite ne_TStruct in Hne. rewrite dec_TStruct.
    apply bind_noof; [apply (dflds_noof v fs H Hne)|]. intros [ys r] _. discriminate.
  - rewrite ne_TEnum in Hne. rewrite dec_TEnum.
    apply bind_noof; [apply rd_le_noof|]. intros [idx r] _. cbv beta iota.
    destruct (N.of_nat (length vs) <=? idx); [discriminate|].
    rewrite pickg_nth. destruct (nth_error vs (N.to_nat idx)) as [vd|] eqn:Hn; [|discriminate].
    pose proof (nth_error_In _ _ Hn) as Hin.
    unfold Pvs in H. rewrite Forall_forall in H. rewrite forallb_forall in Hne.
    apply bind_noof; [apply (dflds_noof v (vd_fields vd) (H vd Hin) (Hne vd Hin))|].
    intros [ys r'] _. discriminate.
Qed.

Theorem dec_no_outoffuel_weak : forall v t bs,
  nonempty_elems v t = true -> dec v t bs <> OutOfFuel.
Proof. intros v t bs Hne. apply noof_all. exact Hne. Qed.

(* ------------------------------------------------------------------ *)
Print Assumptions enc_total.
Print Assumptions dec_enc_roundtrip.
Print Assumptions dec_extend.
Print Assumptions dec_truncated.
Print Assumptions dec_no_outoffuel_counterexample.
Print Assumptions dec_no_outoffuel_counterexample_vec.
Print Assumptions dec_no_outoffuel_false.
Print Assumptions dec_no_outoffuel_weak.
