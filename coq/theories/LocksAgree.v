(* LocksAgree.v — the lock acquisition sequences of savefile-abi, regenerated from /repo's source on every run
   (coq/extracted/Extracted.v), are the ones Locks.v models: get_symbol_for takes ENTRY_CACHE then LIBRARY_CACHE,
   new_internal takes ABI_CONNECTION_TEMPLATES, no guard is dropped early, Guard::lock is the only place a global
   cache is locked, and the lock order is acyclic. *)
From Coq Require Import String.
From SF Require Import Bytes Locks.
From SFX Require Import Extracted.
Open Scope string_scope.

Definition lk_of_name (s : string) : option lk :=
  if String.eqb s "ENTRY_CACHE" then Some LEntry else
  if String.eqb s "LIBRARY_CACHE" then Some LLibrary else
  if String.eqb s "ABI_CONNECTION_TEMPLATES" then Some LTemplates else None.

Fixpoint conv_seq (l : list string) : option (list lk) :=
  match l with
  | [] => Some []
  | s :: r => match lk_of_name s, conv_seq r with Some k, Some r' => Some (k :: r') | _, _ => None end
  end.

Definition x_seqs : list (string * option (list lk) * bool) :=
  map (fun e => (fst (fst e), conv_seq (snd (fst e)), snd e)) x_lock_sequences.

Lemma x_lock_sequences_agree :
  x_seqs = [("get_symbol_for", Some SEQ_GET_SYMBOL, false); ("new_internal", Some SEQ_NEW_INTERNAL, false)].
Proof. reflexivity. Qed.

Definition x_lk_seqs : list (list lk) :=
  map (fun e => match snd (fst e) with Some l => l | None => [LLibrary; LEntry; LLibrary] end) x_seqs.

Lemma x_lock_order_acyclic : acyclic x_lk_seqs = true /\ no_reacquire x_lk_seqs = true.
Proof. split; vm_compute; reflexivity. Qed.

Lemma x_lock_sites : x_raw_lock_sites = 1%N /\ x_guard_lock_sites = 3%N.
Proof. split; reflexivity. Qed.

Lemma x_three_mutexes : length x_global_mutexes = 3%nat /\ forallb (fun s => match lk_of_name s with Some _ => true | None => false end) x_global_mutexes = true.
Proof. split; reflexivity. Qed.

(* the unsafe Send / Sync impls of AbiConnection<T> require exactly T: Send / T: Sync *)
Lemma x_conn_bounds : x_conn_sync_requires = "Sync" /\ x_conn_send_requires = "Send".
Proof. split; reflexivity. Qed.
