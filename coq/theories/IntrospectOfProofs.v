(* IntrospectOfProofs.v — proofs about the Introspect rule table and the introspection shape of IntrospectOf.v (C17):
   the accepted rule pairs are exactly those whose reported length equals the served children, and the shape of
   every well-typed value (hence every dump that agrees with it) reports the number of children it serves. *)
From Coq Require Import String Lia ZArith List Bool.
From SF Require Import Bytes Schema Ty TyProofs Introspect IntrospectOf.
Import ListNotations.
Open Scope N_scope.

(* ------------------------------------------------------------------ *)
(* 1-3: the rule table *)

Theorem entry_consistent : forall c l, entry_ok c l = true ->
  forall n inner, reported l c n inner inner = served c n inner.
Proof.
  intros c l H n inner.
  destruct c, l; cbn [entry_ok] in H; try discriminate H; cbn [reported served]; try reflexivity;
    try apply N.eqb_eq in H; try apply N.leb_le in H; unfold MAX_CHILDREN in *; lia.
Qed.

Ltac wit a b := exists a, b; cbn [reported served]; unfold MAX_CHILDREN in *; lia.

Theorem entry_ok_complete : forall c l, entry_ok c l = false ->
  exists n inner, reported l c n inner inner <> served c n inner.
Proof.
  intros c l H.
  destruct c, l; cbn [entry_ok] in H; try discriminate H;
    try apply N.eqb_neq in H; try apply N.leb_gt in H;
    first [ wit 1 0 | wit 0 1 | wit 10001 10001
          | match goal with k : N |- _ => wit (k + 1) (k + 1) end ].
Qed.

Theorem table_consistent : forall tbl, table_ok tbl = true ->
  forall e, In e tbl -> forall n inner,
  reported (snd e) (snd (fst e)) n inner inner = served (snd (fst e)) n inner.
Proof.
  intros tbl H e He n inner. unfold table_ok in H.
  rewrite forallb_forall in H. apply entry_consistent. apply H. exact He.
Qed.

(* ------------------------------------------------------------------ *)
(* induction principles for the nested inductives [ishape] and [inode] *)

Section IshapeInd.
Variable P : ishape -> Prop.
Hypothesis H_ish : forall r cs, Forall P cs -> P (ISh r cs).
Fixpoint ishape_ind' (s : ishape) : P s :=
  match s return P s with
  | ISh r cs =>
      H_ish r cs
        ((fix go (l : list ishape) : Forall P l :=
            match l return Forall P l with
            | [] => Forall_nil _
            | a :: rl => @Forall_cons _ P a rl (ishape_ind' a) (go rl)
            end) cs)
  end.
End IshapeInd.

Section InodeInd.
Variable P : inode -> Prop.
Hypothesis H_in : forall v l cs, Forall (fun p => P (snd p)) cs -> P (INode v l cs).
Fixpoint inode_ind' (o : inode) : P o :=
  match o return P o with
  | INode v l cs =>
      H_in v l cs
        ((fix go (l : list (bytes * inode)) : Forall (fun p => P (snd p)) l :=
            match l return Forall (fun p => P (snd p)) l with
            | [] => Forall_nil _
            | (k, c) :: rl => @Forall_cons _ (fun p => P (snd p)) (k, c) rl (inode_ind' c) (go rl)
            end) cs)
  end.
End InodeInd.

(* ------------------------------------------------------------------ *)
(* standalone copies of the local fixpoints of [shape_of] and [ishape_eqb], with unfolding equations *)

Section ShMirror.
Variable Sh : ty -> val -> ishape.

Definition sfield (f : fdef) (y : val) : ishape := if is_removed f then ISh 0 [] else Sh (fd_ty f) y.

Fixpoint sflds (fs : list fdef) (xs : list val) {struct fs} : list ishape :=
  match fs, xs with
  | f :: rf, y :: ry => sfield f y :: sflds rf ry
  | _, _ => []
  end.

Fixpoint stup (ts : list ty) (xs : list val) {struct ts} : list ishape :=
  match ts, xs with
  | t :: rt, y :: ry => Sh t y :: stup rt ry
  | _, _ => []
  end.
End ShMirror.

Lemma shape_of_TVec t l : shape_of (TVec t) (VSeq l) = ISh (len l) (map (shape_of t) l).
Proof. reflexivity. Qed.
Lemma shape_of_TSeq t l : shape_of (TSeq t) (VSeq l) = ISh (len l) (map (shape_of t) l).
Proof. reflexivity. Qed.
Lemma shape_of_TArray t n l : shape_of (TArray t n) (VSeq l) = ISh n (map (shape_of t) l).
Proof. reflexivity. Qed.
Lemma shape_of_TOption_some t y : shape_of (TOption t) (VSome y) = shape_of t y.
Proof. reflexivity. Qed.
Lemma shape_of_TResult_ok a b y : shape_of (TResult a b) (VOk y) = shape_of a y.
Proof. reflexivity. Qed.
Lemma shape_of_TResult_err a b y : shape_of (TResult a b) (VErr y) = shape_of b y.
Proof. reflexivity. Qed.
Lemma shape_of_TBox t y : shape_of (TBox t) y = shape_of t y.
Proof. reflexivity. Qed.
Lemma shape_of_TTuple l ts xs : shape_of (TTuple l ts) (VRec xs) = ISh (len ts) (stup shape_of ts xs).
Proof. reflexivity. Qed.
Lemma shape_of_TStruct l fs xs : shape_of (TStruct l fs) (VRec xs) = ISh (len fs) (sflds shape_of fs xs).
Proof. reflexivity. Qed.
Lemma shape_of_TEnum repr l vo vs idx xs :
  shape_of (TEnum repr l vo vs) (VVar idx xs) =
  pickg (fun vd => ISh (len (vd_fields vd)) (sflds shape_of (vd_fields vd) xs)) (ISh 0 []) vs (N.to_nat idx).
Proof. reflexivity. Qed.

Fixpoint ishl_eqb (l1 l2 : list ishape) {struct l1} : bool :=
  match l1, l2 with
  | [], [] => true
  | x :: r1, y :: r2 => ishape_eqb x y && ishl_eqb r1 r2
  | _, _ => false
  end.

Lemma ishape_eqb_ISh r cs r' cs' : ishape_eqb (ISh r cs) (ISh r' cs') = (r =? r') && ishl_eqb cs cs'.
Proof. reflexivity. Qed.

Lemma consistent_ISh r cs : consistent (ISh r cs) = (r =? len cs) && forallb consistent cs.
Proof. reflexivity. Qed.

Lemma len_map {A B} (f : A -> B) (l : list A) : len (map f l) = len l.
Proof. unfold len. rewrite map_length. reflexivity. Qed.

(* ------------------------------------------------------------------ *)
(* 4: the shape of a well-typed value is consistent *)

Definition SC (t : ty) : Prop := forall x, has_ty t x = true -> consistent (shape_of t x) = true.

Lemma map_ok t l : SC t -> forallb (has_ty t) l = true -> forallb consistent (map (shape_of t) l) = true.
Proof.
  intros Ht. induction l as [|y l IH]; cbn [forallb map]; intros H; [reflexivity|].
  apply andb_true_iff in H as [H1 H2]. rewrite (Ht y H1), (IH H2). reflexivity.
Qed.

Lemma sflds_ok fs :
  Pfs SC fs -> forall xs, hflds has_ty fs xs = true ->
  List.length (sflds shape_of fs xs) = List.length fs /\ forallb consistent (sflds shape_of fs xs) = true.
Proof.
  induction 1 as [|f fs Hf _ IH]; intros [|y ry] Hh; cbn [hflds] in Hh; try discriminate Hh.
  - split; reflexivity.
  - apply andb_true_iff in Hh as [Hh1 Hh2]. destruct (IH ry Hh2) as [IH1 IH2].
    cbn [sflds List.length forallb]. split; [f_equal; exact IH1|].
    rewrite IH2, andb_true_r. unfold sfield. unfold hf in Hh1.
    destruct (is_removed f); [reflexivity|].
    apply andb_true_iff in Hh1 as [Hh1 _]. apply Hf. exact Hh1.
Qed.

Lemma stup_ok ts :
  Forall SC ts -> forall xs, htup has_ty ts xs = true ->
  List.length (stup shape_of ts xs) = List.length ts /\ forallb consistent (stup shape_of ts xs) = true.
Proof.
  induction 1 as [|t ts Ht _ IH]; intros [|y ry] Hh; cbn [htup] in Hh; try discriminate Hh.
  - split; reflexivity.
  - apply andb_true_iff in Hh as [Hh1 Hh2]. destruct (IH ry Hh2) as [IH1 IH2].
    cbn [stup List.length forallb]. split; [f_equal; exact IH1|].
    rewrite IH2, andb_true_r. apply Ht. exact Hh1.
Qed.

Lemma fields_shape_ok fs xs :
  Pfs SC fs -> hflds has_ty fs xs = true -> consistent (ISh (len fs) (sflds shape_of fs xs)) = true.
Proof.
  intros Hf Hh. destruct (sflds_ok fs Hf xs Hh) as [L F].
  rewrite consistent_ISh. unfold len. rewrite L, N.eqb_refl, F. reflexivity.
Qed.

Theorem shape_consistent : forall t x, has_ty t x = true -> consistent (shape_of t x) = true.
Proof.
  intros t. change (SC t). induction t using ty_ind'; intros x Hh.
  1-7: destruct x; try discriminate Hh; reflexivity.
  - (* TVec *)
    destruct x; try discriminate Hh. rewrite has_ty_TVec in Hh.
    apply andb_true_iff in Hh as [_ H2].
    rewrite shape_of_TVec, consistent_ISh, len_map, N.eqb_refl. cbn [andb].
    apply map_ok; assumption.
  - (* TSeq *)
    destruct x; try discriminate Hh. rewrite has_ty_TSeq in Hh.
    apply andb_true_iff in Hh as [_ H2].
    rewrite shape_of_TSeq, consistent_ISh, len_map, N.eqb_refl. cbn [andb].
    apply map_ok; assumption.
  - (* TArray *)
    destruct x; try discriminate Hh. rewrite has_ty_TArray in Hh.
    apply andb_true_iff in Hh as [H1 H2]. apply N.eqb_eq in H1.
    rewrite shape_of_TArray, consistent_ISh, len_map. unfold len. rewrite H1, N.eqb_refl. cbn [andb].
    apply map_ok; assumption.
  - (* TOption *)
    destruct x; try discriminate Hh; [reflexivity|].
    rewrite shape_of_TOption_some. apply IHt. exact Hh.
  - (* TResult *)
    destruct x; try discriminate Hh.
    + rewrite shape_of_TResult_ok. apply IHt1. exact Hh.
    + rewrite shape_of_TResult_err. apply IHt2. exact Hh.
  - (* TBox *)
    rewrite shape_of_TBox. apply IHt. exact Hh.
  - (* TCell: no Introspect impl, no children in the model *)
    destruct x; reflexivity.
  - (* TTuple *)
    destruct x; try discriminate Hh. rewrite has_ty_TTuple in Hh.
    rewrite shape_of_TTuple, consistent_ISh.
    destruct (stup_ok ts H l0 Hh) as [L F].
    unfold len. rewrite L, N.eqb_refl, F. reflexivity.
  - (* TStruct *)
    destruct x; try discriminate Hh. rewrite has_ty_TStruct in Hh.
    rewrite shape_of_TStruct. apply fields_shape_ok; assumption.
  - (* TEnum *)
    destruct x; try discriminate Hh. rewrite has_ty_TEnum in Hh.
    apply andb_true_iff in Hh as [_ H2].
    rewrite shape_of_TEnum. rewrite pickg_nth in *.
    destruct (nth_error vs (N.to_nat idx)) as [vd|] eqn:E; [|discriminate H2].
    apply fields_shape_ok; [|exact H2].
    unfold Pvs in H. rewrite Forall_forall in H. apply H. eapply nth_error_In. exact E.
Qed.

(* ------------------------------------------------------------------ *)
(* 5: the boolean shape equality decides equality *)

Lemma ishape_eqb_eq : forall a b, ishape_eqb a b = true -> a = b.
Proof.
  induction a as [r cs IH] using ishape_ind'; intros [r' cs'] Hq.
  rewrite ishape_eqb_ISh in Hq. apply andb_true_iff in Hq as [H1 H2].
  apply N.eqb_eq in H1. subst r'. f_equal.
  revert cs' H2. induction IH as [|x l Hx _ IHl]; intros [|y cs'] H2; cbn [ishl_eqb] in H2; try discriminate H2.
  - reflexivity.
  - apply andb_true_iff in H2 as [H2 H3]. f_equal; [apply Hx; exact H2|apply IHl; exact H3].
Qed.

(* 6: a dump that agrees with the model's shape of a well-typed value is consistent *)
Theorem dump_consistent : forall t x d,
  has_ty t x = true -> agree_shape t x d = true -> consistent (erase_inode d) = true.
Proof.
  intros t x d Hh Ha. unfold agree_shape in Ha. apply ishape_eqb_eq in Ha.
  rewrite Ha. apply shape_consistent. exact Hh.
Qed.

(* ------------------------------------------------------------------ *)
(* 7: consistency of an erased dump is exactly: every node reports the number of children it serves *)

Fixpoint inode_len_ok (o : inode) : bool :=
  match o with INode _ l cs => (l =? len cs) && forallb (fun p => inode_len_ok (snd p)) cs end.

Lemma erase_inode_INode v l cs : erase_inode (INode v l cs) = ISh l (map (fun p => erase_inode (snd p)) cs).
Proof. reflexivity. Qed.
Lemma inode_len_ok_INode v l cs :
  inode_len_ok (INode v l cs) = (l =? len cs) && forallb (fun p => inode_len_ok (snd p)) cs.
Proof. reflexivity. Qed.

Lemma erase_consistent : forall o, consistent (erase_inode o) = inode_len_ok o.
Proof.
  induction o as [v l cs IH] using inode_ind'.
  rewrite erase_inode_INode, inode_len_ok_INode, consistent_ISh, len_map. f_equal.
  induction IH as [|p r Hp _ IHr]; cbn [map forallb]; [reflexivity|].
  rewrite Hp, IHr. reflexivity.
Qed.

(* ------------------------------------------------------------------ *)
(* 8: non-vacuity *)

(* struct S { a: Vec<Vec<u8>>, b: Option<u32>, c: Removed<u8>, d: Option<u32> } *)
Definition ex_ty : ty :=
  TStruct (Lay 40 8 [0; 24; 32; 32] false)
    [ FD (TVec (TVec (TInt U8))) 0 None FNormal VUnit;
      FD (TOption (TInt U32)) 0 None FNormal VUnit;
      FD (TInt U8) 0 (Some 3) FRemoved VUnit;
      FD (TOption (TInt U32)) 0 None FNormal VUnit ].

Definition ex_val : val :=
  VRec [ VSeq [VSeq [VInt 1; VInt 2]; VSeq []]; VSome (VInt 7); VUnit; VNone ].

Example ex_has_ty : has_ty ex_ty ex_val = true.
Proof. vm_compute. reflexivity. Qed.

Example ex_shape :
  shape_of ex_ty ex_val =
  ISh 4 [ ISh 2 [ISh 2 [ISh 0 []; ISh 0 []]; ISh 0 []]; ISh 0 []; ISh 0 []; ISh 0 [] ].
Proof. vm_compute. reflexivity. Qed.

Example ex_consistent : consistent (shape_of ex_ty ex_val) = true.
Proof. vm_compute. reflexivity. Qed.

Example ex_inconsistent : consistent (ISh 2 [ISh 0 []]) = false.
Proof. vm_compute. reflexivity. Qed.

(* the same on the dump side: a node that reports 2 and serves 1 child is rejected by inode_len_ok *)
Example ex_dump_inconsistent :
  inode_len_ok (INode [] 2 [([], INode [] 0 [])]) = false
  /\ consistent (erase_inode (INode [] 2 [([], INode [] 0 [])])) = false.
Proof. split; vm_compute; reflexivity. Qed.

(* a rejected rule pair, and an accepted one *)
Example ex_entry_bad : entry_ok CIndexed LDefault = false /\ reported LDefault CIndexed 10001 0 0 <> served CIndexed 10001 0.
Proof. split; [reflexivity|]. vm_compute. discriminate. Qed.
Example ex_entry_good : entry_ok CIndexed LLen = true /\ entry_ok (CFixed 3) (LConst 3) = true.
Proof. split; reflexivity. Qed.

Check entry_consistent.
Check entry_ok_complete.
Check table_consistent.
Check shape_consistent.
Check ishape_eqb_eq.
Check dump_consistent.
Check erase_consistent.

Print Assumptions entry_consistent.
Print Assumptions entry_ok_complete.
Print Assumptions table_consistent.
Print Assumptions shape_consistent.
Print Assumptions dump_consistent.
