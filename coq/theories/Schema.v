(* Schema.v — mirror of savefile::Schema and its codec (savefile/src/lib.rs 2884-4766),
   diff_schema (3953-4198) and layout_compatible (2922-3259, 3794-3829).
   Definitions only; proofs live in SchemaProofs.v. *)
From SF Require Import Bytes.

Inductive vlayout := VLUnknown | VL1 | VL2 | VL3 | VL4 | VL5 | VL6 | VL7 | VL8.

Definition vlayout_tag (l : vlayout) : N :=
  match l with
  | VLUnknown => 0 | VL1 => 1 | VL2 => 2 | VL3 => 3 | VL4 => 4
  | VL5 => 5 | VL6 => 6 | VL7 => 7 | VL8 => 8
  end.
Definition vlayout_of_tag (n : N) : vlayout :=
  match n with
  | 1 => VL1 | 2 => VL2 | 3 => VL3 | 4 => VL4 | 5 => VL5 | 6 => VL6 | 7 => VL7 | 8 => VL8
  | _ => VLUnknown
  end.
Definition vlayout_eqb (a b : vlayout) : bool := vlayout_tag a =? vlayout_tag b.

Inductive prim :=
| Pi8 | Pu8 | Pi16 | Pu16 | Pi32 | Pu32 | Pi64 | Pu64
| Pstring (l : vlayout)
| Pf32 | Pf64 | Pbool | Pcanary1 | Pu128 | Pi128 | Pchar.

(* tag table of impl Serialize for SchemaPrimitive *)
Definition prim_tag (p : prim) : N :=
  match p with
  | Pi8 => 1 | Pu8 => 2 | Pi16 => 3 | Pu16 => 4 | Pi32 => 5 | Pu32 => 6 | Pi64 => 7 | Pu64 => 8
  | Pstring _ => 9
  | Pf32 => 10 | Pf64 => 11 | Pbool => 12 | Pcanary1 => 13 | Pi128 => 14 | Pu128 => 15 | Pchar => 16
  end.

Inductive receiver := RShared | RMut | RPinMut.
Definition receiver_tag (r : receiver) : N :=
  match r with RShared => 100 | RMut => 101 | RPinMut => 102 end.

Record field_ (S : Type) := Fld { f_name : bytes; f_val : S; f_off : option N }.
Arguments Fld {S}. Arguments f_name {S}. Arguments f_val {S}. Arguments f_off {S}.
Record variant_ (S : Type) := Var { v_name : bytes; v_discr : N; v_fields : list (field_ S) }.
Arguments Var {S}. Arguments v_name {S}. Arguments v_discr {S}. Arguments v_fields {S}.
Record method_ (S : Type) := Meth { m_name : bytes; m_ret : S; m_recv : receiver; m_args : list S; m_async : bool }.
Arguments Meth {S}. Arguments m_name {S}. Arguments m_ret {S}. Arguments m_recv {S}. Arguments m_args {S}. Arguments m_async {S}.
Record traitdef_ (S : Type) := TD { td_name : bytes; td_methods : list (method_ S); td_sync : bool; td_send : bool }.
Arguments TD {S}. Arguments td_name {S}. Arguments td_methods {S}. Arguments td_sync {S}. Arguments td_send {S}.

Inductive schema :=
| SStruct (name : bytes) (size align : option N) (fields : list (field_ schema))
| SEnum (name : bytes) (variants : list (variant_ schema)) (dsize : N) (repr : bool) (size align : option N)
| SPrim (p : prim)
| SVector (s : schema) (l : vlayout)
| SArray (s : schema) (count : N)
| SOption (s : schema)
| SUndefined
| SZeroSize
| SCustom (c : bytes)
| SBoxed (s : schema)
| SSlice (s : schema)
| SStr
| SReference (s : schema)
| STrait (m : bool) (d : traitdef_ schema)
| SFnClosure (m : bool) (d : traitdef_ schema)
| SRecursion (d : N)
| SStdIoError
| SFuture (d : traitdef_ schema) (send sync unpin : bool)
| SUninitSlice
| SUtcTimestamp.

Notation field := (field_ schema).
Notation variant := (variant_ schema).
Notation method := (method_ schema).
Notation traitdef := (traitdef_ schema).

Definition len {A} (l : list A) : N := N.of_nat (length l).

(* ------------------------------------------------------------------ *)
(* Writer: impl Serialize for Schema & components, at schema format version fv. *)

Definition PLUS : N := 43.
Definition sfx_sync : bytes := [43; 83; 121; 110; 99].   (* "+Sync" *)
Definition sfx_send : bytes := [43; 83; 101; 110; 100].  (* "+Send" *)

Definition effective_name (name : bytes) (sync send : bool) : bytes :=
  name ++ (if sync then sfx_sync else []) ++ (if send then sfx_send else []).

Section Ser.
Variable fv : N.

Definition ser_prim (p : prim) : bytes :=
  match p with
  | Pstring l => 9 :: (if 0 <? fv then [vlayout_tag l] else [])
  | _ => [prim_tag p]
  end.

Definition ser_field (ser : schema -> bytes) (f : field) : bytes :=
  enc_string (f_name f) ++ ser (f_val f) ++ enc_opt_usize (f_off f).

Definition ser_variant (ser : schema -> bytes) (v : variant) : bytes :=
  enc_string (v_name v) ++ enc_u8 (v_discr v) ++ enc_usize (len (v_fields v))
  ++ flat_map (ser_field ser) (v_fields v).

Definition ser_method (ser : schema -> bytes) (m : method) : bytes :=
  enc_string (m_name m) ++ ser (m_ret m)
  ++ (if 2 <=? fv then [receiver_tag (m_recv m)] ++ enc_bool (m_async m) else [])
  ++ enc_usize (len (m_args m)) ++ flat_map ser (m_args m).

Definition ser_td (ser : schema -> bytes) (d : traitdef) : bytes :=
  enc_string (effective_name (td_name d) (td_sync d) (td_send d))
  ++ enc_usize (len (td_methods d)) ++ flat_map (ser_method ser) (td_methods d).

Fixpoint ser (s : schema) : bytes :=
  match s with
  | SStruct name size align fields =>
      1 :: enc_string name ++ enc_usize (len fields) ++ enc_opt_usize size ++ enc_opt_usize align
        ++ flat_map (fun f => enc_string (f_name f) ++ ser (f_val f) ++ enc_opt_usize (f_off f)) fields
  | SEnum name variants dsize repr size align =>
      2 :: enc_string name ++ enc_usize (len variants)
        ++ flat_map (fun v => enc_string (v_name v) ++ enc_u8 (v_discr v) ++ enc_usize (len (v_fields v))
                     ++ flat_map (fun f => enc_string (f_name f) ++ ser (f_val f) ++ enc_opt_usize (f_off f)) (v_fields v)) variants
        ++ enc_u8 dsize ++ enc_bool repr ++ enc_opt_usize size ++ enc_opt_usize align
  | SPrim p => 3 :: ser_prim p
  | SVector s l => 4 :: ser s ++ (if 0 <? fv then [vlayout_tag l] else [])
  | SUndefined => [5]
  | SZeroSize => [6]
  | SOption s => 7 :: ser s
  | SArray s count => 8 :: enc_usize count ++ ser s
  | SCustom c => 9 :: enc_string c
  | SBoxed s => 10 :: ser s
  | SFnClosure m d =>
      11 :: enc_bool m ++
        (enc_string (effective_name (td_name d) (td_sync d) (td_send d))
         ++ enc_usize (len (td_methods d))
         ++ flat_map (fun m => enc_string (m_name m) ++ ser (m_ret m)
                        ++ (if 2 <=? fv then [receiver_tag (m_recv m)] ++ enc_bool (m_async m) else [])
                        ++ enc_usize (len (m_args m)) ++ flat_map ser (m_args m)) (td_methods d))
  | SSlice s => 12 :: ser s
  | SStr => [13]
  | SReference s => 14 :: ser s
  | STrait m d =>
      15 :: enc_bool m ++
        (enc_string (effective_name (td_name d) (td_sync d) (td_send d))
         ++ enc_usize (len (td_methods d))
         ++ flat_map (fun m => enc_string (m_name m) ++ ser (m_ret m)
                        ++ (if 2 <=? fv then [receiver_tag (m_recv m)] ++ enc_bool (m_async m) else [])
                        ++ enc_usize (len (m_args m)) ++ flat_map ser (m_args m)) (td_methods d))
  | SRecursion d => 16 :: enc_usize d
  | SStdIoError => [17]
  | SFuture d send sync unpin =>
      18 :: [(if send then 1 else 0) + (if sync then 2 else 0) + (if unpin then 4 else 0)]
         ++ (enc_string (effective_name (td_name d) (td_sync d) (td_send d))
         ++ enc_usize (len (td_methods d))
         ++ flat_map (fun m => enc_string (m_name m) ++ ser (m_ret m)
                        ++ (if 2 <=? fv then [receiver_tag (m_recv m)] ++ enc_bool (m_async m) else [])
                        ++ enc_usize (len (m_args m)) ++ flat_map ser (m_args m)) (td_methods d))
  | SUninitSlice => [19]
  | SUtcTimestamp => [20]
  end.

(* ------------------------------------------------------------------ *)
(* Reader: impl Deserialize for Schema & components, at format version fv. *)

Fixpoint read_n {A} (rd : reader A) (fuel : nat) (count : N) (bs : bytes) : res (list A * bytes) :=
  if count =? 0 then Ok ([], bs) else
  match fuel with
  | O => OutOfFuel
  | S f =>
      let* (x, r) := rd bs in
      let* (xs, r') := read_n rd f (count - 1) r in
      Ok (x :: xs, r')
  end.

Definition VEC_LIMIT : N := 1000000.

(* regular_deserialize_vec with size_sanity_checks *)
Definition rd_vec {A} (rd : reader A) : reader (list A) :=
  fun bs =>
    let* (l, r) := rd_usize bs in
    if VEC_LIMIT <? l then Err EGeneral else read_n rd (S (length r)) l r.

Definition rd_gated {A} (gate : bool) (dflt : A) (rd : reader A) : reader A :=
  fun bs => if gate then rd bs else Ok (dflt, bs).

Definition rd_vlayout : reader vlayout :=
  fun bs => let* (t, r) := rd_u8 bs in Ok (vlayout_of_tag t, r).

Definition de_prim : reader prim :=
  fun bs =>
    let* (t, r) := rd_u8 bs in
    match t with
    | 1 => Ok (Pi8, r) | 2 => Ok (Pu8, r) | 3 => Ok (Pi16, r) | 4 => Ok (Pu16, r)
    | 5 => Ok (Pi32, r) | 6 => Ok (Pu32, r) | 7 => Ok (Pi64, r) | 8 => Ok (Pu64, r)
    | 9 => let* (l, r') := rd_gated (0 <? fv) VLUnknown rd_vlayout r in Ok (Pstring l, r')
    | 10 => Ok (Pf32, r) | 11 => Ok (Pf64, r) | 12 => Ok (Pbool, r) | 13 => Ok (Pcanary1, r)
    | 14 => Ok (Pi128, r) | 15 => Ok (Pu128, r) | 16 => Ok (Pchar, r)
    | _ => Err EGeneral
    end.

Definition de_field (d : reader schema) : reader field :=
  fun bs =>
    let* (name, r) := rd_string bs in
    let* (v, r) := d r in
    let* (off, r) := rd_gated (0 <? fv) None rd_opt_usize r in
    Ok (Fld name v off, r).

Definition de_variant (d : reader schema) : reader variant :=
  fun bs =>
    let* (name, r) := rd_string bs in
    let* (discr, r) := rd_u8 r in
    let* (l, r) := rd_usize r in
    let* (fields, r) := read_n (de_field d) (S (length r)) l r in
    Ok (Var name discr fields, r).

Definition de_receiver : reader receiver :=
  fun bs =>
    let* (t, r) := rd_u8 bs in
    match t with
    | 100 => Ok (RShared, r) | 101 => Ok (RMut, r) | 102 => Ok (RPinMut, r)
    | _ => Err EWrongVersion
    end.

Definition de_method (d : reader schema) : reader method :=
  fun bs =>
    let* (name, r) := rd_string bs in
    let* (ret, r) := d r in
    let* (recv, r) := rd_gated (2 <=? fv) RShared de_receiver r in
    let* (async, r) := rd_gated (2 <=? fv) false rd_bool r in
    let* (args, r) := rd_vec d r in
    Ok (Meth name ret recv args async, r).

(* name.split('+'): first segment is the name, the others must be Sync / Send *)
Fixpoint split_plus (cur : bytes) (s : bytes) : list bytes :=
  match s with
  | [] => [rev cur]
  | c :: r => if c =? PLUS then rev cur :: split_plus [] r else split_plus (c :: cur) r
  end.

Fixpoint scan_segments (segs : list bytes) (sync send : bool) : option (bool * bool) :=
  match segs with
  | [] => Some (sync, send)
  | s :: r =>
      if bytes_eqb s [83; 121; 110; 99] then scan_segments r true send
      else if bytes_eqb s [83; 101; 110; 100] then scan_segments r sync true
      else None
  end.

Definition de_td (d : reader schema) : reader traitdef :=
  fun bs =>
    let* (ename, r) := rd_string bs in
    match split_plus [] ename with
    | [] => Panic
    | name :: segs =>
        match scan_segments segs false false with
        | None => Err EGeneral          (* since fix F17: GeneralError "Unexpected trait name encountered" (was a panic) *)
        | Some (sync, send) =>
            let* (methods, r) := rd_vec (de_method d) r in
            Ok (TD name methods sync send, r)
        end
    end.

Fixpoint de (fuel : nat) : reader schema :=
  match fuel with
  | O => fun _ => OutOfFuel
  | S f => fun bs =>
      let* (tag, r) := rd_u8 bs in
      match tag with
      | 1 =>
          let* (name, r) := rd_string r in
          let* (l, r) := rd_usize r in
          let* (size, r) := rd_gated (0 <? fv) None rd_opt_usize r in
          let* (align, r) := rd_gated (0 <? fv) None rd_opt_usize r in
          let* (fields, r) := read_n (de_field (de f)) (S (length r)) l r in
          Ok (SStruct name size align fields, r)
      | 2 =>
          let* (name, r) := rd_string r in
          let* (l, r) := rd_usize r in
          let* (variants, r) := read_n (de_variant (de f)) (S (length r)) l r in
          if 0 <? fv then
            let* (dsize, r) := rd_u8 r in
            let* (repr, r) := rd_bool r in
            let* (size, r) := rd_opt_usize r in
            let* (align, r) := rd_opt_usize r in
            Ok (SEnum name variants dsize repr size align, r)
          else Ok (SEnum name variants 1 false None None, r)
      | 3 => let* (p, r) := de_prim r in Ok (SPrim p, r)
      | 4 =>
          let* (s, r) := de f r in
          let* (l, r) := rd_gated (0 <? fv) VLUnknown rd_vlayout r in
          Ok (SVector s l, r)
      | 5 => Ok (SUndefined, r)
      | 6 => Ok (SZeroSize, r)
      | 7 => let* (s, r) := de f r in Ok (SOption s, r)
      | 8 =>
          let* (count, r) := rd_usize r in
          let* (s, r) := de f r in
          Ok (SArray s count, r)
      | 9 => let* (c, r) := rd_string r in Ok (SCustom c, r)
      | 10 => let* (s, r) := de f r in Ok (SBoxed s, r)
      | 11 =>
          let* (m, r) := rd_bool r in
          let* (d, r) := de_td (de f) r in
          Ok (SFnClosure m d, r)
      | 12 => let* (s, r) := de f r in Ok (SSlice s, r)
      | 13 => Ok (SStr, r)
      | 14 => let* (s, r) := de f r in Ok (SReference s, r)
      | 15 =>
          let* (m, r) := rd_bool r in
          let* (d, r) := de_td (de f) r in
          Ok (STrait m d, r)
      | 16 => let* (d, r) := rd_usize r in Ok (SRecursion d, r)
      | 17 => Ok (SStdIoError, r)
      | 18 =>
          let* (mask, r) := rd_u8 r in
          let* (d, r) := de_td (de f) r in
          Ok (SFuture d (N.testbit mask 0) (N.testbit mask 1) (N.testbit mask 2), r)
      | 19 => Ok (SUninitSlice, r)
      | 20 => Ok (SUtcTimestamp, r)
      | _ => Err EGeneral
      end
  end.

End Ser.

(* Fuel that always suffices: every nested schema consumes at least its tag byte. *)
Definition de_top (fv : N) (bs : bytes) : res (schema * bytes) := de fv (S (length bs)) bs.

(* ------------------------------------------------------------------ *)
(* The format-0 writer, reconstructed from the reader's gates ([file_version > 0]):
   no layouts, no sizes, no offsets, no enum trailer, no receiver/async. *)

Fixpoint ser0 (s : schema) : bytes :=
  match s with
  | SStruct name _ _ fields =>
      1 :: enc_string name ++ enc_usize (len fields)
        ++ flat_map (fun f => enc_string (f_name f) ++ ser0 (f_val f)) fields
  | SEnum name variants _ _ _ _ =>
      2 :: enc_string name ++ enc_usize (len variants)
        ++ flat_map (fun v => enc_string (v_name v) ++ enc_u8 (v_discr v) ++ enc_usize (len (v_fields v))
                     ++ flat_map (fun f => enc_string (f_name f) ++ ser0 (f_val f)) (v_fields v)) variants
  | SPrim p => 3 :: [prim_tag p]
  | SVector s _ => 4 :: ser0 s
  | SUndefined => [5]
  | SZeroSize => [6]
  | SOption s => 7 :: ser0 s
  | SArray s count => 8 :: enc_usize count ++ ser0 s
  | SCustom c => 9 :: enc_string c
  | SBoxed s => 10 :: ser0 s
  | SSlice s => 12 :: ser0 s
  | SStr => [13]
  | SReference s => 14 :: ser0 s
  | SRecursion d => 16 :: enc_usize d
  | SStdIoError => [17]
  | SUninitSlice => [19]
  | SUtcTimestamp => [20]
  (* trait-carrying schemas did not exist in format 0; encoded like format 1 for totality *)
  | STrait _ _ | SFnClosure _ _ | SFuture _ _ _ _ => [5]
  end.

(* what a format-0 section can convey: the schema minus memory-layout annotations *)
Definition strip_prim (p : prim) : prim := match p with Pstring _ => Pstring VLUnknown | _ => p end.

Fixpoint strip (s : schema) : schema :=
  match s with
  | SStruct name _ _ fields =>
      SStruct name None None (map (fun f => Fld (f_name f) (strip (f_val f)) None) fields)
  | SEnum name variants _ _ _ _ =>
      SEnum name (map (fun v => Var (v_name v) (v_discr v)
                                  (map (fun f => Fld (f_name f) (strip (f_val f)) None) (v_fields v))) variants)
            1 false None None
  | SPrim p => SPrim (strip_prim p)
  | SVector s _ => SVector (strip s) VLUnknown
  | SOption s => SOption (strip s)
  | SArray s c => SArray (strip s) c
  | SBoxed s => SBoxed (strip s)
  | SSlice s => SSlice (strip s)
  | SReference s => SReference (strip s)
  | STrait _ _ | SFnClosure _ _ | SFuture _ _ _ _ => SUndefined
  | other => other
  end.

(* ------------------------------------------------------------------ *)
(* Well-formedness: exactly what a Rust value of type Schema satisfies plus the
   size_sanity limits the reader enforces. Boolean, so cases can be checked. *)

Definition wf_stringb (s : bytes) : bool :=
  (N.of_nat (length s) <=? STRING_LIMIT) && utf8_valid s && wfbb s.
Definition wf_optb (o : option N) : bool := match o with Some n => n <? U64 | None => true end.
Definition no_plus (s : bytes) : bool := forallb (fun c => negb (c =? PLUS)) s.

Fixpoint wfs (s : schema) : bool :=
  let wff := fun f : field => wf_stringb (f_name f) && wfs (f_val f) && wf_optb (f_off f) in
  let wftd := fun d : traitdef =>
     no_plus (td_name d)
     && wf_stringb (effective_name (td_name d) (td_sync d) (td_send d))
     && (len (td_methods d) <=? VEC_LIMIT)
     && forallb (fun m : method => wf_stringb (m_name m) && wfs (m_ret m)
                   && (len (m_args m) <=? VEC_LIMIT) && forallb wfs (m_args m)) (td_methods d) in
  match s with
  | SStruct name size align fields =>
      wf_stringb name && wf_optb size && wf_optb align && (len fields <? U64) && forallb wff fields
  | SEnum name variants dsize repr size align =>
      wf_stringb name && (len variants <? U64) && (dsize <? 256) && wf_optb size && wf_optb align
      && forallb (fun v : variant => wf_stringb (v_name v) && (v_discr v <? 256)
                    && (len (v_fields v) <? U64) && forallb wff (v_fields v)) variants
  | SPrim _ => true
  | SVector s _ => wfs s
  | SArray s c => wfs s && (c <? U64)
  | SOption s | SBoxed s | SSlice s | SReference s => wfs s
  | SCustom c => wf_stringb c
  | STrait _ d | SFnClosure _ d | SFuture d _ _ _ => wftd d
  | SRecursion d => d <? U64
  | _ => true
  end.

(* Format 1 cannot express a non-Shared receiver or the async flag. *)
Fixpoint v1_expressible (s : schema) : bool :=
  let okf := fun f : field => v1_expressible (f_val f) in
  let oktd := fun d : traitdef =>
     forallb (fun m : method =>
                match m_recv m with RShared => true | _ => false end && negb (m_async m)
                && v1_expressible (m_ret m) && forallb v1_expressible (m_args m)) (td_methods d) in
  match s with
  | SStruct _ _ _ fields => forallb okf fields
  | SEnum _ variants _ _ _ _ => forallb (fun v : variant => forallb okf (v_fields v)) variants
  | SVector s _ | SArray s _ | SOption s | SBoxed s | SSlice s | SReference s => v1_expressible s
  | STrait _ d | SFnClosure _ d | SFuture d _ _ _ => oktd d
  | _ => true
  end.

(* Format 0 had no trait-carrying schemas. *)
Fixpoint v0_expressible (s : schema) : bool :=
  match s with
  | SStruct _ _ _ fields => forallb (fun f : field => v0_expressible (f_val f)) fields
  | SEnum _ variants _ _ _ _ =>
      forallb (fun v : variant => forallb (fun f : field => v0_expressible (f_val f)) (v_fields v)) variants
  | SVector s _ | SArray s _ | SOption s | SBoxed s | SSlice s | SReference s => v0_expressible s
  | STrait _ _ | SFnClosure _ _ | SFuture _ _ _ _ => false
  | _ => true
  end.

(* ------------------------------------------------------------------ *)
(* diff_schema: None / Some(message) / panic *)

Inductive dres := DSame | DDiff | DPanic.
Definition dthen (a : dres) (b : dres) : dres := match a with DSame => b | _ => a end.

Definition prim_eqb (a b : prim) : bool :=
  match a, b with
  | Pstring la, Pstring lb => vlayout_eqb la lb
  | _, _ => prim_tag a =? prim_tag b
  end.

Definition diff_prim (a b : prim) : dres :=
  match a, b with
  | Pstring _, Pstring _ => DSame
  | _, _ => if prim_tag a =? prim_tag b then DSame else DDiff
  end.

Definition find_method (name : bytes) (ms : list method) : option method :=
  find (fun x : method => bytes_eqb (m_name x) name) ms.

Fixpoint diff (a b : schema) (rp : bool) {struct a} : dres :=
  let diff_fields := fun (fa fb : list field) =>
    if negb (Nat.eqb (length fa) (length fb)) then DDiff else
    (fix go (fa fb : list field) : dres :=
       match fa, fb with
       | x :: ta, y :: tb => dthen (diff (f_val x) (f_val y) false) (go ta tb)
       | _, _ => DSame
       end) fa fb in
  let diff_abi := fun (da db : traitdef) =>
    (fix gom (ma : list method) : dres :=
       match ma with
       | [] => DSame
       | m :: tl =>
           dthen
             (match find_method (m_name m) (td_methods db) with
              | None => DSame
              | Some bm =>
                  if negb (Nat.eqb (length (m_args m)) (length (m_args bm))) then DDiff else
                  (fix goa (aa ab : list schema) : dres :=
                     match aa, ab with
                     | x :: ta, y :: tb => dthen (diff x y rp) (goa ta tb)
                     | _, _ => DSame
                     end) (m_args m) (m_args bm)
              end)
             (gom tl)
       end) (td_methods da) in
  match a, b with
  | SStruct _ _ _ fa, SStruct _ _ _ fb => diff_fields fa fb
  | SEnum _ va dsa _ _ _, SEnum _ vb dsb _ _ _ =>
      if negb (Nat.eqb (length va) (length vb)) then DDiff else
      if negb (dsa =? dsb) then DDiff else
      (fix gov (va vb : list variant) : dres :=
         match va, vb with
         | x :: ta, y :: tb =>
             if negb (bytes_eqb (v_name x) (v_name y)) then DDiff else
             if negb (v_discr x =? v_discr y) then DDiff else
             dthen (diff_fields (v_fields x) (v_fields y)) (gov ta tb)
         | _, _ => DSame
         end) va vb
  | SPrim pa, SPrim pb => diff_prim pa pb
  | SVector sa _, SVector sb _ => diff sa sb false
  | SOption sa, SOption sb => diff sa sb false
  | SUndefined, SUndefined => DDiff
  | SZeroSize, SZeroSize => DSame
  | SArray sa ca, SArray sb cb => if negb (ca =? cb) then DDiff else diff sa sb false
  | SCustom ca, SCustom cb => if bytes_eqb ca cb then DSame else DDiff
  | SStr, SStr => DSame
  | SUtcTimestamp, SUtcTimestamp => DSame
  | SStdIoError, SStdIoError => DSame
  | SBoxed sa, SBoxed sb => diff sa sb rp
  | SReference sa, SReference sb => diff sa sb rp
  | SSlice sa, SSlice sb => diff sa sb rp
  | STrait ma da, STrait mb db =>
      if negb (Bool.eqb ma mb) then DDiff else diff_abi da db
  | SFnClosure ma da, SFnClosure mb db =>
      if negb (Bool.eqb ma mb) then DDiff else diff_abi da db
  | SRecursion da, SRecursion db => if da =? db then DSame else DDiff
  | SFuture da sea sya una, SFuture db seb syb unb =>
      if negb rp then DPanic else
      if (sea && negb seb) || (sya && negb syb) || (una && negb unb) then DDiff
      else diff_abi da db
  | SUninitSlice, SUninitSlice => DSame
  | _, _ => DDiff
  end.

(* Hypothesis of reflexivity: no Undefined, Futures only where the return-position flag is
   still set, and trait method names distinct (as in any Rust trait). *)
Fixpoint nodup_names (l : list bytes) : bool :=
  match l with
  | [] => true
  | x :: r => negb (existsb (bytes_eqb x) r) && nodup_names r
  end.

Fixpoint refl_ok (rp : bool) (s : schema) : bool :=
  let td_ok := fun d : traitdef =>
     nodup_names (map (fun m : method => m_name m) (td_methods d))
     && forallb (fun m : method => forallb (refl_ok rp) (m_args m)) (td_methods d) in
  match s with
  | SStruct _ _ _ fields => forallb (fun f : field => refl_ok false (f_val f)) fields
  | SEnum _ variants _ _ _ _ =>
      forallb (fun v : variant => forallb (fun f : field => refl_ok false (f_val f)) (v_fields v)) variants
  | SVector s _ | SOption s | SArray s _ => refl_ok false s
  | SBoxed s | SReference s | SSlice s => refl_ok rp s
  | SUndefined => false
  | STrait _ d | SFnClosure _ d => td_ok d
  | SFuture d _ _ _ => rp && td_ok d
  | _ => true
  end.

(* ------------------------------------------------------------------ *)
(* The wire-layout normal form ("shape") of the data fragment. *)

Inductive shp :=
| HStruct (fs : list shp)
| HEnum (dsize : N) (vs : list (bytes * N * list shp))
| HPrim (tag : N)
| HVector (s : shp)
| HArray (c : N) (s : shp)
| HOption (s : shp)
| HZero
| HCustom (c : bytes)
| HBoxed (s : shp)
| HSlice (s : shp)
| HStr
| HRef (s : shp)
| HRec (d : N)
| HIoErr
| HUninit
| HUtc
| HOther.

Fixpoint shape (s : schema) : shp :=
  match s with
  | SStruct _ _ _ fields => HStruct (map (fun f => shape (f_val f)) fields)
  | SEnum _ variants dsize _ _ _ =>
      HEnum dsize (map (fun v => (v_name v, v_discr v, map (fun f => shape (f_val f)) (v_fields v))) variants)
  | SPrim p => HPrim (prim_tag p)
  | SVector s _ => HVector (shape s)
  | SArray s c => HArray c (shape s)
  | SOption s => HOption (shape s)
  | SZeroSize => HZero
  | SCustom c => HCustom c
  | SBoxed s => HBoxed (shape s)
  | SSlice s => HSlice (shape s)
  | SStr => HStr
  | SReference s => HRef (shape s)
  | SRecursion d => HRec d
  | SStdIoError => HIoErr
  | SUninitSlice => HUninit
  | SUtcTimestamp => HUtc
  | SUndefined | STrait _ _ | SFnClosure _ _ | SFuture _ _ _ _ => HOther
  end.

(* the data fragment: what WithSchema impls of serializable types can produce *)
Fixpoint data_frag (s : schema) : bool :=
  match s with
  | SStruct _ _ _ fields => forallb (fun f : field => data_frag (f_val f)) fields
  | SEnum _ variants _ _ _ _ =>
      forallb (fun v : variant => forallb (fun f : field => data_frag (f_val f)) (v_fields v)) variants
  | SVector s _ | SArray s _ | SOption s | SBoxed s | SSlice s | SReference s => data_frag s
  | SUndefined | STrait _ _ | SFnClosure _ _ | SFuture _ _ _ _ => false
  | _ => true
  end.

(* ------------------------------------------------------------------ *)
(* layout_compatible *)

Definition opt_eqb (a b : option N) : bool :=
  match a, b with
  | Some x, Some y => x =? y
  | None, None => true
  | _, _ => false
  end.
Definition is_some {A} (o : option A) : bool := match o with Some _ => true | None => false end.

Definition prim_layout_compatible (a b : prim) : bool :=
  match a, b with
  | Pstring la, Pstring lb =>
      negb (vlayout_eqb la VLUnknown) && negb (vlayout_eqb lb VLUnknown) && vlayout_eqb la lb
  | _, _ => prim_eqb a b
  end.

Fixpoint layout_compatible (a b : schema) {struct a} : bool :=
  let fields_compat := fun (fa fb : list field) =>
    (fix go (fa fb : list field) : bool :=
       match fa, fb with
       | x :: ta, y :: tb =>
           match f_off x, f_off y with
           | Some oa, Some ob => (oa =? ob) && layout_compatible (f_val x) (f_val y) && go ta tb
           | _, _ => false
           end
       | _, _ => true
       end) fa fb in
  match a, b with
  | SStruct _ sza ala fa, SStruct _ szb alb fb =>
      Nat.eqb (length fa) (length fb)
      && is_some ala && is_some sza && opt_eqb ala alb && opt_eqb sza szb
      && fields_compat fa fb
  | SEnum _ va dsa ra sza ala, SEnum _ vb dsb rb szb alb =>
      ra && rb && is_some ala && is_some sza && opt_eqb ala alb && opt_eqb sza szb
      && (dsa =? dsb) && Nat.eqb (length va) (length vb)
      && (fix gov (va vb : list variant) : bool :=
            match va, vb with
            | x :: ta, y :: tb =>
                (v_discr x =? v_discr y) && Nat.eqb (length (v_fields x)) (length (v_fields y))
                && fields_compat (v_fields x) (v_fields y) && gov ta tb
            | _, _ => true
            end) va vb
  | SPrim pa, SPrim pb => prim_layout_compatible pa pb
  | SVector sa la, SVector sb lb =>
      layout_compatible sa sb && negb (vlayout_eqb la VLUnknown) && negb (vlayout_eqb lb VLUnknown)
      && vlayout_eqb la lb
  | SArray sa ca, SArray sb cb => (ca =? cb) && layout_compatible sa sb
  | SZeroSize, SZeroSize => true
  | SBoxed sa, SBoxed sb => layout_compatible sa sb
  | SReference sa, SReference sb => layout_compatible sa sb
  | SSlice sa, SSlice sb => layout_compatible sa sb
  | _, _ => false
  end.
