(* HarnessC6.v — malformed-input correspondence (C06). *)
From SF Require Import Bytes Ty Packed PackedDec HarnessTy.
From SFX Require Import Extracted.
Open Scope N_scope.

Inductive obs6 := O6Ok (consumed : N) (y : val) | O6Err (e : err) | O6Panic | O6Oom.

(* the implementation model in the given build mode, with the checked_mul flag taken from the source *)
Definition agree_malformed (md : mode) (v : N) (t : ty) (bs : bytes) (o : obs6) : bool :=
  match impl_dec md x_bulk_checked_mul v t bs, o with
  | Ok (y, r), O6Ok c y' => val_eqb y y' && (c + N.of_nat (length r) =? N.of_nat (length bs))
  | Err e, O6Err e' => err_tag2 e =? err_tag2 e'
  | Panic, O6Panic => true
  (* an allocation failure (capacity overflow panic / allocator abort) on a declared length the input could not have
     encoded happens BEFORE the elements are read, so the model, which reads on, may report any error there; the
     property exempts exactly this outcome. It is never accepted where the model returns a value. *)
  | Err _, O6Oom => true
  | _, _ => false
  end.

(* the property on the observation: a value, or an error; a returned value is valid and its sequences do not
   claim more elements than the input could have encoded (each element of the listed types takes >= 1 byte) *)
Fixpoint max_seq_len (x : val) : N :=
  let fix mx (l : list val) : N := match l with [] => 0 | y :: r => N.max (max_seq_len y) (mx r) end in
  match x with
  | VSeq l => N.max (N.of_nat (length l)) (mx l)
  | VSome y | VOk y | VErr y => max_seq_len y
  | VRec l | VVar _ l => mx l
  | _ => 0
  end.

Definition malformed_oracle (v : N) (t : ty) (bs : bytes) (o : obs6) : bool :=
  match o with
  | O6Ok c y => valid_val t y && (c <=? N.of_nat (length bs))
  | O6Err _ => true
  | O6Oom => true
  | O6Panic => false
  end.

(* ArrayVec<T, CAP> at the top level *)
Definition agree_arrayvec (md : mode) (v : N) (t : ty) (cap : N) (bs : bytes) (o : obs6) : bool :=
  match arrayvec_dec md x_bulk_checked_mul v t cap bs, o with
  | Ok (y, r), O6Ok c y' => val_eqb y y' && (c + N.of_nat (length r) =? N.of_nat (length bs))
  | Err e, O6Err e' => err_tag2 e =? err_tag2 e'
  | Panic, O6Panic => true
  | _, _ => false
  end.
Definition arrayvec_oracle (t : ty) (cap : N) (o : obs6) : bool :=
  match o with
  | O6Ok _ (VSeq l) => (N.of_nat (length l) <=? cap) && forallb (valid_val t) l
  | O6Ok _ _ => false
  | O6Err _ => true
  | O6Oom => false
  | O6Panic => false
  end.
